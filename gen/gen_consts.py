#!/usr/bin/env python3
"""Translator 1: constants, struct layouts and the bit-field layout of uftrace_record,
re-derived from /repo's current headers by compiling and running a probe C program.
Writes coq/theories/Gen/Consts.v (only when the content changes)."""
import os
import re
import subprocess
import sys
import tempfile

VERIF = os.path.dirname(os.path.dirname(os.path.abspath(__file__)))
REPO = os.environ.get("VERIF_REPO", "/repo")
OUT = os.path.join(VERIF, "coq/theories/Gen/Consts.v")

CONSTS = """
RECORD_MAGIC UFTRACE_MAGIC_LEN OPT_RSTACK_MAX OPT_RSTACK_DEFAULT OPT_DEPTH_MAX OPT_DEPTH_DEFAULT
MCOUNT_RSTACK_MAX SHMEM_BUFFER_SIZE ARGBUF_SIZE EVTBUF_SIZE MAX_EVENT
FILTER_NO_MAX_DEPTH
UFTRACE_ENTRY UFTRACE_EXIT UFTRACE_LOST UFTRACE_EVENT
MCOUNT_FL_SETJMP MCOUNT_FL_LONGJMP MCOUNT_FL_NORECORD MCOUNT_FL_NOTRACE MCOUNT_FL_FILTERED MCOUNT_FL_VFORK
MCOUNT_FL_WRITTEN MCOUNT_FL_DISABLED MCOUNT_FL_RECOVER MCOUNT_FL_RETVAL MCOUNT_FL_TRACE MCOUNT_FL_ARGUMENT
MCOUNT_FL_READ MCOUNT_FL_CALLER MCOUNT_FL_CYGPROF
SHMEM_FL_NEW SHMEM_FL_WRITTEN SHMEM_FL_RECORDING
TRIGGER_FL_DEPTH TRIGGER_FL_FILTER TRIGGER_FL_BACKTRACE TRIGGER_FL_TRACE TRIGGER_FL_TRACE_ON TRIGGER_FL_TRACE_OFF
TRIGGER_FL_ARGUMENT TRIGGER_FL_RECOVER TRIGGER_FL_RETVAL TRIGGER_FL_COLOR TRIGGER_FL_TIME_FILTER TRIGGER_FL_READ
TRIGGER_FL_FINISH TRIGGER_FL_AUTO_ARGS TRIGGER_FL_CALLER TRIGGER_FL_SIGNAL TRIGGER_FL_HIDE TRIGGER_FL_LOC
TRIGGER_FL_SIZE_FILTER TRIGGER_FL_CLEAR
FSTACK_FL_FILTERED FSTACK_FL_NOTRACE FSTACK_FL_NORECORD FSTACK_FL_EXEC FSTACK_FL_LONGJMP
UFTRACE_MSG_MAGIC UFTRACE_MSG_REC_START UFTRACE_MSG_REC_END UFTRACE_MSG_TASK_START UFTRACE_MSG_TASK_END
UFTRACE_MSG_FORK_START UFTRACE_MSG_FORK_END UFTRACE_MSG_SESSION UFTRACE_MSG_LOST UFTRACE_MSG_DLOPEN UFTRACE_MSG_FINISH
UFTRACE_MSG_SEND_START UFTRACE_MSG_SEND_DIR_NAME UFTRACE_MSG_SEND_DATA UFTRACE_MSG_SEND_KERNEL_DATA
UFTRACE_MSG_SEND_PERF_DATA UFTRACE_MSG_SEND_INFO UFTRACE_MSG_SEND_META_DATA UFTRACE_MSG_SEND_END
EVENT_ID_BUILTIN EVENT_ID_READ_PROC_STATM EVENT_ID_READ_PAGE_FAULT EVENT_ID_DIFF_PROC_STATM EVENT_ID_DIFF_PAGE_FAULT
EVENT_ID_READ_PMU_CYCLE EVENT_ID_DIFF_PMU_CYCLE EVENT_ID_WATCH_CPU EVENT_ID_WATCH_VAR EVENT_ID_PERF EVENT_ID_USER
FILTER_MODE_NONE FILTER_MODE_IN FILTER_MODE_OUT
UFTRACE_FILE_VERSION UFTRACE_FILE_VERSION_MIN
""".split()

SIZES = ["struct uftrace_record", "struct mcount_shmem_buffer", "struct uftrace_msg",
         "struct uftrace_file_header", "struct uftrace_msg_task", "struct uftrace_msg_sess"]
OFFSETS = [("struct mcount_shmem_buffer", "size"), ("struct mcount_shmem_buffer", "flag"),
           ("struct mcount_shmem_buffer", "data"),
           ("struct uftrace_file_header", "version"), ("struct uftrace_file_header", "header_size"),
           ("struct uftrace_file_header", "feat_mask"), ("struct uftrace_file_header", "info_mask"),
           ("struct uftrace_file_header", "max_stack")]
GREP_DEFINES = [("libmcount/record.c", "ARG_STR_MAX")]


def main():
    lines = ['#include <stdio.h>', '#include <stddef.h>', '#include <string.h>', '#include <stdint.h>',
             '#include "uftrace.h"', '#include "libmcount/mcount.h"', '#include "libmcount/internal.h"',
             '#include "utils/filter.h"', '#include "utils/fstack.h"',
             'int main(void) {']
    for c in CONSTS:
        lines.append('  printf("C %s %%llu\\n", (unsigned long long)(%s));' % (c, c))
    for s in SIZES:
        lines.append('  printf("S %s %%zu\\n", sizeof(%s));' % (s.replace("struct ", "sizeof_"), s))
    for s, f in OFFSETS:
        lines.append('  printf("S offsetof_%s_%s %%zu\\n", offsetof(%s, %s));' % (s.replace("struct ", ""), f, s, f))
    # bit-field layout of uftrace_record: set each field to all-ones, print the second word
    for f in ("type", "more", "magic", "depth", "addr"):
        lines.append('  { struct uftrace_record r; uint64_t w[2]; memset(&r, 0, sizeof r); r.%s = ~0ULL; '
                     'memcpy(w, &r, 16); printf("M %s %%llu %%llu\\n", (unsigned long long)w[0], (unsigned long long)w[1]); }' % (f, f))
    lines.append('  { struct uftrace_record r; uint64_t w[2]; memset(&r, 0, sizeof r); r.time = ~0ULL; '
                 'memcpy(w, &r, 16); printf("M time %llu %llu\\n", (unsigned long long)w[0], (unsigned long long)w[1]); }')
    lines.append('  printf("STR UFTRACE_MAGIC_STR %s\\n", UFTRACE_MAGIC_STR);')
    lines.append('  return 0; }')
    with tempfile.TemporaryDirectory(prefix="verif-gen.", dir="/var/tmp") as td:
        src = os.path.join(td, "probe.c")
        open(src, "w").write("\n".join(lines) + "\n")
        exe = os.path.join(td, "probe")
        cmd = ["gcc", "-std=gnu11", "-D_GNU_SOURCE", "-w", "-iquote", REPO, "-iquote", os.path.join(REPO, "arch/x86_64"),
               "-I/usr/include/traceevent", src, "-o", exe]
        p = subprocess.run(cmd, capture_output=True, text=True)
        if p.returncode != 0:
            sys.stderr.write("gen_consts: probe does not compile against /repo headers:\n" + p.stderr[-3000:])
            return 1
        out = subprocess.run([exe], capture_output=True, text=True, check=True).stdout
    v = ["(* GENERATED by gen/gen_consts.py from /repo's current headers - do not edit *)",
         "From Coq Require Import NArith List.", "Import ListNotations.", "Local Open Scope N_scope.", ""]
    masks = {}
    for line in out.splitlines():
        k = line.split()
        if k[0] in ("C", "S"):
            v.append("Definition %s : N := %s." % (k[1], k[2]))
        elif k[0] == "M":
            masks[k[1]] = (int(k[2]), int(k[3]))
        elif k[0] == "STR":
            s = line.split(" ", 2)[2]
            v.append("Definition %s : list N := [%s]." % (k[1], "; ".join(str(b) for b in s.encode())))
    # field = (mask of word1) as shift/width; time occupies word0 entirely
    if masks["time"] != ((1 << 64) - 1, 0):
        sys.stderr.write("gen_consts: unexpected layout of uftrace_record.time\n")
        return 1
    for f in ("type", "more", "magic", "depth", "addr"):
        w0, w1 = masks[f]
        if w0 != 0 or w1 == 0:
            sys.stderr.write("gen_consts: unexpected layout of uftrace_record.%s\n" % f)
            return 1
        shift = (w1 & -w1).bit_length() - 1
        width = (w1 >> shift).bit_length()
        if (w1 >> shift) != (1 << width) - 1:
            sys.stderr.write("gen_consts: non-contiguous bit-field %s\n" % f)
            return 1
        v.append("Definition REC_%s_SHIFT : N := %d." % (f.upper(), shift))
        v.append("Definition REC_%s_WIDTH : N := %d." % (f.upper(), width))
    for path, name in GREP_DEFINES:
        src = open(os.path.join(REPO, path)).read()
        m = re.search(r"^#define\s+%s\s+(\d+)" % name, src, flags=re.M)
        if not m:
            sys.stderr.write("gen_consts: #define %s not found in %s\n" % (name, path))
            return 1
        v.append("Definition %s : N := %s." % (name, m.group(1)))
    text = "\n".join(v) + "\n"
    try:
        if open(OUT).read() == text:
            return 0
    except OSError:
        pass
    os.makedirs(os.path.dirname(OUT), exist_ok=True)
    open(OUT, "w").write(text)
    return 0


if __name__ == "__main__":
    sys.exit(main())
