#!/usr/bin/env python3
"""Translator 2 (C01): the x86-64 entry/return stubs of /repo's current tree as Coq instruction lists.

Reads arch/x86_64/{mcount,fentry,plthook,dynamic,xray}.S (AT&T syntax) and the two inline-asm
functions mcount_save_arch_context / mcount_restore_arch_context of arch/x86_64/mcount-support.c
and writes coq/theories/Gen/Stubs.v (only when the content changes).  Every instruction form
outside the small list below makes the translator FAIL (exit 1): an unknown form is never skipped.
"""
import os
import re
import subprocess
import sys
import tempfile

VERIF = os.path.dirname(os.path.dirname(os.path.abspath(__file__)))
REPO = os.environ.get("VERIF_REPO", "/repo")
OUT = os.path.join(VERIF, "coq/theories/Gen/Stubs.v")
FILES = ["mcount.S", "fentry.S", "plthook.S", "dynamic.S", "xray.S"]

REGS = {"rax": "RAX", "rbx": "RBX", "rcx": "RCX", "rdx": "RDX", "rsi": "RSI", "rdi": "RDI", "rbp": "RBP",
        "rsp": "RSP", "r8": "R8", "r9": "R9", "r10": "R10", "r11": "R11", "r12": "R12", "r13": "R13",
        "r14": "R14", "r15": "R15"}


class Unknown(Exception):
    pass


def z(n):
    return "(%d)" % n if n < 0 else "%d" % n


def imm(tok):
    if not tok.startswith("$"):
        raise Unknown("immediate expected: " + tok)
    v = int(tok[1:], 0)
    if v >= 1 << 63:          # 64-bit two's complement (andq $0xfffffffffffffff0)
        v -= 1 << 64
    return v


def reg(tok):
    if not tok.startswith("%") or tok[1:] not in REGS:
        raise Unknown("general register expected: " + tok)
    return REGS[tok[1:]]


def xmm(tok):
    m = re.fullmatch(r"%xmm(\d+)", tok)
    if not m or int(m.group(1)) > 15:
        raise Unknown("xmm register expected: " + tok)
    return int(m.group(1))


def mem(tok):
    """disp(%base) -> (base, disp)"""
    m = re.fullmatch(r"(-?(?:0x[0-9a-fA-F]+|\d+))?\((%\w+)\)", tok)
    if not m:
        raise Unknown("memory operand disp(%reg) expected: " + tok)
    return reg(m.group(2)), int(m.group(1), 0) if m.group(1) else 0


def is_reg(tok):
    return tok.startswith("%") and tok[1:] in REGS


def is_mem(tok):
    return re.fullmatch(r"(-?(?:0x[0-9a-fA-F]+|\d+))?\(%\w+\)", tok) is not None


def translate_insn(line):
    """one instruction line -> Coq term of type insn"""
    m = re.fullmatch(r"(\w+)\s*(.*)", line)
    if not m:
        raise Unknown(line)
    op, rest = m.group(1), m.group(2).strip()
    ops = [o.strip() for o in rest.split(",")] if rest else []
    if op in ("sub", "subq") and len(ops) == 2:
        return "SubI %s %s" % (z(imm(ops[0])), reg(ops[1]))
    if op in ("add", "addq") and len(ops) == 2:
        return "AddI %s %s" % (z(imm(ops[0])), reg(ops[1]))
    if op in ("and", "andq") and len(ops) == 2:
        return "AndI %s %s" % (z(imm(ops[0])), reg(ops[1]))
    if op in ("mov", "movq") and len(ops) == 2:
        a, b = ops
        if is_reg(a) and is_reg(b):
            return "MovRR %s %s" % (reg(a), reg(b))
        if is_reg(a) and is_mem(b):
            base, d = mem(b)
            return "MovRM %s %s %s" % (reg(a), base, z(d))
        if is_mem(a) and is_reg(b):
            base, d = mem(a)
            return "MovMR %s %s %s" % (base, z(d), reg(b))
        raise Unknown(line)
    if op in ("lea", "leaq") and len(ops) == 2:
        base, d = mem(ops[0])
        return "Lea %s %s %s" % (base, z(d), reg(ops[1]))
    if op in ("push", "pushq") and len(ops) == 1:
        return "Push %s" % reg(ops[0])
    if op in ("pop", "popq") and len(ops) == 1:
        return "Pop %s" % reg(ops[0])
    if op == "movdqu" and len(ops) == 2:
        a, b = ops
        if a.startswith("%xmm") and is_mem(b):
            base, d = mem(b)
            return "MovdquRM %d %s %s" % (xmm(a), base, z(d))
        if is_mem(a) and b.startswith("%xmm"):
            base, d = mem(a)
            return "MovdquMR %s %s %d" % (base, z(d), xmm(b))
        raise Unknown(line)
    if op in ("cmp", "cmpq") and len(ops) == 2:
        return "CmpI %s %s" % (z(imm(ops[0])), reg(ops[1]))
    if op in ("cmovz", "cmove") and len(ops) == 2:
        m2 = re.fullmatch(r"(\w+)\(%rip\)", ops[0])
        if not m2:
            raise Unknown(line)
        return 'CmovzG "%s" %s' % (m2.group(1), reg(ops[1]))
    if op in ("jz", "je") and len(ops) == 1:
        m2 = re.fullmatch(r"(\d+)f", ops[0])
        if not m2:
            raise Unknown("only forward local jumps are supported: " + line)
        return "Jz %s" % m2.group(1)
    if op == "jmp" and len(ops) == 1 and ops[0].startswith("*%"):
        return "JmpR %s" % reg(ops[0][1:])
    if op in ("call", "callq") and len(ops) == 1 and re.fullmatch(r"\w+", ops[0]):
        return 'Call "%s"' % ops[0]
    if op in ("ret", "retq") and not ops:
        return "Ret"
    raise Unknown(line)


def parse_S(path):
    """-> list of (symbol, [coq insn terms])"""
    src = open(path).read()
    src = re.sub(r"/\*.*?\*/", " ", src, flags=re.S)
    funcs = []
    cur = None
    for raw in src.splitlines():
        line = raw.split("#", 1)[0] if not raw.lstrip().startswith("#") else ""
        line = line.strip()
        if not line:
            continue
        m = re.fullmatch(r"(GLOBAL|ENTRY)\((\w+)\)", line)
        if m:
            if cur is not None:
                raise Unknown("%s: %s starts inside %s" % (path, m.group(2), cur[0]))
            cur = (m.group(2), [])
            continue
        m = re.fullmatch(r"END\((\w+)\)", line)
        if m:
            if cur is None or cur[0] != m.group(1):
                raise Unknown("%s: unmatched END(%s)" % (path, m.group(1)))
            funcs.append(cur)
            cur = None
            continue
        if line.startswith("."):            # assembler directives carry no run-time behaviour here
            if re.match(r"\.(cfi_\w+|hidden|global|globl|type|size|text|align|p2align|section|file)\b", line):
                continue
            raise Unknown("%s: directive %s" % (path, line))
        m = re.fullmatch(r"(\d+):", line)
        if m:
            if cur is None:
                raise Unknown("%s: label outside a function" % path)
            cur[1].append("Label %s" % m.group(1))
            continue
        if cur is None:
            raise Unknown("%s: instruction outside GLOBAL/ENTRY..END: %s" % (path, line))
        try:
            cur[1].append(translate_insn(line))
        except Unknown as e:
            raise Unknown("%s: in %s: unsupported instruction form `%s`" % (path, cur[0], e))
    if cur is not None:
        raise Unknown("%s: %s has no END()" % (path, cur[0]))
    return funcs


XMOV = {"movsd": "Xmovsd", "movq": "Xmovq", "movdqu": "Xmovdqu", "movups": "Xmovups"}
YMOV = {"vmovdqu": "Xvmovdqu"}
ZMOV = {"vmovdqu64": "Xvmovdqu64"}


def c_function_body(src, fn):
    m = re.search(r"\b%s\s*\(\s*struct\s+mcount_arch_context\s*\*\s*ctx\s*\)\s*\{(.*?)\n\}" % fn, src, flags=re.S)
    if not m:
        raise Unknown("arch context: function %s not found" % fn)
    return re.sub(r"/\*.*?\*/", " ", m.group(1), flags=re.S)


def parse_moves(src, fn):
    ops = []
    for stmt in [s.strip() for s in c_function_body(src, fn).split(";")]:
        if not stmt:
            continue
        m1 = re.fullmatch(r'asm volatile\("(\w+) %%([xyz])mm(\d+), %0\\n"\s*:\s*"=m"\(ctx->xmm\[(\d+)\]\)\)', stmt)
        m2 = re.fullmatch(r'asm volatile\("(\w+) %0, %%([xyz])mm(\d+)\\n"\s*:\s*:\s*"m"\(ctx->xmm\[(\d+)\]\)\)', stmt)
        m = m1 or m2
        tab = None
        if m:
            tab = {"x": XMOV, "y": YMOV, "z": ZMOV}[m.group(2)]
        if m and m.group(1) in tab and int(m.group(3)) < 16:
            if m1:
                ops.append("XSave %s %s %s" % (tab[m.group(1)], m.group(3), m.group(4)))
            else:
                ops.append("XLoad %s %s %s" % (tab[m.group(1)], m.group(4), m.group(3)))
        else:
            raise Unknown("%s: unsupported statement `%s`" % (fn, stmt))
    return ops


def parse_arch_context(path):
    """mcount_save/restore_arch_context: a dispatcher on `mcount_arch_have_avx` over an SSE and an AVX list of
    inline-asm moves -> dict of four op lists; any other shape fails"""
    src = open(path).read()
    norm = lambda b: re.sub(r"\s+", " ", b).strip()
    save = norm(c_function_body(src, "mcount_save_arch_context"))
    rest = norm(c_function_body(src, "mcount_restore_arch_context"))
    init = "if (mcount_arch_have_avx < 0) mcount_arch_have_avx = mcount_arch_check_avx(); "
    # optionally the MXCSR register (rounding mode, exception flags and masks) is saved first and restored last
    st_csr = 'asm volatile("stmxcsr %0\\n" : "=m"(ctx->mxcsr)); '
    ld_csr = ' asm volatile("ldmxcsr %0\\n" ::"m"(ctx->mxcsr));'
    mxcsr = False
    if save.startswith(init + st_csr) and rest.endswith(ld_csr):
        mxcsr = True
        save = init + save[len(init + st_csr):]
        rest = rest[:-len(ld_csr)]
    two_save = init + "if (mcount_arch_have_avx) mcount_save_arch_context_avx(ctx); else mcount_save_arch_context_sse(ctx);"
    two_rest = "if (mcount_arch_have_avx > 0) mcount_restore_arch_context_avx(ctx); else mcount_restore_arch_context_sse(ctx);"
    three_save = init + ("if (mcount_arch_have_avx == 2) mcount_save_arch_context_avx512(ctx); "
                         "else if (mcount_arch_have_avx == 1) mcount_save_arch_context_avx(ctx); else mcount_save_arch_context_sse(ctx);")
    three_rest = ("if (mcount_arch_have_avx == 2) mcount_restore_arch_context_avx512(ctx); "
                  "else if (mcount_arch_have_avx == 1) mcount_restore_arch_context_avx(ctx); else mcount_restore_arch_context_sse(ctx);")
    tiers = [("sse", "sse"), ("avx", "avx")]
    if (save, rest) == (three_save, three_rest):
        tiers.append(("avx512", "avx512"))
    elif (save, rest) == (two_save, two_rest):
        # no AVX-512 tier: a machine with zmm state runs the AVX pair (mcount_arch_check_avx() never returns 2)
        tiers.append(("avx512", "avx"))
    else:
        raise Unknown("%s: mcount_save/restore_arch_context are not the expected SSE/AVX[/AVX-512] dispatchers:\n  %s\n  %s" % (path, save, rest))
    res = {"mxcsr": mxcsr}
    for name, fn in tiers:
        res["save_" + name] = parse_moves(src, "mcount_save_arch_context_" + fn)
        res["restore_" + name] = parse_moves(src, "mcount_restore_arch_context_" + fn)
    return res


WRAPPERS = [("libmcount/mcount.c", "mcount_entry", "__mcount_entry"), ("libmcount/mcount.c", "mcount_exit", "__mcount_exit"),
            ("libmcount/plthook.c", "plthook_entry", "__plthook_entry"), ("libmcount/plthook.c", "plthook_exit", "__plthook_exit"),
            ("libmcount/mcount.c", "xray_entry", "_xray_entry"), ("libmcount/mcount.c", "xray_exit", "_xray_exit")]


def parse_wrappers():
    """the C wrappers the stubs call: is the inner hook bracketed by the xmm save/restore pair and by
    the errno save/restore?  -> [(name, xmm_wrapped, errno_wrapped)]"""
    res = []
    for path, name, inner in WRAPPERS:
        src = open(os.path.join(REPO, path)).read()
        src = re.sub(r"/\*.*?\*/", " ", src, flags=re.S)
        m = re.search(r"^[A-Za-z_][\w \*]*\b%s\s*\([^)]*\)\s*\{(.*?)^\}" % re.escape(name), src, flags=re.S | re.M)
        if not m:
            raise Unknown("%s: wrapper %s not found" % (path, name))
        stmts = [re.sub(r"\s+", " ", x).strip() for x in m.group(1).split(";")]
        def find(pat, after=-1):
            for i, st in enumerate(stmts):
                if i > after and re.search(pat, st):
                    return i
            return None
        call = find(r"\b%s\s*\(" % re.escape(inner))
        if call is None:
            raise Unknown("%s: %s does not call %s" % (path, name, inner))
        sv = find(r"^mcount_save_arch_context\(&(\w+)\)$")
        xmm = False
        if sv is not None and sv < call:
            var = re.search(r"&(\w+)", stmts[sv]).group(1)
            rs = find(r"^mcount_restore_arch_context\(&%s\)$" % var, call)
            ret = find(r"^return\b", call)
            xmm = rs is not None and (ret is None or rs < ret) and re.search(r"struct mcount_arch_context %s\b" % var, m.group(1)) is not None
        es = find(r"\bsaved_errno = errno$")
        er = find(r"^errno = saved_errno$", call)
        errno_ok = es is not None and es < call and er is not None
        res.append((name, xmm, errno_ok))
    return res


def slot_bytes():
    """sizeof(ctx->xmm[0]) and number of slots, from /repo's header"""
    prog = ('#include <stdio.h>\n#include <stdbool.h>\n#include "mcount-arch.h"\n'
            'int main(void){struct mcount_arch_context c; printf("%zu %zu\\n", sizeof(c.xmm[0]), '
            'sizeof(c.xmm)/sizeof(c.xmm[0])); return 0;}\n')
    with tempfile.TemporaryDirectory(prefix="verif-gen.", dir="/var/tmp") as td:
        src = os.path.join(td, "p.c")
        open(src, "w").write(prog)
        exe = os.path.join(td, "p")
        p = subprocess.run(["gcc", "-w", "-iquote", REPO, "-iquote", os.path.join(REPO, "arch/x86_64"), src, "-o", exe],
                           capture_output=True, text=True)
        if p.returncode != 0:
            raise Unknown("probe for struct mcount_arch_context does not compile:\n" + p.stderr[-2000:])
        a, b = subprocess.run([exe], capture_output=True, text=True, check=True).stdout.split()
        return int(a), int(b)


def main():
    try:
        funcs = []
        for f in FILES:
            funcs += [(f, s, ins) for s, ins in parse_S(os.path.join(REPO, "arch/x86_64", f))]
        ctx = parse_arch_context(os.path.join(REPO, "arch/x86_64/mcount-support.c"))
        sb, ns = slot_bytes()
        wr = parse_wrappers()
    except (Unknown, OSError) as e:
        sys.stderr.write("gen_stubs: %s\n" % e)
        return 1
    v = ["(* GENERATED by gen/gen_stubs.py from arch/x86_64/*.S and mcount-support.c of /repo's current tree",
         "   - do not edit *)",
         "From Coq Require Import ZArith List String.", "Import ListNotations.",
         "Require Import UV.C01.Isa.", "Local Open Scope Z_scope.", "Local Open Scope string_scope.", ""]
    for f, s, ins in funcs:
        v.append("(* %s *)" % f)
        v.append("Definition stub_%s : list insn :=\n  [ %s ]." % (s, ";\n    ".join(ins)))
        v.append("")
    v.append("Definition all_stubs : list (string * list insn) :=\n  [ %s ]." %
             ";\n    ".join('("%s", stub_%s)' % (s, s) for _, s, _ in funcs))
    v.append("")
    v.append("Definition arch_ctx_slot_bytes : Z := %d." % sb)
    v.append("Definition arch_ctx_slots : nat := %d." % ns)
    v.append("(* the pairs used when only xmm / the ymm state / the zmm state is enabled (mcount_arch_check_avx() = 0 / 1 / 2) *)")
    v.append("(* does the pair also save (first) and restore (last) the MXCSR register? *)")
    v.append("Definition arch_ctx_mxcsr : bool := %s." % ("true" if ctx["mxcsr"] else "false"))
    for k in ("save_sse", "restore_sse", "save_avx", "restore_avx", "save_avx512", "restore_avx512"):
        v.append("Definition arch_ctx_%s : list xop :=\n  [ %s ]." % (k, ";\n    ".join(ctx[k])))
    v.append("")
    v.append("(* C wrappers the stubs call: (name, inner hook bracketed by save/restore of xmm0-7, by save/restore of errno) *)")
    v.append("Definition hook_wrappers : list (string * (bool * bool)) :=\n  [ %s ]." %
             ";\n    ".join('("%s", (%s, %s))' % (n, "true" if a else "false", "true" if b else "false") for n, a, b in wr))
    text = "\n".join(v) + "\n"
    try:
        if open(OUT).read() == text:
            return 0
    except OSError:
        pass
    os.makedirs(os.path.dirname(OUT), exist_ok=True)
    with open(OUT, "w") as fh:
        fh.write(text)
    return 0


if __name__ == "__main__":
    sys.exit(main())
