#!/usr/bin/env python3
"""Translator: pure integer leaf functions of /repo -> Gallina over Z (coq/theories/Gen/Kernels.v).

The C text is parsed by clang (`-Xclang -ast-dump=json`); a deliberately tiny subset is
supported (integer locals, field reads through a pointer parameter, + - | & comparisons,
&& || !, if/return).  Unsigned arithmetic is wrapped with an explicit `mod 2^width`.
Anything else makes the generator FAIL (never silently skipped), which the check reports
as a broken obligation.  Writes the .v only when its content changes; honours VERIF_REPO.

A kernel is described by (file, C function name, Coq name, list of Coq arguments).  The
inputs of the Coq function are
  * `x`     for a C scalar parameter x, or a local initialised by `*(T *)param`
  * `p_f`   for a field read `p->f` where p is a pointer parameter or a local that is just
            a (cast of a) pointer parameter
and must be exactly the declared argument list (so a new data dependency also fails).
"""
import json
import os
import subprocess
import sys

VERIF = os.path.dirname(os.path.dirname(os.path.abspath(__file__)))
REPO = os.environ.get("VERIF_REPO", "/repo")
OUT = os.path.join(VERIF, "coq/theories/Gen/Kernels.v")

KERNELS = [
    # file, function, coq name, coq args
    ("utils/symbol.c", "addrfind", "addrfind", ["addr", "sym_addr", "sym_size"]),
    ("utils/symbol.c", "addrsort", "addrsort", ["syma_addr", "symb_addr"]),
    ("utils/symbol.c", "is_kernel_address", "is_kernel_address", ["sinfo_kernel_base", "addr"]),
    ("utils/symbol.c", "get_kernel_address", "get_kernel_address", ["sinfo_kernel_base", "addr"]),
    ("utils/symbol.c", "guess_kernel_base", "guess_kernel_base", ["addr"]),
]

# conditions of `if` statements inside larger functions: (file, function, coq name, coq args, k) translates the
# condition of the k-th IfStmt (pre-order, 0-based) of the function into a Gallina bool; field reads through ANY
# pointer variable are inputs named <var>_<field>[_<field>...]
CONDS = [
    ("utils/symbol.c", "find_map", "map_contains", ["map_start", "addr", "map_end"], 1),
    ("utils/session.c", "find_task_session", "ref_contains", ["ref_start", "timestamp", "ref_end"], 0),
    ("utils/session.c", "session_find_dlsym", "dl_later", ["pos_time", "timestamp"], 0),
    ("utils/session.c", "session_add_dlopen", "dl_insert_before", ["pos_time", "timestamp"], 1),
    ("utils/session.c", "find_session", "fs_pid_gt", ["iter_pid", "pid"], 0),
    ("utils/session.c", "find_session", "fs_pid_lt", ["iter_pid", "pid"], 1),
    ("utils/session.c", "find_session", "fs_start_gt", ["iter_start_time", "timestamp"], 2),
    ("utils/session.c", "create_session", "cs_pid_gt", ["s_pid", "msg_task_pid"], 0),
    ("utils/session.c", "create_session", "cs_pid_lt", ["s_pid", "msg_task_pid"], 1),
    ("utils/session.c", "create_session", "cs_start_gt", ["s_start_time", "msg_task_time"], 2),
]

# right-hand sides of assignments `x->field = e` inside a function: (file, function, coq name, coq args, field, k)
# translates the RHS of the k-th assignment (pre-order) to a member named `field`
ASSIGNS = [
    ("utils/symbol.c", "load_dyn_symbol", "dyn_addr_canonical", ["iter_sym_st_value", "offset"], "addr", 0),
    ("utils/symbol.c", "load_dyn_symbol", "dyn_addr_next_slot", ["prev_addr", "plt_entsize"], "addr", 1),
]
CONDS2 = [
    ("utils/symbol.c", "load_dyn_symbol", "dyn_is_canonical", ["iter_sym_st_value", "iter_sym_st_shndx"], 1),
]

INT_TYPES = {
    "unsigned long": (False, 64), "unsigned long long": (False, 64), "uint64_t": (False, 64),
    "unsigned int": (False, 32), "unsigned": (False, 32), "uint32_t": (False, 32),
    "unsigned short": (False, 16), "uint16_t": (False, 16), "unsigned char": (False, 8), "uint8_t": (False, 8),
    "int": (True, 32), "long": (True, 64), "long long": (True, 64), "int64_t": (True, 64), "int32_t": (True, 32),
    "_Bool": (False, 1), "bool": (False, 1),
}


class Unsupported(Exception):
    pass


def ity(node):
    t = node.get("type", {})
    q = t.get("desugaredQualType") or t.get("qualType") or ""
    q = " ".join(w for w in q.split() if w not in ("const", "volatile"))
    if q not in INT_TYPES:
        q2 = " ".join(w for w in (t.get("qualType") or "").split() if w not in ("const", "volatile"))
        if q2 in INT_TYPES:
            return INT_TYPES[q2]
        raise Unsupported("non-integer or unknown type %r" % (t,))
    return INT_TYPES[q]


def is_ptr(node):
    return (node.get("type", {}).get("qualType") or "").rstrip().endswith("*")


def strip_casts(n):
    while n["kind"] in ("ImplicitCastExpr", "CStyleCastExpr", "ParenExpr") and \
            (n["kind"] == "ParenExpr" or n.get("castKind") in ("LValueToRValue", "BitCast", "NoOp")):
        n = n["inner"][0]
    return n


class Tr:
    def __init__(self, fn, args):
        self.fn = fn
        self.args = args
        self.used = set()
        self.ptr = {}      # C name -> prefix for field reads
        self.scalar = {}   # C name -> coq input name
        self.lets = set()
        for p in [c for c in fn.get("inner", []) if c["kind"] == "ParmVarDecl"]:
            if is_ptr(p):
                self.ptr[p["name"]] = p["name"]
            else:
                ity(p)
                self.scalar[p["name"]] = p["name"]

    def inp(self, name):
        if name not in self.args:
            raise Unsupported("%s: undeclared input %r (declared: %s)" % (self.fn["name"], name, self.args))
        self.used.add(name)
        return name

    # ---- expressions (value context): returns a Coq term of type Z holding the C value
    def wrap(self, node, term):
        signed, w = ity(node)
        if signed:
            raise Unsupported("signed arithmetic is not supported (overflow is undefined): %s" % node.get("opcode"))
        return "((%s) mod %d)" % (term, 1 << w)

    def expr(self, n):
        k = n["kind"]
        if k == "ParenExpr":
            return self.expr(n["inner"][0])
        if k == "IntegerLiteral":
            return "%d" % int(n["value"])
        if k == "ImplicitCastExpr" or k == "CStyleCastExpr":
            ck = n.get("castKind")
            sub = n["inner"][0]
            if ck in ("LValueToRValue", "NoOp"):
                return self.expr(sub)
            if ck == "IntegralCast":
                ds, dw = ity(n)
                ss, sw = ity(sub)
                t = self.expr(sub)
                if not ss and (dw > sw or (not ds and dw == sw)):
                    return t                       # zero extension / same type
                if ss and ds and dw >= sw:
                    return t                       # sign extension keeps the value
                if not ds:
                    return "((%s) mod %d)" % (t, 1 << dw)   # conversion to unsigned is modular
                raise Unsupported("narrowing conversion to a signed type")
            if ck == "IntegralToBoolean":
                return "(Z.b2z %s)" % self.cond(sub)
            raise Unsupported("cast kind %s" % ck)
        if k == "DeclRefExpr":
            name = n["referencedDecl"]["name"]
            if name in self.lets:
                return "v_" + name
            if name in self.scalar:
                return self.inp(self.scalar[name])
            raise Unsupported("reference to %r" % name)
        if k == "MemberExpr" and getattr(self, "anyptr", False):
            path = [n["name"]]
            b = n
            while True:
                inner = strip_casts(b["inner"][0])
                if inner["kind"] == "MemberExpr" and not b.get("isArrow"):
                    path.append(inner["name"])
                    b = inner
                    continue
                break
            if b.get("isArrow") and inner["kind"] == "DeclRefExpr" and is_ptr(inner):
                ity(n)
                return self.inp("_".join([inner["referencedDecl"]["name"]] + [x for x in path[::-1] if x]))
            raise Unsupported("member access that is not var->field[.field]")
        if k == "MemberExpr":
            base = strip_casts(n["inner"][0])
            if base["kind"] == "DeclRefExpr" and base["referencedDecl"]["name"] in self.ptr and n.get("isArrow"):
                ity(n)
                return self.inp("%s_%s" % (self.ptr[base["referencedDecl"]["name"]], n["name"]))
            raise Unsupported("member access that is not param->field")
        if k == "UnaryOperator":
            op = n["opcode"]
            sub = n["inner"][0]
            if op == "-" and sub["kind"] == "IntegerLiteral":
                return "(- %d)" % int(sub["value"])
            if op == "!":
                return "(Z.b2z %s)" % self.cond(n)
            if op == "~":
                signed, w = ity(n)
                if signed:
                    raise Unsupported("~ on signed")
                return "(%d - (%s))" % ((1 << w) - 1, self.expr(sub))
            raise Unsupported("unary operator %s" % op)
        if k == "BinaryOperator":
            op = n["opcode"]
            a, b = n["inner"]
            if op in ("<", "<=", ">", ">=", "==", "!=", "&&", "||"):
                return "(Z.b2z %s)" % self.cond(n)
            if op in ("+", "-", "*"):
                return self.wrap(n, "%s %s %s" % (self.expr(a), op, self.expr(b)))
            if op in ("|", "&", "^"):
                signed, _ = ity(n)
                if signed:
                    raise Unsupported("bitwise operator on signed")
                f = {"|": "Z.lor", "&": "Z.land", "^": "Z.lxor"}[op]
                return "(%s %s %s)" % (f, self.expr(a), self.expr(b))
            raise Unsupported("binary operator %s" % op)
        if k == "ConditionalOperator":
            c, a, b = n["inner"]
            return "(if %s then %s else %s)" % (self.cond(c), self.expr(a), self.expr(b))
        raise Unsupported("expression kind %s" % k)

    # ---- expressions in boolean context: returns a Coq term of type bool
    def cond(self, n):
        k = n["kind"]
        if k == "ParenExpr":
            return self.cond(n["inner"][0])
        if k == "ImplicitCastExpr" and n.get("castKind") in ("IntegralToBoolean", "NoOp", "LValueToRValue") \
                and n["inner"][0]["kind"] in ("BinaryOperator", "ParenExpr", "UnaryOperator"):
            return self.cond(n["inner"][0])
        if k == "BinaryOperator":
            op = n["opcode"]
            a, b = n["inner"]
            if op in ("<", "<=", ">", ">="):
                sa, wa = ity(a)
                sb, wb = ity(b)
                if (sa, wa) != (sb, wb):
                    raise Unsupported("comparison of different types")
                return "(%s %s? %s)" % (self.expr(a), op, self.expr(b))
            if op == "==":
                return "(%s =? %s)" % (self.expr(a), self.expr(b))
            if op == "!=":
                return "(negb (%s =? %s))" % (self.expr(a), self.expr(b))
            if op == "&&":
                return "(%s && %s)" % (self.cond(a), self.cond(b))
            if op == "||":
                return "(%s || %s)" % (self.cond(a), self.cond(b))
        if k == "UnaryOperator" and n["opcode"] == "!":
            return "(negb %s)" % self.cond(n["inner"][0])
        return "(negb (%s =? 0))" % self.expr(n)

    # ---- statements
    def decl(self, d):
        """local declaration: pointer alias, scalar input, or let-bound scalar.  Returns a let prefix."""
        out = ""
        for v in d.get("inner", []):
            if v["kind"] != "VarDecl" or "inner" not in v:
                raise Unsupported("declaration without initialiser")
            init = v["inner"][0]
            name = v["name"]
            if is_ptr(v):
                src = strip_casts(init)
                if src["kind"] == "DeclRefExpr" and src["referencedDecl"]["name"] in self.ptr:
                    self.ptr[name] = name       # fields are named after the local: sym->addr -> sym_addr
                    continue
                raise Unsupported("pointer local %s not initialised from a pointer parameter" % name)
            ity(v)
            src = strip_casts(init)
            if src["kind"] == "UnaryOperator" and src["opcode"] == "*":
                p = strip_casts(src["inner"][0])
                if p["kind"] == "DeclRefExpr" and p["referencedDecl"]["name"] in self.ptr:
                    self.scalar[name] = name    # addr = *(uint64_t *)a  -> input `addr`
                    continue
                raise Unsupported("dereference of something that is not a pointer parameter")
            if src["kind"] == "ImplicitCastExpr" and src.get("castKind") == "IntegralCast" \
                    and src["inner"][0]["kind"] == "CallExpr" and ity(src) == ity(src["inner"][0]):
                src = src["inner"][0]
            if src["kind"] == "CallExpr":
                callee = strip_casts(src["inner"][0])
                cname = callee.get("referencedDecl", {}).get("name")
                if callee.get("castKind") == "FunctionToPointerDecay":
                    cname = callee["inner"][0].get("referencedDecl", {}).get("name")
                if cname in ("strtoull", "strtoul"):
                    self.scalar[name] = name    # the parsed number is an input of the kernel
                    continue
                raise Unsupported("call to %r" % cname)
            term = self.expr(init)
            self.lets.add(name)
            out += "let v_%s := %s in " % (name, term)
        return out

    def stmts(self, lst):
        if not lst:
            raise Unsupported("control reaches the end of the function without return")
        s, rest = lst[0], lst[1:]
        k = s["kind"]
        if k == "CompoundStmt":
            return self.stmts(list(s.get("inner", [])) + rest)
        if k == "DeclStmt":
            pre = self.decl(s)
            return pre + self.stmts(rest)
        if k == "ReturnStmt":
            return self.expr(s["inner"][0])
        if k == "IfStmt":
            inner = s["inner"]
            c = self.cond(inner[0])
            th = [inner[1]]
            el = [inner[2]] if len(inner) > 2 else []
            return "(if %s\n   then %s\n   else %s)" % (c, self.stmts(th + rest), self.stmts(el + rest))
        raise Unsupported("statement kind %s" % k)

    def function(self, coqname):
        body = [c for c in self.fn["inner"] if c["kind"] == "CompoundStmt"]
        if len(body) != 1:
            raise Unsupported("no body")
        term = self.stmts(body)
        missing = [a for a in self.args if a not in self.used]
        if missing:
            raise Unsupported("%s no longer depends on %s" % (self.fn["name"], missing))
        ret = self.fn["type"]["qualType"].split("(")[0].strip()
        if ret in ("bool", "_Bool"):
            term = "(if negb (%s =? 0) then 1 else 0)" % term
        return "Definition %s (%s : Z) : Z :=\n  %s.\n" % (coqname, " ".join(self.args), term)


def if_stmts(node, out):
    if node.get("kind") == "IfStmt":
        out.append(node)
    for c in node.get("inner", []) or []:
        if isinstance(c, dict):
            if_stmts(c, out)
    return out


def assigns_to(node, field, out):
    if node.get("kind") == "BinaryOperator" and node.get("opcode") == "=":
        lhs = node["inner"][0]
        if lhs.get("kind") == "MemberExpr" and lhs.get("name") == field:
            out.append(node)
    for c in node.get("inner", []) or []:
        if isinstance(c, dict):
            assigns_to(c, field, out)
    return out


def assign_kernel(fn, coqname, args, field, k):
    asg = assigns_to(fn, field, [])
    if k >= len(asg):
        raise Unsupported("%s has only %d assignments to ->%s (wanted #%d)" % (fn["name"], len(asg), field, k))
    tr = Tr(fn, args)
    tr.anyptr = True
    term = tr.expr(asg[k]["inner"][1])
    missing = [a for a in args if a not in tr.used]
    if missing:
        raise Unsupported("assignment #%d to ->%s in %s no longer depends on %s" % (k, field, fn["name"], missing))
    return "Definition %s (%s : Z) : Z :=\n  %s.\n" % (coqname, " ".join(args), term)


def cond_kernel(fn, coqname, args, k):
    ifs = if_stmts(fn, [])
    if k >= len(ifs):
        raise Unsupported("%s has only %d if statements (wanted #%d)" % (fn["name"], len(ifs), k))
    tr = Tr(fn, args)
    tr.anyptr = True
    for p in [c for c in fn.get("inner", []) if c["kind"] == "ParmVarDecl" and not is_ptr(c)]:
        tr.scalar[p["name"]] = p["name"]
    term = tr.cond(ifs[k]["inner"][0])
    missing = [a for a in args if a not in tr.used]
    if missing:
        raise Unsupported("condition #%d of %s no longer depends on %s" % (k, fn["name"], missing))
    return "Definition %s (%s : Z) : bool :=\n  %s.\n" % (coqname, " ".join(args), term)


def call_order(fn, first, second):
    """pre-order positions of the calls to `first` and `second` inside fn: returns True if the (single) call of
    `first` comes before the (single) call of `second`; anything else than exactly one call each is unsupported"""
    pos = {first: [], second: []}
    counter = [0]

    def callee_name(c):
        n = c["inner"][0]
        while n.get("kind") in ("ImplicitCastExpr", "ParenExpr") and n.get("inner"):
            n = n["inner"][0]
        return n.get("referencedDecl", {}).get("name")

    def walk(n):
        counter[0] += 1
        if n.get("kind") == "CallExpr" and n.get("inner"):
            nm = callee_name(n)
            if nm in pos:
                pos[nm].append(counter[0])
        for c in n.get("inner", []) or []:
            if isinstance(c, dict):
                walk(c)
    walk(fn)
    if len(pos[first]) != 1 or len(pos[second]) != 1:
        raise Unsupported("%s: expected exactly one call of %s and of %s, found %d and %d"
                          % (fn["name"], first, second, len(pos[first]), len(pos[second])))
    return pos[first][0] < pos[second][0]


def ast_of(path, fname):
    cmd = ["clang", "-fsyntax-only", "-Xclang", "-ast-dump=json", "-Xclang", "-ast-dump-filter=" + fname,
           "-std=gnu11", "-D_GNU_SOURCE", "-w", "-iquote", REPO, "-iquote", os.path.join(REPO, "arch/x86_64"),
           "-I/usr/include/traceevent", os.path.join(REPO, path)]
    p = subprocess.run(cmd, capture_output=True, text=True, timeout=120)
    if p.returncode != 0:
        raise Unsupported("clang failed on %s: %s" % (path, p.stderr[-1500:]))
    dec = json.JSONDecoder()
    s, i, docs = p.stdout, 0, []
    while True:
        while i < len(s) and s[i].isspace():
            i += 1
        if i >= len(s):
            break
        o, i = dec.raw_decode(s, i)
        docs.append(o)
    fns = [d for d in docs if d.get("kind") == "FunctionDecl" and d.get("name") == fname
           and any(c["kind"] == "CompoundStmt" for c in d.get("inner", []))]
    if len(fns) != 1:
        raise Unsupported("expected exactly one definition of %s in %s, found %d" % (fname, path, len(fns)))
    return fns[0]


PROBE_CONSTS = ["EVENT_ID_PERF_SCHED_IN", "EVENT_ID_PERF_SCHED_OUT", "EVENT_ID_PERF_SCHED_BOTH",
                "EVENT_ID_PERF_SCHED_OUT_PREEMPT", "EVENT_ID_PERF_SCHED_BOTH_PREEMPT", "SESSION_ID_LEN",
                "BUILD_ID_STR_SIZE", "ST_UNKNOWN", "ST_PLT_FUNC"]


def probe_consts():
    """constants used by the C10 model, printed by a probe compiled against /repo's headers"""
    import tempfile
    lines = ['#include <stdio.h>', '#include "uftrace.h"', '#include "utils/symbol.h"', 'int main(void) {']
    for c in PROBE_CONSTS:
        lines.append('  printf("%s %%llu\\n", (unsigned long long)(%s));' % (c, c))
    lines.append('  return 0; }')
    with tempfile.TemporaryDirectory(prefix="verif-genk.", dir="/var/tmp") as td:
        src = os.path.join(td, "probe.c")
        open(src, "w").write("\n".join(lines) + "\n")
        exe = os.path.join(td, "probe")
        cmd = ["gcc", "-std=gnu11", "-D_GNU_SOURCE", "-w", "-iquote", REPO, "-iquote",
               os.path.join(REPO, "arch/x86_64"), "-I/usr/include/traceevent", src, "-o", exe]
        p = subprocess.run(cmd, capture_output=True, text=True)
        if p.returncode != 0:
            raise Unsupported("constant probe does not compile against /repo headers: " + p.stderr[-1500:])
        out = subprocess.run([exe], capture_output=True, text=True, check=True).stdout
    return ["Definition K_%s : Z := %s." % tuple(l.split()) for l in out.splitlines()]


def main():
    v = ["(* GENERATED by gen/gen_kernels.py from /repo's current C source (clang AST) - do not edit *)",
         "From Coq Require Import ZArith Bool.", "Local Open Scope Z_scope.", "Local Open Scope bool_scope.", ""]
    try:
        for path, fname, coqname, args in KERNELS:
            fn = ast_of(path, fname)
            v.append("(* %s:%s *)" % (path, fname))
            v.append(Tr(fn, args).function(coqname))
        for path, fname, coqname, args, k in CONDS:
            fn = ast_of(path, fname)
            v.append("(* %s:%s, condition of if #%d *)" % (path, fname, k))
            v.append(cond_kernel(fn, coqname, args, k))
        for path, fname, coqname, args, k in CONDS2:
            fn = ast_of(path, fname)
            v.append("(* %s:%s, condition of if #%d *)" % (path, fname, k))
            v.append(cond_kernel(fn, coqname, args, k))
        for path, fname, coqname, args, field, k in ASSIGNS:
            fn = ast_of(path, fname)
            v.append("(* %s:%s, assignment #%d to ->%s *)" % (path, fname, k, field))
            v.append(assign_kernel(fn, coqname, args, field, k))
        fn = ast_of("libmcount/wrap.c", "dlopen")
        v.append("(* libmcount/wrap.c:dlopen - is the clock (mcount_gettime) read before real_dlopen() is called? *)")
        v.append("Definition wrap_dlopen_clock_first : bool := %s.\n"
                 % ("true" if call_order(fn, "mcount_gettime", "real_dlopen") else "false"))
        # load_symtab: is prev_sym_value only updated when load_symbol() accepted the entry?
        fn = ast_of("utils/symbol.c", "load_symtab")
        found = {"guarded": 0, "unguarded": 0}

        def walk_prev(n, guarded):
            k = n.get("kind")
            if k == "BinaryOperator" and n.get("opcode") == "=" and n.get("inner"):
                lhs = n["inner"][0]
                if lhs.get("kind") == "DeclRefExpr" and lhs.get("referencedDecl", {}).get("name") == "prev_sym_value":
                    found["guarded" if guarded else "unguarded"] += 1
            if k == "IfStmt" and n.get("inner"):
                cond = n["inner"][0]
                g = '"name": "load_symbol"' in json.dumps(cond)
                walk_prev(cond, guarded)
                for idx, c in enumerate(n["inner"][1:]):
                    walk_prev(c, guarded or (g and idx == 0))
                return
            for c in n.get("inner", []) or []:
                if isinstance(c, dict):
                    walk_prev(c, guarded)
        walk_prev(fn, False)
        if found["guarded"] + found["unguarded"] == 0:
            raise Unsupported("load_symtab: no assignment to prev_sym_value found")
        v.append("(* utils/symbol.c:load_symtab - prev_sym_value is assigned only under `if (load_symbol(...))`? *)")
        v.append("Definition symtab_prev_only_accepted : bool := %s.\n" % ("true" if found["unguarded"] == 0 else "false"))
        # update_symtab_using_dynsym: is its `offset` ever assigned (the SYMTAB_FL_ADJ_OFFSET adjustment kept)?
        fn = ast_of("utils/symbol.c", "update_symtab_using_dynsym")
        assigned = [0]

        def walk_off(n):
            if n.get("kind") in ("BinaryOperator", "CompoundAssignOperator") and n.get("opcode") in ("=", "-=", "+=") and n.get("inner"):
                lhs = n["inner"][0]
                if lhs.get("kind") == "DeclRefExpr" and lhs.get("referencedDecl", {}).get("name") == "offset":
                    assigned[0] += 1
            for c in n.get("inner", []) or []:
                if isinstance(c, dict):
                    walk_off(c)
        walk_off(fn)
        if "SYMTAB_FL_ADJ_OFFSET" not in open(os.path.join(REPO, "utils/symbol.c")).read():
            raise Unsupported("utils/symbol.c no longer mentions SYMTAB_FL_ADJ_OFFSET")
        v.append("(* utils/symbol.c:update_symtab_using_dynsym - is the local offset assigned (module-relative adjustment applied)? *)")
        v.append("Definition dynsym_update_offset_adjusted : bool := %s.\n" % ("true" if assigned[0] else "false"))
        fn = ast_of("libmcount/wrap.c", "dlopen")
        # is dlopen_depth decremented after real_dlopen() and before the first return that follows it?
        order, pos = [0], {"call": None, "dec": [], "ret": []}

        def walk_depth(n):
            order[0] += 1
            k = n.get("kind")
            if k == "CallExpr" and n.get("inner"):
                c = n["inner"][0]
                while c.get("kind") in ("ImplicitCastExpr", "ParenExpr") and c.get("inner"):
                    c = c["inner"][0]
                if c.get("referencedDecl", {}).get("name") == "real_dlopen":
                    pos["call"] = order[0]
            if k == "UnaryOperator" and n.get("opcode") == "--" and "dlopen_depth" in json.dumps(n):
                pos["dec"].append(order[0])
            if k == "ReturnStmt":
                pos["ret"].append(order[0])
            for c in n.get("inner", []) or []:
                if isinstance(c, dict):
                    walk_depth(c)
        walk_depth(fn)
        uses_depth = "dlopen_depth" in json.dumps(fn)
        rets_after = [r for r in pos["ret"] if pos["call"] is not None and r > pos["call"]]
        if pos["call"] is None or not rets_after:
            raise Unsupported("dlopen: no real_dlopen() call followed by a return")
        balanced = (not uses_depth) or any(pos["call"] < d < rets_after[0] for d in pos["dec"])
        v.append("(* libmcount/wrap.c:dlopen - is dlopen_depth decremented between real_dlopen() and the first return after it? *)")
        v.append("Definition wrap_dlopen_depth_balanced : bool := %s.\n" % ("true" if balanced else "false"))
        fn = ast_of("libmcount/wrap.c", "dlopen_base_callback")
        has_filter = [0]

        def walk_calls(n):
            if n.get("kind") == "CallExpr" and n.get("inner"):
                c = n["inner"][0]
                while c.get("kind") in ("ImplicitCastExpr", "ParenExpr") and c.get("inner"):
                    c = c["inner"][0]
                if c.get("referencedDecl", {}).get("name") in ("strstr", "strcmp", "strncmp", "strcasestr") and \
                        "filename" in json.dumps(n):
                    has_filter[0] += 1
            for c in n.get("inner", []) or []:
                if isinstance(c, dict):
                    walk_calls(c)
        walk_calls(fn)
        v.append("(* libmcount/wrap.c:dlopen_base_callback - no comparison of the library name with the dlopen() argument? *)")
        v.append("Definition wrap_dlopen_reports_all : bool := %s.\n" % ("false" if has_filter[0] else "true"))
        v.append("(* constants (probe compiled against /repo's headers) *)")
        v += probe_consts()
    except Unsupported as e:
        sys.stderr.write("gen_kernels: %s\n" % e)
        return 1
    text = "\n".join(v) + "\n"
    try:
        if open(OUT).read() == text:
            return 0
    except OSError:
        pass
    os.makedirs(os.path.dirname(OUT), exist_ok=True)
    open(OUT, "w").write(text)
    return 0


if __name__ == "__main__":
    sys.exit(main())
