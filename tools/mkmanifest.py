#!/usr/bin/env python3
"""Assemble /verif/MANIFEST.json from manifest.d/Cxx.json fragments (one per claimed property)."""
import glob
import json
import os

V = os.path.dirname(os.path.dirname(os.path.abspath(__file__)))
ALL = ["C%02d" % i for i in range(1, 21)]
frags = {}
for p in sorted(glob.glob(os.path.join(V, "manifest.d", "C*.json"))):
    f = json.load(open(p))
    frags[f["property_id"]] = f
na = json.load(open(os.path.join(V, "manifest.d", "not_applicable.json")))
checks = []
for pid in ALL:
    if pid not in frags:
        continue
    f = frags[pid]
    checks.append({
        "property_id": pid,
        "quick_cmd": "./check %s --tier quick" % pid,
        "thorough_cmd": "./check %s --tier thorough" % pid,
        "evidence_file": "/verif/evidence/%s.json" % pid,
        "replay_cmd_template": "./check %s --replay {path}" % pid,
        "engine": "coq+correspondence",
        "level_claimed": {"category": "proof", "text": f["level_text"], "design_ref": f.get("design_ref", "DESIGN.md section 6, " + pid)},
        "level_note": f["level_note"],
        "technique": f["technique"],
    })
m = {
    "version": 1,
    "setup_cmd": "./setup.sh",
    "hooks": {
        "guard": "UFTRACE_VERIF",
        "enable": "checks build /repo out-of-tree into /verif/.cache/build-*/ with ./configure --objdir=... --cflags=-DUFTRACE_VERIF (vf/build.py)",
        "baseline_off_cmd": "/verif/tools/baseline_off.sh",
        "source_commits": json.load(open(os.path.join(V, "manifest.d", "hook_commits.json"))),
        "add_only": True,
    },
    "engines": [{
        "name": "coq+correspondence",
        "path": "/verif/check",
        "serves_properties": [c["property_id"] for c in checks],
        "kind_free_text": "Coq 8.16 theorems about executable Gallina models (coq/theories), tied to /repo by generated "
                          "Coq files (gen/) and by differential runs of the real code against the model evaluated with "
                          "vm_compute inside Coq (props/, harness/)",
    }],
    "checks": checks,
    "not_applicable": [{"property_id": p, "reason": na.get(p, "check not built yet (work in progress; see DESIGN.md section 6)")}
                       for p in ALL if p not in frags],
    "notes": "See DESIGN.md. known-findings.txt lists recorded genuine defects and `fixed:` entries.",
}
json.dump(m, open(os.path.join(V, "MANIFEST.json"), "w"), indent=1)
print("MANIFEST.json: %d checks, %d not_applicable" % (len(checks), len(m["not_applicable"])))
