#!/usr/bin/env python3
"""mkdesign.py: regenerate the generated tables of DESIGN.md section 11 (between <!-- BEGIN:x --> / <!-- END:x -->
markers) from known-findings.txt, seeded/*/meta.json, manifest.d/*.json and Properties_Cxx.v.  Hand-written text
outside the markers is left alone."""
import glob
import json
import os
import re

ROOT = os.path.dirname(os.path.dirname(os.path.abspath(__file__)))

# why a recorded finding was not repaired by a "fix:" commit (the brief: repair only when small and safe)
WHY = {
    "fold-hidden-fork-depth": "found in the last hours; fstack_skip is shared by several commands and the repair could not be validated against all its callers in the time left",
    "auto-neg32": "type width of untyped arguments is a documented-format decision (32-bit heuristics in the printer)",
    "autoargs-complex": "needs a new argument class (two SSE registers) in the DWARF -> spec translation",
    "same-dirname-concurrent-clients": "naming policy of `uftrace recv` (one directory per name)",
    "replay-older-jmpbuf": "replay keeps one global setjmp state; needs per-jmp_buf records in the format",
    "unwind-resume-alias": "the repair touches the unwinder wrappers (not small and safe); proposed-fixes/C11-*.diff",
    "unwind-resume-alias-O2": "as unwind-resume-alias",
    "fentry-cleanup-depth": "needs the landing-pad frame identification reworked for -mfentry",
    "pthread-exit-nested": "the repair changes the thread destructor protocol; proposed-fixes/C11-*.diff",
    "pthread-exit-destructors": "as pthread-exit-nested",
    "setjmp-beyond-rstack-max": "array sized by a constant while the option is a run-time value: allocation design",
    "native-symbol-filter": "python and native symbols share one filter namespace in libmcount: a design decision",
    "lost-after-inherited-wrap": "needs a decision what a LOST marker means for frames inherited at fork",
    "no-libcall-replay-vs-report": "order of the symbol-type test differs between command loops; behavioural choice",
    "raw-dump-ignores-time-filter": "raw dump bypasses the look-ahead reader by design; manual lists the options",
    "filter-below-depth-trigger": "record and replay count depth from different origins under nested -F: semantic choice",
    "time-trigger-outside-filter": "record never looks up hidden functions' triggers: semantic choice",
    "nested-function-mfentry": "GCC pushes the static chain before `call __fentry__`; the stub cannot know: needs unwinding information",
    "lost-tail-unreported": "the proposed patch (proposed-fixes/C03-1.diff) covers worker threads only; the main thread's tail loss needs the "
                            "shutdown order changed",
    "zero-duration-events-twice": "events are matched to frames by time-stamp equality; needs an explicit frame link in the pending queue",
    "lost-in-inherited-data": "setting user_stack_count to the inherited depth changes which kernel functions of a child are shown; kernel tracing cannot be exercised in this sandbox",
    "signal-during-unwinding": "needs the in_exception protocol of the unwinder wrappers reworked; partial patch in proposed-fixes/C11-7-partial.diff",
    "events-refused-when-args-fill-buffer": "the per-frame buffer is shared by arguments and events by design (fixed 1024 bytes); a repair needs a format/size decision",
    "pg-drap-realigned-stack": "the mcount stub cannot find the return slot of a DRAP-realigned frame without unwind information",
    "script-record-float": "libmcount deliberately does not touch FP registers at record time; documented placeholder",
    "patchable-pre-entry-stripped": "without symbols nothing tells where the entry of a function with pre-entry NOPs is",
    "watch-var-once-per-process": "the watch item of -W var is one per process by design (a shared previous value); per-thread state needs a data-structure change",
    "watch-first-event-1ns": "the +1/-1 ns stamping scheme of watch events is a design decision",
}


def findings():
    rows = []
    for line in open(os.path.join(ROOT, "known-findings.txt")):
        line = line.strip()
        m = re.match(r"(finding|fixed):\s+property=(C\d\d)\s+(?:key=)?(\S+)\s+(.*)", line)
        if m:
            rows.append(m.groups())
    return rows


def short(s, n):
    s = " ".join(s.split()).replace("|", "\\|")
    return s if len(s) <= n else s[:n - 3] + "..."


def tbl_findings():
    rows = findings()
    out = ["| property | disposition | what failed |", "|---|---|---|"]
    for kind, prop, key, text in sorted(rows, key=lambda r: (r[1], r[0] != "fixed")):
        if kind == "fixed":
            out.append("| %s | **fixed** `%s` | %s |" % (prop, key, short(text, 330)))
        else:
            out.append("| %s | **known finding** `%s` - not repaired: %s | %s |" % (prop, key, WHY.get(key, "see proposed-fixes notes"), short(text, 330)))
    nf = sum(1 for r in rows if r[0] == "fixed")
    out.append("")
    out.append("%d defects repaired by `fix:` commits in /repo, %d recorded as known findings." % (nf, len(rows) - nf))
    return "\n".join(out)


def tbl_seeds():
    out = ["| seed | property | needs to manifest | caught? |", "|---|---|---|---|"]
    n = {"yes": 0, "after": 0, "no": 0}
    for d in sorted(glob.glob(os.path.join(ROOT, "seeded", "*", "meta.json"))):
        m = json.load(open(d))
        name = os.path.basename(os.path.dirname(d))
        c = m.get("caught_by_check", "?")
        n["yes" if c.startswith("yes") else "after" if c.startswith("after") else "no"] += 1
        out.append("| %s | %s | %s | %s: %s |" % (name, m["property"], short(m.get("needs_to_manifest", ""), 260), c,
                                                 short(m.get("check_result", ""), 330)))
    out.append("")
    out.append("%d seeded changes: %d caught by the check as it was, %d caught after the check was strengthened, %d not caught."
               % (sum(n.values()), n["yes"], n["after"], n["no"]))
    return "\n".join(out)


def tbl_checks():
    out = ["| id | theorems in Properties_Cxx.v | deciding method (from the manifest) |", "|---|---|---|"]
    for f in sorted(glob.glob(os.path.join(ROOT, "manifest.d", "C*.json"))):
        m = json.load(open(f))
        pid = m.get("property_id") or os.path.basename(f)[:3]
        pv = os.path.join(ROOT, "coq", "theories", "Properties_%s.v" % pid)
        nth = len(re.findall(r"^\s*(?:Theorem|Lemma|Corollary)\s", open(pv).read(), re.M)) if os.path.exists(pv) else 0
        out.append("| %s | %d | %s |" % (pid, nth, short(m.get("technique", ""), 900)))
    return "\n".join(out)


def main():
    p = os.path.join(ROOT, "DESIGN.md")
    s = open(p).read()
    for key, fn in (("findings", tbl_findings), ("seeds", tbl_seeds), ("checks", tbl_checks)):
        b, e = "<!-- BEGIN:%s -->" % key, "<!-- END:%s -->" % key
        if b not in s:
            print("marker missing:", key)
            continue
        i, j = s.index(b) + len(b), s.index(e)
        s = s[:i] + "\n" + fn() + "\n" + s[j:]
    open(p, "w").write(s)
    print("DESIGN.md tables regenerated")


if __name__ == "__main__":
    main()
