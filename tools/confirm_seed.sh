#!/bin/bash
# confirm_seed.sh <seed-out-dir> : independently confirm a seeded change:
#   clean tree: demo exits 0; with patch: builds, demo exits non-zero, unit + python tests pass.
# Uses a scratch worktree of /repo under /var/tmp and removes it afterwards.
set -u
S=$1; N=$(basename $S)
W=/var/tmp/confirm-$N
LOG=$S/confirm.log
exec >$LOG 2>&1
git -C /repo worktree remove --force $W 2>/dev/null
git -C /repo worktree add -q --detach $W HEAD || exit 9
cd $W && ./configure >/dev/null 2>&1; make -j16 >/dev/null 2>&1 || { echo "CLEAN BUILD FAILED"; exit 9; }
echo "== demo on clean tree"; timeout 300 bash $S/demo/run.sh $W; RC_CLEAN=$?; echo "rc_clean=$RC_CLEAN"
git -C $W apply $S/patch.diff || { echo "PATCH DOES NOT APPLY"; exit 9; }
make -j16 >/dev/null 2>$S/build.err || { echo "MUTANT BUILD FAILED"; cat $S/build.err | tail; exit 9; }
echo "== demo on modified tree"; timeout 300 bash $S/demo/run.sh $W; RC_MUT=$?; echo "rc_mut=$RC_MUT"
echo "== tests"; make unittest 2>&1 | tail -8; U=$?
make -j8 pytest 2>&1 | grep -E "OK:|NG:|NZ:|SG:|TM:|BI:" ; 
UT=$(make unittest 2>&1 | grep -c "ran successfully")
PY=$(make -j8 pytest 2>&1 | grep -E "^\s+OK:\s+12" | wc -l)
echo "unit_ok=$UT py_ok=$PY"
cd /; git -C /repo worktree remove --force $W
echo "RESULT rc_clean=$RC_CLEAN rc_mut=$RC_MUT unit_ok=$UT py_ok=$PY"
