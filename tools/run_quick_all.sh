#!/bin/bash
# run every claimed check in the quick tier against /repo (regenerates evidence/*.json); summary on stdout
cd "$(dirname "$0")/.."
for p in $(python3 -c "import json; print(' '.join(c['property_id'] for c in json.load(open('MANIFEST.json'))['checks']))"); do
  s=$(date +%s); ./check $p --tier quick > /var/tmp/quick-$p.log 2>&1; rc=$?; e=$(date +%s)
  echo "$p rc=$rc wall=$((e-s))s known=$(grep -c '^KNOWN-FINDING' /var/tmp/quick-$p.log) viol=$(grep -c '^VIOLATION' /var/tmp/quick-$p.log)"
done
