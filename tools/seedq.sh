#!/bin/bash
# seedq.sh <seed>:<PROP> ... : run tools/seed_check.sh for each pair in turn, one summary line each in /var/tmp/seedq.summary
cd "$(dirname "$0")/.."
for s in "$@"; do
  tools/seed_check.sh ${s%%:*} ${s##*:} > /var/tmp/sc-${s%%:*}.log 2>&1
  echo "${s%%:*}/${s##*:} $(tail -1 /tmp/seedout/${s%%:*}/check.log) viol=$(grep -c '^VIOLATION' /tmp/seedout/${s%%:*}/check.log)" >> /var/tmp/seedq.summary
done
