#!/bin/bash
# coqshow.sh <file.v> <line> : debugging aid - show the goals just before <line> (scratch copy under /var/tmp)
f=$1; n=$2; d=/var/tmp/coqshow; mkdir -p $d
head -n $((n-1)) $f > $d/D.v; echo "Show. Abort." >> $d/D.v
cd /verif/coq && timeout 300 coqc -Q theories UV $d/D.v 2>&1 | head -${3:-80}
