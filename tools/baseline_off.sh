#!/bin/sh
# Pinned baseline (104 unit tests + 12 python cases) on /repo built WITHOUT the verification guard.
set -e
make -C /repo -j16 >/dev/null 2>&1
make -C /repo unittest
make -C /repo -j8 pytest
