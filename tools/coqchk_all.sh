#!/bin/bash
# independent re-check of every compiled property file with coqchk; summary (axioms etc.) -> /verif/coqchk.log
cd "$(dirname "$0")/../coq" || exit 1
mods=$(ls theories/Properties_C*.v | sed 's|theories/||; s|\.v$||; s|^|UV.|' | tr '\n' ' ')
timeout 3600 coqchk -silent -o -Q theories UV $mods > ../coqchk.log 2>&1
rc=$?
echo "coqchk rc=$rc modules: $mods" >> ../coqchk.log
grep -A1 "Axioms\|type-in-type\|unsafe\|positivity" ../coqchk.log | head -20
exit $rc
