#!/bin/bash
# merge_branch.sh <branch>: merge a builder branch into main (evidence conflicts: theirs; known-findings: union)
set -u
cd "$(dirname "$0")/.."
b=$1
git merge --no-edit "$b" >/var/tmp/merge-$b.log 2>&1
rc=$?
if [ $rc -ne 0 ]; then
  for f in $(git diff --name-only --diff-filter=U); do
    case "$f" in
      evidence/*|MANIFEST.json|DESIGN.md|coqchk.log) git checkout --theirs -- "$f" 2>/dev/null && git add "$f";;
      coq/_CoqProject) git rm -q --cached "$f" 2>/dev/null;;
      *) echo "CONFLICT needs hand: $f";;
    esac
  done
  if [ -z "$(git diff --name-only --diff-filter=U)" ]; then git commit -qm "merge $b"; else exit 1; fi
fi
git rm -q --cached coq/_CoqProject 2>/dev/null && git commit -qm "untrack _CoqProject" 
python3 tools/mkmanifest.py && python3 tools/mkdesign.py && git add -A && git commit -qm "manifest/design after merging $b"
git log --oneline -1
