#!/bin/bash
# run every claimed check in the thorough tier, one after the other; summary on stdout
cd "$(dirname "$0")/.."
./setup.sh >/dev/null 2>&1
for p in $(python3 -c "import json; print(' '.join(c['property_id'] for c in json.load(open('MANIFEST.json'))['checks']))"); do
  s=$(date +%s); ./check $p --tier thorough > /var/tmp/thorough-$p.log 2>&1; rc=$?; e=$(date +%s)
  echo "$p rc=$rc wall=$((e-s))s $(grep -c '^VIOLATION' /var/tmp/thorough-$p.log) violation lines; $(tail -1 /var/tmp/thorough-$p.log | cut -c1-120)"
done
