#!/usr/bin/env python3
"""import_seed.py <seedout-dir> <property> <caught:yes|no|after-strengthening> "<needs>" "<check result note>"
copies a confirmed seeded change into /verif/seeded/<name>/ (patch.diff, demo/, README.md, meta.json)"""
import json, os, shutil, sys
src, prop, caught, needs, note = sys.argv[1:6]
name = os.path.basename(src.rstrip("/"))
dst = os.path.join(os.path.dirname(os.path.dirname(os.path.abspath(__file__))), "seeded", name)
shutil.rmtree(dst, ignore_errors=True)
os.makedirs(dst)
shutil.copy(os.path.join(src, "patch.diff"), dst)
shutil.copy(os.path.join(src, "README.md"), dst)
shutil.copytree(os.path.join(src, "demo"), os.path.join(dst, "demo"), ignore=shutil.ignore_patterns("*.o", "uftrace.data*", "*.dat", "__pycache__"))
conf = open(os.path.join(src, "confirm.log")).read().strip().splitlines()[-1]
meta = {
    "property": prop,
    "breaks": open(os.path.join(src, "README.md")).read()[:600],
    "needs_to_manifest": needs,
    "confirmed_by_lead": conf,
    "what_was_run": ["tools/confirm_seed.sh: scratch worktree of /repo HEAD; demo/run.sh exits 0 on the clean build and non-zero "
                     "with patch.diff applied; `make unittest` (104 pass) and `make pytest` (12 OK) with the patch",
                     "tools/seed_check.sh: scratch worktree of /repo HEAD outside /repo and /verif with patch.diff applied; VERIF_REPO=<that worktree> ./check %s (the registered command, rebuilding from that tree); worktree removed afterwards" % prop],
    "caught_by_check": caught,
    "check_result": note,
}
json.dump(meta, open(os.path.join(dst, "meta.json"), "w"), indent=1)
print("imported", dst)
