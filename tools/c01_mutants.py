#!/usr/bin/env python3
"""apply one mutant to a scratch worktree of /repo and run ./check C01 against it"""
import subprocess, sys, os, re
MUT = "/var/tmp/mut-C01"
def sh(c, **k): return subprocess.run(c, shell=True, capture_output=True, text=True, **k)
def sub(path, old, new, count=1):
    p = os.path.join(MUT, path); s = open(p).read()
    assert old in s, (path, old)
    open(p, "w").write(s.replace(old, new, count))
MUTANTS = {
 "m1-restore-movsd": lambda: [sub("arch/x86_64/mcount-support.c", 'asm volatile("movdqu %%0, %%%%xmm%d\\n" ::"m"(ctx->xmm[%d]));' % (i, i),
                                   'asm volatile("movsd %%0, %%%%xmm%d\\n" ::"m"(ctx->xmm[%d]));' % (i, i)) for i in range(8)],
 "m2-mcount-drop-rax": lambda: [sub("arch/x86_64/mcount.S", "\tpush %rax\n", ""), sub("arch/x86_64/mcount.S", "\tpop  %rax\n", "")],
 "m3-entry-errno": lambda: sub("libmcount/mcount.c", "\tint ret = __mcount_entry(parent_loc, child, regs);\n\n\terrno = saved_errno;\n", "\tint ret = __mcount_entry(parent_loc, child, regs);\n\n\t(void)saved_errno;\n"),
 "m4-rehook-off-by-one": lambda: sub("libmcount/misc.c", "void mcount_auto_rehook(struct mcount_thread_data *mtdp)\n{\n\tstruct mcount_ret_stack *curr_rstack;\n\tstruct mcount_ret_stack *prev_rstack;\n\n\t/* auto recover is meaningful only if parent rstack is hooked */\n\tif (mtdp->idx < 2)",
                                      "void mcount_auto_rehook(struct mcount_thread_data *mtdp)\n{\n\tstruct mcount_ret_stack *curr_rstack;\n\tstruct mcount_ret_stack *prev_rstack;\n\n\t/* auto recover is meaningful only if parent rstack is hooked */\n\tif (mtdp->idx < 3)"),
 "m5-return-rdx-slot": lambda: sub("arch/x86_64/mcount.S", "\tmovq    8(%rsp), %rdx\n", "\tmovq    0(%rsp), %rdx\n"),
 "m6-entry-reorder": lambda: sub("libmcount/mcount.c", "\trstack->parent_ip = *parent_loc;\n\trstack->child_ip = child;\n\trstack->start_time = mcount_gettime();",
                                  "\trstack->child_ip = child;\n\trstack->start_time = mcount_gettime();", 1) or sub("libmcount/mcount.c",
                                  "\t\t/* hijack the return address of child */\n\t\t*parent_loc = mcount_return_fn;\n", "\t\t/* hijack the return address of child */\n\t\t*parent_loc = mcount_return_fn;\n\t\trstack->parent_ip = *parent_loc;\n", 1),
 "m7-restore-no-tailcheck": lambda: sub("libmcount/misc.c", "\t/* ignore tail calls */\n\tif (curr_rstack->parent_loc == prev_rstack->parent_loc)\n\t\treturn;\n\n\twhile (prev_rstack >= mtdp->rstack) {", "\twhile (prev_rstack >= mtdp->rstack) {"),
 "m8-dentry-drop-r11": lambda: [sub("arch/x86_64/dynamic.S", "\tpush %r11\n\n\tcall mcount_entry", "\tpush %r10\n\n\tcall mcount_entry"), sub("arch/x86_64/dynamic.S", "\tpop  %r11\n\tpop  %r10\n\tpop  %rax\n\n\tmovq %rdx, %rsp", "\tpop  %r10\n\tpop  %r10\n\tpop  %rax\n\n\tmovq %rdx, %rsp")],
 "m9-fentry-align": lambda: sub("arch/x86_64/fentry.S", "\tandq $0xfffffffffffffff0, %rsp\n", "\tandq $0xfffffffffffffff8, %rsp\n"),
 "m10-return-xmm0": lambda: sub("arch/x86_64/mcount.S", "\tmovdqu 16(%rsp), %xmm0\n", ""),
 "m11-snprintf-unprotected": lambda: [sub("libmcount/record.c", "\t\t\t\t\tmcount_save_arch_context(ctx->arch);\n\t\t\t\t\tlen = snprintf", "\t\t\t\t\tlen = snprintf"), sub("libmcount/record.c", "\t\t\t\t\tmcount_restore_arch_context(ctx->arch);\n\t\t\t\t\tstr = buf;", "\t\t\t\t\tstr = buf;")],
 "m12-exit-wrong-frame": lambda: sub("libmcount/mcount.c", "\tret_loc = rstack->parent_loc;\n\tretaddr = rstack->parent_ip;\n\n\t/* re-hijack return address of parent */\n\tif (mcount_auto_recover)\n\t\tmcount_auto_rehook(mtdp);\n\n\t__mcount_unguard_recursion(mtdp);",
                                      "\tret_loc = rstack->parent_loc;\n\tretaddr = rstack->parent_ip;\n\n\t__mcount_unguard_recursion(mtdp);"),
 "m14-exit-wrapper-no-xmm": lambda: [sub("libmcount/mcount.c", "\tmcount_save_arch_context(&arch);\n\tsaved_errno = errno;\n\tret = __mcount_exit(retval);", "\tsaved_errno = errno;\n\tret = __mcount_exit(retval);"),
                                       sub("libmcount/mcount.c", "\tret = __mcount_exit(retval);\n\terrno = saved_errno;\n\tmcount_restore_arch_context(&arch);", "\tret = __mcount_exit(retval);\n\terrno = saved_errno;\n\t(void)arch;")],
 "m15-plthook-exit-errno": lambda: sub("libmcount/plthook.c", "\tret = __plthook_exit(retval);\n\terrno = saved_errno;", "\tret = __plthook_exit(retval);\n\t(void)saved_errno;"),
 "m16-plt-rehook-kind": lambda: sub("libmcount/misc.c", "\tif (prev_rstack->dyn_idx == MCOUNT_INVALID_DYNIDX)\n\t\t*prev_rstack->parent_loc = mcount_return_fn;\n\telse\n\t\t*prev_rstack->parent_loc = (unsigned long)plthook_return;", "\t*prev_rstack->parent_loc = mcount_return_fn;"),
 "m17-dtor-marker-cleared": lambda: [sub("libmcount/mcount.c", "\tmtdp->recursion_marker = true;\n\tmtdp->dead = true;\n", "\tmtdp->dead = true;\n\t__mcount_guard_recursion(mtdp);\n"),
                                     sub("libmcount/mcount.c", "\tuftrace_send_message(UFTRACE_MSG_TASK_END, &tmsg, sizeof(tmsg));\n}", "\tuftrace_send_message(UFTRACE_MSG_TASK_END, &tmsg, sizeof(tmsg));\n\t__mcount_unguard_recursion(mtdp);\n}")],
 "m18-dtor-no-marker": lambda: sub("libmcount/mcount.c", "\tmtdp->recursion_marker = true;\n\tmtdp->dead = true;\n", "\tmtdp->dead = true;\n"),
 "m13-ctor-errno": lambda: sub("libmcount/mcount.c", "\tmcount_startup();\n\t/* the traced program must start with the errno it would have had without us */\n\terrno = saved_errno;", "\tmcount_startup();\n\t(void)saved_errno;"),
}
name = sys.argv[1]
sh("git -C /repo worktree remove --force %s; git -C /repo worktree prune" % MUT)
r = sh("git -C /repo worktree add --detach %s HEAD" % MUT); assert r.returncode == 0, r.stderr
MUTANTS[name]()
print(sh("git -C %s diff --stat" % MUT).stdout.strip())
r = sh("cd /var/tmp/vw/C01 && VERIF_REPO=%s timeout 900 ./check C01 2>&1" % MUT)
lines = [l for l in r.stdout.splitlines() if re.search(r"VIOLATION|BROKEN|done:|proof step", l)]
print("\n".join(l[:400] for l in lines[:14]))
print("EXIT", r.returncode)
sh("git -C /repo worktree remove --force %s; git -C /repo worktree prune" % MUT)
