#!/bin/bash
# seed_check.sh <seed-name> <PROP> : confirm the seed, then run ./check PROP against a scratch worktree with the patch
S=/tmp/seedout/$1; P=$2
/verif/tools/confirm_seed.sh $S
W=/var/tmp/seedrun-$1
git -C /repo worktree remove --force $W 2>/dev/null
git -C /repo worktree add -q --detach $W HEAD
if ! git -C $W apply $S/patch.diff 2>/dev/null; then
  # the seed was written against an older /repo HEAD: use the ported patch if the builder left one
  if [ -f /verif/seeded/$1/patch-head.diff ] && git -C $W apply /verif/seeded/$1/patch-head.diff; then :; else
    echo "patch does not apply to /repo HEAD" > $S/check.log; echo "check_rc=apply-failed" >> $S/check.log
    git -C /repo worktree remove --force $W; exit 0
  fi
fi
cd /verif && VERIF_REPO=$W ./check $P > $S/check.log 2>&1; echo "check_rc=$?" >> $S/check.log
git -C /repo worktree remove --force $W
