#!/bin/bash
# flake_pass.sh <seed> : run every quick check once with VERIF_SEED=<seed>; one summary line per check
cd "$(dirname "$0")/.."
for p in $(python3 -c "import json; print(' '.join(c['property_id'] for c in json.load(open('MANIFEST.json'))['checks']))"); do
  s=$(date +%s); VERIF_SEED=$1 ./check $p --tier quick > /var/tmp/flake-$1-$p.log 2>&1; rc=$?
  echo "seed=$1 $p rc=$rc $(( $(date +%s)-s ))s viol=$(grep -c '^VIOLATION' /var/tmp/flake-$1-$p.log)"
done
