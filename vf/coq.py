"""Coq side of a check: regenerate Gen/*.v from /repo, build, collect obligations and
Print Assumptions, run `cases.v` files (model + checker evaluated by vm_compute)."""
import fcntl
import glob
import os
import re
import subprocess
import sys
import time

from .core import REPO, VERIF, sh

COQ = os.path.join(VERIF, "coq")
TH = os.path.join(COQ, "theories")
FORBIDDEN = re.compile(r"\b(Admitted|admit|Axiom|Parameter|Conjecture|Unset Guard|bypass_check|Admit Obligations)\b")


def _lock():
    f = open(os.path.join(COQ, ".lock"), "w")
    fcntl.flock(f, fcntl.LOCK_EX)
    return f


def regenerate(log=print):
    """re-derive coq/theories/Gen/*.v from /repo's current tree.  Returns list of failures."""
    fails = []
    gdir = os.path.join(VERIF, "gen")
    for g in sorted(glob.glob(os.path.join(gdir, "gen_*.py"))):
        rc, out, err = sh([sys.executable, g], timeout=300)
        if rc != 0:
            fails.append((os.path.basename(g), (out + err)[-3000:]))
            log("generator %s FAILED: %s" % (os.path.basename(g), (out + err)[-500:]))
    return fails


def write_if_changed(path, text):
    try:
        if open(path).read() == text:
            return False
    except OSError:
        pass
    os.makedirs(os.path.dirname(path), exist_ok=True)
    with open(path, "w") as f:
        f.write(text)
    return True


def ensure_makefile():
    mk = os.path.join(COQ, "Makefile.coq")
    proj = os.path.join(COQ, "_CoqProject")
    # _CoqProject lists every .v under theories (regenerated so that new files are picked up)
    files = sorted(os.path.relpath(p, COQ) for p in glob.glob(os.path.join(TH, "**", "*.v"), recursive=True))
    text = "-Q theories UV\n-arg -w -arg -notation-overridden,-deprecated-hint-without-locality,-deprecated-instance-without-locality\n" + "\n".join(files) + "\n"
    changed = write_if_changed(proj, text)
    if changed or not os.path.exists(mk):
        sh(["coq_makefile", "-f", "_CoqProject", "-o", "Makefile.coq"], cwd=COQ, check=True)


def make(targets, timeout=1500, keep_going=True):
    """targets: list like ['theories/Properties_C20.vo'] or [] for all.  Returns (rc, log)."""
    lk = _lock()
    try:
        ensure_makefile()
        cmd = ["timeout", str(timeout), "make", "-f", "Makefile.coq", "-j16"]
        if keep_going:
            cmd.append("-k")
        cmd += targets
        rc, out, err = sh(cmd, cwd=COQ, timeout=timeout + 30)
        return rc, out + err
    finally:
        lk.close()


def hygiene(paths=None):
    """forbidden constructs anywhere in the development (comments are stripped first)"""
    bad = []
    for p in paths or glob.glob(os.path.join(TH, "**", "*.v"), recursive=True):
        src = open(p).read()
        src = re.sub(r"\(\*.*?\*\)", " ", src, flags=re.S)
        for m in FORBIDDEN.finditer(src):
            bad.append("%s: %s" % (os.path.relpath(p, COQ), m.group(0)))
    return bad


def theorems_in(path):
    src = open(path).read()
    src = re.sub(r"\(\*.*?\*\)", " ", src, flags=re.S)
    return re.findall(r"^\s*(?:Theorem|Lemma|Example|Corollary)\s+([A-Za-z0-9_']+)", src, flags=re.M)


def coqc(vfile, cwd=None, timeout=600, extra=()):
    cmd = ["timeout", str(timeout), "coqc", "-Q", TH, "UV", "-w", "-notation-overridden"] + list(extra) + [vfile]
    # big list literals in generated cases files make coqc recurse deeply: lift the stack limit for this process
    cmd = ["bash", "-c", 'ulimit -s unlimited 2>/dev/null || ulimit -s 4000000 2>/dev/null; exec "$@"', "--"] + cmd
    return sh(cmd, cwd=cwd, timeout=timeout + 30)


def parse_assumptions(out):
    """split coqc output of a Properties file into {theorem: assumptions text}"""
    res = {}
    # We emit `Print Assumptions name.` right after each theorem; coqc prints either
    # "Closed under the global context" or "Axioms:\n ..." in order.
    blocks = re.split(r"(?m)^(?=Closed under the global context|Axioms:)", out)
    return [b.strip() for b in blocks if b.strip().startswith(("Closed under", "Axioms:"))]


GEN_OUTPUT = {"gen_consts.py": "Gen/Consts", "gen_stubs.py": "Gen/Stubs", "gen_kernels.py": "Gen/Kernels",
              "gen_c12.py": "Gen/C12Consts", "gen_c17.py": "Gen/C17Consts", "gen_timeunit.py": "Gen/TimeUnit"}


def coq_deps(files):
    """transitive closure of `Require ... UV.X.Y` from the given theory files (paths relative to theories/, no .v)"""
    seen, todo = set(), list(files)
    while todo:
        f = todo.pop()
        if f in seen:
            continue
        seen.add(f)
        try:
            text = re.sub(r"\(\*.*?\*\)", " ", open(os.path.join(TH, f + ".v")).read(), flags=re.S)
        except OSError:
            continue
        for m in re.finditer(r"UV\.([A-Za-z0-9_.]+)", text):
            todo.append(m.group(1).rstrip(".").replace(".", "/"))
    return seen


def prove(ctx, pid, extra_files=()):
    """Full proof step for property `pid`:
       regenerate Gen, build Properties_<pid>.vo and deps, hygiene, Print Assumptions.
       Updates ctx.obligations / discharged / theorems; calls ctx.broken on failure.
       Returns True when every obligation checked."""
    t0 = time.time()
    fails = regenerate(ctx.log)
    # a translator that no longer understands /repo's source breaks the tie of the properties whose development
    # uses its output (their generated file is stale); the others are not affected by it
    deps = coq_deps(["Properties_%s" % pid] + list(extra_files))
    mine = [(n, m) for n, m in fails if GEN_OUTPUT.get(n, "?") in deps or n not in GEN_OUTPUT]
    for name, msg in fails:
        if (name, msg) not in mine:
            ctx.log("translator %s failed, but %s does not use its output (not counted for this property)" % (name, pid))
    fails = mine
    for name, msg in fails:
        ctx.broken("translator %s failed on /repo's current source" % name, msg)
    prop_file = os.path.join(TH, "Properties_%s.v" % pid)
    names = theorems_in(prop_file)
    ctx.obligations += len(names)
    ctx.theorems += names
    target = "theories/Properties_%s.vo" % pid
    rc, log = make([target] + ["theories/%s.vo" % f for f in extra_files])
    ok = (rc == 0) and not fails
    if rc != 0:
        # which file failed?
        m = re.findall(r"(?m)^File \"([^\"]+)\", line (\d+).*?\n(?:.*\n){0,8}?Error:?(.*)", log)
        ctx.broken("Coq build of Properties_%s failed (a proof obligation no longer checks)" % pid,
                   log[-3000:])
    bad = hygiene()
    if bad:
        ok = False
        ctx.broken("forbidden construct in the Coq development: " + "; ".join(bad[:5]))
    if rc == 0:
        rc2, out, err = coqc(prop_file, cwd=COQ)
        if rc2 != 0:
            ok = False
            ctx.broken("re-check of Properties_%s.v failed" % pid, (out + err)[-3000:])
        else:
            blocks = parse_assumptions(out)
            for i, nme in enumerate(names):
                ctx.assumptions_text[nme] = blocks[i] if i < len(blocks) else "(not printed)"
            if ok:
                ctx.discharged += len(names)
    ctx.checker_cmd = ("cd /verif/coq && make -f Makefile.coq theories/Properties_%s.vo && "
                       "coqc -Q theories UV theories/Properties_%s.v  (Coq 8.16.1 kernel; full .vo build)" % (pid, pid))
    ctx.log("proof step: %d/%d obligations in %.1fs" % (ctx.discharged, ctx.obligations, time.time() - t0))
    return ok


# ------------------------------------------------------------------ cases.v evaluation
def zlit(n):
    return "(%d)" % n if n < 0 else "%d" % n


def coq_list(items):
    return "[" + "; ".join(items) + "]"


def coq_bool(b):
    return "true" if b else "false"


def coq_string(s):
    """Coq string literal from bytes/str (only printable ASCII kept literal)"""
    if isinstance(s, str):
        s = s.encode()
    return coq_list(["%d" % b for b in s])


def run_cases(ctx, name, preamble, defs, evals, timeout=900):
    """Write a cases file and evaluate it.
       preamble: Require lines; defs: Coq text defining the cases;
       evals: list of (label, term) — each term must evaluate to a `list nat` (indices) or bool/N.
       Returns dict label -> raw printed value text, or None if coqc failed (ctx.broken called)."""
    path = os.path.join(ctx.scratch, "%s.v" % name)
    with open(path, "w") as f:
        f.write(preamble + "\n" + defs + "\n")
        for label, term in evals:
            f.write('Eval vm_compute in (%s).\n' % term)
    rc, out, err = coqc(path, cwd=ctx.scratch, timeout=timeout)
    if rc != 0:
        ctx.broken("model evaluation %s failed to compile/run (model no longer builds?)" % name, (out + err)[-3000:])
        return None
    vals = re.findall(r"(?s)\s*= (.*?)\n\s*: [^\n]*(?:\n|$)", out)
    # the type annotation may be wrapped over lines; be lenient
    if len(vals) != len(evals):
        vals = [v.strip() for v in re.split(r"(?m)^\s*=\s", out)[1:]]
        vals = [re.sub(r"(?s)\n\s*:\s.*$", "", v) for v in vals]
    res = {}
    for (label, _), v in zip(evals, vals):
        res[label] = " ".join(v.split())
    return res


def parse_nat_list(txt):
    txt = txt.strip()
    if txt in ("[]", "nil"):
        return []
    inner = txt.strip("[]")
    return [int(re.sub(r"%\w+", "", x).strip()) for x in inner.split(";") if x.strip()]
