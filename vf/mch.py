"""Driver for harness/c/mc_harness.c: the real libmcount driven in-process (see the C file)."""
import glob
import os
import shutil
import subprocess

from . import build
from .core import VERIF, sh

SRC = os.path.join(VERIF, "harness/c/mc_harness.c")


class Harness:
    def __init__(self, ctx, variant="", kind="plain"):
        self.ctx = ctx
        self.objdir = build.get_build(kind, ctx.log)
        self.exe = os.path.join(ctx.scratch, "mc_harness%s" % variant)
        extra = ["-DLIBMCOUNT"]
        if "fast" in variant:
            extra.append("-DDISABLE_MCOUNT_FILTER")
        if "single" in variant:
            extra.append("-DSINGLE_THREAD")
        if not os.path.exists(self.exe):
            build.cc([SRC] + build.libmcount_objs(self.objdir, variant), self.exe, self.objdir,
                     extra=build.LINK_LIBS + extra)
        self.n = 0

    def run(self, lines, env=None, timeout=60):
        """run one script; returns the list of output lines (raises on crash/timeout)"""
        self.n += 1
        d = os.path.join(self.ctx.scratch, "mcd%d" % (self.n % 8))
        shutil.rmtree(d, ignore_errors=True)
        os.makedirs(d)
        e = {k: v for k, v in os.environ.items() if not k.startswith("UFTRACE_")}
        e["UFTRACE_DIR"] = d
        e.setdefault("UFTRACE_BUFFER", str(4 << 20))
        e["UFTRACE_PATTERN"] = "simple"
        if env:
            e.update({k: str(v) for k, v in env.items()})
        p = subprocess.run([self.exe], input="\n".join(lines) + "\nQUIT\n", env=e, capture_output=True,
                           text=True, timeout=timeout)
        sid = None
        for f in os.listdir(d):
            if f.startswith("sid-"):
                sid = f[4:20]
        if sid:
            for f in glob.glob("/dev/shm/uftrace-%s-*" % sid):
                try:
                    os.unlink(f)
                except OSError:
                    pass
        if p.returncode != 0:
            raise RuntimeError("mc_harness failed rc=%s stderr=%s" % (p.returncode, p.stderr[-800:]))
        return p.stdout.splitlines(), p.stderr


def parse_records(lines):
    """lines of a DUMP (between the op echo and END) -> list of (time, type, more, magic, depth, addr, payload)"""
    recs = []
    for l in lines:
        if not l.startswith("R "):
            continue
        k = l.split()
        t, ty, more, magic, depth = int(k[1]), int(k[2]), int(k[3]), int(k[4]), int(k[5])
        addr = k[6]
        if addr.startswith("f"):
            fn, off = addr[1:].split("+")
            addr = ("f", int(fn), int(off))
        elif addr.startswith("0x"):
            addr = ("x", int(addr, 16), 0)
        else:
            addr = ("n", int(addr), 0)
        recs.append((t, ty, more, magic, depth, addr, k[7] if len(k) > 7 else ""))
    return recs


def fmt_time(ns):
    """parse_time accepts at most 3 digits before the unit"""
    for unit, f in (("ns", 1), ("us", 1000), ("ms", 10**6), ("s", 10**9)):
        if ns % f == 0 and ns // f < 1000:
            return "%d%s" % (ns // f, unit)
    raise ValueError("time %d not expressible for parse_time" % ns)


def cfg_env(cfg):
    """cfg (see props/c05.py) -> environment for libmcount"""
    env = {}
    pt = cfg.get("pattern", "simple")

    def pat(k):
        return {"simple": "f%d" % k, "regex": "^f%d$" % k, "glob": "f%d" % k}[pt]
    env["UFTRACE_PATTERN"] = pt
    fl = []
    tg = []
    cl = []
    for o in cfg.get("opts") or []:
        # one option per entry, in the order given: -F/-N go to UFTRACE_FILTER, -T to UFTRACE_TRIGGER, -C to UFTRACE_CALLER
        ks = o["ks"]
        if len(ks) == 1:
            p = pat(ks[0])
        elif pt == "regex":
            p = "^f(%s)$" % "|".join(str(k) for k in ks)
        elif pt == "glob":
            p = "f[%s]" % "".join(str(k) for k in ks)        # single-digit function numbers only
        else:
            raise ValueError("a simple pattern matches one function")
        kind = o["kind"]
        if kind in ("F", "N"):
            fl.append(("!" if kind == "N" else "") + p)
        elif kind == "C":
            cl.append(p)
        else:
            acts = []
            for k, v in o["acts"]:
                acts.append({"filter": lambda: "filter" if v else "notrace", "depth": lambda: "depth=%d" % v,
                             "time": lambda: "time=" + fmt_time(v), "size": lambda: "size=%d" % v,
                             "trace_on": lambda: "trace_on", "trace_off": lambda: "trace_off", "trace": lambda: "trace",
                             "caller": lambda: "caller", "finish": lambda: "finish"}[k]())
            tg.append(p + "@" + ",".join(acts))
    for k, tr in sorted(cfg.get("trig", {}).items()):
        acts = []
        if tr.get("filter") is not None:
            # -F f / -N f, or the same thing spelled as a trigger action (-T f@filter / -T f@notrace)
            if tr.get("as_action"):
                acts.append("filter" if tr["filter"] else "notrace")
            else:
                fl.append(("" if tr["filter"] else "!") + pat(k))
        if tr.get("depth") is not None:
            acts.append("depth=%d" % tr["depth"])
        if tr.get("time") is not None:
            acts.append("time=" + fmt_time(tr["time"]))
        if tr.get("size") is not None:
            acts.append("size=%d" % tr["size"])
        if tr.get("trace_on"):
            acts.append("trace_on")
        if tr.get("trace_off"):
            acts.append("trace_off")
        if tr.get("trace"):
            acts.append("trace")
        if tr.get("finish"):
            acts.append("finish")
        if acts:
            tg.append(pat(k) + "@" + ",".join(acts))
        if tr.get("caller"):
            cl.append(pat(k))
    if fl:
        env["UFTRACE_FILTER"] = ";".join(fl)
    if tg:
        env["UFTRACE_TRIGGER"] = ";".join(tg)
    if cl:
        env["UFTRACE_CALLER"] = ";".join(cl)
    if cfg.get("depth") is not None:
        env["UFTRACE_DEPTH"] = cfg["depth"]
    if cfg.get("threshold"):
        env["UFTRACE_THRESHOLD"] = cfg["threshold"]
    if cfg.get("max_stack") is not None:
        env["UFTRACE_MAX_STACK"] = cfg["max_stack"]
    if cfg.get("disable"):
        env["UFTRACE_TRACE_OFF"] = "1"                     # record --disable / --trace=off
    if cfg.get("min_size"):
        env["UFTRACE_MIN_SIZE"] = cfg["min_size"]          # record -Z N
    return env


SIZES = [17 + 8 * (k % 8) for k in range(32)]     # symbol sizes of f0..f31 in mc_harness.c


def addr_canon(addr):
    """harness address tuple -> the model's address space: function k lives at 256*k (the harness passes
    f_k + 4 as child ip, so an untouched address is exactly 256*k; a corrupted one keeps its offset)"""
    if addr[0] == "f":
        return 256 * addr[1] + addr[2] - 4
    return (1 << 50) + addr[1]
