"""Call forests (ground truth of a thread's execution), generators and Coq serialisation,
shared by the libmcount-side properties (C02, C05, C17) and the reader-side ones."""
from . import coq as C


class Call:
    __slots__ = ("k", "t0", "t1", "kids")

    def __init__(self, k, t0=0, t1=0, kids=None):
        self.k, self.t0, self.t1, self.kids = k, t0, t1, kids or []

    def size(self):
        return 1 + sum(c.size() for c in self.kids)

    def height(self):
        return 1 + max([c.height() for c in self.kids] or [0])

    def to_json(self):
        return [self.k, self.t0, self.t1, [c.to_json() for c in self.kids]]

    @staticmethod
    def from_json(j):
        return Call(j[0], j[1], j[2], [Call.from_json(x) for x in j[3]])


def gen_shape(rng, nfun, max_calls, max_depth, wide=3):
    """random call tree shape (no times)"""
    budget = [max_calls]

    def go(d):
        budget[0] -= 1
        c = Call(rng.randrange(nfun))
        if d < max_depth:
            n = rng.choice([0, 0, 1, 1, 2, wide])
            for _ in range(n):
                if budget[0] <= 0:
                    break
                c.kids.append(go(d + 1))
        return c
    out = []
    while budget[0] > 0 and len(out) < 4:
        out.append(go(1))
    return out


def assign_times(rng, forest, t0=1000, durs=(1, 2, 3, 10, 100, 1000), self_durs=None):
    """walk the forest with a clock; leaf durations and gaps drawn from `durs`
    (pass values around the thresholds under test)"""
    clock = [t0]

    def go(c):
        clock[0] += rng.choice((1, 2, 5, 50))
        c.t0 = clock[0]
        if c.kids:
            for k in c.kids:
                go(k)
            clock[0] += rng.choice(self_durs or durs)
        else:
            clock[0] += rng.choice(durs)
        c.t1 = clock[0]
    for c in forest:
        go(c)
    return forest


def walk(forest):
    """every call of the forest, parents first"""
    for c in forest:
        yield c
        yield from walk(c.kids)


def flatten(forest):
    """-> list of ('E', k, t) / ('X', k, t)"""
    ev = []

    def go(c):
        ev.append(("E", c.k, c.t0))
        for k in c.kids:
            go(k)
        ev.append(("X", c.k, c.t1))
    for c in forest:
        go(c)
    return ev


def coq_call(c):
    return "Call %d %d %d [%s]" % (256 * c.k, c.t0, c.t1, "; ".join(coq_call(k) for k in c.kids))


def coq_forest(f):
    return "[%s]" % "; ".join(coq_call(c) for c in f)


def coq_events(evs):
    out = []
    for e in evs:
        if e[0] == "E":
            out.append("Enter %d %d" % (256 * e[1], e[2]))
        elif e[0] == "X":
            out.append("Leave %d" % e[2])
        elif e[0] == "F":
            out.append("ForkChild")
    return "[%s]" % "; ".join(out)


# ---------------------------------------------------------------- mcount cfg <-> Coq
def coq_opt(v):
    return "None" if v is None else "Some %d" % v


def coq_trig(tr):
    f = tr.get("filter")
    return ("{| t_filter := %s; t_depth := %s; t_time := %s; t_size := %s; t_trace_on := %s; t_trace_off := %s; "
            "t_trace := %s; t_caller := %s; t_loc := %s; t_finish := %s |}") % (
        "None" if f is None else ("Some true" if f else "Some false"),
        coq_opt(tr.get("depth")), coq_opt(tr.get("time")), coq_opt(tr.get("size")),
        C.coq_bool(tr.get("trace_on")), C.coq_bool(tr.get("trace_off")), C.coq_bool(tr.get("trace")),
        C.coq_bool(tr.get("caller")),
        "None" if tr.get("loc") is None else ("Some true" if tr["loc"] else "Some false"),
        C.coq_bool(tr.get("finish")))


def coq_act(k, v):
    return {"filter": lambda: "OFilter %s" % C.coq_bool(v), "depth": lambda: "ODepth %d" % v, "time": lambda: "OTime %d" % v,
            "size": lambda: "OSize %d" % v, "trace_on": lambda: "OTraceOn", "trace_off": lambda: "OTraceOff",
            "trace": lambda: "OTrace", "caller": lambda: "OCaller", "loc": lambda: "OLoc %s" % C.coq_bool(v),
            "finish": lambda: "OFinish"}[k]()


def coq_opts(opts):
    """option list (see props/c05.py optcases): [{"ks": [function numbers], "acts": [(name, value), ...]}, ...] in the order
    libmcount sets the options up"""
    return "[%s]" % "; ".join("{| o_match := [%s]; o_acts := [%s] |}" % (
        "; ".join(str(256 * k) for k in o["ks"]), "; ".join(coq_act(k, v) for k, v in o["acts"])) for o in opts)


def coq_cfg(cfg, sizes):
    if cfg.get("opts") is not None:
        # the trigger table and the three counts are computed by the model from the option list (Mcount/Table.v)
        return "(cfg_of_opts %s %d %d %d [%s] %s)" % (
            coq_opts(cfg["opts"]),
            cfg.get("depth") if cfg.get("depth") is not None else 1024,
            cfg.get("threshold") or 0,
            cfg.get("max_stack") if cfg.get("max_stack") is not None else 1024,
            "; ".join("(%d, %d)" % (256 * i, s) for i, s in enumerate(sizes)),
            "CYG" if cfg.get("shape") == "cyg" else "PG")
    trig = cfg.get("trig", {})
    fm = any(t.get("filter") is True for t in trig.values())
    cl = any(t.get("caller") for t in trig.values())
    # location filter (-L): "loc" per function (True: at a location to show, False: at a hidden one); loc_count > 0
    # iff some location is named to be shown
    lm = any(t.get("loc") is True for t in trig.values()) or bool(cfg.get("loc_in"))
    return "(mkcfgL [%s] %s %s %s %d %d %d [%s] %s)" % (
        "; ".join("(%d, %s)" % (256 * k, coq_trig(t)) for k, t in sorted(trig.items())),
        C.coq_bool(fm), C.coq_bool(cl), C.coq_bool(lm),
        cfg.get("depth") if cfg.get("depth") is not None else 1024,
        cfg.get("threshold") or 0,
        cfg.get("max_stack") if cfg.get("max_stack") is not None else 1024,
        "; ".join("(%d, %d)" % (256 * i, s) for i, s in enumerate(sizes)),
        "CYG" if cfg.get("shape") == "cyg" else "PG")
