"""Case generation / execution / Coq serialisation for the libmcount hook automaton
(shared by C02, C05, C17): a case = (cfg, event list) run through harness/c/mc_harness.c."""
from . import coq, forest as F, mch

PRE = """From Coq Require Import NArith ZArith List Bool.
Import ListNotations.
Require Import UV.Gen.Consts UV.Mcount.Model UV.Mcount.Forest UV.Mcount.SelectSpec UV.Mcount.SelectSpec2 UV.Mcount.Check UV.Mcount.Table.
Local Open Scope N_scope.
"""


def script_of(cfg, evs):
    lines = ["AUTOSTATE 1"]
    for e in evs:
        if e[0] == "F":
            lines.append("FORK")
        elif cfg.get("shape") == "cyg":
            lines.append("CE %d %d" % (e[1], e[2]) if e[0] == "E" else "CX %d %d" % (e[1], e[2]))
        else:
            lines.append("E %d %d" % (e[1], e[2]) if e[0] == "E" else "X %d" % e[2])
    lines.append("DUMP")
    return lines


def run_case(h, cfg, evs, env_extra=None):
    """-> dict(states=[tuple...], recs=[(time,type,magic,depth,addr)], raw=out lines, ok flags)"""
    env = mch.cfg_env(cfg)
    if env_extra:
        env.update(env_extra)
    out, err = h.run(script_of(cfg, evs), env, timeout=120)
    # after a FORK the child re-prints nothing of the parent: states before the fork come from the
    # parent process (same stdout), records dumped are the child's
    states = []
    for l in out:
        if l.startswith("S "):
            k = l.split()
            states.append((int(k[1]), int(k[2]), int(k[3]), int(k[4]), int(k[5]), int(k[6]), int(k[7]), int(k[8]),
                           k[9] == "1"))
    recs = []
    for (t, ty, more, magic, depth, addr, pl) in mch.parse_records(out):
        recs.append((t, ty, magic, depth, mch.addr_canon(addr)))
    errno_ok = all(l.split()[-1] == "1" for l in out if l[:2] in ("E ", "X ", "CE", "CX") and len(l.split()) >= 2)
    slots = [l.split()[1] for l in out if l.startswith("X ")]
    return {"states": states, "recs": recs, "out": out, "err": err, "errno_ok": errno_ok, "slots": slots}


def coq_states(states):
    return "[%s]" % "; ".join("(%s%%Z, %s%%Z, %d, %d, %d, %d, %d, %d, %s)" % (
        coq.zlit(s[0]), coq.zlit(s[1]), s[2], s[3], s[4], s[5], s[6], s[7], coq.coq_bool(s[8])) for s in states)


def coq_recs(recs):
    return "[%s]" % "; ".join("(%d, %d, %d, %d, %d)" % r for r in recs)


def n_events_with_state(evs):
    return sum(1 for e in evs if e[0] != "F")


def case_term(cfg, evs, res):
    return "(%s, %s, %s, %s)" % (F.coq_cfg(cfg, mch.SIZES), F.coq_events(evs), coq_states(res["states"]),
                                 coq_recs(res["recs"]))
