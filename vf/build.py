"""Scratch out-of-tree builds of /repo's CURRENT working tree.

Builds are keyed by a content hash of every source file of the working tree
(tracked and untracked, not ignored), so a check always runs against what the
tree says now; an unchanged tree re-uses the build made by an earlier check
(under /verif/.cache, never under /tmp).  Only the newest build per kind is kept.
"""
import fcntl
import hashlib
import os
import shutil
import subprocess
import time

from .core import REPO, VERIF, sh

CACHE = os.path.join(VERIF, ".cache")
GUARD = "UFTRACE_VERIF"
SRC_EXT = (".c", ".h", ".S", ".py", ".lds", ".cc", ".cpp", ".in", ".mk")


def tree_hash():
    rc, out, _ = sh(["git", "-C", REPO, "ls-files", "-co", "--exclude-standard", "-z"], check=True)
    h = hashlib.sha256()
    for p in sorted(out.split("\0")):
        if not p:
            continue
        base = os.path.basename(p)
        if not (p.endswith(SRC_EXT) or base.startswith("Makefile") or base in ("configure", "version.sh")):
            continue
        if p.startswith(("doc/", "tests/")):
            continue
        full = os.path.join(REPO, p)
        try:
            with open(full, "rb") as f:
                data = f.read()
        except OSError:
            continue
        h.update(p.encode() + b"\0" + hashlib.sha256(data).digest())
    return h.hexdigest()[:20]


def _lock(name):
    os.makedirs(CACHE, exist_ok=True)
    f = open(os.path.join(CACHE, name + ".lock"), "w")
    fcntl.flock(f, fcntl.LOCK_EX)
    return f


def get_build(kind="plain", log=print):
    """kind: 'plain' (-O2 -g, -DUFTRACE_VERIF), 'asan' (make ASAN=1), 'nohook' (guard off).
    Returns the object directory (contains uftrace, libmcount/*.so, all *.o/*.op)."""
    th = tree_hash()
    d = os.path.join(CACHE, "build-%s-%s" % (kind, th))
    lk = _lock("build-" + kind)
    try:
        if os.path.exists(os.path.join(d, ".ok")):
            os.utime(os.path.join(d, ".ok"))
            return d
        # keep the few most recently used builds of this kind (other checks, possibly against another
        # tree via VERIF_REPO, may be using them right now); drop older ones
        olds = sorted((e for e in os.listdir(CACHE) if e.startswith("build-%s-" % kind)),
                      key=lambda e: os.path.getmtime(os.path.join(CACHE, e, ".ok"))
                      if os.path.exists(os.path.join(CACHE, e, ".ok")) else 0)
        # never drop a build that was used within the last 45 minutes: a check running right now may be using it
        now = time.time()
        for e in olds[:-3]:
            ok = os.path.join(CACHE, e, ".ok")
            if os.path.exists(ok) and now - os.path.getmtime(ok) < 2700:
                continue
            shutil.rmtree(os.path.join(CACHE, e), ignore_errors=True)
        os.makedirs(d)
        t0 = time.time()
        cflags = "" if kind == "nohook" else "-D" + GUARD
        rc, out, err = sh([os.path.join(REPO, "configure"), "--objdir=" + d, "--cflags=" + cflags],
                          cwd=d, timeout=300)
        if rc != 0:
            raise RuntimeError("configure failed:\n" + out[-3000:] + err[-3000:])
        mk = ["make", "-j16", "V=1"]
        if kind == "asan":
            mk.append("ASAN=1")
        rc, out, err = sh(mk, cwd=d, timeout=900)
        if rc != 0:
            shutil.rmtree(d, ignore_errors=True)
            raise RuntimeError("build of /repo (%s) failed:\n%s\n%s" % (kind, out[-3000:], err[-6000:]))
        open(os.path.join(d, "build.log"), "w").write(out)
        open(os.path.join(d, ".ok"), "w").write(th)
        log("built /repo (%s) in %.1fs -> %s" % (kind, time.time() - t0, d))
        return d
    finally:
        lk.close()


# flags of the repository's own compile lines (taken from `make V=1` of the scratch build)
def cflags(objdir, lib=False):
    fl = ["-std=gnu11", "-D_GNU_SOURCE", "-D" + GUARD, "-iquote", REPO, "-iquote", objdir,
          "-iquote", os.path.join(REPO, "arch/x86_64"), "-D_DEFAULT_SOURCE", "-D_XOPEN_SOURCE=600"]
    # feature macros from .config
    cfg = os.path.join(objdir, ".config")
    if os.path.exists(cfg):
        pass
    fl += _feature_flags(objdir)
    return fl


_feat_cache = {}


def _feature_flags(objdir):
    """extract -DHAVE_* / -I flags the repo's Makefile uses, by asking make for one compile line"""
    if objdir in _feat_cache:
        return _feat_cache[objdir]
    out = open(os.path.join(objdir, "build.log")).read()
    flags = []
    for line in out.splitlines():
        if "cmds/record.c" in line and " -c " in line:
            toks = line.split()
            i = 0
            while i < len(toks):
                t = toks[i]
                if t.startswith("-DHAVE_") or t.startswith("-DLIBPYTHON") or t.startswith("-DINSTALL_LIB_PATH") \
                        or t.startswith("-I/"):
                    flags.append(t.replace("\\'", "").replace("'", "").replace('\\"', '"'))
                i += 1
            break
    _feat_cache[objdir] = flags
    return flags


LIBMCOUNT_OBJS = ("agent dynamic event mcount misc plthook pmu record wrap debug regs rbtree filter demangle "
                  "utils script script-python script-luajit auto-args dwarf hashmap argspec tracefs socket shmem "
                  "symbol-libelf symbol-rawelf symbol").split()
LINK_LIBS = ["-ldl", "-pthread", "-lrt", "-lstdc++", "-lelf", "-ldw", "-ltraceevent"]


def libmcount_objs(objdir, variant=""):
    """object files that make up libmcount{variant}.so (variant: '', '-fast', '-single', '-fast-single')"""
    suf = variant + ".op"
    objs = []
    for o in LIBMCOUNT_OBJS:
        cand = os.path.join(objdir, "libmcount", o + suf)
        if not os.path.exists(cand):
            cand = os.path.join(objdir, "libmcount", o + ".op")
        objs.append(cand)
    objs.append(os.path.join(objdir, "arch/x86_64/mcount-entry.op"))
    return objs


def cc(src_or_args, out, objdir, extra=(), timeout=300):
    """compile+link a harness with the repo's flags"""
    args = ["gcc", "-O1", "-g", "-w"] + cflags(objdir) + list(src_or_args) + ["-o", out] + list(extra)
    rc, o, e = sh(args, timeout=timeout)
    if rc != 0:
        raise RuntimeError("harness compile failed: %s\n%s" % (" ".join(args), e[-6000:]))
    return out


def uf_archive(objdir):
    """static archive of every object of the `uftrace` executable except main's (uftrace.o);
    a harness linked against it pulls in only what it references."""
    import glob
    a = os.path.join(objdir, "libuf-verif.a")
    if not os.path.exists(a):
        objs = sorted(glob.glob(os.path.join(objdir, "utils/*.o")) + glob.glob(os.path.join(objdir, "cmds/*.o"))
                      + [os.path.join(objdir, "arch/x86_64/uftrace.o")])
        sh(["ar", "rcs", a] + objs, check=True)
    return a


UF_LIBS = ["-ldl", "-pthread", "-lrt", "-lstdc++", "-lelf", "-ldw", "-ltraceevent", "-lm", "-lncursesw", "-ltinfo",
           "-lpython3.11", "-lluajit-5.1"]
