"""Core of the /verif check framework: context, verdict, evidence, known findings.

Every check is `./check Cxx [--tier quick|thorough] [--replay FILE]`.  A property
module (props/cxx.py) gets a Ctx and reports through it:

  ctx.proof(...)            build + re-check the Coq theorems of the property
  ctx.case(...)             count one explored case (with boundary tags)
  ctx.violation(...)        a failing input found on the implementation
  ctx.broken(...)           a proof obligation / correspondence no longer checks
  ctx.known_finding(...)    a listed, still-present genuine defect

The verdict logic of DESIGN.md section 5 lives in Ctx.finish().
"""
import hashlib
import json
import os
import random
import shutil
import subprocess
import sys
import time

VERIF = os.path.dirname(os.path.dirname(os.path.abspath(__file__)))
REPO = os.environ.get("VERIF_REPO", "/repo")
DEFAULT_SEED = 20260930


def sh(cmd, timeout=600, cwd=None, env=None, input=None, check=False, text=True):
    """Run a command (list or shell string); return (rc, stdout, stderr).  rc=124 on timeout."""
    shell = isinstance(cmd, str)
    e = dict(os.environ)
    if env:
        e.update(env)
    try:
        # a transient shortage of process slots / memory in the sandbox (fork: EAGAIN, ENOMEM) says nothing about the
        # code under test: wait and try again; the same for `timeout` itself failing to start its command (exit 125)
        for attempt in range(6):
            try:
                p = subprocess.run(cmd, shell=shell, cwd=cwd, env=e, input=input,
                                   stdout=subprocess.PIPE, stderr=subprocess.PIPE,
                                   timeout=timeout, text=text, errors="replace" if text else None)
            except (BlockingIOError, MemoryError):
                if attempt == 5:
                    raise
                time.sleep(2 + 3 * attempt)
                continue
            if (p.returncode == 125 and not shell and cmd and os.path.basename(str(cmd[0])) == "timeout"
                    and attempt < 5):
                time.sleep(2 + 3 * attempt)
                continue
            break
        rc, out, err = p.returncode, p.stdout, p.stderr
    except subprocess.TimeoutExpired as ex:
        rc = 124
        out = ex.stdout or ("" if text else b"")
        err = ex.stderr or ("" if text else b"")
        if text and isinstance(out, bytes):
            out = out.decode(errors="replace")
        if text and isinstance(err, bytes):
            err = err.decode(errors="replace")
    if check and rc != 0:
        raise RuntimeError("command failed (%d): %s\n%s\n%s" % (rc, cmd, out[-2000:], err[-2000:]))
    return rc, out, err


class KnownFindings:
    """known-findings.txt: committed, never written at run time.

    finding: property=C02 key=<key> <what fails>
    fixed: property=C20 <commit> <what failed>
    """

    def __init__(self, path=None):
        self.path = path or os.path.join(VERIF, "known-findings.txt")
        self.findings = {}   # (prop, key) -> text
        self.fixed = []
        if os.path.exists(self.path):
            for line in open(self.path):
                line = line.strip()
                if not line or line.startswith("#"):
                    continue
                if line.startswith("finding:"):
                    parts = line[len("finding:"):].split()
                    kv = dict(p.split("=", 1) for p in parts[:2])
                    self.findings[(kv["property"], kv["key"])] = " ".join(parts[2:])
                elif line.startswith("fixed:"):
                    self.fixed.append(line)

    def listed(self, prop, key):
        return (prop, key) in self.findings

    def text(self, prop, key):
        return self.findings.get((prop, key), "")


class Ctx:
    def __init__(self, prop, tier="quick", seed=None):
        self.prop = prop
        self.tier = tier
        self.seed = DEFAULT_SEED if seed is None else int(seed)
        self.rng = random.Random(self.seed)
        self.t0 = time.time()
        self.scratch = "/var/tmp/verif.%d.%s" % (os.getpid(), prop)
        os.makedirs(self.scratch, exist_ok=True)
        self.kf = KnownFindings()
        self.violations = []        # dicts {kind, replay_path, found_input}
        self.brokens = []           # dicts {what, detail}
        self.known_printed = []
        self.evaluations = 0
        self.distinct = set()
        self.nontrivial = set()
        self.boundary = {}
        self.samples = []
        self.hist = {}
        self.obligations = 0
        self.discharged = 0
        self.theorems = []
        self.assumptions_text = {}
        self.checker_cmd = ""
        self.trusted = []
        self.assume = []
        self.extra = {}
        self.rule = ""
        self.impl_validated = 0
        self.log_lines = []
        os.makedirs(os.path.join(VERIF, "evidence"), exist_ok=True)
        os.makedirs(os.path.join(VERIF, "replays"), exist_ok=True)

    # ---------------------------------------------------------------- utils
    def log(self, *a):
        s = " ".join(str(x) for x in a)
        self.log_lines.append(s)
        print("[%s %6.1fs] %s" % (self.prop, time.time() - self.t0, s), flush=True)

    def thorough(self):
        return self.tier == "thorough"

    def n(self, quick, thorough):
        """case-count helper"""
        return thorough if self.thorough() else quick

    def subseed(self, k):
        return int(hashlib.sha256(("%d/%s" % (self.seed, k)).encode()).hexdigest()[:12], 16)

    # ---------------------------------------------------------------- cases
    def case(self, key=None, nontrivial=True, tags=(), sample=None, size=None, validated=True):
        """count one explored case.  key: canonical hashable description (for distinct count)."""
        self.evaluations += 1
        if validated:
            self.impl_validated += 1
        if key is not None:
            h = hashlib.sha1(repr(key).encode()).hexdigest()[:16]
            self.distinct.add(h)
            if nontrivial:
                self.nontrivial.add(h)
        for t in tags:
            self.boundary[t] = self.boundary.get(t, 0) + 1
        if size is not None:
            b = 0
            while (1 << b) <= size:
                b += 1
            lab = "<2^%d" % b
            self.hist[lab] = self.hist.get(lab, 0) + 1
        if sample is not None and len(self.samples) < 6:
            self.samples.append(sample)

    def tag(self, t, n=1):
        self.boundary[t] = self.boundary.get(t, 0) + n

    # ---------------------------------------------------------------- verdict pieces
    def write_replay(self, obj, name=None):
        obj = dict(obj)
        obj.setdefault("property", self.prop)
        obj.setdefault("seed", self.seed)
        obj.setdefault("tier", self.tier)
        obj.setdefault("how_to_run", "./check %s --replay <this file>" % self.prop)
        blob = json.dumps(obj, indent=1, sort_keys=True, default=str)
        if name is None:
            name = hashlib.sha1(blob.encode()).hexdigest()[:12]
        path = os.path.join(VERIF, "replays", "%s-%s.json" % (self.prop, name))
        with open(path, "w") as f:
            f.write(blob + "\n")
        return path

    def violation(self, what, replay, found_input=True, name=None):
        """replay: JSON-able object describing the failing case (or what no longer checks)."""
        r = dict(replay)
        r["what"] = what
        r["failing_input_found"] = bool(found_input)
        path = self.write_replay(r, name)
        self.violations.append({"what": what, "replay": path, "found_input": bool(found_input)})
        self.log("VIOLATION candidate:", what, "->", path)

    def broken(self, what, detail=""):
        """a proof obligation or correspondence stopped checking (no failing input yet)."""
        self.brokens.append({"what": what, "detail": detail[-4000:]})
        self.log("BROKEN:", what)

    def known_finding(self, key, what, still_fails=True, replay=None):
        """A witness of a listed defect was replayed.  still_fails: implementation still shows it."""
        if not still_fails:
            self.log("known finding %s no longer reproduces (not an error)" % key)
            return
        if self.kf.listed(self.prop, key):
            line = "KNOWN-FINDING: property=%s %s" % (self.prop, self.kf.text(self.prop, key) or what)
            print(line, flush=True)
            self.known_printed.append(key)
        else:
            self.violation("unlisted defect (%s): %s" % (key, what), replay or {"key": key}, True)

    # ---------------------------------------------------------------- finish
    def finish(self):
        wall = time.time() - self.t0
        # A broken obligation / correspondence without a failing input still is a violation.
        nviol = 0
        out_lines = []
        found = [v for v in self.violations if v["found_input"]]
        notfound = [v for v in self.violations if not v["found_input"]]
        for v in found:
            nviol += 1
            if nviol <= 5:      # a few replays are enough; the count goes into the evidence
                out_lines.append("VIOLATION property=%s replay=%s" % (self.prop, v["replay"]))
        if not found:
            for v in notfound:
                out_lines.append("VIOLATION property=%s replay=%s no-failing-input-found" % (self.prop, v["replay"]))
                nviol += 1
            if self.brokens:
                path = self.write_replay({"broken": self.brokens,
                                          "explanation": "these proof obligations / correspondences no longer "
                                          "check against /repo's current source; the directed search found no "
                                          "input on which the property itself fails"}, "broken")
                out_lines.append("VIOLATION property=%s replay=%s no-failing-input-found" % (self.prop, path))
                nviol += 1
        cov = {
            "obligations": self.obligations,
            "discharged": self.discharged,
            "checker_cmd": self.checker_cmd or ("./check %s --tier %s" % (self.prop, self.tier)),
            "trusted_base": self.trusted,
            "theorems": self.theorems,
            "print_assumptions": self.assumptions_text,
            "evaluations": self.evaluations,
            "distinct_nontrivial": len(self.nontrivial),
            "distinct": len(self.distinct),
            "traces_validated_against_impl": self.impl_validated,
            "rule": self.rule,
            "samples": self.samples if self.samples else ["(no generated cases in this run)"],
            "boundary_hits": self.boundary,
            "size_histogram": self.hist,
            "known_findings_reproduced": self.known_printed,
            "broken": self.brokens,
        }
        cov.update(self.extra)
        ev = {
            "property_id": self.prop,
            "tier": self.tier,
            "seed": self.seed,
            "level": "proof",
            "coverage": cov,
            "assumptions": self.assume,
            "wall_s": round(wall, 2),
            "violations": nviol,
        }
        # evidence/<id>.json describes runs against /repo itself; a run against another tree
        # (VERIF_REPO=..., used to try seeded changes) must not overwrite it
        evdir = os.environ.get("VERIF_EVIDENCE_DIR") or (
            os.path.join(VERIF, "evidence") if REPO == "/repo" else os.path.join(VERIF, ".cache", "evidence-other-tree"))
        os.makedirs(evdir, exist_ok=True)
        path = os.path.join(evdir, "%s.json" % self.prop)
        with open(path, "w") as f:
            json.dump(ev, f, indent=1, sort_keys=True, default=str)
            f.write("\n")
        shutil.rmtree(self.scratch, ignore_errors=True)
        for l in out_lines:
            print(l, flush=True)
        self.log("done: %d evaluations, %d/%d obligations, %d violation line(s), %.1fs"
                 % (self.evaluations, self.discharged, self.obligations, nviol, wall))
        return 1 if nviol else 0
