"""Synthetic uftrace data directories written from a description (the *model's* encoder side of the
reader-side properties C06/C07/C08/C10/C12/C15/C18) and a runner for the analysis commands.

A description is a dict:
  {
    "syms":   [(addr, size, type_char, name), ...]       # relative to the module start
    "base":   0x400000,                                   # load address of the (single) module
    "tasks":  [ {"tid": 100, "pid": 100, "ppid": None, "recs": [rec, ...]}, ... ]
    "cmdline": "prog arg", "exename": "/fake/prog",
    "max_stack": 1024,
  }
  rec = {"t": time_ns, "type": 0|1|2|3, "depth": d, "addr": absolute_addr_or_event_id,
         "more": 0|1, "payload": bytes}      (payload already in on-disk form, see encode_args)
  optional: "perf": {cpu: [(time, tid, "out"|"preempt"|"in"), ...]}  perf-cpuN.dat context-switch events (FEAT_PERF_EVENT)
  optional: "cpuinfo": "Intel ..."  adds the cpuinfo lines (readers derive the architecture from them)
            "pattern_type": "regex"  adds the pattern_type line (readers match argspec names with it)
"""
import os
import struct
import subprocess

from .core import sh

MAGIC = b"Ftrace!\0"
ENTRY, EXIT, LOST, EVENT = 0, 1, 2, 3
RECORD_MAGIC = 5

# enum uftrace_feat_bits / uftrace_info_bits (uftrace.h); checked against the headers by gen_consts
FEAT_PLTHOOK, FEAT_TASK_SESSION, FEAT_KERNEL, FEAT_ARGUMENT, FEAT_RETVAL, FEAT_SYM_REL_ADDR, FEAT_MAX_STACK = (
    1 << 0, 1 << 1, 1 << 2, 1 << 3, 1 << 4, 1 << 5, 1 << 6)
FEAT_EVENT, FEAT_PERF_EVENT, FEAT_AUTO_ARGS, FEAT_DEBUG_INFO = 1 << 7, 1 << 8, 1 << 9, 1 << 10
INFO_EXE_NAME, INFO_EXE_BUILD_ID, INFO_EXIT_STATUS, INFO_CMDLINE, INFO_CPUINFO, INFO_MEMINFO, INFO_OSINFO, INFO_TASKINFO = (
    1 << 0, 1 << 1, 1 << 2, 1 << 3, 1 << 4, 1 << 5, 1 << 6, 1 << 7)
INFO_USAGEINFO, INFO_LOADINFO, INFO_ARG_SPEC, INFO_RECORD_DATE, INFO_PATTERN_TYPE, INFO_VERSION = (
    1 << 8, 1 << 9, 1 << 10, 1 << 11, 1 << 12, 1 << 13)


def pack_rec(t, ty, depth, addr, more=0):
    w = (ty & 3) | ((more & 1) << 2) | (RECORD_MAGIC << 3) | ((depth & 0x3ff) << 6) | ((addr & ((1 << 48) - 1)) << 16)
    return struct.pack("<QQ", t, w)


def encode_task(recs):
    out = bytearray()
    for r in recs:
        pl = r.get("payload", b"")
        more = 1 if pl else r.get("more", 0)
        out += pack_rec(r["t"], r["type"], r.get("depth", 0), r["addr"], more)
        if pl:
            out += pl
            if len(pl) % 8:
                out += b"\0" * (8 - len(pl) % 8)
    return bytes(out)


def recs_of_forest(forest, addr_of, depth0=0):
    """forest of vf.forest.Call -> record dicts (ENTRY/EXIT) with absolute addresses"""
    out = []

    def go(c, d):
        out.append({"t": c.t0, "type": ENTRY, "depth": d, "addr": addr_of(c.k)})
        for k in c.kids:
            go(k, d + 1)
        if c.t1 is not None:
            out.append({"t": c.t1, "type": EXIT, "depth": d, "addr": addr_of(c.k)})
    for c in forest:
        go(c, depth0)
    return out


def default_syms(n=8, names=None):
    names = names or ["main", "alpha", "beta", "gamma", "delta", "eps", "zeta", "eta", "theta", "iota", "kappa",
                      "lam", "mu", "nu", "xi", "omi"]
    return [(0x1000 + 0x100 * i, 0x80, "T", names[i % len(names)] + ("" if i < len(names) else str(i))) for i in range(n)]


def write(desc, d, with_cmdline=True, argspec=None, extra_info=None):
    os.makedirs(d, exist_ok=True)
    tasks = desc["tasks"]
    base = desc.get("base", 0x400000)
    exename = desc.get("exename", "/fake/prog")
    sid = desc.get("sid", "a1b2c3d4e5f60718")
    feat = FEAT_TASK_SESSION | FEAT_SYM_REL_ADDR | FEAT_MAX_STACK
    if desc.get("args"):
        feat |= FEAT_ARGUMENT | FEAT_RETVAL
    if desc.get("events"):
        feat |= FEAT_EVENT
    if desc.get("perf"):
        feat |= FEAT_PERF_EVENT
    info_mask = INFO_EXE_NAME | INFO_EXIT_STATUS | INFO_TASKINFO
    lines = [b"exename:" + exename.encode(), b"exit_status:0"]
    if with_cmdline:
        info_mask |= INFO_CMDLINE
        cl = desc.get("cmdline", "uftrace record prog")
        lines.append(b"cmdline:" + (cl if isinstance(cl, bytes) else cl.encode()))
    if desc.get("cpuinfo"):
        # the readers take the CPU architecture (register names in arg specs) from the cpuinfo description
        info_mask |= INFO_CPUINFO
        lines += [b"cpuinfo:lines=2", b"cpuinfo:nr_cpus=1 / 1 (online/possible)",
                  b"cpuinfo:desc=" + desc["cpuinfo"].encode()]
    tids = [t["tid"] for t in tasks]
    lines += [b"taskinfo:lines=2", ("taskinfo:nr_tid=%d" % len(tids)).encode(),
              ("taskinfo:tids=%s" % ",".join(map(str, tids))).encode()]
    if argspec:
        info_mask |= INFO_ARG_SPEC
        # argspec: dict with 'argspec', 'retspec' strings (as record writes them)
        n = 2 + (1 if argspec.get("argauto") is not None else 0) + (1 if argspec.get("retauto") is not None else 0) \
            + (1 if argspec.get("enumauto") is not None else 0)
        lines.append(("argspec:lines=%d" % 2).encode())
        lines.append(("argspec:%s" % argspec.get("argspec", "")).encode())
        lines.append(("retspec:%s" % argspec.get("retspec", "")).encode())
    if desc.get("pattern_type"):
        # how the readers match the names in the argspec lines ("regex": a plain name is still an exact match)
        info_mask |= INFO_PATTERN_TYPE
        lines.append(("pattern_type:%s" % desc["pattern_type"]).encode())
    # info lines must follow the bit order of the mask: EXE_NAME, EXIT_STATUS, CMDLINE, TASKINFO, ARG_SPEC
    hdr = MAGIC + struct.pack("<IHBBQQHHI", 4, 40, 1, 2, feat, info_mask, desc.get("max_stack", 1024), 0, 0)
    with open(os.path.join(d, "info"), "wb") as f:
        f.write(hdr + b"\n".join(lines) + b"\n")
    with open(os.path.join(d, "task.txt"), "w") as f:
        first = tasks[0]
        f.write('SESS timestamp=0.000000100 pid=%d sid=%s exename="%s"\n' % (first["pid"], sid, exename))
        for t in tasks:
            ts = t.get("start", 200)
            if t.get("ppid") is not None:
                f.write("FORK timestamp=%d.%09d pid=%d ppid=%d\n" % (ts // 10**9, ts % 10**9, t["tid"], t["ppid"]))
            else:
                f.write("TASK timestamp=%d.%09d tid=%d pid=%d\n" % (ts // 10**9, ts % 10**9, t["tid"], t["pid"]))
    with open(os.path.join(d, "sid-%s.map" % sid), "w") as f:
        f.write("%x-%x r-xp 00000000 08:01 1234                       %s\n" % (base, base + 0x100000, exename))
        f.write("7ffc00000000-7ffc00021000 rw-p 00000000 00:00 0                          [stack]\n")
    syms = desc.get("syms") or default_syms()
    with open(os.path.join(d, os.path.basename(exename) + ".sym"), "wb") as f:
        f.write(("# symbols: %d\n# path name: %s\n" % (len(syms), exename)).encode())
        for a, s, t, n in syms:
            f.write(("%016x %08x %s " % (a, s, t)).encode() + (n if isinstance(n, bytes) else n.encode()) + b"\n")
    # perf context-switch events: {cpu: [(time, tid, "out" | "preempt" | "in"), ...]} -> perf-cpuN.dat
    # (PERF_RECORD_SWITCH = 14 with sample_id {pid, tid, time}; misc 0x2000 = switch out, 0x4000 = preempted)
    for cpu, evs in (desc.get("perf") or {}).items():
        with open(os.path.join(d, "perf-cpu%d.dat" % int(cpu)), "wb") as f:
            for tm, tid, kind in evs:
                misc = {"in": 0, "out": 0x2000, "preempt": 0x2000 | 0x4000}[kind]
                f.write(struct.pack("<IHHIIQ", 14, misc, 24, tid, tid, tm))
    for t in tasks:
        data = t.get("raw")
        if data is None:
            data = encode_task(t["recs"])
        with open(os.path.join(d, "%d.dat" % t["tid"]), "wb") as f:
            f.write(data)
    return d


def uftrace(objdir, cmd, d, args=(), timeout=60, env=None):
    """run an analysis command of the scratch-built uftrace on data directory d.
    returns (rc, stdout, stderr)"""
    exe = os.path.join(objdir, "uftrace")
    c = ["timeout", str(timeout), exe] + (cmd if isinstance(cmd, list) else [cmd]) + ["--no-pager", "-d", d] + list(args)
    e = {"PYTHONPATH": os.path.join(objdir, "python")}
    if env:
        e.update(env)
    return sh(c, timeout=timeout + 10, env=e)
