(* Property C03 - No record is lost, duplicated or torn between tracee and recorder.
   Only statements, each closed by [exact].  The model (UV.C03.Model) is an interleaving transition
   system of libmcount/record.c (producer ring) and cmds/record.c (FIFO reader, N writer threads,
   stop / flush); `reach c nw s` = s is reachable from the initial state with nw writer threads and
   buffer capacity `maxsize c`, by ANY sequence of steps (any number of threads, any schedule, any
   sequence of allocation failures). *)
From Coq Require Import NArith Arith List Bool.
Import ListNotations.
Require Import UV.C03.Model UV.C03.Inv UV.C03.Proofs UV.C03.Lost UV.C03.Fits UV.C03.Progress UV.C03.Kick UV.C03.Shrink UV.C03.Exec.

(* The invariant (UV.C03.Inv.Inv) holds in every reachable state:  for every thread t
     file t ++ contents of (writer's head ++ writer's bufs ++ t's part of buf_write_list ++
                            buffers announced by pending REC_END ++ current buffer) = emitted t,
   in exactly this order; no buffer occurs twice; every such buffer carries RECORDING and exists;
   idle writers hold nothing; a registered writer holds only buffers of its thread and then
   buf_write_list has none of that thread; registered tids are pairwise distinct; "file written, flag
   not yet released" implies the buffer's size is already 0; shmem_list mirrors the FIFO;
   lost count + LOST messages in flight = sum of the markers. *)
Theorem C03_inv : forall c nw s, reach c nw s -> Inv s.
Proof. exact inv_reachable. Qed.
Print Assumptions C03_inv.

(* After the tracee is gone, the FIFO drained, the writers joined and flush_shmem_list /
   record_remaining_buffer done: <tid>.dat is record for record and byte for byte what the thread put
   into its buffers - nothing lost, nothing twice, nothing reordered, nothing foreign. *)
Theorem C03_final : forall c nw s, reach c nw s -> finished s = true ->
  forall t, file s t = emitted s t /\ bytes_of (file s t) = bytes_of (emitted s t).
Proof. exact final_exact. Qed.
Print Assumptions C03_final.

(* ... and that situation can always be reached: from EVERY reachable state (whatever the schedule was, wherever
   the buffers are: FIFO, shmem_list, buf_write_list, a writer's lists, half-way through a write) recorder steps
   alone - drain the FIFO, stop, let the writers run out, join, flush - lead to a finished state in which every
   file is exactly what its thread had emitted.  No reachable state has data stuck anywhere.
   (rl l = l is one of M_msg, W_pick, W_write, W_release, W_splice, M_stop, M_join, M_flush1, M_rem1.) *)
Theorem C03_can_finish : forall c nw s, reach c nw s ->
  exists ls s', Forall rl ls /\ run c s ls = Some s' /\ finished s' = true /\
                forall t, file s' t = emitted s t /\ bytes_of (file s' t) = bytes_of (emitted s t).
Proof. exact can_finish. Qed.
Print Assumptions C03_can_finish.

(* No lost wake-up: while the recorder runs (before stop_all_writers) the thread_ctl pipe holds at least one
   kick for every buffer waiting in buf_write_list (copy_to_buffer writes one per buffer it queues, a writer
   that wakes consumes one and takes at least one buffer if any waits) ... *)
Theorem C03_no_lost_wakeup : forall c nw s, reach c nw s -> stopped s = false -> length (bwl s) <= kicks s.
Proof. exact no_lost_wakeup. Qed.
Print Assumptions C03_no_lost_wakeup.

(* ... so whenever a buffer waits and writer w is idle, w's next round is enabled (its poll returns, before stop
   because a kick is there, after stop by end-of-file), takes the first waiting buffer with every other buffer
   of that thread, and leaves none of that thread behind. *)
Theorem C03_idle_writer_can_pick : forall c nw s w wr b rest, reach c nw s -> joined s = false ->
  nth_error (ws s) w = Some wr -> wtid wr = None -> bwl s = b :: rest ->
  exists s' wr', w_pick s w = Some s' /\ nth_error (ws s') w = Some wr' /\ wtid wr' = Some (fst b) /\
                 whead wr' = of_tid (fst b) (bwl s) /\ of_tid (fst b) (bwl s') = [].
Proof. exact idle_writer_can_pick. Qed.
Print Assumptions C03_idle_writer_can_pick.

Theorem C03_no_lost_wakeup_nonvacuous :
  exists s, run {| maxsize := 16 |} (init 2) kick_trace = Some s /\ bwl s = [(0, 0); (1, 0)] /\ kicks s = 2 /\
  exists s', w_pick s 0 = Some s' /\ bwl s' = [(1, 0)] /\ kicks s' = 1.
Proof. exact kick_run. Qed.
Print Assumptions C03_no_lost_wakeup_nonvacuous.

(* At every moment the file is a prefix of the thread's output that ends at a record boundary. *)
Theorem C03_whole_records : forall c nw s t, reach c nw s ->
  exists k, file s t = firstn k (emitted s t) /\ bytes_of (file s t) = bytes_of (firstn k (emitted s t)).
Proof. exact file_whole_prefix. Qed.
Print Assumptions C03_whole_records.

(* At most one writer thread appends to a given <tid>.dat at any time (what makes the non-atomic
   write_all harmless), and it holds only that thread's buffers. *)
Theorem C03_one_writer_per_thread : forall c nw s, reach c nw s ->
  (forall i j wi wj t, nth_error (ws s) i = Some wi -> nth_error (ws s) j = Some wj ->
     wtid wi = Some t -> wtid wj = Some t -> i = j) /\
  (forall w t, In w (ws s) -> wtid w = Some t ->
     of_tid t (bwl s) = [] /\ forall b, In b (whead w ++ wbufs w) -> fst b = t).
Proof. exact writers_exclusive. Qed.
Print Assumptions C03_one_writer_per_thread.

(* A shm buffer is in at most one place of the hand-off chain, belongs to the thread whose file it
   will reach, exists, and still carries RECORDING (the producer re-uses only buffers without it). *)
Theorem C03_buffers_owned : forall c nw s t, reach c nw s ->
  NoDup (chain s t) /\ forall b, In b (chain s t) -> fst b = t /\ snd b < nbuf s t /\ f_rec (flag s b) = true.
Proof. exact chain_sound. Qed.
Print Assumptions C03_buffers_owned.

(* Records are dropped only by an emit whose new buffer could not be allocated while every buffer of
   the ring was still RECORDING; the record is dropped whole and the thread's output is unchanged. *)
Theorem C03_lost_only_on_alloc_failure : forall c s l s' t, step c s l = Some s' -> dropped s' t <> dropped s t ->
  exists r pad, l = P_emit t r pad false /\ find_free s t = None /\
            dropped s' t = dropped s t ++ [r] /\ emitted s' t = emitted s t.
Proof. exact drop_only_on_alloc_failure. Qed.
Print Assumptions C03_lost_only_on_alloc_failure.

(* The LOST rule holds for every thread in every reachable state ... *)
Theorem C03_lost_marker : forall c nw s t, reach c nw s ->
  well_marked false (plog s t) = true /\
  (pending_after false (plog s t) = true <-> losts s t <> 0%N).
Proof. exact lost_marker_reachable. Qed.
Print Assumptions C03_lost_marker.

(* ... which means: after a dropped record the next thing the thread puts into a buffer is a LOST
   marker with a non-zero count (and only then the surviving record). *)
Theorem C03_lost_marker_meaning : forall p l, well_marked p l = true ->
  forall l1 r ds e l3, l = l1 ++ Drop r :: ds ++ e :: l3 -> Forall is_drop ds -> ~ is_drop e ->
  exists n lr, e = Marker n lr /\ n <> 0%N.
Proof. exact well_marked_meaning. Qed.
Print Assumptions C03_lost_marker_meaning.

(* Every LOST marker is announced by a LOST message; the recorder's count plus the messages still in
   the FIFO is the sum of all markers; after stop the count is complete (then `LOST n records` is printed). *)
Theorem C03_lost_reported : forall c nw s, reach c nw s ->
  (lostcnt s + chan_lost (chan s) = gmark s)%N /\ (stopped s = true -> lostcnt s = gmark s).
Proof. exact lost_count. Qed.
Print Assumptions C03_lost_reported.

(* The count is the code's count (2 per refused allocation + count-1 of record_trace_data), not the
   number of dropped records; and a loss after which the thread never gets a buffer again is reported
   nowhere: witness run ends finished with one record dropped, no marker, shmem_lost_count = 0. *)
Theorem C03_lost_tail_unreported_refuted :
  exists s, run {| maxsize := 16 |} (init 1) tail_loss_trace = Some s /\ finished s = true /\
            dropped s 0 = [r16 3] /\ lostcnt s = 0%N /\ chan s = [] /\
            bytes_of (file s 0) = r16 1 ++ r16 2.
Proof. exact tail_loss_unreported_refuted. Qed.
Print Assumptions C03_lost_tail_unreported_refuted.

(* The "shrink unused buffers" block of get_new_shmem_buffer (nr_buf--, munmap; the next allocation re-creates the
   shm object with O_TRUNC): in every reachable state it gives up only a buffer whose flag is exactly WRITTEN -
   released by the recorder and not taken again - which is in no thread's chain, so nothing pending is forgotten
   (the step itself preserves C03_inv: the shrink is part of P_emit) ... *)
Theorem C03_shrink_only_released : forall c nw s t idx, reach c nw s -> nbuf (shrink s t idx) t <> nbuf s t ->
  nbuf (shrink s t idx) t = nbuf s t - 1 /\ idx + 3 <= nbuf s t /\
  is_wr (flag s (t, nbuf s t - 1)) = true /\ data (shrink s t idx) = data s /\
  forall t', ~ In (t, nbuf s t - 1) (chain s t').
Proof. exact shrink_only_released. Qed.
Print Assumptions C03_shrink_only_released.

Theorem C03_shrink_keeps_chain : forall c nw s t idx t' b, reach c nw s -> In b (chain s t') ->
  snd b < nbuf (shrink s t idx) t'.
Proof. exact shrink_keeps_chain. Qed.
Print Assumptions C03_shrink_keeps_chain.

(* ... and the exact comparison is needed: in the reachable state "ring of 4, buffers 1 2 3 written once, re-used,
   full and waiting for a stalled writer (WRITTEN|RECORDING), buffer 0 released" the code keeps the ring, while
   the test `flag & WRITTEN` would give up buffer 3 whose record has not reached the file. *)
Theorem C03_shrink_loose_refuted :
  exists s, run {| maxsize := 16 |} (init 1) stall_trace = Some s /\
    find_free s 0 = Some 0 /\ nbuf s 0 = 4 /\ nbuf (shrink s 0 0) 0 = 4 /\ nbuf (shrink_loose s 0 0) 0 = 3 /\
    In (0, 3) (chain s 0) /\ data s (0, 3) = [r16 8] /\
    In (0, 1) (chain s 0) /\ In (0, 2) (chain s 0) /\ flag_word (flag s (0, 3)) = 6%N.
Proof. exact shrink_loose_refuted. Qed.
Print Assumptions C03_shrink_loose_refuted.

(* exec: a task may change its libmcount session mid-way (P_exec: same tid, the old image's buffer keeps its
   REC_START without REC_END, the new image announces fresh buffers and then TASK_START).  All theorems above
   quantify over runs containing such steps.  When the recorder reaches that TASK_START, the first entry of
   shmem_list with the tid is exactly the buffer the old image was recording into, and it is next in the task's
   chain (so flush_old_shmem queues it before every buffer of the new session) ... *)
Theorem C03_exec_flushes_old_buffer : forall c nw s b r, reach c nw s -> stopped s = false -> chan s = MExec b :: r ->
  first_tid (fst b) (shl s) = Some b /\ In b (chain s (fst b)).
Proof. exact exec_flushes_old_buffer. Qed.
Print Assumptions C03_exec_flushes_old_buffer.

(* ... non-vacuity: r1, exec, r2, r3 with one-record buffers ends with the file r1 r2 r3 ... *)
Theorem C03_exec_nonvacuous :
  exists s, run {| maxsize := 16 |} (init 1) exec_trace = Some s /\ finished s = true /\
            emitted s 0 = [r16 1; r16 2; r16 3] /\ bytes_of (file s 0) = r16 1 ++ r16 2 ++ r16 3.
Proof. exact exec_run. Qed.
Print Assumptions C03_exec_nonvacuous.

(* ... and a recorder that consumes that TASK_START without flush_old_shmem (seeded change C03-9: it also compared
   the pid, under which a forked child is not listed) writes the same run as r2 r1 r3: complete, but out of order. *)
Theorem C03_exec_noflush_refuted :
  exists s, run_noflush {| maxsize := 16 |} (init 1) exec_trace_noflush = Some s /\ finished s = true /\
            emitted s 0 = [r16 1; r16 2; r16 3] /\ bytes_of (file s 0) = r16 2 ++ r16 1 ++ r16 3.
Proof. exact exec_noflush_refuted. Qed.
Print Assumptions C03_exec_noflush_refuted.

(* No buffer is ever filled beyond its capacity (no write past the shm object, nothing torn), for records of
   any size (argument payloads: the size test counts 16 + argsize, `size` advances by 16 + ALIGN (argsize, 8)),
   provided the capacity is a multiple of 8 and a LOST marker plus any single record fits - the real
   option rounds -b up to a page, records are at most 16+1024 bytes.  reach_small = reachable by steps whose
   records r satisfy 16 + |r| <= maxsize, 8 | |r|, pad < 8. *)
Theorem C03_buffers_fit : forall c nw s, Nat.modulo (maxsize c) 8 = 0 -> reach_small c nw s -> forall b, size s b <= maxsize c.
Proof. exact buffers_fit. Qed.
Print Assumptions C03_buffers_fit.

Theorem C03_buffers_fit_nonvacuous :
  exists s, reach_small {| maxsize := 56 |} 1 s /\ size s (0, 0) = 40 /\ size s (0, 1) = 56 /\ curr s 0 = Some 1.
Proof. exact small_run. Qed.
Print Assumptions C03_buffers_fit_nonvacuous.

(* ... and both hypotheses are needed: get_new_shmem_buffer puts the record behind the LOST marker without
   a second size check (UFTRACE_BUFFER = 32, one record per buffer: 32 bytes in a 16-byte buffer) ... *)
Theorem C03_overflow_without_room_refuted :
  exists s, run {| maxsize := 16 |} (init 1) overflow_trace = Some s /\ size s (0, 0) = 32.
Proof. exact overflow_refuted. Qed.
Print Assumptions C03_overflow_without_room_refuted.

(* ... and with a capacity that is not a multiple of 8 (UFTRACE_BUFFER = 36 given to libmcount directly) a
   record with a 4-byte argument passes the size test with 20 bytes and occupies 24. *)
Theorem C03_overflow_unaligned_refuted :
  exists s, run {| maxsize := 20 |} (init 1) unaligned_trace = Some s /\ size s (0, 0) = 24.
Proof. exact overflow_unaligned_refuted. Qed.
Print Assumptions C03_overflow_unaligned_refuted.

(* Non-vacuity: 2 threads, 2 writers, 2 records per buffer, buffer reuse, a refused allocation followed
   by a LOST marker, a direct hand-over to a busy writer, flush of an unfinished thread. *)
Theorem C03_nonvacuous :
  exists s, run {| maxsize := 32 |} (init 2) nv_trace = Some s /\ finished s = true /\
    bytes_of (file s 0) = r16 1 ++ r16 2 ++ r16 3 ++ r16 4 ++ lostrec 2 0 ++ r16 6 /\
    bytes_of (file s 1) = r16 11 ++ r16 12 ++ r16 13 /\
    dropped s 0 = [r16 5] /\ lostcnt s = 2%N /\ gmark s = 2%N.
Proof. exact nv_run. Qed.
Print Assumptions C03_nonvacuous.

(* The run-time checker (applied by ./check to the implementation's files) accepts every finished
   model state. *)
Theorem C03_checker_accepts_model : forall c nw s t, reach c nw s -> finished s = true ->
  ok_thread (plog s t) (bytes_of (file s t)) = true.
Proof. exact ok_thread_model. Qed.
Print Assumptions C03_checker_accepts_model.
