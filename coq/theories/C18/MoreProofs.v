(* C18 - clause by clause: begin/end exactly once, --tid, LOST markers, pairing at replay time,
   with and without replay-time filter options. *)
From Coq Require Import NArith List Bool Lia Arith.
Import ListNotations.
Require Import UV.C06.Model UV.C06.MergeProofs UV.C06.Proofs UV.C18.Model UV.C18.Proofs UV.C18.Filter UV.C18.FilterProofs.
Local Open Scope N_scope.

Definition is_begin (c : callback) : bool := match c with CBegin => true | _ => false end.
Definition is_end (c : callback) : bool := match c with CEnd => true | _ => false end.
Definition count_cb (p : callback -> bool) (l : list callback) : nat := length (filter p l).

Lemma inner_of_events es : forallb inner_ok (map cb_of_event es) = true.
Proof. induction es as [|e es IH]; [reflexivity|]. cbn [map forallb]. rewrite IH. unfold cb_of_event. destruct (e_open e); reflexivity. Qed.

Lemma inner_filter p l : forallb inner_ok l = true -> forallb inner_ok (filter p l) = true.
Proof.
  induction l as [|x l IH]; intros H; [reflexivity|]. cbn [forallb] in H. apply andb_true_iff in H. destruct H as [H1 H2].
  cbn [filter]. destruct (p x); cbn [forallb]; rewrite ?H1, IH; auto.
Qed.

Lemma inner_no_begin_end l : forallb inner_ok l = true -> filter is_begin l = [] /\ filter is_end l = [].
Proof.
  induction l as [|x l IH]; intros H; [split; reflexivity|]. cbn [forallb] in H. apply andb_true_iff in H. destruct H as [H1 H2].
  destruct (IH H2) as [A B]. cbn [filter]. rewrite A, B. destruct x; cbn in *; try discriminate; split; reflexivity.
Qed.

(* what "exactly once" means for a callback sequence *)
Definition once_begin_end (l : list callback) : Prop :=
  exists inner, l = CBegin :: inner ++ [CEnd] /\ forallb inner_ok inner = true /\
                count_cb is_begin l = 1%nat /\ count_cb is_end l = 1%nat.

Lemma once_intro inner : forallb inner_ok inner = true -> once_begin_end (CBegin :: inner ++ [CEnd]).
Proof.
  intros H. exists inner. split; [reflexivity|]. split; [exact H|].
  destruct (inner_no_begin_end inner H) as [A B]. unfold count_cb. cbn [filter is_begin is_end].
  rewrite !filter_app, A, B. cbn. split; reflexivity.
Qed.

(* C18: uftrace_begin exactly once and first, uftrace_end exactly once and last, only entry/exit
   callbacks in between - for every input, every UFTRACE_FUNCS list, every --tid / -D / -F / -N *)
Theorem begin_end_once o forks funcs sel tasks : once_begin_end (script_opts o forks funcs sel tasks).
Proof.
  rewrite script_funcs_filter_with_options. apply once_intro. apply inner_filter. apply inner_of_events.
Qed.

Theorem begin_end_once_plain forks funcs sel tasks : once_begin_end (script_run forks funcs sel tasks).
Proof.
  rewrite script_funcs_filter, script_same_calls. cbn [filter cb_keep]. rewrite filter_app. cbn [filter cb_keep].
  apply once_intro. apply inner_filter. apply inner_of_events.
Qed.

(* C18 and --tid: the callbacks of a parent-closed selection of well-formed tasks are exactly the
   callbacks of those tasks in the full run *)
Definition cb_selected (sel : option (list nat)) (c : callback) : bool :=
  match c with CEntry i _ _ _ _ | CExit i _ _ _ _ _ => selected sel i | _ => true end.

Lemma filter_map_cb sel es :
  filter (cb_selected sel) (map cb_of_event es) = map cb_of_event (filter (fun e => selected sel (e_task e)) es).
Proof.
  induction es as [|e es IH]; [reflexivity|]. cbn [map filter].
  assert (E : cb_selected sel (cb_of_event e) = selected sel (e_task e)) by (unfold cb_of_event; destruct (e_open e); reflexivity).
  rewrite E. destruct (selected sel (e_task e)); cbn [map]; rewrite IH; reflexivity.
Qed.

Theorem script_tid_selects forks sel tasks :
  forallb wf_task tasks = true -> parent_closed (selected sel) tasks ->
  script_run forks [] sel tasks = filter (cb_selected sel) (script_run forks [] None tasks).
Proof.
  intros Hwf Hpc. rewrite !script_same_calls. cbn [filter cb_selected]. rewrite filter_app. cbn [filter cb_selected].
  rewrite filter_map_cb, <- (tid_selects forks sel tasks Hwf Hpc). reflexivity.
Qed.

(* C18 and LOST markers: no callback for a marker; afterwards the depth passed to the script is the
   depth field of the record (as replay shows it) *)
Theorem script_lost_resync forks sel tasks :
  exists es, script_run forks [] sel tasks = CBegin :: map cb_of_event es ++ [CEnd] /\
             aligned (merge (mask_queues sel tasks 0)) (marks (merge (mask_queues sel tasks 0)) (T0 tasks)) es.
Proof.
  eexists. split; [apply script_same_calls|apply replay_lost_resync].
Qed.

(* C18, pairing at replay time: the callbacks of a task whose stream is the trace of a call forest
   (plus calls still open at the end) are properly paired, whatever the other tasks do *)
Theorem script_replay_time_paired forks sel tasks i d f t :
  forallb wf_task tasks = true -> selected sel i = true ->
  k_parent (nth i tasks (mktask None [])) = None ->
  k_recs (nth i tasks (mktask None [])) = flat_forest d f ++ flat_tail d t ->
  paired [] (filter (of_cb_task i) (script_run forks [] sel tasks)) = true.
Proof.
  intros Hwf Hsel Hpar Hrecs. rewrite (script_calls_of_forest forks sel tasks i d f t Hwf Hsel Hpar Hrecs).
  apply paired_forest_and_tail.
Qed.

(* non-vacuity of the filtered statements: -D 2 with UFTRACE_FUNCS = [3] on main{ a{} a{} b{} } *)
Example filtered_script_example :
  script_opts (mkfopts 2 [] []) [] [3] None leak_tasks =
  [CBegin; CEntry 0 1 1050 3 3; CExit 0 1 1060 10 3 3; CEnd].
Proof. vm_compute. reflexivity. Qed.

(* exec / setjmp / longjmp fix-ups: the depth passed with the entry of longjmp() (4) and of execl() (2) is the
   depth of the call itself - what replay prints - not the depth fstack_update moves the task to afterwards
   (1 after the longjmp, 0 after the exec).  main{ setjmp(); outer{ middle{ thrower{ longjmp( ; setjmp returns
   again; do_exec{ execl( ; new image main{ } *)
Definition jump_tasks : list task :=
  [ mktask None [mkrec 1000 ENTRY 0 1; mkrec 1010 ENTRY 1 2000006; mkrec 1020 EXIT 1 2000006; mkrec 1030 ENTRY 1 2;
                 mkrec 1040 ENTRY 2 3; mkrec 1070 ENTRY 3 4; mkrec 1100 ENTRY 4 3000007; mkrec 1110 EXIT 1 2000006;
                 mkrec 1140 ENTRY 1 9; mkrec 1170 ENTRY 2 1000008; mkrec 1200 ENTRY 0 1; mkrec 1230 EXIT 0 1] ].
Example jump_callbacks :
  script_run [] [] None jump_tasks =
  [ CBegin; CEntry 0 0 1000 1 1; CEntry 0 1 1010 2000006 2000006; CExit 0 1 1020 10 2000006 2000006;
    CEntry 0 1 1030 2 2; CEntry 0 2 1040 3 3; CEntry 0 3 1070 4 4;
    CEntry 0 4 1100 3000007 3000007;                 (* longjmp() at its own depth 4 *)
    CExit 0 1 1110 80 2000006 2000006;               (* setjmp() returns again at depth 1 (timed from the slot of outer) *)
    CEntry 0 1 1140 9 9;
    CEntry 0 2 1170 1000008 1000008;                 (* execl() at its own depth 2 *)
    CEntry 0 0 1200 1 1; CExit 0 0 1230 30 1 1;      (* the new image starts at depth 0 *)
    CEnd ] /\
  script_run [] [] None jump_tasks =
  CBegin :: map cb_of_event (events_of (fst (replay_raw (mkcfg false []) None jump_tasks))) ++ [CEnd].
Proof. split; [vm_compute; reflexivity|apply script_same_calls]. Qed.
