(* C18 - model of `uftrace script` at replay time (cmds/script.c: command_script,
   run_script_for_rstack; utils/script.c: script_match_filter) on top of the reader model of
   C06 (merge, func_stack, display depth).  Callbacks carry what the script's context
   dictionary carries: tid, depth, timestamp, duration (exit only), address, name.
   UFTRACE_FUNCS entries are plain names (init_filter_pattern turns a pattern without regex
   characters into PATT_SIMPLE = strcmp).  No proofs here (run by vm_compute). *)
From Coq Require Import NArith List Bool.
Import ListNotations.
Require Import UV.C06.Model.
Local Open Scope N_scope.

Inductive callback :=
| CBegin
| CEntry (task : nat) (depth time addr name : N)
| CExit (task : nat) (depth time dur addr name : N)
| CEnd
| CBad.                                   (* tie only: a line of the logging script that did not parse *)

(* script_match_filter: an empty list means no filter *)
Definition match_funcs (funcs : list N) (name : N) : bool :=
  match funcs with [] => true | _ => existsb (N.eqb name) funcs end.

(* the loop of command_script over the merged stream; read_rstack = C06's consume *)
Fixpoint script_loop (forks funcs : list N) (tasks : list task) (l : list (nat * rec)) (g : gstate) : list callback :=
  match l with
  | [] => []
  | (i, r) :: tl =>
      let pend := t_lost (tget g i) in            (* display_depth_set is false after a LOST marker *)
      let g1 := consume tasks g i r in
      let ts1 := stamp (tget g1 i) (r_time r) in
      match r_type r with
      | LOST => script_loop forks funcs tasks tl g1        (* "Do nothing as of now" *)
      | ENTRY =>
          (* fstack_entry (fix-ups for fork / exec / setjmp / longjmp symbols); depth = the display depth
             BEFORE fstack_update(ENTRY) moves it (to 0 for exec, to the setjmp depth for longjmp); then the filter *)
          let depth := if pend then t_sc ts1 - 1 else t_dd ts1 in
          let '(ts2, sj) := fixup_entry (mkcfg false forks) r depth ts1 (g_sjd g1, g_sjc g1) in
          (if match_funcs funcs (r_addr r) then [CEntry i depth (r_time r) (r_addr r) (r_addr r)] else [])
            ++ script_loop forks funcs tasks tl (tset (set_sj g1 sj) i (update_entry r depth ts2 sj))
      | EXIT =>
          let f := fget (t_stack ts1) (t_sc ts1) in
          let depth := if pend then t_sc ts1 else N.pred (t_dd ts1) in       (* fstack_update(EXIT) *)
          (if match_funcs funcs (r_addr r) then [CExit i depth (r_time r) (f_time f) (r_addr r) (r_addr r)] else [])
            ++ script_loop forks funcs tasks tl (tset g1 i (set_dd ts1 depth))
      end
  end.

(* script_init -> uftrace_begin; the loop; script_uftrace_end *)
Definition script_run (forks funcs : list N) (sel : option (list nat)) (tasks : list task) : list callback :=
  CBegin :: script_loop forks funcs tasks (merge (mask_queues sel tasks 0)) (init_g sel tasks) ++ [CEnd].

(* the callback a replay event corresponds to *)
Definition cb_of_event (e : event) : callback :=
  if e_open e then CEntry (e_task e) (e_indent e) (e_time e) (e_name e) (e_name e)
  else CExit (e_task e) (e_indent e) (e_time e) (e_dur e) (e_name e) (e_name e).

Definition cb_keep (funcs : list N) (c : callback) : bool :=
  match c with
  | CEntry _ _ _ _ n | CExit _ _ _ _ _ n => match_funcs funcs n
  | _ => true
  end.

(* ------------------------------------------------------------------ executable checks *)
Definition cb_eqb (a b : callback) : bool :=
  match a, b with
  | CBegin, CBegin | CEnd, CEnd => true
  | CEntry i d t a1 n, CEntry i' d' t' a1' n' =>
      Nat.eqb i i' && (d =? d') && (t =? t') && (a1 =? a1') && (n =? n')
  | CExit i d t u a1 n, CExit i' d' t' u' a1' n' =>
      Nat.eqb i i' && (d =? d') && (t =? t') && (u =? u') && (a1 =? a1') && (n =? n')
  | _, _ => false
  end.

(* the property on observed outputs: the script's callbacks against what `replay --no-merge
   -f duration,tid,addr,time` printed for the same data and options (observed lines carry
   print_time_unit codes in the duration column) *)
Definition cb_vs_event (c : callback) (e : event) (addr : N) : bool :=
  match c with
  | CEntry i d t a n => e_open e && Nat.eqb i (e_task e) && (d =? e_indent e) && (t =? e_time e) && (n =? e_name e) && (a =? n)
  | CExit i d t u a n =>
      negb (e_open e) && Nat.eqb i (e_task e) && (d =? e_indent e) && (t =? e_time e) && (n =? e_name e) && (a =? n) &&
      (fmt_time u =? e_dur e)
  | _ => false
  end.
Fixpoint cbs_vs_events (cs : list callback) (es : list event) : bool :=
  match cs, es with
  | [], [] => true
  | c :: cs', e :: es' => cb_vs_event c e 0 && cbs_vs_events cs' es'
  | _, _ => false
  end.
Definition strip_begin_end (cs : list callback) : option (list callback) :=
  match cs with
  | CBegin :: r => match rev r with CEnd :: m => Some (rev m) | _ => None end
  | _ => None
  end.
Definition inner_ok (c : callback) : bool := match c with CEntry _ _ _ _ _ | CExit _ _ _ _ _ _ => true | _ => false end.

(* observed script output vs observed replay lines, with the function list *)
Definition ok_script (funcs : list N) (cbs : list callback) (replay_lines : list line) : bool :=
  match strip_begin_end cbs with
  | Some inner =>
      forallb inner_ok inner &&
      cbs_vs_events inner (filter (fun e => match_funcs funcs (e_name e)) (events_of replay_lines))
  | None => false
  end.

(* arguments and return values.  Both views decode the payload of the SAME record (C18_same_calls
   pairs the k-th callback with the k-th replay line: same task, same timestamp, same kind); what a
   payload decodes to is C09's subject.  The tie compares, callback by line, the text of the argument
   list / return value the script received with the text replay prints; texts are opaque tokens here,
   carried in the address field.  Durations: replay prints print_time_unit codes. *)
Definition fmt_cb (c : callback) : callback :=
  match c with
  | CExit i d t u a n => CExit i d t (fmt_time u) a n
  | _ => c
  end.
Definition ok_script_args (script_cbs replay_cbs : list callback) : bool :=
  match strip_begin_end script_cbs with
  | Some inner => forallb inner_ok inner && list_eqb cb_eqb (map fmt_cb inner) replay_cbs
  | None => false
  end.

(* record time: every thread's callbacks are properly paired - a stack discipline where an
   exit closes the innermost open entry of the same function at the same depth *)
Fixpoint paired (stk : list (N * N)) (cs : list callback) : bool :=
  match cs with
  | [] => true                                   (* calls may still be open when the script ends *)
  | CEntry _ d _ _ n :: r => paired ((d, n) :: stk) r
  | CExit _ d _ _ _ n :: r =>
      match stk with
      | (d', n') :: stk' => (d =? d') && (n =? n') && paired stk' r
      | [] => false
      end
  | _ :: _ => false
  end.
Fixpoint tasks_of (cs : list callback) (acc : list nat) : list nat :=
  match cs with
  | [] => acc
  | (CEntry i _ _ _ _ | CExit i _ _ _ _ _) :: r => tasks_of r (if existsb (Nat.eqb i) acc then acc else i :: acc)
  | _ :: r => tasks_of r acc
  end.
Definition of_cb_task (i : nat) (c : callback) : bool :=
  match c with CEntry j _ _ _ _ | CExit j _ _ _ _ _ => Nat.eqb i j | _ => false end.
(* [inits]: the frames a forked child inherits (the calls open in its parent at fork()),
   innermost first; every other thread starts with an empty stack *)
Fixpoint init_stack (inits : list (nat * list (N * N))) (i : nat) : list (N * N) :=
  match inits with
  | [] => []
  | (j, s) :: r => if Nat.eqb i j then s else init_stack r i
  end.
Definition ok_record_time (inits : list (nat * list (N * N))) (cbs : list callback) : bool :=
  match strip_begin_end cbs with
  | Some inner =>
      forallb inner_ok inner &&
      forallb (fun i => paired (init_stack inits i) (filter (of_cb_task i) inner)) (tasks_of inner [])
  | None => false
  end.

(* ------------------------------------------------------------------ the tie (props/c18.py) *)
(* ------------------------------------------------------------------ scripts that define only some callbacks
   A binding returns -1 for a callback the script does not define (python_uftrace_entry: `if (!pFuncEntry) return -1`,
   luajit the same); run_script_for_rstack ignores that status and command_script's loop goes on.  The driver ATTEMPTS
   the callbacks of script_run; the defined ones are delivered.  [stop = true] is the driver that ends the loop at the
   first absent callback (refuted). *)
Record cbdefs := mkdefs { d_begin : bool; d_entry : bool; d_exit : bool; d_end : bool }.
Definition d_all := mkdefs true true true true.
Definition cb_defined (d : cbdefs) (c : callback) : bool :=
  match c with
  | CBegin => d_begin d | CEnd => d_end d
  | CEntry _ _ _ _ _ => d_entry d | CExit _ _ _ _ _ _ => d_exit d
  | CBad => false
  end.
Fixpoint deliver (stop : bool) (d : cbdefs) (attempts : list callback) : list callback :=
  match attempts with
  | [] => []
  | c :: tl => if cb_defined d c then c :: deliver stop d tl else if stop then [] else deliver stop d tl
  end.
Definition script_run_defs_gen (stop : bool) (d : cbdefs) (forks funcs : list N) (sel : option (list nat)) (tasks : list task)
  : list callback :=
  (if d_begin d then [CBegin] else []) ++
  deliver stop d (script_loop forks funcs tasks (merge (mask_queues sel tasks 0)) (init_g sel tasks)) ++
  (if d_end d then [CEnd] else []).
Definition script_run_defs := script_run_defs_gen false.

(* observed callbacks of a script with the definitions d against observed replay lines *)
Definition strip_d (d : cbdefs) (cs : list callback) : option (list callback) :=
  match (if d_begin d then match cs with CBegin :: r => Some r | _ => None end else Some cs) with
  | None => None
  | Some r => if d_end d then match rev r with CEnd :: m => Some (rev m) | _ => None end else Some r
  end.
Definition ev_defined (d : cbdefs) (e : event) : bool := if e_open e then d_entry d else d_exit d.
Definition ok_script_d (d : cbdefs) (funcs : list N) (cbs : list callback) (replay_lines : list line) : bool :=
  match strip_d d cbs with
  | Some inner =>
      forallb inner_ok inner &&
      cbs_vs_events inner (filter (fun e => match_funcs funcs (e_name e) && ev_defined d e) (events_of replay_lines))
  | None => false
  end.

Definition scase := (list N * list task * list (list N * option (list nat) * cbdefs * list callback * list line))%type.

Definition agree_scase (c : scase) : list bool :=
  let '(forks, tasks, vs) := c in
  map (fun x : list N * option (list nat) * cbdefs * list callback * list line =>
         let '(funcs, sel, d, cbs, _) := x in
         list_eqb cb_eqb (script_run_defs d forks funcs sel tasks) cbs) vs.
Definition check_scase (c : scase) : list bool :=
  let '(forks, tasks, vs) := c in
  map (fun x : list N * option (list nat) * cbdefs * list callback * list line =>
         let '(funcs, sel, d, cbs, lines) := x in ok_script_d d funcs cbs lines) vs.
