(* C18 - the script driver sees exactly the calls replay shows. *)
From Coq Require Import NArith List Bool Lia Arith.
Require Import ZifyBool ZifyN ZifyNat.
Import ListNotations.
Require Import UV.C06.Model UV.C06.MergeProofs UV.C06.Proofs UV.C18.Model.
Local Open Scope N_scope.

Lemma match_funcs_nil n : match_funcs [] n = true.
Proof. reflexivity. Qed.

Lemma consume_tasks_only tasks g g' i r : g_tasks g = g_tasks g' ->
  g_tasks (consume tasks g i r) = g_tasks (consume tasks g' i r).
Proof.
  intros H. unfold consume, inherit, tget. cbn [g_tasks]. rewrite H. reflexivity.
Qed.

Lemma tget_tasks_only g g' i : g_tasks g = g_tasks g' -> tget g i = tget g' i.
Proof. intros H. unfold tget. rewrite H. reflexivity. Qed.

(* the script loop = the --no-merge replay loop, callback by line, filtered by UFTRACE_FUNCS *)
Lemma script_loop_run forks funcs tasks : forall l g g', g_tasks g = g_tasks g' -> SJ g = SJ g' ->
  script_loop forks funcs tasks l g =
  filter (cb_keep funcs) (map cb_of_event (events_of (fst (run (mkcfg false forks) tasks l g')))).
Proof.
  induction l as [|[i r] tl IH]; intros g g' Hg Hsj; [reflexivity|].
  rewrite run_nofold_cons by reflexivity.
  cbn [script_loop].
  pose proof (consume_tasks_only tasks g g' i r Hg) as Hc.
  pose proof (tget_tasks_only _ _ i Hc) as Ht.
  pose proof (tget_tasks_only _ _ i Hg) as Hp.
  assert (Hsj1 : (g_sjd (consume tasks g i r), g_sjc (consume tasks g i r)) =
                 (g_sjd (consume tasks g' i r), g_sjc (consume tasks g' i r))) by exact Hsj.
  unfold step. rewrite <- Hp, <- Ht. cbn [g_sjd g_sjc g_first]. rewrite <- Hsj1.
  set (pend := t_lost (tget g i)).
  set (ts1 := stamp (tget (consume tasks g i r) i) (r_time r)).
  destruct (r_type r) eqn:Hty.
  - (* ENTRY *)
    set (depth := if pend then t_sc ts1 - 1 else t_dd ts1).
    pose proof (fixup_fields (mkcfg false forks) r depth ts1 (g_sjd (consume tasks g i r), g_sjc (consume tasks g i r))) as HF.
    destruct (fixup_entry (mkcfg false forks) r depth ts1 (g_sjd (consume tasks g i r), g_sjc (consume tasks g i r))) as [ts2 sj].
    cbn [fst snd] in *. destruct HF as (_ & _ & _ & _ & Hts & _).
    match goal with |- context [run _ tasks tl ?G] =>
      specialize (IH (tset (set_sj (consume tasks g i r) sj) i (update_entry r depth ts2 sj)) G) end.
    match goal with |- context [run ?C tasks tl ?G] => destruct (run C tasks tl G) as [out g2'] eqn:Er end.
    cbn [fst] in *. rewrite events_of_app, map_app, filter_app, IH.
    + f_equal. rewrite events_warn_app by apply warn_of_warn. unfold events_of_line, mk.
      cbn [l_kind l_task l_indent l_name l_time l_dur map cb_of_event e_open e_task e_indent e_name e_time e_dur filter cb_keep].
      rewrite Hts. unfold ts1. cbn [stamp t_ts].
      destruct (match_funcs funcs (r_addr r)); reflexivity.
    + unfold tset, set_sj. cbn [g_tasks]. rewrite Hc. reflexivity.
    + reflexivity.
  - (* EXIT *)
    match goal with |- context [run _ tasks tl ?G] => specialize (IH (tset (consume tasks g i r) i (set_dd ts1 (if pend then t_sc ts1 else N.pred (t_dd ts1)))) G) end.
    match goal with |- context [run ?C tasks tl ?G] => destruct (run C tasks tl G) as [out g2'] eqn:Er end.
    cbn [fst] in *. rewrite events_of_app, map_app, filter_app, IH.
    + f_equal. rewrite events_warn_app by apply warn_of_warn. unfold events_of_line, mk.
      cbn [l_kind l_task l_indent l_name l_time l_dur map cb_of_event e_open e_task e_indent e_name e_time e_dur filter cb_keep
           set_dd stamp t_dd t_ts t_stack t_sc].
      destruct (match_funcs funcs (r_addr r)); reflexivity.
    + unfold tset. cbn [g_tasks]. rewrite Hc. reflexivity.
    + unfold SJ, tset. cbn [g_sjd g_sjc]. exact Hsj1.
  - (* LOST: no callback, no call shown *)
    match goal with |- context [run _ tasks tl ?G] => specialize (IH (consume tasks g i r) G) end.
    match goal with |- context [run ?C tasks tl ?G] => destruct (run C tasks tl G) as [out g2'] eqn:Er end.
    cbn [fst] in *. rewrite events_of_app, map_app, filter_app, IH.
    + rewrite events_warn_lost; [reflexivity|apply warn_of_warn|].
      destruct (t_usc _ =? 0); repeat constructor.
    + cbn [g_tasks]. exact Hc.
    + unfold SJ. cbn [g_sjd g_sjc]. exact Hsj1.
Qed.

Lemma filter_true {A} (l : list A) : filter (fun _ => true) l = l.
Proof. induction l as [|x l IH]; cbn; [reflexivity|]. rewrite IH. reflexivity. Qed.

Lemma cb_keep_nil c : cb_keep [] c = true.
Proof. destruct c; reflexivity. Qed.

(* C18, same calls: begin once, then one callback per line of `replay --no-merge` with the same
   tid, depth, timestamp, duration, address and name, then end once *)
Theorem script_same_calls forks sel tasks :
  script_run forks [] sel tasks =
  CBegin :: map cb_of_event (events_of (fst (replay_raw (mkcfg false forks) sel tasks))) ++ [CEnd].
Proof.
  unfold script_run, replay_raw. f_equal. f_equal.
  rewrite (script_loop_run forks [] tasks _ _ _ eq_refl eq_refl).
  erewrite filter_ext; [apply filter_true|]. intros c. apply cb_keep_nil.
Qed.

(* C18, UFTRACE_FUNCS: exactly the sub-sequence of the listed functions; nothing else changes *)
Theorem script_funcs_filter forks funcs sel tasks :
  script_run forks funcs sel tasks = filter (cb_keep funcs) (script_run forks [] sel tasks).
Proof.
  rewrite script_same_calls. unfold script_run, replay_raw.
  cbn [filter cb_keep]. f_equal. rewrite filter_app. cbn [filter cb_keep]. f_equal.
  apply (script_loop_run forks funcs tasks _ _ _ eq_refl eq_refl).
Qed.

(* against the default (folded) replay view: same calls, indentation and durations *)
Definition cb_core (c : callback) : list core :=
  match c with
  | CEntry i d _ _ n => [(true, i, d, n, 0)]
  | CExit i d _ u _ _ => [(false, i, d, 0, u)]
  | _ => []
  end.

Lemma cb_core_event e : e_open e = true -> e_dur e = 0 -> cb_core (cb_of_event e) = [core_of e].
Proof. intros H H0. unfold cb_of_event, core_of, cb_core. rewrite H, H0. reflexivity. Qed.

Lemma open_events_dur0 ls : Forall (fun e => e_open e = true -> e_dur e = 0) (events_of ls).
Proof.
  unfold events_of. induction ls as [|l ls IH]; [constructor|]. cbn [flat_map]. apply Forall_app. split; [|exact IH].
  unfold events_of_line. destruct (l_kind l); repeat constructor; cbn; intros; try reflexivity; discriminate.
Qed.

Theorem script_matches_default_replay forks sel tasks : no_longjmp_tasks tasks = true ->
  flat_map cb_core (script_run forks [] sel tasks) =
  map core_of (events_of (fst (replay_raw (mkcfg true forks) sel tasks))).
Proof.
  intros Hnl. rewrite (fold_is_presentation _ _ _ Hnl), script_same_calls. cbn [flat_map cb_core app].
  rewrite flat_map_app. cbn [flat_map cb_core]. rewrite app_nil_r.
  pose proof (open_events_dur0 (fst (replay_raw (mkcfg false forks) sel tasks))) as H.
  induction H as [|e es He _ IH]; [reflexivity|]. cbn [map flat_map]. rewrite IH. f_equal.
  unfold cb_of_event, core_of, cb_core. destruct (e_open e) eqn:Eo; [rewrite (He eq_refl)|]; reflexivity.
Qed.

(* a task whose stream is the trace of a call forest gets exactly that forest's callbacks *)
Lemma filter_cb_task i es :
  filter (of_cb_task i) (map cb_of_event es) = map cb_of_event (filter (of_task i) es).
Proof.
  induction es as [|e es IH]; [reflexivity|]. cbn [map filter].
  assert (of_cb_task i (cb_of_event e) = of_task i e).
  { unfold cb_of_event, of_cb_task, of_task. destruct (e_open e); apply Nat.eqb_sym. }
  rewrite H. destruct (of_task i e); cbn [map]; rewrite IH; reflexivity.
Qed.

Theorem script_calls_of_forest forks sel tasks i d f t :
  forallb wf_task tasks = true -> selected sel i = true ->
  k_parent (nth i tasks (mktask None [])) = None ->
  k_recs (nth i tasks (mktask None [])) = flat_forest d f ++ flat_tail d t ->
  filter (of_cb_task i) (script_run forks [] sel tasks) =
  map cb_of_event (render_forest i 0 f ++ render_tail i 0 t).
Proof.
  intros Hwf Hsel Hpar Hrecs. rewrite script_same_calls. cbn [filter of_cb_task].
  rewrite filter_app. cbn [filter of_cb_task]. rewrite app_nil_r.
  rewrite filter_cb_task, (task_calls_exact forks sel tasks i d f t Hwf Hsel Hpar Hrecs). reflexivity.
Qed.

(* the pairing checker used on record-time output accepts the callbacks of every forest
   (with still-open calls at the end) *)
Lemma paired_forest_gen i : forall f,
  Forall (fun c => forall dd stk rest,
            paired stk (map cb_of_event (render i dd c) ++ rest) = paired stk rest) f ->
  forall dd stk rest, paired stk (map cb_of_event (render_forest i dd f) ++ rest) = paired stk rest.
Proof.
  induction 1 as [|c f Hc _ IH]; intros dd stk rest; [reflexivity|].
  unfold render_forest in *. cbn [flat_map]. rewrite map_app, <- app_assoc, Hc, IH. reflexivity.
Qed.

Lemma paired_call i : forall c dd stk rest,
  paired stk (map cb_of_event (render i dd c) ++ rest) = paired stk rest.
Proof.
  induction c as [a t0 t1 kids IH] using call_ind'. intros dd stk rest.
  cbn [render map app]. unfold cb_of_event at 1. cbn [e_open e_task e_indent e_time e_name paired].
  rewrite map_app, <- app_assoc.
  change (flat_map (render i (dd + 1)) kids) with (render_forest i (dd + 1) kids).
  rewrite (paired_forest_gen i kids IH).
  cbn [map app]. unfold cb_of_event at 1. cbn [e_open e_task e_indent e_time e_name e_dur paired].
  rewrite !N.eqb_refl. reflexivity.
Qed.

Theorem paired_forest i f dd stk rest :
  paired stk (map cb_of_event (render_forest i dd f) ++ rest) = paired stk rest.
Proof. apply paired_forest_gen. apply Forall_forall. intros c _. apply paired_call. Qed.

Theorem paired_forest_and_tail i f : forall t dd stk,
  paired stk (map cb_of_event (render_forest i dd f ++ render_tail i dd t)) = true.
Proof.
  intros t. revert f. induction t as [|a t0 kids rest IH]; intros f dd stk.
  - cbn [render_tail]. rewrite app_nil_r. rewrite <- (app_nil_r (map _ _)). rewrite paired_forest. reflexivity.
  - rewrite map_app, paired_forest. cbn [render_tail map]. unfold cb_of_event at 1.
    cbn [e_open e_task e_indent e_time e_name paired]. apply IH.
Qed.
