(* C18 - `uftrace script` and `uftrace replay --no-merge` WITH replay-time filter options
   (-D depth, -F / -N functions): model of the filter bookkeeping of utils/fstack.c
   (fstack_entry: out_count / in_count / filter.depth with FSTACK_FL_FILTERED, NOTRACE, NORECORD and
   orig_depth per func_stack slot; fstack_exit undoing it) on top of the reader of C06, and of
   the two drivers that use it: print_graph_rstack (cmds/replay.c) and run_script_for_rstack
   (cmds/script.c, where the UFTRACE_FUNCS test comes AFTER fstack_entry/fstack_update and the
   early-out of the EXIT branch still calls fstack_exit).  -F/-N entries are plain symbol names,
   no symbol is listed in both.  No proofs here. *)
From Coq Require Import NArith List Bool.
Import ListNotations.
Require Import UV.C06.Model UV.C18.Model.
Local Open Scope N_scope.

Record fopts := mkfopts { o_depth : N (* -D, default 1024 *); o_in : list N (* -F *); o_out : list N (* -N *) }.

(* the filter part of one func_stack[] slot *)
Record fframe := mkff { ff_filtered : bool; ff_notrace : bool; ff_norecord : bool; ff_orig : N }.
(* task->filter *)
Record fstate := mkfs { f_in : N; f_out : N; f_depth : N; f_frames : list fframe;
                        f_pend : bool (* display_depth_set is false: a LOST marker was seen and no call has been
                                         shown since (a filtered-out call leaves it false) *) }.

Definition ff0 (o : fopts) : fframe := mkff false false false (o_depth o).    (* setup_task_handle *)
Definition fstate0 (o : fopts) : fstate := mkfs 0 0 (o_depth o) [] false.

Definition ffget (o : fopts) (fr : list fframe) (i : N) : fframe := nth (N.to_nat i) fr (ff0 o).
Fixpoint ffupd (d : fframe) (fr : list fframe) (n : nat) (x : fframe) : list fframe :=
  match n, fr with
  | O, [] => [x]
  | O, _ :: t => x :: t
  | S n', [] => d :: ffupd d [] n' x
  | S n', h :: t => h :: ffupd d t n' x
  end.
Definition ffset (o : fopts) (fr : list fframe) (i : N) (x : fframe) : list fframe := ffupd (ff0 o) fr (N.to_nat i) x.

Definition inb (a : N) (l : list N) : bool := existsb (N.eqb a) l.

(* fstack_entry on slot [idx] for function [a]:
   returns the new filter state, whether the call is shown (return 0), and whether the code got
   past the out_count test (the fork fix-up sits right behind it) *)
Definition entry_f (o : fopts) (fs : fstate) (idx : N) (a : N) : fstate * bool * bool :=
  let put (fi fo fd : N) (x : fframe) := mkfs fi fo fd (ffset o (f_frames fs) idx x) (f_pend fs) in
  let orig := f_depth fs in
  if 0 <? f_out fs then (put (f_in fs) (f_out fs) (f_depth fs) (mkff false false true orig), false, false)
  else if inb a (o_out o) then
    (put (f_in fs) (f_out fs + 1) (f_depth fs) (mkff false true true orig), false, true)
  else
    let hit := inb a (o_in o) in
    let fi := if hit then f_in fs + 1 else f_in fs in
    let fd := if hit then o_depth o else f_depth fs in           (* restore default filter depth *)
    let mode_in := match o_in o with [] => false | _ => true end in
    if negb hit && mode_in && (f_in fs =? 0)
    then (put fi (f_out fs) fd (mkff false false true orig), false, true)
    else if fd =? 0
    then (put fi (f_out fs) fd (mkff hit false true orig), false, true)
    else (put fi (f_out fs) (fd - 1) (mkff hit false false orig), true, true).

(* fstack_exit on slot [idx] *)
Definition exit_f (o : fopts) (fs : fstate) (idx : N) : fstate :=
  let x := ffget o (f_frames fs) idx in
  mkfs (if ff_filtered x then N.pred (f_in fs) else f_in fs)
       (if negb (ff_filtered x) && ff_notrace x then N.pred (f_out fs) else f_out fs)
       (ff_orig x)
       (ffset o (f_frames fs) idx (mkff false false false (ff_orig x))) (f_pend fs).

Definition fsget (o : fopts) (F : list fstate) (i : nat) : fstate := nth i F (fstate0 o).
Fixpoint fsupd (F : list fstate) (i : nat) (x : fstate) : list fstate :=
  match F, i with
  | [], _ => []
  | _ :: t, O => x :: t
  | h :: t, S i' => h :: fsupd t i' x
  end.

(* what both drivers do with one record, up to the point where they differ: the event (if the
   call is shown) and the new reader / filter state *)
Definition fstep (o : fopts) (forks : list N) (tasks : list task) (g : gstate) (F : list fstate) (i : nat) (r : rec)
  : option event * gstate * list fstate :=
  let g1 := consume tasks g i r in
  let ts1 := stamp (tget g1 i) (r_time r) in
  let fs := fsget o F i in
  let pend := f_pend fs in
  let unpend (x : fstate) := mkfs (f_in x) (f_out x) (f_depth x) (f_frames x) false in
  match r_type r with
  | LOST => (None, g1, fsupd F i (mkfs (f_in fs) (f_out fs) (f_depth fs) (f_frames fs) true))
  | ENTRY =>
      let '(fs', shown, past) := entry_f o fs (t_sc ts1 - 1) (r_addr r) in
      let depth := if pend then t_sc ts1 - 1 else t_dd ts1 in
      let '(ts2, sj) := if past then fixup_entry (mkcfg false forks) r depth ts1 (g_sjd g1, g_sjc g1)
                        else (ts1, (g_sjd g1, g_sjc g1)) in
      if shown
      then (Some (mkev true i depth (r_addr r) 0 (r_time r)),
            tset (set_sj g1 sj) i (update_entry r depth ts2 sj), fsupd F i (unpend fs'))  (* fstack_update(ENTRY) *)
      else (None, tset (set_sj g1 sj) i ts2, fsupd F i fs')
  | EXIT =>
      let x := ffget o (f_frames fs) (t_sc ts1) in
      let fs' := exit_f o fs (t_sc ts1) in
      if ff_norecord x
      then (None, tset g1 i ts1, fsupd F i fs')
      else
        let depth := if pend then t_sc ts1 else N.pred (t_dd ts1) in     (* fstack_update(EXIT) *)
        (Some (mkev false i depth (r_addr r) (f_time (fget (t_stack ts1) (t_sc ts1))) (r_time r)),
         tset g1 i (set_dd ts1 depth), fsupd F i (unpend fs'))
  end.

(* `uftrace replay --no-merge` with the options: every shown call is printed *)
Fixpoint replay_f (o : fopts) (forks : list N) (tasks : list task) (l : list (nat * rec)) (g : gstate) (F : list fstate)
  : list event :=
  match l with
  | [] => []
  | (i, r) :: tl =>
      let '(e, g', F') := fstep o forks tasks g F i r in
      (match e with Some ev => [ev] | None => [] end) ++ replay_f o forks tasks tl g' F'
  end.

(* `uftrace script` with the options: every shown call whose name is in UFTRACE_FUNCS is
   delivered; the filter state moves exactly as in replay *)
Fixpoint script_f (o : fopts) (forks funcs : list N) (tasks : list task) (l : list (nat * rec)) (g : gstate) (F : list fstate)
  : list callback :=
  match l with
  | [] => []
  | (i, r) :: tl =>
      let '(e, g', F') := fstep o forks tasks g F i r in
      (match e with
       | Some ev => if match_funcs funcs (e_name ev) then [cb_of_event ev] else []
       | None => []
       end) ++ script_f o forks funcs tasks tl g' F'
  end.

Definition F0 (o : fopts) (tasks : list task) : list fstate := map (fun _ => fstate0 o) tasks.

Definition replay_opts (o : fopts) (forks : list N) (sel : option (list nat)) (tasks : list task) : list event :=
  replay_f o forks tasks (merge (mask_queues sel tasks 0)) (init_g sel tasks) (F0 o tasks).
Definition script_opts (o : fopts) (forks funcs : list N) (sel : option (list nat)) (tasks : list task) : list callback :=
  CBegin :: script_f o forks funcs tasks (merge (mask_queues sel tasks 0)) (init_g sel tasks) (F0 o tasks) ++ [CEnd].

(* ------------------------------------------------------------------ the tie *)
(* observed `replay --no-merge -f duration,tid,addr,time <opts>` lines vs the model's events *)
Definition ev_obs_eqb (m : event) (obs : event) : bool :=
  Bool.eqb (e_open m) (e_open obs) && Nat.eqb (e_task m) (e_task obs) && (e_indent m =? e_indent obs) &&
  (e_name m =? e_name obs) && (fmt_time (e_dur m) =? e_dur obs) && (e_time m =? e_time obs).

Definition ocase := (list N * list task *
                     list (fopts * list N * option (list nat) * bool * list callback * list line))%type.
(* [modelled] = false for option sets the filter model does not cover (-t): property check only *)
Definition agree_ocase (c : ocase) : list bool :=
  let '(forks, tasks, vs) := c in
  map (fun x : fopts * list N * option (list nat) * bool * list callback * list line =>
         let '(o, funcs, sel, modelled, cbs, lines) := x in
         negb modelled ||
         (list_eqb cb_eqb (script_opts o forks funcs sel tasks) cbs &&
          list_eqb ev_obs_eqb (replay_opts o forks sel tasks) (events_of lines))) vs.
Definition check_ocase (c : ocase) : list bool :=
  let '(forks, tasks, vs) := c in
  map (fun x : fopts * list N * option (list nat) * bool * list callback * list line =>
         let '(_, funcs, _, _, cbs, lines) := x in ok_script funcs cbs lines) vs.
