(* C18 - the options compose: callbacks a script defines, UFTRACE_FUNCS and --tid each act as a projection of the
   callback sequence of the unrestricted run, and the projections commute. *)
From Coq Require Import NArith List Bool.
Import ListNotations.
Require Import UV.C06.Model UV.C06.Proofs UV.C18.Model UV.C18.Proofs UV.C18.MoreProofs UV.C18.DefsProofs.
Local Open Scope N_scope.

Theorem script_factorises d forks funcs sel tasks :
  script_run_defs d forks funcs sel tasks =
  filter (cb_defined d) (filter (cb_keep funcs) (script_run forks [] sel tasks)).
Proof. rewrite script_defs_filter, script_funcs_filter. reflexivity. Qed.

Theorem script_factorises_tid d forks funcs sel tasks :
  forallb wf_task tasks = true -> parent_closed (selected sel) tasks ->
  script_run_defs d forks funcs sel tasks =
  filter (cb_defined d) (filter (cb_keep funcs) (filter (cb_selected sel) (script_run forks [] None tasks))).
Proof. intros W P. rewrite script_factorises, (script_tid_selects forks sel tasks W P). reflexivity. Qed.

Lemma filter_comm {A} (p q : A -> bool) l : filter p (filter q l) = filter q (filter p l).
Proof. rewrite !filter_filter. apply filter_ext. intro x. apply andb_comm. Qed.

Theorem script_projections_commute d forks funcs sel tasks :
  script_run_defs d forks funcs sel tasks =
  filter (cb_keep funcs) (filter (cb_defined d) (script_run forks [] sel tasks)).
Proof. rewrite script_factorises. apply filter_comm. Qed.
