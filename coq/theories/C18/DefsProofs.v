(* C18 - scripts that define only some of the callbacks: every defined callback receives exactly the projection of
   what replay shows on its record type; the driver that stops at the first absent callback is refuted. *)
From Coq Require Import NArith List Bool Lia Arith.
Import ListNotations.
Require Import UV.C06.Model UV.C06.Proofs UV.C18.Model UV.C18.Proofs.
Local Open Scope N_scope.

Lemma deliver_filter d l : deliver false d l = filter (cb_defined d) l.
Proof. induction l as [|c l IH]; [reflexivity|]. cbn [deliver filter]. rewrite IH. reflexivity. Qed.

Lemma filter_map_comm {A B} (p : B -> bool) (f : A -> B) l : filter p (map f l) = map f (filter (fun x => p (f x)) l).
Proof. induction l as [|x l IH]; [reflexivity|]. cbn [map filter]. rewrite IH. destruct (p (f x)); reflexivity. Qed.

Lemma filter_filter {A} (p q : A -> bool) l : filter p (filter q l) = filter (fun x => q x && p x) l.
Proof. induction l as [|x l IH]; [reflexivity|]. cbn [filter]. destruct (q x); cbn [filter andb]; rewrite IH; reflexivity. Qed.

Theorem script_defs_filter : forall d forks funcs sel tasks,
  script_run_defs d forks funcs sel tasks = filter (cb_defined d) (script_run forks funcs sel tasks).
Proof.
  intros. unfold script_run_defs, script_run_defs_gen, script_run. rewrite deliver_filter.
  cbn [filter cb_defined]. rewrite filter_app. cbn [filter cb_defined].
  destruct (d_begin d), (d_end d); reflexivity.
Qed.

Lemma defined_of_event d e : cb_defined d (cb_of_event e) = ev_defined d e.
Proof. unfold cb_of_event, ev_defined. destruct (e_open e); reflexivity. Qed.
Lemma keep_of_event funcs e : cb_keep funcs (cb_of_event e) = match_funcs funcs (e_name e).
Proof. unfold cb_of_event. destruct (e_open e); reflexivity. Qed.

(* for EVERY subset of defined callbacks and every UFTRACE_FUNCS list: begin if defined; then, to the defined ones of
   uftrace_entry / uftrace_exit, exactly the listed functions' lines of `replay --no-merge` of that kind, in replay's
   order and with replay's fields; then end if defined *)
Theorem script_defs_same_calls : forall d forks funcs sel tasks,
  script_run_defs d forks funcs sel tasks =
  (if d_begin d then [CBegin] else []) ++
  map cb_of_event (filter (fun e => match_funcs funcs (e_name e) && ev_defined d e)
                          (events_of (fst (replay_raw (mkcfg false forks) sel tasks)))) ++
  (if d_end d then [CEnd] else []).
Proof.
  intros. rewrite script_defs_filter, script_funcs_filter, script_same_calls.
  cbn [filter cb_keep cb_defined]. rewrite !filter_app. cbn [filter cb_keep cb_defined app].
  rewrite !filter_map_comm, filter_filter.
  rewrite (filter_ext (fun x => cb_keep funcs (cb_of_event x) && cb_defined d (cb_of_event x))
                      (fun e => match_funcs funcs (e_name e) && ev_defined d e))
    by (intros e; rewrite keep_of_event, defined_of_event; reflexivity).
  destruct (d_begin d), (d_end d); reflexivity.
Qed.

(* a script defining everything: the plain model *)
Theorem script_defs_all : forall forks funcs sel tasks,
  script_run_defs d_all forks funcs sel tasks = script_run forks funcs sel tasks.
Proof.
  intros. rewrite script_defs_same_calls, script_funcs_filter, script_same_calls.
  cbn [d_all d_begin d_end filter cb_keep app]. rewrite filter_app. cbn [filter cb_keep]. rewrite filter_map_comm.
  f_equal. f_equal. f_equal. apply filter_ext. intros e. rewrite keep_of_event. unfold ev_defined, d_all. cbn.
  destruct (e_open e); rewrite andb_true_r; reflexivity.
Qed.

(* the checker of the tie with all callbacks defined is the plain checker *)
Theorem ok_script_d_all : forall funcs cbs lines, ok_script_d d_all funcs cbs lines = ok_script funcs cbs lines.
Proof.
  intros. unfold ok_script_d, ok_script.
  assert (E : strip_d d_all cbs = strip_begin_end cbs).
  { unfold strip_d, strip_begin_end, d_all. cbn. destruct cbs as [|c r]; [reflexivity|]. destruct c; reflexivity. }
  rewrite E. destruct (strip_begin_end cbs); [|reflexivity]. f_equal. f_equal. apply filter_ext. intros e.
  unfold ev_defined, d_all. cbn. destruct (e_open e); rewrite andb_true_r; reflexivity.
Qed.

(* the driver that ends the loop at the first absent callback: a script with uftrace_entry only misses the second call *)
Definition stop_witness : list task := [mktask None [mkrec 1000 ENTRY 0 1; mkrec 1003 EXIT 0 1; mkrec 1005 ENTRY 0 2; mkrec 1009 EXIT 0 2]].
Theorem stop_on_absent_refuted :
  let d := mkdefs true true false true in
  script_run_defs_gen true d [] [] None stop_witness <> filter (cb_defined d) (script_run [] [] None stop_witness) /\
  script_run_defs d [] [] None stop_witness = [CBegin; CEntry 0%nat 0 1000 1 1; CEntry 0%nat 0 1005 2 2; CEnd].
Proof. split; [vm_compute; discriminate|vm_compute; reflexivity]. Qed.

(* non-vacuity: exit-only, two tasks *)
Example exit_only_example :
  script_run_defs (mkdefs false false true true) [] [] None
    [mktask None [mkrec 1000 ENTRY 0 1; mkrec 1004 EXIT 0 1]; mktask None [mkrec 1001 ENTRY 0 2; mkrec 1002 EXIT 0 2]] =
  [CExit 1%nat 0 1002 1 2 2; CExit 0%nat 0 1004 4 1 1; CEnd].
Proof. vm_compute. reflexivity. Qed.
