(* C18 - arguments and return values: what the executable comparison ok_script_args establishes.
   The model carries no payloads: both views are fed the record the reader just read (C18_same_calls pairs callback k
   with replay line k), and what a payload decodes to is C09's theorem.  Here: the checker used by the tie accepts
   exactly begin, the replay-side list (same task, depth, time, print_time_unit code of the duration, token of the
   argument-list / return-value text, name - position by position), end. *)
From Coq Require Import NArith List Bool Lia Arith.
Import ListNotations.
Require Import UV.C06.Model UV.C18.Model.
Local Open Scope N_scope.

Lemma cb_eqb_eq a b : cb_eqb a b = true -> a = b.
Proof.
  destruct a, b; cbn; intros H; try discriminate; auto;
    repeat (apply andb_true_iff in H; destruct H as [H ?]);
    repeat match goal with
           | h : Nat.eqb _ _ = true |- _ => apply Nat.eqb_eq in h
           | h : (_ =? _) = true |- _ => apply N.eqb_eq in h
           end; subst; reflexivity.
Qed.

Lemma cb_eqb_refl a : inner_ok a = true -> cb_eqb (fmt_cb a) (fmt_cb a) = true.
Proof. destruct a; cbn; intros H; try discriminate; rewrite ?Nat.eqb_refl, ?N.eqb_refl; reflexivity. Qed.

Lemma list_eqb_cb_eq a : forall b, list_eqb cb_eqb a b = true -> a = b.
Proof.
  induction a as [|x a IH]; intros [|y b]; cbn; intros H; try discriminate; auto.
  apply andb_true_iff in H. destruct H as [H1 H2]. apply cb_eqb_eq in H1. apply IH in H2. subst. reflexivity.
Qed.

Lemma list_eqb_cb_refl a : forallb inner_ok a = true -> list_eqb cb_eqb (map fmt_cb a) (map fmt_cb a) = true.
Proof.
  induction a as [|x a IH]; cbn; intros H; [reflexivity|]. apply andb_true_iff in H. destruct H as [H1 H2].
  rewrite (cb_eqb_refl x H1), (IH H2). reflexivity.
Qed.

Lemma strip_some cs inner : strip_begin_end cs = Some inner -> cs = CBegin :: inner ++ [CEnd].
Proof.
  unfold strip_begin_end. destruct cs as [|c r]; [discriminate|]. destruct c; try discriminate.
  destruct (rev r) as [|e m] eqn:E; [discriminate|]. destruct e; try discriminate. intros H. injection H as <-.
  f_equal. rewrite <- (rev_involutive r), E. reflexivity.
Qed.

Lemma strip_of inner : strip_begin_end (CBegin :: inner ++ [CEnd]) = Some inner.
Proof. unfold strip_begin_end. rewrite rev_app_distr. cbn. rewrite rev_involutive. reflexivity. Qed.

Theorem args_checker_exact : forall script_cbs replay_cbs,
  ok_script_args script_cbs replay_cbs = true <->
  exists inner, script_cbs = CBegin :: inner ++ [CEnd] /\ forallb inner_ok inner = true /\ map fmt_cb inner = replay_cbs.
Proof.
  intros s r. unfold ok_script_args. split.
  - destruct (strip_begin_end s) as [inner|] eqn:E; [|discriminate]. intros H. apply andb_true_iff in H. destruct H as [H1 H2].
    exists inner. split; [apply strip_some; exact E|]. split; [exact H1|]. apply list_eqb_cb_eq. exact H2.
  - intros [inner [-> [H1 <-]]]. rewrite strip_of, H1. cbn. apply list_eqb_cb_refl. exact H1.
Qed.

(* non-vacuity on the shape of a real defect: tag("ab", 30, 31) seen by the script as tag("ab", 31, 0).  Tokens: 7 = the
   text replay prints for the record's arguments, 8 = the text built from a ctx["args"] read 4 bytes too far. *)
Example args_equal_accepted :
  ok_script_args [CBegin; CEntry 0%nat 1 1000 7 2; CExit 0%nat 1 1004 4 3 2; CEnd]
                 [CEntry 0%nat 1 1000 7 2; CExit 0%nat 1 1004 (fmt_time 4) 3 2] = true.
Proof. vm_compute. reflexivity. Qed.
Example args_shifted_rejected :
  ok_script_args [CBegin; CEntry 0%nat 1 1000 8 2; CExit 0%nat 1 1004 4 3 2; CEnd]
                 [CEntry 0%nat 1 1000 7 2; CExit 0%nat 1 1004 (fmt_time 4) 3 2] = false.
Proof. vm_compute. reflexivity. Qed.
