(* C18 with replay-time filter options: the script driver delivers exactly the UFTRACE_FUNCS
   sub-sequence of what replay shows with the same options. *)
From Coq Require Import NArith List Bool.
Import ListNotations.
Require Import UV.C06.Model UV.C18.Model UV.C18.Filter.
Local Open Scope N_scope.

Lemma cb_keep_event funcs ev : cb_keep funcs (cb_of_event ev) = match_funcs funcs (e_name ev).
Proof. unfold cb_of_event. destruct (e_open ev); reflexivity. Qed.

Lemma script_f_replay_f o forks funcs tasks : forall l g F,
  script_f o forks funcs tasks l g F =
  filter (cb_keep funcs) (map cb_of_event (replay_f o forks tasks l g F)).
Proof.
  induction l as [|[i r] tl IH]; intros g F; [reflexivity|].
  cbn [script_f replay_f].
  destruct (fstep o forks tasks g F i r) as [[e g'] F'].
  rewrite map_app, filter_app, IH. f_equal.
  destruct e as [ev|]; [|reflexivity].
  cbn [map filter]. rewrite cb_keep_event. destruct (match_funcs funcs (e_name ev)); reflexivity.
Qed.

(* C18, UFTRACE_FUNCS under -D / -F / -N: begin, the listed functions' sub-sequence of what
   `replay --no-merge` shows with the same options (same tid, depth, timestamp, duration,
   address, name), end - for every input *)
Theorem script_funcs_filter_with_options o forks funcs sel tasks :
  script_opts o forks funcs sel tasks =
  CBegin :: filter (cb_keep funcs) (map cb_of_event (replay_opts o forks sel tasks)) ++ [CEnd].
Proof. unfold script_opts, replay_opts. rewrite script_f_replay_f. reflexivity. Qed.

(* the variant of the EXIT branch that forgets fstack_exit() for an unlisted function (the
   filter state is then not restored) does NOT have this property: -D 2, list [3],
   a(){ b(){} } c(){ d(){} } ... *)
Definition leaky_fstep (o : fopts) (forks funcs : list N) (tasks : list task) (g : gstate) (F : list fstate) (i : nat) (r : rec)
  : option event * gstate * list fstate :=
  let '(e, g', F') := fstep o forks tasks g F i r in
  match r_type r, e with
  | EXIT, Some ev => if match_funcs funcs (e_name ev) then (e, g', F') else (e, g', F)    (* no fstack_exit *)
  | _, _ => (e, g', F')
  end.
Fixpoint leaky_script_f (o : fopts) (forks funcs : list N) (tasks : list task) (l : list (nat * rec)) (g : gstate) (F : list fstate)
  : list callback :=
  match l with
  | [] => []
  | (i, r) :: tl =>
      let '(e, g', F') := leaky_fstep o forks funcs tasks g F i r in
      (match e with
       | Some ev => if match_funcs funcs (e_name ev) then [cb_of_event ev] else []
       | None => []
       end) ++ leaky_script_f o forks funcs tasks tl g' F'
  end.
Definition leak_tasks : list task :=
  [ mktask None [mkrec 1000 ENTRY 0 1; mkrec 1010 ENTRY 1 2; mkrec 1020 EXIT 1 2; mkrec 1030 ENTRY 1 2; mkrec 1040 EXIT 1 2;
                 mkrec 1050 ENTRY 1 3; mkrec 1060 EXIT 1 3; mkrec 1070 EXIT 0 1] ].
Lemma leaky_exit_refuted :
  let o := mkfopts 2 [] [] in
  leaky_script_f o [] [3] leak_tasks (merge (mask_queues None leak_tasks 0)) (init_g None leak_tasks) (F0 o leak_tasks) <>
  filter (cb_keep [3]) (map cb_of_event (replay_opts o [] None leak_tasks)).
Proof. vm_compute. intros H. discriminate H. Qed.
