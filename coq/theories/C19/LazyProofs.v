(* os._exit: the data file holds exactly the completed calls and the calls that enclose them. *)
From Coq Require Import ZArith NArith Arith List Bool Lia.
Import ListNotations.
Require Import UV.C19.Model UV.C19.Proofs UV.C19.Lazy.

Lemma lz_run_app : forall a b s, lz_run s (a ++ b) = lz_run (lz_run s a) b.
Proof. intros. unfold lz_run. apply fold_left_app. Qed.

Lemma lz_run_cons : forall h t s, lz_run s (h :: t) = lz_run (lz_step s h) t.
Proof. reflexivity. Qed.

(* state after a non-empty sequence of completed calls [g] ran on top of state [s] *)
Definition after (s : lzst) (g : forest) : lzst :=
  match g with
  | FNil => s
  | _ => {| lz_u := []; lz_w := lz_u s ++ lz_w s;
            lz_out := lz_out s ++ flush_entries (length (lz_w s)) (lz_u s)
                      ++ records_of (length (lz_w s) + length (lz_u s)) g;
            lz_unpaired := lz_unpaired s |}
  end.

Lemma closed_run : forall g s rest, lz_run s (hooks_of g ++ rest) = lz_run (after s g) rest.
Proof.
  induction g as [|b k IHk r IHr]; intros s rest; [reflexivity|].
  cbn [hooks_of app]. rewrite lz_run_cons.
  rewrite <- app_assoc. rewrite IHk. cbn [app].
  set (s1 := lz_step s (HEnter (l_sym b))).
  assert (E2 : lz_run (after s1 k) (HExit :: hooks_of r ++ rest) =
               lz_run {| lz_u := []; lz_w := lz_u s ++ lz_w s;
                         lz_out := lz_out s ++ flush_entries (length (lz_w s)) (lz_u s)
                                   ++ records_of (length (lz_w s) + length (lz_u s)) (FNode b k FNil);
                         lz_unpaired := lz_unpaired s |} (hooks_of r ++ rest)).
  { rewrite lz_run_cons. f_equal.
    destruct k as [|bk kk kr].
    - cbn [after]. unfold s1. cbn [lz_step lz_u lz_w lz_out lz_unpaired flush_entries records_of app].
      f_equal. rewrite <- !app_assoc. cbn [app]. reflexivity.
    - unfold after. unfold s1. cbn [lz_step lz_u lz_w lz_out lz_unpaired flush_entries app length].
      f_equal. cbn [records_of]. rewrite app_length. rewrite <- !app_assoc. cbn [app].
      replace (length (lz_w s) + S (length (lz_u s))) with (S (length (lz_w s) + length (lz_u s))) by lia.
      replace (length (lz_u s) + length (lz_w s)) with (length (lz_w s) + length (lz_u s)) by lia.
      rewrite <- !app_assoc. reflexivity. }
  rewrite E2. rewrite IHr. f_equal.
  destruct r as [|br rk rr]; [reflexivity|].
  unfold after. cbn [lz_u lz_w lz_out lz_unpaired flush_entries app length].
  f_equal. rewrite app_length, Nat.add_0_r.
  replace (length (lz_u s) + length (lz_w s)) with (length (lz_w s) + length (lz_u s)) by lia.
  cbn [records_of]. rewrite <- !app_assoc. cbn [app]. rewrite <- !app_assoc. reflexivity.
Qed.

(* ---- closed (completed) forests: the open-aware functions coincide with the ordinary ones ---- *)
Lemma hooks_open_closed : forall g, closed g = true -> hooks_open g = hooks_of g.
Proof.
  induction g as [|b k IHk r IHr]; intros H; [reflexivity|]. cbn in H.
  apply andb_prop in H as [H Hr]. apply andb_prop in H as [Hb Hk]. apply negb_true_iff in Hb.
  cbn [hooks_open hooks_of]. rewrite Hb. now rewrite IHk, IHr.
Qed.
Lemma open_records_closed : forall g d, closed g = true -> open_records d g = records_of d g.
Proof.
  induction g as [|b k IHk r IHr]; intros d H; [reflexivity|]. cbn in H.
  apply andb_prop in H as [H Hr]. apply andb_prop in H as [Hb Hk]. apply negb_true_iff in Hb.
  cbn [open_records records_of]. rewrite Hb. now rewrite IHk, IHr.
Qed.
Lemma events_open_closed : forall g, closed g = true -> events_open g = events g.
Proof.
  induction g as [|b k IHk r IHr]; intros H; [reflexivity|]. cbn in H.
  apply andb_prop in H as [H Hr]. apply andb_prop in H as [Hb Hk]. apply negb_true_iff in Hb.
  cbn [events_open events]. unfold exit_kind. rewrite Hb. now rewrite IHk, IHr.
Qed.
Lemma closed_open_ok : forall g, closed g = true -> open_ok g = true.
Proof.
  induction g as [|b k IHk r IHr]; intros H; [reflexivity|]. cbn in H.
  apply andb_prop in H as [H Hr]. apply andb_prop in H as [Hb Hk]. apply negb_true_iff in Hb.
  cbn [open_ok]. destruct r; [now rewrite Hb|]. rewrite Hb, Hk. cbn. now apply IHr.
Qed.
Lemma trim_open_closed : forall g, closed g = true -> trim_open g = g.
Proof.
  induction g as [|b k IHk r IHr]; intros H; [reflexivity|]. cbn in H.
  apply andb_prop in H as [H Hr]. apply andb_prop in H as [Hb Hk]. apply negb_true_iff in Hb.
  cbn [trim_open]. destruct r; [now rewrite Hb|]. now rewrite IHr.
Qed.

(* ---- the data file after the process stopped inside the open calls of [f] ---- *)
Definition pending (s : lzst) (g : forest) : list rec :=
  match g with
  | FNil => []
  | _ => flush_entries (length (lz_w s)) (lz_u s) ++ open_records (length (lz_w s) + length (lz_u s)) g
  end.

Lemma open_run : forall f s, open_ok f = true ->
  lz_out (lz_run s (hooks_open f)) = lz_out s ++ pending s (trim_open f).
Proof.
  induction f as [|b k IHk r IHr]; intros s H; [cbn; now rewrite app_nil_r|].
  cbn [open_ok] in H. destruct r as [|br rk rr].
  - destruct (l_exc b) eqn:Ob.
    + (* b is still open *)
      cbn [hooks_open trim_open]. rewrite Ob, app_nil_r. rewrite lz_run_cons.
      rewrite IHk by assumption. cbn [lz_step lz_out lz_u lz_w].
      destruct (trim_open k) as [|bk kk kr] eqn:T; [reflexivity|].
      unfold pending. cbn [lz_u lz_w flush_entries length open_records]. rewrite Ob, app_nil_r.
      rewrite <- !app_assoc. cbn [app].
      replace (length (lz_w s) + S (length (lz_u s))) with (S (length (lz_w s) + length (lz_u s))) by lia.
      reflexivity.
    + (* b completed: a closed forest *)
      assert (C : closed (FNode b k FNil) = true) by (cbn; now rewrite Ob, H).
      rewrite hooks_open_closed, trim_open_closed by assumption.
      rewrite <- (app_nil_r (hooks_of _)), closed_run. cbn [lz_run fold_left after lz_out].
      unfold pending. now rewrite open_records_closed by assumption.
  - apply andb_prop in H as [H Hr]. apply andb_prop in H as [Hb Hk]. apply negb_true_iff in Hb.
    assert (C : closed (FNode b k FNil) = true) by (cbn; now rewrite Hb, Hk).
    change (hooks_open (FNode b k (FNode br rk rr)))
      with (HEnter (l_sym b) :: hooks_open k ++ (if l_exc b then [] else HExit :: hooks_open (FNode br rk rr))).
    rewrite Hb. rewrite (hooks_open_closed k Hk).
    assert (E : HEnter (l_sym b) :: hooks_of k ++ HExit :: hooks_open (FNode br rk rr) =
                hooks_of (FNode b k FNil) ++ hooks_open (FNode br rk rr)).
    { cbn [hooks_of app]. rewrite <- app_assoc. reflexivity. }
    rewrite E, closed_run. rewrite IHr by assumption.
    cbn [after lz_out lz_u lz_w]. change (trim_open (FNode b k (FNode br rk rr))) with (FNode b k (trim_open (FNode br rk rr))).
    unfold pending at 2. cbn [open_records]. rewrite Hb. rewrite (open_records_closed k _ Hk).
    unfold pending. cbn [lz_u lz_w flush_entries length]. rewrite app_length, Nat.add_0_r.
    replace (length (lz_u s) + length (lz_w s)) with (length (lz_w s) + length (lz_u s)) by lia.
    cbn [records_of]. rewrite <- !app_assoc. cbn [app]. rewrite <- !app_assoc. cbn [app].
    destruct (trim_open (FNode br rk rr)); reflexivity.
Qed.

Theorem lazy_records : forall f, open_ok f = true ->
  lz_out (lz_run lz0 (hooks_open f)) = open_records 0 (trim_open f).
Proof.
  intros f H. rewrite open_run by assumption. cbn. unfold pending. cbn.
  destruct (trim_open f); reflexivity.
Qed.

(* ---- the selection keeps the shape "completed calls, then the open path" ---- *)
Lemma closed_fapp : forall a b, closed (fapp a b) = closed a && closed b.
Proof.
  induction a as [|x k IHk r IHr]; intros b; cbn [fapp closed]; [reflexivity|].
  rewrite IHr. now rewrite !andb_assoc.
Qed.

Lemma closed_select : forall c f ci co l, closed f = true -> closed (select c ci co l f) = true.
Proof.
  intros c f. induction f as [|b k IHk r IHr]; intros ci co l H; [reflexivity|]. cbn in H.
  apply andb_prop in H as [H Hr]. apply andb_prop in H as [Hb Hk].
  rewrite select_node. destruct (tracedb c ci co l b).
  - cbn [closed]. now rewrite Hb, IHk, IHr.
  - rewrite closed_fapp. now rewrite IHk, IHr.
Qed.

Lemma open_ok_fapp : forall a b, closed a = true -> open_ok b = true -> open_ok (fapp a b) = true.
Proof.
  induction a as [|x k IHk r IHr]; intros b Ca Ob; [assumption|]. cbn in Ca.
  apply andb_prop in Ca as [H Hr]. apply andb_prop in H as [Hx Hk].
  cbn [fapp open_ok]. destruct (fapp r b) eqn:E.
  - apply negb_true_iff in Hx. now rewrite Hx.
  - rewrite Hx, Hk. cbn [andb]. rewrite <- E. now apply IHr.
Qed.

Lemma open_ok_select : forall c f ci co l, open_ok f = true -> open_ok (select c ci co l f) = true.
Proof.
  intros c f. induction f as [|b k IHk r IHr]; intros ci co l H; [reflexivity|].
  cbn [open_ok] in H. rewrite select_node. destruct r as [|br rk rr].
  - cbn [select]. destruct (l_exc b) eqn:Ob.
    + destruct (tracedb c ci co l b).
      * cbn [open_ok]. rewrite Ob. now apply IHk.
      * rewrite fapp_nil_r. now apply IHk.
    + destruct (tracedb c ci co l b).
      * cbn [open_ok]. rewrite Ob. now apply closed_select.
      * rewrite fapp_nil_r. apply closed_open_ok. now apply closed_select.
  - apply andb_prop in H as [H Hr]. apply andb_prop in H as [Hb Hk].
    destruct (tracedb c ci co l b).
    + cbn [open_ok]. destruct (select c ci co l (FNode br rk rr)) eqn:E.
      * apply negb_true_iff in Hb. rewrite Hb. now apply closed_select.
      * rewrite Hb. rewrite closed_select by assumption. cbn [andb]. rewrite <- E. now apply IHr.
    + apply open_ok_fapp; [now apply closed_select|now apply IHr].
Qed.

Lemma hooks_open_fapp : forall a b, closed a = true -> hooks_open (fapp a b) = hooks_of a ++ hooks_open b.
Proof.
  induction a as [|x k IHk r IHr]; intros b Ca; [reflexivity|]. cbn in Ca.
  apply andb_prop in Ca as [H Hr]. apply andb_prop in H as [Hx Hk]. apply negb_true_iff in Hx.
  cbn [fapp hooks_open hooks_of app]. rewrite Hx, (hooks_open_closed k Hk), IHr by assumption.
  rewrite <- app_assoc. reflexivity.
Qed.

(* ---- the callback up to the point where the process stops ---- *)
Lemma run_open : forall c f (ci co l : Z), c_fixed c = true -> open_ok f = true ->
  (0 <= ci)%Z -> (0 <= co)%Z -> (0 <= l)%Z ->
  snd (run c {| cin := ci; cout := co; lc := l |} (events_open f)) = hooks_open (select c ci co l f).
Proof.
  intros c f. induction f as [|b k IHk r IHr]; intros ci co l F H Hi Ho Hl; [reflexivity|].
  cbn [open_ok] in H. destruct r as [|br rk rr].
  - destruct (l_exc b) eqn:Ob.
    + (* open call: its entry, then the open part below it *)
      cbn [events_open]. rewrite Ob, app_nil_r. cbn [run].
      pose proof (step_entry c {| cin := ci; cout := co; lc := l |} b Hi Ho Hl) as E. cbn [cin cout lc] in E.
      rewrite E. clear E.
      specialize (IHk (ci' c ci b) (co' c co b) (l' c ci co l b) F H
                      (ci'_nonneg c ci b Hi) (co'_nonneg c co b Ho) (l'_nonneg c ci co l b Hl)).
      destruct (run c _ (events_open k)) as [s2 h2]. cbn [snd] in *. rewrite IHk.
      rewrite select_node. cbn [select]. destruct (tracedb c ci co l b).
      * cbn [hooks_open app]. now rewrite Ob, app_nil_r.
      * now rewrite fapp_nil_r.
    + assert (C : closed (FNode b k FNil) = true) by (cbn; now rewrite Ob, H).
      rewrite events_open_closed by assumption. rewrite run_forest by (try assumption; now left).
      cbn [snd]. symmetry. apply hooks_open_closed. now apply closed_select.
  - apply andb_prop in H as [H Hr]. apply andb_prop in H as [Hb Hk]. pose proof Hb as Hb'. apply negb_true_iff in Hb.
    assert (C : closed (FNode b k FNil) = true) by (cbn; now rewrite Hb, Hk).
    assert (E : events_open (FNode b k (FNode br rk rr)) = events (FNode b k FNil) ++ events_open (FNode br rk rr)).
    { cbn [events_open events]. rewrite Hb. rewrite (events_open_closed k Hk). unfold exit_kind. rewrite Hb.
      cbn [app]. rewrite <- app_assoc. reflexivity. }
    rewrite E, run_app. rewrite run_forest by (try assumption; now left).
    specialize (IHr ci co l F Hr Hi Ho Hl).
    destruct (run c _ (events_open (FNode br rk rr))) as [s2 h2]. cbn [snd] in *. rewrite IHr.
    rewrite !select_node. cbn [select]. fold (select c ci co l (FNode br rk rr)).
    destruct (tracedb c ci co l b).
    + cbn [hooks_of hooks_open app]. rewrite Hb. rewrite fapp_nil_r || idtac.
      rewrite (hooks_open_closed _ (closed_select c k _ _ _ Hk)). rewrite <- app_assoc. reflexivity.
    + rewrite fapp_nil_r. rewrite hooks_open_fapp by (now apply closed_select). reflexivity.
Qed.

(* A script that calls os._exit() (or is killed) inside the open calls of [f]: the data file holds
   exactly the records of the selected forest in which every open call that has no completed traced
   call below it is dropped ([trim_open]); completed calls have ENTRY and EXIT, the remaining open
   calls an ENTRY only, all properly nested. *)
Theorem os_exit_records : forall c f, c_fixed c = true -> open_ok f = true ->
  lz_out (lz_run lz0 (snd (run c st0 (events_open f)))) = open_records 0 (trim_open (select c 0 0 0 f)).
Proof.
  intros c f F H. unfold st0. rewrite run_open by (try assumption; lia).
  apply lazy_records. now apply open_ok_select.
Qed.

(* non-vacuity: a() { b(); c() { os._exit } } and a() { c() { os._exit } } with -N b *)
Definition opn (n : name) : lab := {| l_sym := {| s_name := n; s_lib := false |}; l_c := false; l_exc := true |}.
Definition ex_open : forest := FNode (opn nm_a) (FNode (py nm_b) FNil (FNode (opn nm_c) FNil FNil)) FNil.
Example os_exit_example :
  open_ok ex_open = true /\
  lz_out (lz_run lz0 (snd (run (cfg_plain LSingle) st0 (events_open ex_open)))) =
    [REntry 0 (l_sym (py nm_a)); REntry 1 (l_sym (py nm_b)); RExit 1 (l_sym (py nm_b))] /\
  lz_out (lz_run lz0 (snd (run (mkcfg (Some [33 :: nm_b]%N) LSingle true) st0 (events_open ex_open)))) = [].
Proof. vm_compute. repeat split; reflexivity. Qed.
