(* python/uftrace.py, the loader `python -m uftrace script args`: the module search path the script
   runs with.  A plain `python3 script` puts the directory of the script in front of the base path
   (PYTHONPATH entries, standard library); `python3 -m uftrace` starts with the current directory
   in front of the base path and the loader puts the directory of the script in its place.
   Executable definitions only. *)
From Coq Require Import NArith List Bool.
Import ListNotations.
Require Import UV.C19.Model.

Definition dir := name.
Fixpoint in_path (d : dir) (p : list dir) : bool :=
  match p with [] => false | x :: r => name_eqb x d || in_path d r end.

(* the import system: the first directory of the path that has the module *)
Fixpoint find_module (has : dir -> bool) (p : list dir) : option dir :=
  match p with [] => None | d :: r => if has d then Some d else find_module has r end.

Definition plain_path (script_dir : dir) (base : list dir) : list dir := script_dir :: base.
(* `python -m uftrace` starts with path0 = cwd :: base.  uftrace.py (fix e6ae373): the entry -m added
   is replaced by the directory of the script *)
Definition loader_path (script_dir cwd : dir) (base : list dir) : list dir :=
  match cwd :: base with
  | _ :: rest => script_dir :: rest
  | [] => [script_dir]
  end.
(* the loader before that fix: sys.path.insert(0, dirname(script)) - the current directory stays *)
Definition loader_path_legacy (script_dir cwd : dir) (base : list dir) : list dir := script_dir :: cwd :: base.
(* the variant "do not add it twice" of the legacy loader *)
Definition loader_path_cond (script_dir cwd : dir) (base : list dir) : list dir :=
  if in_path script_dir (cwd :: base) then cwd :: base else script_dir :: cwd :: base.
