(* python.fake.sym as written by write_symtab / get_new_sym_addr (python/trace-python.c), and the
   line format read back by the analysis commands: executable rendering + parser, no proofs. *)
From Coq Require Import NArith List Bool.
Import ListNotations.
Require Import UV.C19.Model.
Local Open Scope N_scope.

Definition hexdigit (d : N) : N := if d <? 10 then 48 + d else 87 + d.          (* '0'..'9','a'..'f' *)
Definition hexval (c : N) : option N :=
  if (48 <=? c) && (c <=? 57) then Some (c - 48)
  else if (97 <=? c) && (c <=? 102) then Some (c - 87)
  else None.
(* "%016x" of a 32-bit count: k digits, most significant first *)
Fixpoint hexk (k : nat) (n : N) : list N :=
  match k with O => [] | S k' => hexk k' (n / 16) ++ [hexdigit (n mod 16)] end.
Fixpoint unhex (acc : N) (l : list N) : option N :=
  match l with
  | [] => Some acc
  | c :: r => match hexval c with Some v => unhex (acc * 16 + v) r | None => None end
  end.

(* "%u" *)
Fixpoint deck (fuel : nat) (n : N) : list N :=
  match fuel with
  | O => []
  | S f => if n <? 10 then [48 + n] else deck f (n / 10) ++ [48 + n mod 10]
  end.
Definition dec (n : N) : list N := deck 20 n.

Definition c_NL : N := 10.  Definition c_SP : N := 32.  Definition c_HASH : N := 35.
Definition s_symbols : name := [35; 32; 115; 121; 109; 98; 111; 108; 115; 58; 32].                  (* "# symbols: " *)
Definition s_pathname : name := [35; 32; 112; 97; 116; 104; 32; 110; 97; 109; 101; 58; 32;
                                 112; 121; 116; 104; 111; 110; 46; 102; 97; 107; 101].               (* "# path name: python.fake" *)
Definition s_sym_end : name := [95; 95; 115; 121; 109; 95; 101; 110; 100].                          (* "__sym_end" *)

(* one entry line without the newline: "%016x %c %s" *)
Definition entry_line (a : N) (t : N) (nm : name) : list N := hexk 16 a ++ c_SP :: t :: c_SP :: nm.
Definition type_char (s : sym) : N := if s_lib s then 80 else 84.                                   (* 'P' / 'T' *)

Fixpoint entry_lines (a : N) (tab : list sym) : list (list N) :=
  match tab with
  | [] => []
  | s :: r => entry_line a (type_char s) (s_name s) :: entry_lines (N.succ a) r
  end.

(* the header is UFTRACE_PYTHON_SYMTAB_HDRSZ = 48 bytes: two comment lines and a padding line *)
Definition header_lines (count : N) : list (list N) :=
  let l1 := s_symbols ++ dec count in
  let l2 := s_pathname in
  let len := N.of_nat (length l1 + 1 + length l2 + 1) in
  [l1; l2; c_HASH :: repeat c_SP (N.to_nat (48 - 2 - len))].

Definition sym_lines (tab : list sym) : list (list N) :=
  let n := N.of_nat (length tab) in
  header_lines n ++ entry_lines 1 tab ++ [entry_line (n + 1) 63 s_sym_end].                         (* '?' *)

Fixpoint join_lines (ls : list (list N)) : list N :=
  match ls with [] => [] | l :: r => l ++ c_NL :: join_lines r end.
Definition render_symtab (tab : list sym) : list N := join_lines (sym_lines tab).

(* ---- reader side: split at newlines, skip '#' lines, "%lx %c %s"-style entries, stop at '?' ---- *)
Fixpoint split_lines (cur : list N) (l : list N) : list (list N) :=
  match l with
  | [] => match cur with [] => [] | _ => [rev cur] end
  | c :: r => if c =? c_NL then rev cur :: split_lines [] r else split_lines (c :: cur) r
  end.

Definition parse_entry (l : list N) : option (N * N * name) :=
  match unhex 0 (firstn 16 l), skipn 16 l with
  | Some a, sp1 :: t :: sp2 :: nm => if (sp1 =? c_SP) && (sp2 =? c_SP) then Some (a, t, nm) else None
  | _, _ => None
  end.

(* returns the symbols in file order with their addresses; None on a malformed line *)
Fixpoint parse_lines (ls : list (list N)) : option (list (N * sym)) :=
  match ls with
  | [] => Some []
  | l :: r =>
      match l with
      | c :: _ => if c =? c_HASH then parse_lines r else
          match parse_entry l with
          | Some (a, t, nm) =>
              if t =? 63 then Some []                       (* __sym_end *)
              else match parse_lines r with
                   | Some rest => Some ((a, {| s_name := nm; s_lib := t =? 80 |}) :: rest)
                   | None => None
                   end
          | None => None
          end
      | [] => parse_lines r
      end
  end.
Definition parse_symfile (bytes : list N) : option (list (N * sym)) := parse_lines (split_lines [] bytes).

Fixpoint number_from (a : N) (tab : list sym) : list (N * sym) :=
  match tab with [] => [] | s :: r => (a, s) :: number_from (N.succ a) r end.

Fixpoint bytes_eqb (a b : list N) : bool :=
  match a, b with
  | [], [] => true
  | x :: a', y :: b' => (x =? y) && bytes_eqb a' b'
  | _, _ => false
  end.
