(* os._exit: what is in the data file when the process stops without unwinding.
   libmcount writes nothing at entry; at the exit of a call (mcount_exit_filter_record ->
   record_trace_data) it first writes the ENTRY of every enclosing call not written yet (outermost
   first), then the call's own ENTRY and its EXIT, and marks them MCOUNT_FL_WRITTEN.  A written
   frame has only written frames below it, so the shadow stack is kept as the unwritten frames (on
   top) and the written frames (below).  Executable definitions only. *)
From Coq Require Import ZArith NArith List Bool.
Import ListNotations.
Require Import UV.C19.Model.

Record lzst := { lz_u : list sym;      (* frames whose ENTRY is not written, innermost first *)
                 lz_w : list sym;      (* written frames below them, innermost first *)
                 lz_out : list rec;    (* records in the data file, oldest first *)
                 lz_unpaired : nat }.
Definition lz0 : lzst := {| lz_u := []; lz_w := []; lz_out := []; lz_unpaired := O |}.

(* ENTRY records of the unwritten frames [u] (innermost first) that sit on [base] written frames *)
Fixpoint flush_entries (base : nat) (u : list sym) : list rec :=
  match u with
  | [] => []
  | s :: u' => flush_entries base u' ++ [REntry (base + length u') s]
  end.

Definition lz_step (s : lzst) (h : hook) : lzst :=
  match h with
  | HEnter y => {| lz_u := y :: lz_u s; lz_w := lz_w s; lz_out := lz_out s; lz_unpaired := lz_unpaired s |}
  | HExit =>
      match lz_u s with
      | y :: u' =>
          {| lz_u := []; lz_w := u' ++ lz_w s;
             lz_out := lz_out s ++ flush_entries (length (lz_w s)) (y :: u')
                       ++ [RExit (length (lz_w s) + length u') y];
             lz_unpaired := lz_unpaired s |}
      | [] =>
          match lz_w s with
          | y :: w' => {| lz_u := []; lz_w := w'; lz_out := lz_out s ++ [RExit (length w') y];
                          lz_unpaired := lz_unpaired s |}
          | [] => {| lz_u := []; lz_w := []; lz_out := lz_out s; lz_unpaired := S (lz_unpaired s) |}
          end
      end
  end.
Definition lz_run (s : lzst) (hs : list hook) : lzst := fold_left lz_step hs s.

(* a forest some of whose calls are still open when the process stops: they carry l_exc = true and
   form the rightmost path *)
Fixpoint closed (f : forest) : bool :=
  match f with FNil => true | FNode b k r => negb (l_exc b) && closed k && closed r end.
Fixpoint open_ok (f : forest) : bool :=
  match f with
  | FNil => true
  | FNode b k r =>
      match r with
      | FNil => if l_exc b then open_ok k else closed k
      | _ => negb (l_exc b) && closed k && open_ok r
      end
  end.

(* events / hook calls up to the point where the process stops: open calls never return *)
Fixpoint events_open (f : forest) : list event :=
  match f with
  | FNil => []
  | FNode l kids rest =>
      {| e_kind := entry_kind l; e_sym := l_sym l |} :: events_open kids
      ++ (if l_exc l then [] else {| e_kind := if l_c l then CReturn else Return; e_sym := l_sym l |} :: events_open rest)
  end.
Fixpoint hooks_open (f : forest) : list hook :=
  match f with
  | FNil => []
  | FNode b kids rest => HEnter (l_sym b) :: hooks_open kids ++ (if l_exc b then [] else HExit :: hooks_open rest)
  end.
(* the records replay finds: open calls have an ENTRY only *)
Fixpoint open_records (d : nat) (f : forest) : list rec :=
  match f with
  | FNil => []
  | FNode b kids rest =>
      REntry d (l_sym b) :: open_records (S d) kids ++ (if l_exc b then [] else RExit d (l_sym b) :: open_records d rest)
  end.

(* correspondence for an end-to-end case that ended by os._exit: the lazy writer on the model's
   hook calls up to the stop gives exactly the entries replay shows *)
Definition e_agrees_lazy (k : ecase) : bool :=
  let c := mkcfg_pt (x_patt k) (x_env k) (x_lib k) true in
  let f := iforest_labs (x_tab k) (x_log k) in
  open_ok f &&
  list_eqb dn_eqb (rec_entries (lz_out (lz_run lz0 (snd (run c st0 (events_open f)))))) (nentries O (x_replay k)).
