(* Model of the Python tracing front end of uftrace: python/trace-python.c

     init_filters, match_filter, apply_filters, can_trace, the event dispatch of
     uftrace_trace_python, get_python_funcname / get_c_funcname / convert_function_addr
     (function naming, main-vs-library classification, pseudo-address table) and the part of
     libmcount's __cygprof_entry/__cygprof_exit that pairs the hook calls (shadow stack).

   The code is modelled AS IT IS: [c_fixed cfg = true] (what [mkcfg _ _ true] builds and what every
   checker uses) is apply_filters with the exit of an opt-out match skipped before the opt-in test
   (fix 5445264), and [depth_guard] is the call-depth test of uftrace_trace_python (fix d27b480).
   [c_fixed cfg = false] / no depth guard is the code before these repairs, kept only for the
   `..._legacy_refuted` witnesses.

   C `int` counters are modelled by Z (no wrap: fewer than 2^31 nested calls).
   Executable definitions only - no proofs in this file.                                    *)
From Coq Require Import ZArith NArith List Bool.
Import ListNotations.
Local Open Scope Z_scope.

(* ---------------------------------------------------------------- names *)
Definition name := list N.          (* bytes of a C string *)

Fixpoint name_eqb (a b : name) : bool :=
  match a, b with
  | [], [] => true
  | x :: a', y :: b' => N.eqb x y && name_eqb a' b'
  | _, _ => false
  end.

Record sym := { s_name : name; s_lib : bool }.       (* uftrace_python_symbol: name, UFT_PYSYM_F_LIBCALL *)
Definition sym_eqb (a b : sym) : bool := name_eqb (s_name a) (s_name b) && Bool.eqb (s_lib a) (s_lib b).

(* ---------------------------------------------------------------- patterns (utils/filter.h, regcomp/regexec subset) *)
Definition c_DOT : N := 46.   Definition c_CARET : N := 94.  Definition c_DOLLAR : N := 36.
Definition c_BANG : N := 33.  Definition c_SLASH : N := 47.
(* REGEX_CHARS ".?*+-^$|()[]{}" *)
Definition regex_chars : list N := [46; 63; 42; 43; 45; 94; 36; 124; 40; 41; 91; 93; 123; 125]%N.
Definition has_regex_char (p : name) : bool := existsb (fun c => existsb (N.eqb c) regex_chars) p.

(* POSIX ERE restricted to: optional leading ^, optional trailing $, in between literals and '.'.
   (REG_NOSUB | REG_EXTENDED, unanchored search.)  Patterns outside this subset are outside the
   domain of the model; the generators never produce them. *)
Fixpoint match_here (p s : name) (to_end : bool) : bool :=
  match p with
  | [] => if to_end then match s with [] => true | _ => false end else true
  | c :: p' => match s with
               | [] => false
               | d :: s' => (N.eqb c c_DOT || N.eqb c d) && match_here p' s' to_end
               end
  end.
Fixpoint match_any (p s : name) (to_end : bool) : bool :=
  match_here p s to_end || match s with [] => false | _ :: s' => match_any p s' to_end end.
Definition strip_dollar (p : name) : bool * name :=
  match rev p with
  | c :: r => if N.eqb c c_DOLLAR then (true, rev r) else (false, p)
  | [] => (false, p)
  end.
Definition regex_match (p s : name) : bool :=
  match p with
  | c :: r => if N.eqb c c_CARET
              then let '(e, b) := strip_dollar r in match_here b s e
              else let '(e, b) := strip_dollar p in match_any b s e
  | [] => true
  end.

Inductive fmode := FIn | FOut.                       (* FILTER_MODE_IN / FILTER_MODE_OUT *)
Definition fmode_eqb (a b : fmode) : bool := match a, b with FIn, FIn | FOut, FOut => true | _, _ => false end.

(* UFTRACE_PATTERN (--match): unset or anything else = regex, "glob", "simple" *)
Inductive ptype := PRegex | PGlob | PSimple.
Definition c_STAR : N := 42.  Definition c_QMARK : N := 63.

(* fnmatch(patt, name, 0) restricted to '*', '?' and literals (no brackets, no backslash) *)
Fixpoint glob_match (p s : name) {struct p} : bool :=
  match p with
  | [] => match s with [] => true | _ => false end
  | c :: p' =>
      if N.eqb c c_STAR
      then (fix star (s : name) : bool :=
              glob_match p' s || match s with [] => false | _ :: s' => star s' end) s
      else match s with
           | [] => false
           | d :: s' => (N.eqb c c_QMARK || N.eqb c d) && glob_match p' s'
           end
  end.

Record filter := { f_patt : name; f_type : ptype; f_mode : fmode }.

(* one element of UFTRACE_FILTER split at ';' (init_filters loop body): a pattern without any of
   REGEX_CHARS is compared with strcmp whatever the pattern type *)
Definition patt_type (pt : ptype) (p : name) : ptype := if has_regex_char p then pt else PSimple.
Definition mk_filter_pt (pt : ptype) (raw : name) : filter :=
  match raw with
  | c :: r => if N.eqb c c_BANG
              then {| f_patt := r; f_type := patt_type pt r; f_mode := FOut |}
              else {| f_patt := raw; f_type := patt_type pt raw; f_mode := FIn |}
  | [] => {| f_patt := []; f_type := PSimple; f_mode := FIn |}
  end.
Definition mk_filter := mk_filter_pt PRegex.
Definition is_in (f : filter) : bool := fmode_eqb (f_mode f) FIn.

(* init_filters: None = UFTRACE_FILTER unset (FILTER_MODE_NONE) *)
Definition init_filters_pt (pt : ptype) (env : option (list name)) : option fmode * list filter :=
  match env with
  | None => (None, [])
  | Some raws => let fs := map (mk_filter_pt pt) raws in
                 (Some (if existsb is_in fs then FIn else FOut), fs)
  end.
Definition init_filters := init_filters_pt PRegex.

Definition match_filter (f : filter) (nm : name) : bool :=
  match f_type f with
  | PRegex => regex_match (f_patt f) nm
  | PGlob => glob_match (f_patt f) nm
  | PSimple => name_eqb (f_patt f) nm
  end.

(* the list_for_each_entry loop of apply_filters: first matching filter wins *)
Fixpoint first_match (fs : list filter) (nm : name) : option fmode :=
  match fs with
  | [] => None
  | f :: r => if match_filter f nm then Some (f_mode f) else first_match r nm
  end.

(* ---------------------------------------------------------------- configuration and state *)
Inductive libmode := LNone | LSingle | LNested.       (* UFT_PY_LIBCALL_* *)

Record cfg := {
  c_fmode : option fmode;          (* filter_state.mode; None = FILTER_MODE_NONE *)
  c_filters : list filter;
  c_lib : libmode;
  c_fixed : bool                   (* true: current code; false: code before fix 5445264 (legacy witnesses) *)
}.

Definition mkcfg_pt (pt : ptype) (env : option (list name)) (m : libmode) (fixed : bool) : cfg :=
  let '(fm, fs) := init_filters_pt pt env in {| c_fmode := fm; c_filters := fs; c_lib := m; c_fixed := fixed |}.
Definition mkcfg := mkcfg_pt PRegex.

Record st := { cin : Z; cout : Z; lc : Z }.           (* count_in, count_out, libcall_count *)
Definition st0 : st := {| cin := 0; cout := 0; lc := 0 |}.
Definition st_eqb (a b : st) : bool := Z.eqb (cin a) (cin b) && Z.eqb (cout a) (cout b) && Z.eqb (lc a) (lc b).

Definition is_some_mode (m : option fmode) (x : fmode) : bool :=
  match m with Some y => fmode_eqb x y | None => false end.

(* apply_filters: returns (state, skip) *)
Definition apply_filters (fixed : bool) (fm : fmode) (fs : list filter) (s : st) (is_entry : bool) (nm : name)
  : st * bool :=
  let delta := if is_entry then 1 else -1 in
  let m := first_match fs nm in
  let s1 := match m with
            | Some FIn => {| cin := cin s + delta; cout := cout s; lc := lc s |}
            | Some FOut => {| cin := cin s; cout := cout s + delta; lc := lc s |}
            | None => s
            end in
  if cout s1 >? 0 then (s1, true)
  else if fixed && is_some_mode m FOut && negb is_entry then (s1, true)
  else match fm with
       | FIn => if cin s1 >? 0 then (s1, false)
                else if is_some_mode m FIn && negb is_entry then (s1, false)
                else (s1, true)
       | FOut => if is_some_mode m FOut && negb is_entry then (s1, true) else (s1, false)
       end.

(* can_trace: returns (state, trace?) *)
Definition can_trace (m : libmode) (s : st) (is_entry : bool) (lib : bool) : st * bool :=
  if negb lib then (s, true)
  else match m with
       | LNone => (s, false)
       | LNested => (s, true)
       | LSingle =>
           if is_entry
           then ({| cin := cin s; cout := cout s; lc := lc s + 1 |}, negb (lc s >? 0))
           else let l := lc s - 1 in
                if l >? 0 then ({| cin := cin s; cout := cout s; lc := l |}, false)
                else ({| cin := cin s; cout := cout s; lc := if l <? 0 then 0 else l |}, true)
       end.

(* ---------------------------------------------------------------- events *)
Inductive evkind := Call | Return | CCall | CReturn | CException.
Definition is_entry (k : evkind) : bool := match k with Call | CCall => true | _ => false end.
Definition is_pykind (k : evkind) : bool := match k with Call | Return => true | _ => false end.

Record event := { e_kind : evkind; e_sym : sym }.

Inductive hook := HEnter (s : sym) | HExit.          (* cygprof_enter(sym->addr, 0) / cygprof_exit(0, 0) *)

(* uftrace_trace_python after convert_function_addr *)
Definition step (c : cfg) (s : st) (e : event) : st * list hook :=
  let ie := is_entry (e_kind e) in
  let '(s1, skip) := match c_fmode c with
                     | None => (s, false)
                     | Some fm => apply_filters (c_fixed c) fm (c_filters c) s ie (s_name (e_sym e))
                     end in
  if skip then (s1, [])
  else let '(s2, ok) := can_trace (c_lib c) s1 ie (s_lib (e_sym e)) in
       if ok then (s2, [if ie then HEnter (e_sym e) else HExit]) else (s2, []).

Fixpoint run (c : cfg) (s : st) (evs : list event) : st * list hook :=
  match evs with
  | [] => (s, [])
  | e :: r => let '(s1, h1) := step c s e in
              let '(s2, h2) := run c s1 r in (s2, h1 ++ h2)
  end.

(* ---------------------------------------------------------------- call forests = well-formed event streams *)
(* CPython's profile-event discipline: a Python function emits call ... return (also when it
   ends by an exception, and once per resume/yield of a generator); a C function emits
   c_call ... c_return, or c_call ... c_exception when it raises.  A forest in
   first-child/next-sibling form. *)
Record lab := { l_sym : sym; l_c : bool; l_exc : bool }.

Inductive forest :=
| FNil
| FNode (l : lab) (kids rest : forest).

Definition entry_kind (l : lab) : evkind := if l_c l then CCall else Call.
Definition exit_kind (l : lab) : evkind := if l_c l then (if l_exc l then CException else CReturn) else Return.

Fixpoint events (f : forest) : list event :=
  match f with
  | FNil => []
  | FNode l kids rest =>
      {| e_kind := entry_kind l; e_sym := l_sym l |} :: events kids
      ++ {| e_kind := exit_kind l; e_sym := l_sym l |} :: events rest
  end.

Fixpoint fapp (a b : forest) : forest :=
  match a with
  | FNil => b
  | FNode l k r => FNode l k (fapp r b)
  end.

Fixpoint fsize (f : forest) : nat :=
  match f with FNil => O | FNode _ k r => S (fsize k + fsize r) end.

(* ---------------------------------------------------------------- specification: the selected forest *)
Inductive cls := KNone | KIn | KOut.
Definition classify (c : cfg) (s : sym) : cls :=
  match c_fmode c with
  | None => KNone
  | Some _ => match first_match (c_filters c) (s_name s) with
              | None => KNone | Some FIn => KIn | Some FOut => KOut
              end
  end.
Definition opt_in_mode (c : cfg) : bool := is_some_mode (c_fmode c) FIn.
Definition filtering (c : cfg) : bool := match c_fmode c with Some _ => true | None => false end.
(* is a call selected by the filters, given the counts including the call itself *)
Definition selected (c : cfg) (ci' co' : Z) : bool :=
  negb (filtering c) || ((co' =? 0) && (if opt_in_mode c then ci' >? 0 else true)).

(* [select c ci co l f]: the calls of [f] that must be in the trace when [f] runs in a context with
   [ci] enclosing opt-in matches, [co] enclosing opt-out matches and [l] enclosing *selected*
   library calls.  Purely structural (no automaton). *)
Fixpoint select (c : cfg) (ci co l : Z) (f : forest) : forest :=
  match f with
  | FNil => FNil
  | FNode b kids rest =>
      let k := classify c (l_sym b) in
      let ci' := match k with KIn => ci + 1 | _ => ci end in
      let co' := match k with KOut => co + 1 | _ => co end in
      let sel := selected c ci' co' in
      let lib := s_lib (l_sym b) in
      let traced := sel && (negb lib || match c_lib c with
                                         | LNone => false | LNested => true | LSingle => l =? 0 end) in
      let l' := if sel && lib && match c_lib c with LSingle => true | _ => false end then l + 1 else l in
      let ks := select c ci' co' l' kids in
      let rs := select c ci co l rest in
      if traced then FNode b ks rs else fapp ks rs
  end.

(* hook calls of a forest that is traced completely *)
Fixpoint hooks_of (f : forest) : list hook :=
  match f with
  | FNil => []
  | FNode b kids rest => HEnter (l_sym b) :: hooks_of kids ++ HExit :: hooks_of rest
  end.

(* the guard under which the code before fix 5445264 met the specification: no opt-out match is entered
   while opt-in mode is active, an opt-in match is open and no other opt-out match is open *)
Fixpoint nobad (c : cfg) (ci co : Z) (f : forest) : bool :=
  match f with
  | FNil => true
  | FNode b kids rest =>
      let k := classify c (l_sym b) in
      let ci' := match k with KIn => ci + 1 | _ => ci end in
      let co' := match k with KOut => co + 1 | _ => co end in
      negb (match k with KOut => opt_in_mode c && (ci >? 0) && (co =? 0) | _ => false end)
      && nobad c ci' co' kids && nobad c ci co rest
  end.

(* the simple sufficient guard of DESIGN.md: the filter set does not mix -F and -N *)
Definition no_mix (c : cfg) : bool :=
  forallb is_in (c_filters c) || forallb (fun f => negb (is_in f)) (c_filters c).

(* ---------------------------------------------------------------- factorised specification *)
(* filter selection alone *)
Fixpoint fsel (c : cfg) (ci co : Z) (f : forest) : forest :=
  match f with
  | FNil => FNil
  | FNode b kids rest =>
      let k := classify c (l_sym b) in
      let ci' := match k with KIn => ci + 1 | _ => ci end in
      let co' := match k with KOut => co + 1 | _ => co end in
      let sel := selected c ci' co' in
      let ks := fsel c ci' co' kids in
      let rs := fsel c ci co rest in
      if sel then FNode b ks rs else fapp ks rs
  end.

(* library-call policy alone, [l] = number of enclosing library calls *)
Fixpoint libprune (m : libmode) (l : Z) (f : forest) : forest :=
  match f with
  | FNil => FNil
  | FNode b kids rest =>
      let lib := s_lib (l_sym b) in
      let traced := negb lib || match m with LNone => false | LNested => true | LSingle => l =? 0 end in
      let l' := if lib && match m with LSingle => true | _ => false end then l + 1 else l in
      let ks := libprune m l' kids in
      let rs := libprune m l rest in
      if traced then FNode b ks rs else fapp ks rs
  end.

(* -F only: the matching calls with everything below them *)
Fixpoint pick (p : sym -> bool) (f : forest) : forest :=
  match f with
  | FNil => FNil
  | FNode b kids rest => if p (l_sym b) then FNode b kids (pick p rest) else fapp (pick p kids) (pick p rest)
  end.
(* -N only: everything but the matching calls and what is below them *)
Fixpoint drop (p : sym -> bool) (f : forest) : forest :=
  match f with
  | FNil => FNil
  | FNode b kids rest => if p (l_sym b) then drop p rest else FNode b (drop p kids) (drop p rest)
  end.
Definition matches (c : cfg) (s : sym) : bool :=
  match first_match (c_filters c) (s_name s) with Some _ => true | None => false end.

Definition is_kin (c : cfg) (s : sym) : bool := match classify c s with KIn => true | _ => false end.
Definition is_kout (c : cfg) (s : sym) : bool := match classify c s with KOut => true | _ => false end.
(* the calls of the main module only: library calls removed, what they call moved up *)
Fixpoint main_only (f : forest) : forest :=
  match f with
  | FNil => FNil
  | FNode b k r => if s_lib (l_sym b) then fapp (main_only k) (main_only r) else FNode b (main_only k) (main_only r)
  end.

Fixpoint fall (p : lab -> bool) (f : forest) : bool :=
  match f with FNil => true | FNode b k r => p b && fall p k && fall p r end.
(* no library call below a library call *)
Fixpoint no_lib_under_lib (inlib : bool) (f : forest) : bool :=
  match f with
  | FNil => true
  | FNode b k r => let lib := s_lib (l_sym b) in
                   negb (inlib && lib) && no_lib_under_lib (inlib || lib) k && no_lib_under_lib inlib r
  end.

(* ---------------------------------------------------------------- libmcount side: pairing of hook calls *)
(* __cygprof_entry pushes the address, __cygprof_exit pops the top entry whatever it is; with an
   empty shadow stack the exit is dropped with "unpaired cygprof exit".  A record carries the
   depth and the symbol of the frame it opens/closes (what replay prints). *)
Inductive rec := REntry (d : nat) (s : sym) | RExit (d : nat) (s : sym).

Fixpoint mc_run (stack : list sym) (hs : list hook) : list sym * list rec * nat (* unpaired exits *) :=
  match hs with
  | [] => (stack, [], O)
  | HEnter s :: r => let '(stk, recs, w) := mc_run (s :: stack) r in (stk, REntry (length stack) s :: recs, w)
  | HExit :: r =>
      match stack with
      | [] => let '(stk, recs, w) := mc_run [] r in (stk, recs, S w)
      | s :: stack' => let '(stk, recs, w) := mc_run stack' r in (stk, RExit (length stack') s :: recs, w)
      end
  end.

(* the records replay shows for a completely traced forest at depth [d] *)
Fixpoint records_of (d : nat) (f : forest) : list rec :=
  match f with
  | FNil => []
  | FNode b kids rest => REntry d (l_sym b) :: records_of (S d) kids ++ RExit d (l_sym b) :: records_of d rest
  end.

(* executable well-nestedness test on hook calls: depth never negative; returns final depth *)
Fixpoint nest (d : nat) (hs : list hook) : option nat :=
  match hs with
  | [] => Some d
  | HEnter _ :: r => nest (S d) r
  | HExit :: r => match d with O => None | S d' => nest d' r end
  end.
Definition balanced (hs : list hook) : bool := match nest O hs with Some O => true | _ => false end.
Definition no_underflow (hs : list hook) : bool := match nest O hs with Some _ => true | None => false end.

(* ---------------------------------------------------------------- naming and the pseudo-address table *)
(* what the interpreter hands to the profile function *)
Inductive func :=
| PyF (modname : option name) (qual : name) (file : name)   (* frame: f_globals['__name__'], co_qualname, co_filename *)
| CF (modname : option name) (qual : name).                  (* builtin: m_module (if a string), __qualname__ *)

Definition n_main : name := [95; 95; 109; 97; 105; 110; 95; 95]%N.            (* "__main__" *)
Definition n_module : name := [60; 109; 111; 100; 117; 108; 101; 62]%N.       (* "<module>" *)
Definition n_builtins : name := [98; 117; 105; 108; 116; 105; 110; 115]%N.    (* "builtins" *)
Definition dotted (a b : name) : name := a ++ c_DOT :: b.

(* init_uftrace: main_dir = dirname of an absolute UFTRACE_PYMAIN ("/x.py" keeps the whole string) *)
Fixpoint last_slash (p : name) (i : nat) (best : option nat) : option nat :=
  match p with
  | [] => best
  | c :: r => last_slash r (S i) (if N.eqb c c_SLASH then Some i else best)
  end.
Definition main_dir_of (pymain : name) : name :=
  match last_slash pymain O None with
  | Some (S i) => firstn (S i) pymain
  | _ => pymain
  end.

Fixpoint starts_with_then_slash (d f : name) : bool :=
  match d with
  | [] => match f with c :: _ => N.eqb c c_SLASH | [] => false end
  | x :: d' => match f with y :: f' => N.eqb x y && starts_with_then_slash d' f' | [] => false end
  end.

(* get_python_funcname / get_c_funcname + the classification of convert_function_addr *)
Definition sym_of_func (main_dir : option name) (k : evkind) (f : func) : option sym :=
  match f with
  | PyF m q file =>
      if is_pykind k then
        let is_main0 := match m with Some mm => name_eqb mm n_main | None => false end in
        let nm := match m with
                  | Some mm => if negb is_main0 || name_eqb q n_module then dotted mm q else q
                  | None => q
                  end in
        let is_main := is_main0 || match main_dir with Some d => starts_with_then_slash d file | None => false end in
        Some {| s_name := nm; s_lib := negb is_main |}
      else None
  | CF m q =>
      if is_pykind k then None else
      let nm := match m with
                | Some mm => dotted mm q
                | None => if existsb (N.eqb c_DOT) q then q else dotted n_builtins q
                end in
      Some {| s_name := nm; s_lib := true |}
  end.

(* code_tree + symtab in shared memory: symbols in order of creation, address = position (1-based);
   a later function with the same name re-uses the existing symbol (flag included) *)
Fixpoint lookup (tab : list sym) (nm : name) (i : N) : option (N * sym) :=
  match tab with
  | [] => None
  | s :: r => if name_eqb (s_name s) nm then Some (i, s) else lookup r nm (N.succ i)
  end.
Definition intern (tab : list sym) (s : sym) : list sym * N * sym :=
  match lookup tab (s_name s) 1%N with
  | Some (a, s') => (tab, a, s')
  | None => (tab ++ [s], N.of_nat (S (length tab)), s)
  end.

Inductive ahook := AEnter (addr : N) | AExit.
Record fevent := { fe_kind : evkind; fe_func : func }.

Definition astep (c : cfg) (md : option name) (tab : list sym) (s : st) (e : fevent)
  : list sym * st * list ahook :=
  match sym_of_func md (fe_kind e) (fe_func e) with
  | None => (tab, s, [])
  | Some sy =>
      let '(tab', a, sy') := intern tab sy in
      let '(s', hs) := step c s {| e_kind := fe_kind e; e_sym := sy' |} in
      (tab', s', map (fun h => match h with HEnter _ => AEnter a | HExit => AExit end) hs)
  end.

Fixpoint arun (c : cfg) (md : option name) (tab : list sym) (s : st) (evs : list fevent)
  : list sym * st * list ahook :=
  match evs with
  | [] => (tab, s, [])
  | e :: r => let '(t1, s1, h1) := astep c md tab s e in
              let '(t2, s2, h2) := arun c md t1 s1 r in (t2, s2, h1 ++ h2)
  end.

(* resolve an address through a symbol table (what replay does with python.fake.sym) *)
Definition resolve (tab : list sym) (a : N) : option sym :=
  match a with 0%N => None | _ => nth_error tab (N.to_nat (N.pred a)) end.

(* symbolic events of a function-level stream against a table (the canonical symbol of each name) *)
Fixpoint sym_events (md : option name) (tab : list sym) (evs : list fevent) : list sym * list event :=
  match evs with
  | [] => (tab, [])
  | e :: r =>
      match sym_of_func md (fe_kind e) (fe_func e) with
      | None => sym_events md tab r
      | Some sy => let '(tab', _, sy') := intern tab sy in
                   let '(t2, es) := sym_events md tab' r in
                   (t2, {| e_kind := fe_kind e; e_sym := sy' |} :: es)
      end
  end.

Definition resolve_hooks (tab : list sym) (hs : list ahook) : list (option hook) :=
  map (fun h => match h with
                | AEnter a => option_map HEnter (resolve tab a)
                | AExit => Some HExit
                end) hs.

(* ---------------------------------------------------------------- run-time checker / case evaluation *)
Definition hook_eqb (a b : hook) : bool :=
  match a, b with
  | HEnter x, HEnter y => sym_eqb x y
  | HExit, HExit => true
  | _, _ => false
  end.
Fixpoint list_eqb {A} (eq : A -> A -> bool) (a b : list A) : bool :=
  match a, b with
  | [], [] => true
  | x :: a', y :: b' => eq x y && list_eqb eq a' b'
  | _, _ => false
  end.
Definition ahook_eqb (a b : ahook) : bool :=
  match a, b with
  | AEnter x, AEnter y => N.eqb x y
  | AExit, AExit => true
  | _, _ => false
  end.
Definition ohook_eqb (a : option hook) (b : hook) : bool := match a with Some x => hook_eqb x b | None => false end.
Fixpoint olist_eqb (a : list (option hook)) (b : list hook) : bool :=
  match a, b with
  | [], [] => true
  | x :: a', y :: b' => ohook_eqb x y && olist_eqb a' b'
  | _, _ => false
  end.

(* index-labelled forests keep the case files small *)
Inductive iforest := INil | INode (fn : nat) (exc : bool) (kids rest : iforest).

Definition func_is_c (f : func) : bool := match f with CF _ _ => true | PyF _ _ _ => false end.
Definition dummy_func : func := PyF None [] [].

Fixpoint ievents (fns : list func) (f : iforest) : list fevent :=
  match f with
  | INil => []
  | INode i exc kids rest =>
      let fn := nth i fns dummy_func in
      let c := func_is_c fn in
      {| fe_kind := if c then CCall else Call; fe_func := fn |} :: ievents fns kids
      ++ {| fe_kind := if c then (if exc then CException else CReturn) else Return; fe_func := fn |}
      :: ievents fns rest
  end.

(* the forest of symbols of an index forest; the generator keeps names and flags consistent, so
   the symbol of a function is the one its first event creates *)
Fixpoint iforest_syms (md : option name) (fns : list func) (f : iforest) : forest :=
  match f with
  | INil => FNil
  | INode i exc kids rest =>
      let fn := nth i fns dummy_func in
      let c := func_is_c fn in
      let sy := match sym_of_func md (if c then CCall else Call) fn with
                | Some s => s | None => {| s_name := []; s_lib := false |} end in
      FNode {| l_sym := sy; l_c := c; l_exc := exc |} (iforest_syms md fns kids) (iforest_syms md fns rest)
  end.

(* names determine symbols among the functions of a table (hypothesis of the function-level
   theorem, checked on every generated case) *)
Definition fsym_of (md : option name) (fn : func) : option sym :=
  sym_of_func md (if func_is_c fn then CCall else Call) fn.
Definition consistentb (md : option name) (fns : list func) : bool :=
  let l := dummy_func :: fns in
  forallb (fun f => forallb (fun g =>
    match fsym_of md f, fsym_of md g with
    | Some s, Some t => if name_eqb (s_name s) (s_name t) then sym_eqb s t else true
    | _, _ => true
    end) l) l.

(* a scripted case: configuration, functions, event stream (kind, function index), and what the
   implementation did: addresses passed to the hooks and the written symbol table *)
Inductive akind := KE (a : N) | KX.
Definition ahook_of (k : akind) : ahook := match k with KE a => AEnter a | KX => AExit end.

Record case := {
  k_patt : ptype;                  (* UFTRACE_PATTERN *)
  k_env : option (list name);      (* UFTRACE_FILTER split at ';' *)
  k_lib : libmode;
  k_pymain : option name;          (* UFTRACE_PYMAIN (absolute) *)
  k_funcs : list func;
  k_forests : list iforest;        (* well-formed part: run one after the other *)
  k_raw : list (evkind * nat);     (* then an arbitrary (possibly ill-formed) tail of events *)
  k_hooks : list akind;            (* implementation: hook calls observed *)
  k_symtab : list sym              (* implementation: python.fake.sym, in address order *)
}.

Definition case_events (k : case) : list fevent :=
  flat_map (ievents (k_funcs k)) (k_forests k)
  ++ map (fun p => {| fe_kind := fst p; fe_func := nth (snd p) (k_funcs k) dummy_func |}) (k_raw k).

(* uftrace_trace_python, py_depth: a `return` whose `call` was never seen (frames entered before
   sys.setprofile, e.g. runpy when the script ends by sys.exit()) is ignored before anything else
   happens.  py_depth depends on the event kinds only, so the test is a pre-filter of the stream. *)
Fixpoint depth_guard (d : nat) (evs : list fevent) : list fevent :=
  match evs with
  | [] => []
  | e :: r =>
      match fe_kind e with
      | Call => e :: depth_guard (S d) r
      | Return => match d with O => depth_guard O r | S d' => e :: depth_guard d' r end
      | _ => e :: depth_guard d r
      end
  end.

(* the whole callback on a stream of interpreter events, from module initialisation *)
Definition trace_python (c : cfg) (md : option name) (evs : list fevent) : list sym * st * list ahook :=
  arun c md [] st0 (depth_guard O evs).

(* correspondence: model automaton + address table vs implementation *)
Definition agrees (k : case) : bool :=
  let c := mkcfg_pt (k_patt k) (k_env k) (k_lib k) true in
  let md := option_map main_dir_of (k_pymain k) in
  let '(tab, _, hs) := trace_python c md (case_events k) in
  list_eqb ahook_eqb hs (map ahook_of (k_hooks k)) && list_eqb sym_eqb tab (k_symtab k).

(* property checker on the implementation's output for a well-formed case (k_raw = []): the hook
   calls, resolved through the implementation's own symbol table, are exactly the traversal of the
   selected forest; they are balanced; the shadow stack pairs every exit with its own entry *)
Fixpoint select_all (c : cfg) (fs : list forest) : list hook :=
  match fs with
  | [] => []
  | f :: r => hooks_of (select c 0 0 0 f) ++ select_all c r
  end.

Definition ok_case (k : case) : bool :=
  let c := mkcfg_pt (k_patt k) (k_env k) (k_lib k) true in
  let md := option_map main_dir_of (k_pymain k) in
  let impl := resolve_hooks (k_symtab k) (map ahook_of (k_hooks k)) in
  let want := select_all c (map (iforest_syms md (k_funcs k)) (k_forests k)) in
  olist_eqb impl want.

(* weaker, specification-free part of the property: balanced hook calls *)
Definition ok_balanced (k : case) : bool :=
  balanced (map (fun h => match h with KE _ => HEnter {| s_name := []; s_lib := false |} | KX => HExit end) (k_hooks k)).

Fixpoint bad_indices {A} (f : A -> bool) (l : list A) (i : nat) : list nat :=
  match l with
  | [] => []
  | x :: r => if f x then bad_indices f r (S i) else i :: bad_indices f r (S i)
  end.

(* ---------------------------------------------------------------- end-to-end cases (replay output) *)
(* a replayed trace as a forest of names (from `uftrace replay`), compared with the selected forest *)
Inductive nforest := NNil | NNode (nm : name) (kids rest : nforest).
Fixpoint names_of (f : forest) : nforest :=
  match f with FNil => NNil | FNode b k r => NNode (s_name (l_sym b)) (names_of k) (names_of r) end.
Fixpoint nforest_eqb (a b : nforest) : bool :=
  match a, b with
  | NNil, NNil => true
  | NNode x k r, NNode y k' r' => name_eqb x y && nforest_eqb k k' && nforest_eqb r r'
  | _, _ => false
  end.

Definition dummy_lab : lab := {| l_sym := {| s_name := []; s_lib := false |}; l_c := false; l_exc := false |}.
Fixpoint iforest_labs (tab : list lab) (f : iforest) : forest :=
  match f with
  | INil => FNil
  | INode i exc kids rest =>
      let b := nth i tab dummy_lab in
      FNode {| l_sym := l_sym b; l_c := l_c b; l_exc := exc |} (iforest_labs tab kids) (iforest_labs tab rest)
  end.

(* pre-order (depth, name) sequence: determines a forest *)
Fixpoint nentries (d : nat) (f : nforest) : list (nat * name) :=
  match f with NNil => [] | NNode n k r => (d, n) :: nentries (S d) k ++ nentries d r end.
Fixpoint rec_entries (rs : list rec) : list (nat * name) :=
  match rs with
  | [] => []
  | REntry d s :: r => (d, s_name s) :: rec_entries r
  | RExit _ _ :: r => rec_entries r
  end.
Definition dn_eqb (a b : nat * name) : bool := Nat.eqb (fst a) (fst b) && name_eqb (snd a) (snd b).

(* os._exit: libmcount writes the ENTRY of a frame lazily, when a record below it is written (a
   traced call completes); frames still open at _exit without a completed traced call below them
   leave no record.  Open frames are the rightmost path; they carry l_exc = true in e2e cases. *)
Fixpoint trim_open (f : forest) : forest :=
  match f with
  | FNil => FNil
  | FNode b k r =>
      match r with
      | FNil => if l_exc b
                then match trim_open k with FNil => FNil | k' => FNode b k' FNil end
                else f
      | _ => FNode b k (trim_open r)
      end
  end.
Fixpoint prefix_eqb {A} (eq : A -> A -> bool) (a b : list A) : bool :=     (* a is a prefix of b *)
  match a, b with
  | [], _ => true
  | x :: a', y :: b' => eq x y && prefix_eqb eq a' b'
  | _, _ => false
  end.

(* an end-to-end case: options, the call forest the program logged itself (index forest over a
   table of labelled names; exc = still open when the program called os._exit), and the forest
   `uftrace replay` printed *)
Record ecase := {
  x_patt : ptype;
  x_env : option (list name);
  x_lib : libmode;
  x_tab : list lab;
  x_log : iforest;
  x_open : bool;                   (* ended by os._exit *)
  x_replay : nforest
}.
(* specification: replay shows exactly the selected forest *)
Definition e_ok (k : ecase) : bool :=
  nforest_eqb (names_of (trim_open (select (mkcfg_pt (x_patt k) (x_env k) (x_lib k) true) 0 0 0 (iforest_labs (x_tab k) (x_log k)))))
              (x_replay k).
(* correspondence: the model automaton + shadow stack produce the same entries as the real run *)
Definition e_agrees (k : ecase) : bool :=
  let c := mkcfg_pt (x_patt k) (x_env k) (x_lib k) true in
  let '(_, recs, _) := mc_run [] (snd (run c st0 (events (iforest_labs (x_tab k) (x_log k))))) in
  if x_open k then prefix_eqb dn_eqb (nentries O (x_replay k)) (rec_entries recs)
  else list_eqb dn_eqb (rec_entries recs) (nentries O (x_replay k)).
