From Coq Require Import NArith List Bool.
Import ListNotations.
Require Import UV.C19.Model UV.C19.Proofs UV.C19.Loader.

(* the script runs with exactly the module search path of a plain run *)
Theorem loader_is_plain : forall sd cwd base, loader_path sd cwd base = plain_path sd base.
Proof. reflexivity. Qed.

(* hence every import finds the file a plain run finds - the module next to the script first,
   whatever the current directory or PYTHONPATH (in any order) offer under the same name *)
Theorem loader_same_modules : forall has sd cwd base,
  find_module has (loader_path sd cwd base) = find_module has (plain_path sd base).
Proof. reflexivity. Qed.

Theorem loader_sibling : forall has sd cwd base, has sd = true ->
  find_module has (loader_path sd cwd base) = Some sd.
Proof. intros has sd cwd base H. cbn. now rewrite H. Qed.

Definition d_app : dir := str [97; 112; 112]%nat.   Definition d_lib : dir := str [108; 105; 98]%nat.
Definition d_cwd : dir := str [99; 119; 100]%nat.
Definition has_helpers (d : dir) : bool := name_eqb d d_app || name_eqb d d_lib.

(* the loader before fix e6ae373 kept the current directory on the path: app/main.py run from a
   directory that has helpers.py, helpers.py also on PYTHONPATH - the plain run imports the latter *)
Definition has_cwd_pp (d : dir) : bool := name_eqb d d_cwd || name_eqb d d_lib.
Theorem loader_cwd_witness :
  find_module has_cwd_pp (plain_path d_app [d_lib]) = Some d_lib /\
  find_module has_cwd_pp (loader_path d_app d_cwd [d_lib]) = Some d_lib /\
  find_module has_cwd_pp (loader_path_legacy d_app d_cwd [d_lib]) = Some d_cwd.
Proof. vm_compute. repeat split; reflexivity. Qed.

(* "insert only if not yet listed": proj/app/main.py, proj/lib and proj/app both on PYTHONPATH in
   this order, both with helpers.py - the plain run imports app/helpers.py, that loader lib/helpers.py *)
Theorem loader_cond_witness :
  find_module has_helpers (plain_path d_app [d_lib; d_app]) = Some d_app /\
  find_module has_helpers (loader_path d_app d_cwd [d_lib; d_app]) = Some d_app /\
  find_module has_helpers (loader_path_cond d_app d_cwd [d_lib; d_app]) = Some d_lib /\
  hd_error (loader_path_cond d_app d_cwd [d_lib; d_app]) <> Some d_app.
Proof. vm_compute. repeat split; try reflexivity. discriminate. Qed.
