(* Round trip of the python symbol file: what write_symtab writes is read back as the same table. *)
From Coq Require Import NArith Arith List Bool Lia ZifyBool ZifyN.
Import ListNotations.
Require Import UV.C19.Model UV.C19.Proofs UV.C19.SymFile.
Local Open Scope N_scope.

Lemma hexval_hexdigit : forall d, d < 16 -> hexval (hexdigit d) = Some d.
Proof.
  intros d H. unfold hexval, hexdigit.
  destruct (N.ltb_spec d 10).
  - replace ((48 <=? 48 + d) && (48 + d <=? 57)) with true by lia. f_equal. lia.
  - replace ((48 <=? 87 + d) && (87 + d <=? 57)) with false by lia.
    replace ((97 <=? 87 + d) && (87 + d <=? 102)) with true by lia. f_equal. lia.
Qed.

Lemma hexdigit_not_hash : forall d, d < 16 -> hexdigit d <> c_HASH.
Proof. intros d H. unfold hexdigit, c_HASH. destruct (N.ltb_spec d 10); lia. Qed.

Lemma unhex_app : forall l acc c,
  unhex acc (l ++ [c]) =
  match unhex acc l with
  | Some a => match hexval c with Some v => Some (a * 16 + v) | None => None end
  | None => None
  end.
Proof.
  induction l as [|x l IH]; intros acc c; cbn [app unhex].
  - destruct (hexval c); reflexivity.
  - destruct (hexval x); [apply IH|reflexivity].
Qed.

Lemma unhex_hexk : forall k n acc, unhex acc (hexk k n) = Some (acc * 16 ^ N.of_nat k + n mod 16 ^ N.of_nat k).
Proof.
  induction k as [|k IH]; intros n acc.
  - cbn. f_equal. rewrite N.mod_1_r. lia.
  - cbn [hexk]. rewrite unhex_app, IH.
    rewrite hexval_hexdigit by (apply N.mod_lt; lia). f_equal.
    rewrite Nat2N.inj_succ, N.pow_succ_r'.
    rewrite (N.mod_mul_r n 16 (16 ^ N.of_nat k)) by (try lia; apply N.pow_nonzero; lia). lia.
Qed.

Lemma hexk_length : forall k n, length (hexk k n) = k.
Proof. induction k as [|k IH]; intros n; cbn [hexk]; [reflexivity|]. rewrite app_length, IH. cbn. lia. Qed.

Lemma hexk_no_hash : forall k n, Forall (fun c => c <> c_HASH) (hexk k n).
Proof.
  induction k as [|k IH]; intros n; cbn [hexk]; [constructor|].
  apply Forall_app. split; [apply IH|]. constructor; [|constructor].
  apply hexdigit_not_hash. apply N.mod_lt. lia.
Qed.

Lemma firstn_len_app : forall {A} (l r : list A), firstn (length l) (l ++ r) = l.
Proof. induction l as [|x l IH]; intros r; cbn; [reflexivity|now rewrite IH]. Qed.
Lemma skipn_len_app : forall {A} (l r : list A), skipn (length l) (l ++ r) = r.
Proof. induction l as [|x l IH]; intros r; cbn; [reflexivity|apply IH]. Qed.
Lemma firstn_hexk : forall n r, firstn 16 (hexk 16 n ++ r) = hexk 16 n.
Proof. intros n r. rewrite <- (hexk_length 16 n) at 1. apply firstn_len_app. Qed.
Lemma skipn_hexk : forall n r, skipn 16 (hexk 16 n ++ r) = r.
Proof. intros n r. rewrite <- (hexk_length 16 n) at 1. apply skipn_len_app. Qed.
Local Opaque hexk firstn skipn.

Lemma parse_entry_line : forall a t nm, a < 16 ^ 16 -> parse_entry (entry_line a t nm) = Some (a, t, nm).
Proof.
  intros a t nm H. unfold parse_entry, entry_line.
  rewrite firstn_hexk, skipn_hexk.
  rewrite unhex_hexk. change (N.of_nat 16) with 16. rewrite N.mod_small by assumption.
  rewrite N.mul_0_l, N.add_0_l. now rewrite N.eqb_refl.
Qed.

(* splitting what was joined *)
Definition no_nl (l : list N) : Prop := Forall (fun c => c <> c_NL) l.

Lemma split_lines_line : forall l cur rest, no_nl l ->
  split_lines cur (l ++ c_NL :: rest) = (rev cur ++ l) :: split_lines [] rest.
Proof.
  induction l as [|c l IH]; intros cur rest H; cbn [app split_lines].
  - rewrite N.eqb_refl. now rewrite app_nil_r.
  - inversion H as [|? ? Hc Hl]; subst. apply N.eqb_neq in Hc. rewrite Hc.
    rewrite IH by assumption. cbn [rev]. now rewrite <- app_assoc.
Qed.

Lemma split_join : forall ls, Forall no_nl ls -> split_lines [] (join_lines ls) = ls.
Proof.
  induction ls as [|l ls IH]; intros H; [reflexivity|].
  inversion H; subst. cbn [join_lines]. rewrite split_lines_line by assumption. cbn. now rewrite IH.
Qed.

Lemma parse_lines_app_comments : forall hs ls, Forall (fun l => exists r, l = c_HASH :: r) hs ->
  parse_lines (hs ++ ls) = parse_lines ls.
Proof.
  induction hs as [|h hs IH]; intros ls H; [reflexivity|].
  inversion H as [|? ? [r ->] Hr]; subst. cbn [app parse_lines]. rewrite N.eqb_refl. now apply IH.
Qed.

Lemma entry_line_head : forall a t nm, exists c r, entry_line a t nm = c :: r /\ c <> c_HASH.
Proof.
  intros a t nm. unfold entry_line. pose proof (hexk_no_hash 16 a) as F. pose proof (hexk_length 16 a) as L.
  destruct (hexk 16 a) as [|c r]; [discriminate|]. inversion F; subst. exists c, (r ++ c_SP :: t :: c_SP :: nm). now split.
Qed.

Lemma parse_entries : forall tab a tail,
  a + N.of_nat (length tab) < 16 ^ 16 ->
  parse_lines (entry_lines a tab ++ [entry_line tail 63 s_sym_end]) = Some (number_from a tab).
Proof.
  induction tab as [|s tab IH]; intros a tail H; cbn [entry_lines number_from app].
  - destruct (entry_line_head tail 63 s_sym_end) as (c & r & E & Hc). cbn [parse_lines]. rewrite E.
    apply N.eqb_neq in Hc. rewrite Hc. rewrite <- E.
    unfold parse_entry, entry_line.
    rewrite firstn_hexk, skipn_hexk.
    rewrite unhex_hexk. now rewrite N.eqb_refl.
  - destruct (entry_line_head a (type_char s) (s_name s)) as (c & r & E & Hc). cbn [parse_lines]. rewrite E.
    apply N.eqb_neq in Hc. rewrite Hc. rewrite <- E.
    cbn [length] in H. rewrite parse_entry_line by lia.
    assert (T : (type_char s =? 63) = false) by (unfold type_char; now destruct (s_lib s)).
    rewrite T. rewrite IH by lia.
    assert (L : (type_char s =? 80) = s_lib s) by (unfold type_char; now destruct (s_lib s)).
    rewrite L. now destruct s.
Qed.

Lemma deck_no_nl : forall f n, no_nl (deck f n).
Proof.
  induction f as [|f IH]; intros n; cbn [deck]; [constructor|].
  destruct (N.ltb_spec n 10).
  - constructor; [unfold c_NL; lia|constructor].
  - apply Forall_app. split; [apply IH|]. constructor; [unfold c_NL; lia|constructor].
Qed.

Lemma hexk_no_nl : forall k n, no_nl (hexk k n).
Proof.
  intros k n. pose proof (hexk_length k n) as _. revert n. induction k as [|k IH]; intros n.
  - Local Transparent hexk. cbn. constructor.
  - cbn [hexk]. apply Forall_app. split; [apply IH|]. constructor; [|constructor].
    unfold hexdigit, c_NL. destruct (N.ltb_spec (n mod 16) 10); lia.
Qed.
Local Opaque hexk.

Lemma entry_line_no_nl : forall a t nm, t <> c_NL -> no_nl nm -> no_nl (entry_line a t nm).
Proof.
  intros a t nm Ht Hn. unfold entry_line. apply Forall_app. split; [apply hexk_no_nl|].
  constructor; [unfold c_SP, c_NL; lia|]. constructor; [assumption|]. constructor; [unfold c_SP, c_NL; lia|assumption].
Qed.

Lemma entry_lines_no_nl : forall tab a, Forall (fun s => no_nl (s_name s)) tab -> Forall no_nl (entry_lines a tab).
Proof.
  induction tab as [|s tab IH]; intros a H; cbn [entry_lines]; [constructor|].
  inversion H; subst. constructor; [|now apply IH].
  apply entry_line_no_nl; [|assumption]. unfold type_char, c_NL. destruct (s_lib s); lia.
Qed.

(* what write_symtab writes is read back as the same table: addresses 1..n in order, names and
   library flags as recorded *)
Theorem symfile_roundtrip : forall tab,
  Forall (fun s => no_nl (s_name s)) tab -> N.of_nat (length tab) + 1 < 16 ^ 16 ->
  parse_symfile (render_symtab tab) = Some (number_from 1 tab).
Proof.
  intros tab Hn Hl. unfold parse_symfile, render_symtab. rewrite split_join.
  - unfold sym_lines. rewrite parse_lines_app_comments.
    + apply parse_entries. lia.
    + unfold header_lines. repeat constructor; eexists; reflexivity.
  - unfold sym_lines. apply Forall_app. split; [|apply Forall_app; split].
    + unfold header_lines. constructor; [|constructor; [|constructor; [|constructor]]].
      * apply Forall_app. split; [|apply deck_no_nl]. unfold s_symbols, c_NL. repeat (constructor; [lia|]). constructor.
      * unfold no_nl, s_pathname, c_NL. repeat (constructor; [lia|]). constructor.
      * constructor; [unfold c_HASH, c_NL; lia|]. apply Forall_forall. intros x Hx.
        apply repeat_spec in Hx. subst. unfold c_SP, c_NL. lia.
    + now apply entry_lines_no_nl.
    + constructor; [|constructor]. apply entry_line_no_nl; [unfold c_NL; lia|].
      unfold no_nl, s_sym_end, c_NL. repeat (constructor; [lia|]). constructor.
Qed.

(* the address a symbol gets in the file is the address the callback handed to libmcount *)
Lemma number_from_nth : forall tab a i s, nth_error tab i = Some s -> In (a + N.of_nat i, s) (number_from a tab).
Proof.
  induction tab as [|x tab IH]; intros a i s H; destruct i as [|i]; cbn in *; try discriminate.
  - inversion H; subst. left. f_equal. lia.
  - right. replace (a + N.pos (Pos.of_succ_nat i)) with (N.succ a + N.of_nat i) by lia. now apply IH.
Qed.

Theorem symfile_resolves : forall tab a s,
  Forall (fun s => no_nl (s_name s)) tab -> N.of_nat (length tab) + 1 < 16 ^ 16 ->
  resolve tab a = Some s ->
  exists l, parse_symfile (render_symtab tab) = Some l /\ In (a, s) l.
Proof.
  intros tab a s Hn Hl R. exists (number_from 1 tab). split; [now apply symfile_roundtrip|].
  unfold resolve in R. destruct a as [|p]; [discriminate|].
  replace (N.pos p) with (1 + N.of_nat (N.to_nat (N.pred (N.pos p)))) by lia.
  now apply number_from_nth.
Qed.

Example symfile_example :
  parse_symfile (render_symtab [l_sym (py nm_a); l_sym (cf nm_getpid)]) =
    Some [(1%N, l_sym (py nm_a)); (2%N, l_sym (cf nm_getpid))] /\
  length (join_lines (header_lines 2)) = 48%nat.
Proof. vm_compute. split; reflexivity. Qed.
