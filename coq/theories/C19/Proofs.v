(* Proofs about the model of python/trace-python.c (C19). *)
From Coq Require Import ZArith NArith List Bool Lia.
Import ListNotations.
Require Import UV.C19.Model.
Local Open Scope Z_scope.

(* ---------------------------------------------------------------- basic algebra *)
Lemma run_app : forall c a b s,
  run c s (a ++ b) =
  let '(s1, h1) := run c s a in let '(s2, h2) := run c s1 b in (s2, h1 ++ h2).
Proof.
  induction a as [|e a IH]; intros b s; cbn [run app].
  - destruct (run c s b); reflexivity.
  - destruct (step c s e) as [s1 h1]. rewrite IH.
    destruct (run c s1 a) as [s2 h2]. destruct (run c s2 b) as [s3 h3].
    now rewrite app_assoc.
Qed.

Lemma hooks_of_fapp : forall a b, hooks_of (fapp a b) = hooks_of a ++ hooks_of b.
Proof.
  induction a as [|l k IHk r IHr]; intros b; cbn [fapp hooks_of app]; [reflexivity|].
  rewrite IHr. now rewrite <- app_assoc.
Qed.

Lemma fapp_nil_r : forall a, fapp a FNil = a.
Proof. induction a as [|l k IHk r IHr]; cbn; [reflexivity|now rewrite IHr]. Qed.

Lemma fapp_assoc : forall a b c, fapp (fapp a b) c = fapp a (fapp b c).
Proof. induction a as [|l k IHk r IHr]; intros; cbn; [reflexivity|now rewrite IHr]. Qed.

(* ---------------------------------------------------------------- one call: entry and exit steps *)
Definition ci' (c : cfg) (ci : Z) (b : lab) : Z := match classify c (l_sym b) with KIn => ci + 1 | _ => ci end.
Definition co' (c : cfg) (co : Z) (b : lab) : Z := match classify c (l_sym b) with KOut => co + 1 | _ => co end.
Definition selb (c : cfg) (ci co : Z) (b : lab) : bool := selected c (ci' c ci b) (co' c co b).
Definition libok (c : cfg) (l : Z) (b : lab) : bool :=
  negb (s_lib (l_sym b)) || match c_lib c with LNone => false | LNested => true | LSingle => l =? 0 end.
Definition tracedb (c : cfg) (ci co l : Z) (b : lab) : bool := selb c ci co b && libok c l b.
Definition l' (c : cfg) (ci co l : Z) (b : lab) : Z :=
  if selb c ci co b && s_lib (l_sym b) && match c_lib c with LSingle => true | _ => false end then l + 1 else l.
Definition badb (c : cfg) (ci co : Z) (b : lab) : bool :=
  match classify c (l_sym b) with KOut => opt_in_mode c && (ci >? 0) && (co =? 0) | _ => false end.

Lemma select_node : forall c ci co l b k r,
  select c ci co l (FNode b k r) =
  if tracedb c ci co l b
  then FNode b (select c (ci' c ci b) (co' c co b) (l' c ci co l b) k) (select c ci co l r)
  else fapp (select c (ci' c ci b) (co' c co b) (l' c ci co l b) k) (select c ci co l r).
Proof. reflexivity. Qed.

Lemma nobad_node : forall c ci co b k r,
  nobad c ci co (FNode b k r) =
  negb (badb c ci co b) && nobad c (ci' c ci b) (co' c co b) k && nobad c ci co r.
Proof. reflexivity. Qed.

Lemma is_entry_entry : forall b, is_entry (entry_kind b) = true.
Proof. intros b; unfold entry_kind; now destruct (l_c b). Qed.
Lemma is_entry_exit : forall b, is_entry (exit_kind b) = false.
Proof. intros b; unfold exit_kind; destruct (l_c b), (l_exc b); reflexivity. Qed.

Ltac zb :=
  repeat match goal with
         | |- context [?a >? ?b] => destruct (Z.gtb_spec a b)
         | |- context [?a <? ?b] => destruct (Z.ltb_spec a b)
         | |- context [?a =? ?b] => destruct (Z.eqb_spec a b)
         end.

Ltac fin := cbn [cin cout lc] in *; try reflexivity; try lia; try (f_equal; f_equal; lia).

Lemma step_entry : forall c s b,
  0 <= cin s -> 0 <= cout s -> 0 <= lc s ->
  step c s {| e_kind := entry_kind b; e_sym := l_sym b |} =
  ({| cin := ci' c (cin s) b; cout := co' c (cout s) b; lc := l' c (cin s) (cout s) (lc s) b |},
   if tracedb c (cin s) (cout s) (lc s) b then [HEnter (l_sym b)] else []).
Proof.
  intros c s b Hi Ho Hl. destruct s as [i o l]. cbn [cin cout lc] in *.
  unfold step, tracedb, l', selb, selected, libok, ci', co', classify, filtering, opt_in_mode,
    apply_filters, can_trace, is_some_mode.
  cbn [e_kind e_sym]. rewrite is_entry_entry.
  destruct (c_fmode c) as [fm|]; cbn [negb orb andb].
  - destruct (first_match (c_filters c) (s_name (l_sym b))) as [[|]|];
      destruct fm; destruct (c_fixed c); destruct (s_lib (l_sym b)); destruct (c_lib c);
      cbn [cin cout lc fmode_eqb negb andb orb]; zb; cbn [negb andb orb]; zb; fin.
  - destruct (s_lib (l_sym b)); destruct (c_lib c); cbn [cin cout lc negb andb orb]; zb; fin.
Qed.

Lemma step_exit : forall c ci co l b,
  0 <= ci -> 0 <= co -> 0 <= l ->
  (c_fixed c = true \/ badb c ci co b = false) ->
  step c {| cin := ci' c ci b; cout := co' c co b; lc := l' c ci co l b |}
         {| e_kind := exit_kind b; e_sym := l_sym b |} =
  ({| cin := ci; cout := co; lc := l |},
   if tracedb c ci co l b then [HExit] else []).
Proof.
  intros c i o l b Hi Ho Hl G.
  unfold step, tracedb, l', selb, selected, libok, ci', co', badb, classify, filtering, opt_in_mode,
    apply_filters, can_trace, is_some_mode in *.
  cbn [e_kind e_sym]. rewrite is_entry_exit.
  destruct (c_fmode c) as [fm|]; cbn [negb orb andb] in *.
  - destruct (first_match (c_filters c) (s_name (l_sym b))) as [[|]|];
      destruct fm; destruct (c_fixed c); destruct (s_lib (l_sym b)); destruct (c_lib c);
      cbn [cin cout lc fmode_eqb negb andb orb] in *; zb; cbn [negb andb orb cin cout lc] in *; zb;
      fin;
      try (exfalso; destruct G as [G|G]; [discriminate G|];
           revert G; zb; cbn; try discriminate; try lia).
  - destruct (s_lib (l_sym b)); destruct (c_lib c); cbn [cin cout lc negb andb orb]; zb;
      cbn [cin cout lc]; zb; fin.
Qed.

Lemma ci'_nonneg : forall c ci b, 0 <= ci -> 0 <= ci' c ci b.
Proof. intros; unfold ci'; destruct (classify c (l_sym b)); lia. Qed.
Lemma co'_nonneg : forall c co b, 0 <= co -> 0 <= co' c co b.
Proof. intros; unfold co'; destruct (classify c (l_sym b)); lia. Qed.
Lemma l'_nonneg : forall c ci co l b, 0 <= l -> 0 <= l' c ci co l b.
Proof. intros; unfold l'; destruct (_ && _ && _); lia. Qed.

(* ---------------------------------------------------------------- the refinement theorem *)
Definition guard (c : cfg) (ci co : Z) (f : forest) : Prop := c_fixed c = true \/ nobad c ci co f = true.

Theorem run_forest : forall c f ci co l,
  0 <= ci -> 0 <= co -> 0 <= l -> guard c ci co f ->
  run c {| cin := ci; cout := co; lc := l |} (events f) =
  ({| cin := ci; cout := co; lc := l |}, hooks_of (select c ci co l f)).
Proof.
  intros c f. induction f as [|b k IHk r IHr]; intros ci co l Hi Ho Hl G.
  - reflexivity.
  - assert (Gb : c_fixed c = true \/ badb c ci co b = false).
    { destruct G as [G|G]; [now left|right]. rewrite nobad_node in G.
      apply andb_prop in G as [G _]. apply andb_prop in G as [G _]. now apply negb_true_iff in G. }
    assert (Gk : guard c (ci' c ci b) (co' c co b) k).
    { destruct G as [G|G]; [now left|right]. rewrite nobad_node in G.
      apply andb_prop in G as [G _]. now apply andb_prop in G as [_ G]. }
    assert (Gr : guard c ci co r).
    { destruct G as [G|G]; [now left|right]. rewrite nobad_node in G. now apply andb_prop in G as [_ G]. }
    cbn [events run].
    pose proof (step_entry c {| cin := ci; cout := co; lc := l |} b Hi Ho Hl) as E.
    cbn [cin cout lc] in E. rewrite E. clear E.
    rewrite run_app.
    rewrite (IHk _ _ _ (ci'_nonneg c ci b Hi) (co'_nonneg c co b Ho) (l'_nonneg c ci co l b Hl) Gk).
    cbn [run]. rewrite (step_exit c ci co l b Hi Ho Hl Gb).
    rewrite (IHr _ _ _ Hi Ho Hl Gr).
    rewrite select_node. f_equal.
    destruct (tracedb c ci co l b); cbn [hooks_of app].
    + reflexivity.
    + now rewrite hooks_of_fapp.
Qed.

(* from the initial state: the code of the pinned tree under the exact guard ... *)
Corollary run_forest_guarded : forall c f, nobad c 0 0 f = true ->
  run c st0 (events f) = (st0, hooks_of (select c 0 0 0 f)).
Proof. intros c f G. apply (run_forest c f 0 0 0); try lia. now right. Qed.

(* ... and the repaired code without any guard *)
Corollary run_forest_fixed : forall c f, c_fixed c = true ->
  run c st0 (events f) = (st0, hooks_of (select c 0 0 0 f)).
Proof. intros c f G. apply (run_forest c f 0 0 0); try lia. now left. Qed.

(* counters restored after every complete call, from any reachable (non-negative) state *)
Corollary counters_restored : forall c f s,
  0 <= cin s -> 0 <= cout s -> 0 <= lc s -> guard c (cin s) (cout s) f ->
  fst (run c s (events f)) = s.
Proof.
  intros c f [i o l] Hi Ho Hl G. cbn [cin cout lc] in *. now rewrite run_forest.
Qed.

(* ---------------------------------------------------------------- the simple guard: no mixing of -F and -N *)
Lemma first_match_all_in : forall fs n, forallb is_in fs = true -> first_match fs n <> Some FOut.
Proof.
  induction fs as [|f fs IH]; intros n H; cbn in *; [discriminate|].
  apply andb_prop in H as [H1 H2]. destruct (match_filter f n).
  - unfold is_in in H1. destruct (f_mode f); [discriminate|discriminate H1].
  - now apply IH.
Qed.

Lemma first_match_all_out : forall fs n, forallb (fun f => negb (is_in f)) fs = true -> first_match fs n <> Some FIn.
Proof.
  induction fs as [|f fs IH]; intros n H; cbn in *; [discriminate|].
  apply andb_prop in H as [H1 H2]. destruct (match_filter f n).
  - unfold is_in in H1. destruct (f_mode f); [discriminate H1|discriminate].
  - now apply IH.
Qed.

Lemma existsb_forallb_neg : forall {A} (p : A -> bool) l, forallb (fun x => negb (p x)) l = true -> existsb p l = false.
Proof. induction l as [|x l IH]; cbn; intros H; [reflexivity|]. apply andb_prop in H as [H1 H2]. apply negb_true_iff in H1. now rewrite H1, IH. Qed.

Lemma no_mix_nobad : forall pt env m fx f ci co,
  no_mix (mkcfg_pt pt env m fx) = true -> nobad (mkcfg_pt pt env m fx) ci co f = true.
Proof.
  intros pt env m fx f. induction f as [|b k IHk r IHr]; intros ci co H; [reflexivity|].
  rewrite nobad_node, IHk, IHr by assumption. rewrite !andb_true_r. apply negb_true_iff.
  unfold badb, classify, opt_in_mode, no_mix, mkcfg_pt, init_filters_pt in *.
  destruct env as [raws|]; cbn [c_fmode c_filters] in *; [|reflexivity].
  apply orb_prop in H as [H|H].
  - pose proof (first_match_all_in _ (s_name (l_sym b)) H) as N.
    destruct (first_match (map (mk_filter_pt pt) raws) (s_name (l_sym b))) as [[|]|]; try reflexivity. now elim N.
  - rewrite (existsb_forallb_neg _ _ H). cbn.
    destruct (first_match (map (mk_filter_pt pt) raws) (s_name (l_sym b))) as [[|]|]; reflexivity.
Qed.

Corollary run_forest_no_mix : forall env m f,
  no_mix (mkcfg env m false) = true ->
  run (mkcfg env m false) st0 (events f) = (st0, hooks_of (select (mkcfg env m false) 0 0 0 f)).
Proof. intros. apply run_forest_guarded. now apply (no_mix_nobad PRegex). Qed.

(* ---------------------------------------------------------------- balance and pairing *)
Lemma nest_app : forall a b d, nest d (a ++ b) = match nest d a with Some d' => nest d' b | None => None end.
Proof.
  induction a as [|h a IH]; intros b d; cbn [app nest]; [reflexivity|].
  destruct h; [apply IH|]. destruct d; [reflexivity|apply IH].
Qed.

Lemma nest_hooks_of : forall f d, nest d (hooks_of f) = Some d.
Proof.
  induction f as [|b k IHk r IHr]; intros d; cbn [hooks_of nest]; [reflexivity|].
  rewrite nest_app, IHk. cbn [nest]. apply IHr.
Qed.

Lemma balanced_hooks_of : forall f, balanced (hooks_of f) = true.
Proof. intros f; unfold balanced; now rewrite nest_hooks_of. Qed.

Theorem balanced_run : forall c f, guard c 0 0 f -> balanced (snd (run c st0 (events f))) = true.
Proof.
  intros c f G. unfold st0. rewrite run_forest by (try lia; exact G). apply balanced_hooks_of.
Qed.

(* libmcount pairs every exit with the entry of the same call: the records are the traversal *)
Lemma mc_run_hooks_of : forall f stk hs,
  mc_run stk (hooks_of f ++ hs) =
  let '(stk', recs, w) := mc_run stk hs in (stk', records_of (length stk) f ++ recs, w).
Proof.
  induction f as [|b k IHk r IHr]; intros stk hs; cbn [hooks_of records_of app].
  - destruct (mc_run stk hs) as [[? ?] ?]; reflexivity.
  - cbn [mc_run]. rewrite <- app_assoc. rewrite IHk. cbn [app mc_run length]. rewrite IHr.
    destruct (mc_run stk hs) as [[s1 r1] w1]. cbn [length]. now rewrite <- app_assoc.
Qed.

Theorem mc_run_forest : forall c f, guard c 0 0 f ->
  mc_run [] (snd (run c st0 (events f))) = ([], records_of O (select c 0 0 0 f), O).
Proof.
  intros c f G. unfold st0. rewrite run_forest by (try lia; exact G). cbn [snd].
  rewrite <- (app_nil_r (hooks_of _)). rewrite mc_run_hooks_of. cbn. now rewrite app_nil_r.
Qed.

(* a program that stops anywhere (sys.exit, os._exit, kill): no unpaired exit on any prefix *)
Lemma nest_app_some : forall a b d x, nest d (a ++ b) = Some x -> exists y, nest d a = Some y.
Proof.
  intros a b d x H. rewrite nest_app in H. destruct (nest d a); [eauto|discriminate].
Qed.

Theorem prefix_no_underflow : forall c f p q, guard c 0 0 f -> events f = p ++ q ->
  no_underflow (snd (run c st0 p)) = true.
Proof.
  intros c f p q G E. pose proof (balanced_run c f G) as B. rewrite E, run_app in B.
  destruct (run c st0 p) as [s1 h1]. destruct (run c s1 q) as [s2 h2]. cbn [snd] in *.
  unfold balanced in B. unfold no_underflow.
  destruct (nest 0 (h1 ++ h2)) eqn:N; [|discriminate].
  apply nest_app_some in N as [y ->]. reflexivity.
Qed.

(* ---------------------------------------------------------------- library-call policy *)
Lemma fall_fapp : forall p a b, fall p (fapp a b) = fall p a && fall p b.
Proof.
  induction a as [|l k IHk r IHr]; intros b; cbn [fapp fall]; [reflexivity|].
  rewrite IHr. now rewrite !andb_assoc.
Qed.

(* --no-libcall: no library symbol in the trace, whatever the filters *)
Theorem libcall_none : forall c ci co l f, c_lib c = LNone ->
  fall (fun b => negb (s_lib (l_sym b))) (select c ci co l f) = true.
Proof.
  intros c ci co l f M. revert ci co l. induction f as [|b k IHk r IHr]; intros ci co l; [reflexivity|].
  rewrite select_node. unfold tracedb, libok. rewrite M.
  destruct (selb c ci co b); cbn [andb].
  - destruct (s_lib (l_sym b)) eqn:L; cbn [negb orb].
    + now rewrite fall_fapp, IHk, IHr.
    + cbn [fall]. now rewrite L, IHk, IHr.
  - now rewrite fall_fapp, IHk, IHr.
Qed.

Lemma nlul_fapp : forall a b i, no_lib_under_lib i (fapp a b) = no_lib_under_lib i a && no_lib_under_lib i b.
Proof.
  induction a as [|l k IHk r IHr]; intros b i; cbn [fapp no_lib_under_lib]; [reflexivity|].
  rewrite IHr. now rewrite !andb_assoc.
Qed.

(* default mode: no library call is traced below a traced library call *)
Theorem libcall_single_depth : forall c f ci co l, c_lib c = LSingle -> 0 <= l ->
  no_lib_under_lib (l >? 0) (select c ci co l f) = true.
Proof.
  intros c f. induction f as [|b k IHk r IHr]; intros ci co l M Hl; [reflexivity|].
  rewrite select_node. unfold tracedb, libok, l'. rewrite M.
  destruct (selb c ci co b); cbn [andb].
  - destruct (s_lib (l_sym b)) eqn:L; cbn [negb orb andb].
    + destruct (Z.eqb_spec l 0) as [->|Nz].
      * cbn [no_lib_under_lib]. rewrite L. cbn.
        pose proof (IHk (ci' c ci b) (co' c co b) 1 M ltac:(lia)) as K. cbn in K. rewrite K.
        pose proof (IHr ci co 0 M ltac:(lia)) as R. cbn in R. now rewrite R.
      * rewrite nlul_fapp.
        pose proof (IHk (ci' c ci b) (co' c co b) (l + 1) M ltac:(lia)) as K.
        assert (E : (l + 1 >? 0) = (l >? 0)) by (zb; try reflexivity; lia).
        rewrite E in K. now rewrite K, IHr.
    + cbn [no_lib_under_lib]. rewrite L. rewrite andb_false_r, orb_false_r. cbn [negb andb].
      now rewrite IHk, IHr.
  - rewrite nlul_fapp. now rewrite IHk, IHr.
Qed.

(* the specification factorises: filter selection, then library policy on what was selected *)
Lemma libprune_fapp : forall m a b l, libprune m l (fapp a b) = fapp (libprune m l a) (libprune m l b).
Proof.
  induction a as [|x k IHk r IHr]; intros b l; cbn [fapp libprune]; [reflexivity|].
  rewrite IHr. destruct (negb _ || _); cbn [fapp]; [reflexivity|now rewrite fapp_assoc].
Qed.

Theorem select_factors : forall c f ci co l,
  select c ci co l f = libprune (c_lib c) l (fsel c ci co f).
Proof.
  intros c f. induction f as [|b k IHk r IHr]; intros ci co l; [reflexivity|].
  rewrite select_node. cbn [fsel]. fold (ci' c ci b) (co' c co b). fold (selb c ci co b).
  unfold tracedb, l', libok. destruct (selb c ci co b); cbn [andb].
  - cbn [libprune]. rewrite IHk, IHr.
    destruct (s_lib (l_sym b)); cbn [andb negb orb]; destruct (c_lib c); reflexivity.
  - rewrite libprune_fapp. now rewrite IHk, IHr.
Qed.

(* --nest-libcall without filters: every call is traced *)
Lemma libprune_nested : forall f l, libprune LNested l f = f.
Proof.
  induction f as [|b k IHk r IHr]; intros l; cbn [libprune]; [reflexivity|].
  rewrite orb_true_r, andb_false_r. now rewrite IHk, IHr.
Qed.

Lemma fsel_nofilter : forall c f ci co, c_fmode c = None -> fsel c ci co f = f.
Proof.
  intros c f. induction f as [|b k IHk r IHr]; intros ci co H; [reflexivity|].
  cbn [fsel]. unfold selected, filtering. rewrite H. cbn. now rewrite IHk, IHr.
Qed.

Theorem libcall_nested_all : forall c f, c_fmode c = None -> c_lib c = LNested ->
  select c 0 0 0 f = f.
Proof. intros c f H M. now rewrite select_factors, M, fsel_nofilter, libprune_nested. Qed.

(* default mode, no callbacks (no non-library call below a library call): exactly the library
   calls made directly from non-library code are kept - formulated as a simpler pruning function *)
Fixpoint prune_direct (inlib : bool) (f : forest) : forest :=
  match f with
  | FNil => FNil
  | FNode b k r =>
      let lib := s_lib (l_sym b) in
      if lib && inlib then fapp (prune_direct true k) (prune_direct inlib r)
      else FNode b (prune_direct lib k) (prune_direct inlib r)
  end.
(* "the caller of a library call is a library call or non-library code" is tracked by [inlib]:
   inlib = the direct caller is library code *)
Fixpoint no_callback (inlib : bool) (f : forest) : bool :=
  match f with
  | FNil => true
  | FNode b k r => let lib := s_lib (l_sym b) in
                   negb (inlib && negb lib) && no_callback (inlib || lib) k && no_callback inlib r
  end.

Theorem libcall_single_direct : forall f l, 0 <= l -> no_callback (l >? 0) f = true ->
  libprune LSingle l f = prune_direct (l >? 0) f.
Proof.
  induction f as [|b k IHk r IHr]; intros l Hl H; [reflexivity|].
  cbn [libprune prune_direct no_callback] in *.
  apply andb_prop in H as [H Hr]. apply andb_prop in H as [Hb Hk].
  destruct (s_lib (l_sym b)) eqn:L; cbn [negb orb andb] in *.
  - rewrite orb_true_r in Hk.
    destruct (Z.eqb_spec l 0) as [->|Nz].
    + cbn. rewrite (IHk 1) by (try lia; exact Hk). rewrite (IHr 0) by (try lia; exact Hr). reflexivity.
    + assert (E : (l >? 0) = true) by (zb; try reflexivity; lia). rewrite E in *.
      rewrite (IHk (l + 1)); [|lia|]. 2:{ assert (E2 : (l + 1 >? 0) = true) by (zb; try reflexivity; lia). now rewrite E2. }
      assert (E2 : (l + 1 >? 0) = true) by (zb; try reflexivity; lia). rewrite E2.
      rewrite (IHr l) by (try lia; now rewrite E). now rewrite E.
  - rewrite orb_false_r in Hk. apply negb_true_iff in Hb. rewrite andb_true_r in Hb.
    rewrite Hb in *. assert (E : l = 0) by (revert Hb; zb; [discriminate|lia]). subst l.
    rewrite (IHk 0) by (try lia; exact Hk). rewrite (IHr 0) by (try lia; exact Hr). reflexivity.
Qed.

(* ---------------------------------------------------------------- filters *)
Lemma fsel_inside_out : forall c f ci co, filtering c = true -> 0 < co -> fsel c ci co f = FNil.
Proof.
  intros c f. induction f as [|b k IHk r IHr]; intros ci co F H; [reflexivity|].
  cbn [fsel]. unfold selected. rewrite F. cbn [negb orb].
  assert (E : (match classify c (l_sym b) with KOut => co + 1 | _ => co end =? 0) = false)
    by (destruct (classify c (l_sym b)); zb; try reflexivity; lia).
  rewrite E. cbn [andb]. rewrite IHr by assumption.
  rewrite IHk; [reflexivity|assumption|destruct (classify c (l_sym b)); lia].
Qed.

Lemma fsel_inside_in : forall c f ci, c_fmode c = Some FIn -> forallb is_in (c_filters c) = true -> 0 < ci ->
  fsel c ci 0 f = f.
Proof.
  intros c f. induction f as [|b k IHk r IHr]; intros ci M A H; [reflexivity|].
  cbn [fsel]. unfold selected, filtering, opt_in_mode, classify. rewrite M. cbn [negb orb is_some_mode fmode_eqb].
  pose proof (first_match_all_in _ (s_name (l_sym b)) A) as N.
  destruct (first_match (c_filters c) (s_name (l_sym b))) as [[|]|]; [|now elim N|].
  - assert (E : (ci + 1 >? 0) = true) by (zb; try reflexivity; lia). rewrite E. cbn.
    rewrite IHk by (try assumption; lia). now rewrite IHr.
  - assert (E : (ci >? 0) = true) by (zb; try reflexivity; lia). rewrite E. cbn.
    rewrite IHk by (try assumption; lia). now rewrite IHr.
Qed.

(* -F only: exactly the named calls with everything below them *)
Theorem filters_opt_in : forall c f, c_fmode c = Some FIn -> forallb is_in (c_filters c) = true ->
  fsel c 0 0 f = pick (matches c) f.
Proof.
  intros c f M A. induction f as [|b k IHk r IHr]; [reflexivity|].
  cbn [fsel pick]. unfold selected, filtering, opt_in_mode, classify, matches. rewrite M.
  cbn [negb orb is_some_mode fmode_eqb].
  pose proof (first_match_all_in _ (s_name (l_sym b)) A) as N.
  destruct (first_match (c_filters c) (s_name (l_sym b))) as [[|]|]; [|now elim N|]; cbn.
  - rewrite fsel_inside_in by (try assumption; lia). now rewrite IHr.
  - now rewrite IHk, IHr.
Qed.

(* -N only: everything except the named calls and what is below them *)
Theorem filters_opt_out : forall c f, c_fmode c = Some FOut ->
  forallb (fun x => negb (is_in x)) (c_filters c) = true ->
  fsel c 0 0 f = drop (matches c) f.
Proof.
  intros c f M A. induction f as [|b k IHk r IHr]; [reflexivity|].
  cbn [fsel drop]. unfold selected, filtering, opt_in_mode, classify, matches. rewrite M.
  cbn [negb orb is_some_mode fmode_eqb].
  pose proof (first_match_all_out _ (s_name (l_sym b)) A) as N.
  destruct (first_match (c_filters c) (s_name (l_sym b))) as [[|]|]; [now elim N| |]; cbn.
  - rewrite fsel_inside_out; [exact IHr|unfold filtering; now rewrite M|lia].
  - now rewrite IHk, IHr.
Qed.

(* -F and -N together (opt-in mode): the -F calls with everything below them, minus the -N calls
   and everything below those - wherever they are *)
Lemma fsel_in_region : forall c f ci, c_fmode c = Some FIn -> 0 < ci ->
  fsel c ci 0 f = drop (is_kout c) f.
Proof.
  intros c f. induction f as [|b k IHk r IHr]; intros ci M H; [reflexivity|].
  cbn [fsel drop]. unfold selected, filtering, opt_in_mode. rewrite M.
  cbn [negb orb is_some_mode fmode_eqb].
  destruct (classify c (l_sym b)) eqn:K;
    assert (Ko : is_kout c (l_sym b) = match classify c (l_sym b) with KOut => true | _ => false end) by reflexivity;
    rewrite K in Ko; rewrite Ko.
  - assert (E : (ci >? 0) = true) by (zb; try reflexivity; lia). rewrite E. cbn.
    now rewrite IHk, IHr.
  - assert (E : (ci + 1 >? 0) = true) by (zb; try reflexivity; lia). rewrite E. cbn.
    rewrite IHk by (try assumption; lia). now rewrite IHr.
  - cbn. rewrite fsel_inside_out; [cbn; now apply IHr|unfold filtering; now rewrite M|lia].
Qed.

Theorem filters_mixed : forall c f, c_fmode c = Some FIn ->
  fsel c 0 0 f = pick (is_kin c) (drop (is_kout c) f).
Proof.
  intros c f M. induction f as [|b k IHk r IHr]; [reflexivity|].
  cbn [fsel drop]. unfold selected, filtering, opt_in_mode. rewrite M.
  cbn [negb orb is_some_mode fmode_eqb].
  destruct (classify c (l_sym b)) eqn:K;
    assert (Ko : is_kout c (l_sym b) = match classify c (l_sym b) with KOut => true | _ => false end) by reflexivity;
    assert (Ki : is_kin c (l_sym b) = match classify c (l_sym b) with KIn => true | _ => false end) by reflexivity;
    rewrite K in Ko, Ki; rewrite Ko; cbn [pick l_sym]; try rewrite Ki.
  - cbn. now rewrite IHk, IHr.
  - cbn. rewrite fsel_in_region by (try assumption; lia). now rewrite IHr.
  - cbn. rewrite fsel_inside_out; [cbn; exact IHr|unfold filtering; now rewrite M|lia].
Qed.

Theorem filters_out_general : forall c f ci, c_fmode c = Some FOut ->
  fsel c ci 0 f = drop (is_kout c) f.
Proof.
  intros c f. induction f as [|b k IHk r IHr]; intros ci M; [reflexivity|].
  cbn [fsel drop]. unfold selected, filtering, opt_in_mode. rewrite M.
  cbn [negb orb is_some_mode fmode_eqb].
  destruct (classify c (l_sym b)) eqn:K;
    assert (Ko : is_kout c (l_sym b) = match classify c (l_sym b) with KOut => true | _ => false end) by reflexivity;
    rewrite K in Ko; rewrite Ko; cbn.
  - now rewrite IHk, IHr.
  - now rewrite IHk, IHr.
  - rewrite fsel_inside_out; [cbn; now apply IHr|unfold filtering; now rewrite M|lia].
Qed.

(* every call of the main module is traced, whatever the library-call mode *)
Lemma main_only_fapp : forall a b, main_only (fapp a b) = fapp (main_only a) (main_only b).
Proof.
  induction a as [|x k IHk r IHr]; intros b; cbn [fapp main_only]; [reflexivity|].
  rewrite IHr. destruct (s_lib (l_sym x)); cbn [fapp]; [now rewrite fapp_assoc|reflexivity].
Qed.

Theorem main_calls_all_traced : forall m f l, main_only (libprune m l f) = main_only f.
Proof.
  intros m f. induction f as [|b k IHk r IHr]; intros l; [reflexivity|].
  cbn [libprune main_only]. destruct (s_lib (l_sym b)) eqn:L; cbn [negb orb andb].
  - destruct (match m with LNone => false | LNested => true | LSingle => l =? 0 end).
    + cbn [main_only]. rewrite L. now rewrite IHk, IHr.
    + rewrite main_only_fapp. now rewrite IHk, IHr.
  - cbn [main_only]. rewrite L. now rewrite IHk, IHr.
Qed.

(* ---------------------------------------------------------------- the defect of the pinned tree *)
Definition str (l : list nat) : name := map N.of_nat l.
Definition nm_a : name := [97]%N.  Definition nm_b : name := [98]%N.  Definition nm_c : name := [99]%N.
Definition nm_getpid : name := [112; 111; 115; 105; 120; 46; 103; 101; 116; 112; 105; 100]%N.   (* posix.getpid *)
Definition nm_dot_getpid : name := [33; 46; 103; 101; 116; 112; 105; 100]%N.                     (* !.getpid *)
Definition py (n : name) : lab := {| l_sym := {| s_name := n; s_lib := false |}; l_c := false; l_exc := false |}.
Definition cf (n : name) : lab := {| l_sym := {| s_name := n; s_lib := true |}; l_c := true; l_exc := false |}.

(* tests/s-abc.py below the module frame: a() { b() { c() { posix.getpid() } } } ;  -F a -N .getpid *)
Definition abc : forest :=
  FNode (py nm_a) (FNode (py nm_b) (FNode (py nm_c) (FNode (cf nm_getpid) FNil FNil) FNil) FNil) FNil.
Definition cfg_FN (fixed : bool) : cfg := mkcfg (Some [nm_a; nm_dot_getpid]) LSingle fixed.

Theorem unbalanced_witness :
  length (events abc) = 8%nat /\
  balanced (snd (run (cfg_FN false) st0 (events abc))) = false /\
  (* four exits for three entries; libmcount drops the last one and every exit closes the wrong call *)
  mc_run [] (snd (run (cfg_FN false) st0 (events abc))) =
    ([], [REntry 0 (l_sym (py nm_a)); REntry 1 (l_sym (py nm_b)); REntry 2 (l_sym (py nm_c));
          RExit 2 (l_sym (py nm_c)); RExit 1 (l_sym (py nm_b)); RExit 0 (l_sym (py nm_a))], 1%nat) /\
  snd (run (cfg_FN false) st0 (events abc)) =
    [HEnter (l_sym (py nm_a)); HEnter (l_sym (py nm_b)); HEnter (l_sym (py nm_c));
     HExit (* c_return of getpid *); HExit; HExit; HExit] /\
  nobad (cfg_FN false) 0 0 abc = false /\
  (* the repaired code on the same input *)
  run (cfg_FN true) st0 (events abc) = (st0, hooks_of (FNode (py nm_a) (FNode (py nm_b) (FNode (py nm_c) FNil FNil) FNil) FNil)).
Proof. vm_compute. repeat split; reflexivity. Qed.

(* the library counter drifts as well: inside a library call the stray exit decrements
   libcall_count, so the next library call below the library call is traced in default mode *)
Definition nm_sorted : name := str [98; 117; 105; 108; 116; 105; 110; 115; 46; 115; 111; 114; 116; 101; 100]%nat.
Definition nm_len : name := str [98; 117; 105; 108; 116; 105; 110; 115; 46; 108; 101; 110]%nat.
Definition drift : forest :=
  FNode (py nm_a) (FNode (cf nm_sorted)
     (FNode (py nm_b) (FNode (cf nm_getpid) FNil (FNode (cf nm_len) FNil FNil)) FNil) FNil) FNil.
Theorem counter_drift_witness :
  existsb (hook_eqb (HEnter (l_sym (cf nm_len)))) (snd (run (cfg_FN false) st0 (events drift))) = true /\
  existsb (hook_eqb (HEnter (l_sym (cf nm_len)))) (snd (run (cfg_FN true) st0 (events drift))) = false /\
  existsb (hook_eqb (HEnter (l_sym (cf nm_len)))) (hooks_of (select (cfg_FN false) 0 0 0 drift)) = false.
Proof. vm_compute. repeat split; reflexivity. Qed.

(* default libcall mode: a library call made directly from non-library code that runs as a
   callback of a library call is not traced (the manual: "only record library call from the main
   executable") *)
Definition callback : forest :=
  FNode (py nm_a) (FNode (cf nm_sorted) (FNode (py nm_b) (FNode (cf nm_len) FNil FNil) FNil) FNil) FNil.
Definition cfg_plain (m : libmode) : cfg := mkcfg None m false.
Theorem libcall_direct_witness :
  no_callback false callback = false /\
  select (cfg_plain LSingle) 0 0 0 callback =
    FNode (py nm_a) (FNode (cf nm_sorted) (FNode (py nm_b) FNil FNil) FNil) FNil /\
  prune_direct false callback = callback /\
  select (cfg_plain LNested) 0 0 0 callback = callback.
Proof. vm_compute. repeat split; reflexivity. Qed.

(* a script ended by sys.exit() / an uncaught exception: after the module frame the interpreter
   unwinds runpy._run_code and runpy._run_module_as_main, which were entered before tracing
   started; their `return` events are ill-formed input and are passed on as exits *)
Definition nm_sysexit : name := str [115; 121; 115; 46; 101; 120; 105; 116]%nat.                 (* sys.exit *)
Definition nm_run_code : name := str [114; 117; 110; 112; 121; 46; 95; 114; 117; 110; 95; 99; 111; 100; 101]%nat. (* runpy._run_code *)
Definition nm_run_main : name := str [114; 117; 110; 112; 121; 46; 95; 114; 117; 110; 95; 109; 97; 105; 110]%nat. (* runpy._run_main (abbreviated) *)
Definition libpy (n : name) : sym := {| s_name := n; s_lib := true |}.
Definition exit_stream : list event :=
  events (FNode (py nm_a) (FNode {| l_sym := libpy nm_sysexit; l_c := true; l_exc := true |} FNil FNil) FNil)
  ++ [ {| e_kind := Return; e_sym := libpy nm_run_code |}; {| e_kind := Return; e_sym := libpy nm_run_main |} ].
Theorem exit_by_exception_witness :
  no_underflow (snd (run (cfg_plain LSingle) st0 exit_stream)) = false /\
  snd (mc_run [] (snd (run (cfg_plain LSingle) st0 exit_stream))) = 2%nat /\
  snd (mc_run [] (snd (run (cfg_plain LNested) st0 exit_stream))) = 2%nat /\
  no_underflow (snd (run (cfg_plain LNone) st0 exit_stream)) = true.
Proof. vm_compute. repeat split; reflexivity. Qed.

(* ---------------------------------------------------------------- address table *)
Lemma lookup_resolve : forall tab nm i a s, lookup tab nm i = Some (a, s) ->
  (i <= a)%N /\ nth_error tab (N.to_nat (a - i)) = Some s /\ s_name s = nm.
Proof.
  induction tab as [|x tab IH]; intros nm i a s H; cbn [lookup] in H; [discriminate|].
  destruct (name_eqb (s_name x) nm) eqn:E.
  - inversion H; subst. rewrite N.sub_diag. cbn. repeat split; try lia.
    clear -E. revert E. generalize (s_name s). intros n. revert nm.
    induction n as [|c n IHn]; destruct nm as [|d nm]; cbn; intros E; try discriminate; [reflexivity|].
    apply andb_prop in E as [E1 E2]. apply N.eqb_eq in E1. subst. f_equal. now apply IHn.
  - apply IH in H as (L & Nn & Nm). repeat split; [lia| |assumption].
    replace (N.to_nat (a - i)) with (S (N.to_nat (a - N.succ i))) by lia. exact Nn.
Qed.

Lemma name_eqb_refl : forall n, name_eqb n n = true.
Proof. induction n as [|c n IH]; cbn; [reflexivity|]. now rewrite N.eqb_refl. Qed.

Lemma lookup_none_app : forall tab nm i s, lookup tab nm i = None -> s_name s = nm ->
  lookup (tab ++ [s]) nm i = Some ((i + N.of_nat (length tab))%N, s).
Proof.
  induction tab as [|x tab IH]; intros nm i s H E; cbn [lookup app length] in *.
  - subst. rewrite name_eqb_refl. f_equal. f_equal. lia.
  - destruct (name_eqb (s_name x) nm); [discriminate|]. rewrite (IH _ _ _ H E). f_equal. f_equal. lia.
Qed.

Lemma resolve_succ : forall t n, resolve t (N.of_nat (S n)) = nth_error t n.
Proof.
  intros t n. unfold resolve. destruct (N.of_nat (S n)) eqn:E; [lia|]. rewrite <- E.
  f_equal. lia.
Qed.

(* intern: the table only grows at the end; the address resolves to the returned symbol in the
   new table and in every extension of it; the returned symbol has the requested name *)
Lemma intern_spec : forall tab s tab' a s', intern tab s = (tab', a, s') ->
  (exists ext, tab' = tab ++ ext) /\ s_name s' = s_name s /\
  forall ext, resolve (tab' ++ ext) a = Some s'.
Proof.
  intros tab s tab' a s' H. unfold intern in H.
  destruct (lookup tab (s_name s) 1%N) as [[a0 s0]|] eqn:L.
  - inversion H; subst. apply lookup_resolve in L as (L1 & L2 & L3).
    split; [exists []; now rewrite app_nil_r|]. split; [assumption|].
    intros ext. unfold resolve. destruct a as [|p]; [lia|].
    replace (N.to_nat (N.pred (N.pos p))) with (N.to_nat (N.pos p - 1)) by lia.
    rewrite nth_error_app1; [assumption|]. apply nth_error_Some. now rewrite L2.
  - inversion H; subst. split; [now exists [s']|]. split; [reflexivity|].
    intros ext. change (N.pos (Pos.of_succ_nat (length tab))) with (N.of_nat (S (length tab))).
    rewrite resolve_succ.
    rewrite <- app_assoc. rewrite nth_error_app2 by lia. now rewrite Nat.sub_diag.
Qed.

Lemma step_shape : forall c s e s1 h1, step c s e = (s1, h1) ->
  h1 = [] \/ h1 = [HEnter (e_sym e)] \/ h1 = [HExit].
Proof.
  intros c s e s1 h1 St. unfold step in St.
  destruct (match c_fmode c with Some fm => _ | None => _ end) as [sx skip].
  destruct skip; [inversion St; now left|].
  destruct (can_trace (c_lib c) sx (is_entry (e_kind e)) (s_lib (e_sym e))) as [sz ok].
  destruct ok; inversion St; [|now left].
  destruct (is_entry (e_kind e)); [right; now left|right; now right].
Qed.

(* the address-level automaton is the symbolic one on the canonical symbols, and every address it
   hands to libmcount resolves, through the final table, to the symbol of the event *)
Theorem arun_resolves : forall c md evs tab s,
  let '(tab', s', hs) := arun c md tab s evs in
  let '(tab2, sevs) := sym_events md tab evs in
  tab2 = tab' /\ (exists ext, tab' = tab ++ ext) /\
  s' = fst (run c s sevs) /\
  forall ext, resolve_hooks (tab' ++ ext) hs = map Some (snd (run c s sevs)).
Proof.
  intros c md evs. induction evs as [|e evs IH]; intros tab s.
  - cbn. repeat split; try reflexivity. exists []. now rewrite app_nil_r.
  - cbn [arun sym_events]. unfold astep.
    destruct (sym_of_func md (fe_kind e) (fe_func e)) as [sy|].
    + destruct (intern tab sy) as [[t1 a] sy'] eqn:I.
      destruct (step c s {| e_kind := fe_kind e; e_sym := sy' |}) as [s1 h1] eqn:St.
      specialize (IH t1 s1).
      destruct (arun c md t1 s1 evs) as [[t2 s2] h2].
      destruct (sym_events md t1 evs) as [t3 es].
      destruct IH as (E1 & (ext1 & E2) & E3 & E4).
      apply intern_spec in I as ((ext0 & I1) & I2 & I3).
      cbn [run]. rewrite St. destruct (run c s1 es) as [s3 h3] eqn:R. cbn [fst snd] in *.
      repeat split; [assumption| |assumption|].
      * exists (ext0 ++ ext1). subst. now rewrite app_assoc.
      * intros ext. unfold resolve_hooks in *. rewrite map_app, map_app. rewrite E4. f_equal.
        rewrite map_map. rewrite E2. rewrite <- app_assoc.
        destruct (step_shape _ _ _ _ _ St) as [Hh|[Hh|Hh]]; rewrite Hh; cbn [map e_sym]; [reflexivity| |reflexivity].
        now rewrite I3.
    + specialize (IH tab s). destruct (arun c md tab s evs) as [[t2 s2] h2].
      destruct (sym_events md tab evs) as [t3 es]. cbn [app]. exact IH.
Qed.

(* the depth guard of proposed-fixes/C19-2.diff does not touch well-formed streams *)
Lemma depth_guard_ievents : forall fns f d rest,
  depth_guard d (ievents fns f ++ rest) = ievents fns f ++ depth_guard d rest.
Proof.
  intros fns f. induction f as [|i exc k IHk r IHr]; intros d rest; [reflexivity|].
  cbn [ievents]. destruct (func_is_c (nth i fns dummy_func)).
  - cbn [app depth_guard fe_kind]. rewrite <- app_assoc. rewrite IHk. cbn [app].
    rewrite <- (app_assoc (ievents fns k)). cbn [app].
    destruct exc; cbn [depth_guard fe_kind]; now rewrite IHr.
  - cbn [app depth_guard fe_kind]. rewrite <- app_assoc. rewrite IHk. cbn [app depth_guard fe_kind].
    rewrite <- (app_assoc (ievents fns k)). cbn [app].
    now rewrite IHr.
Qed.

(* returns of frames that were never called under the profiler are dropped by the depth guard *)
Lemma depth_guard_returns : forall rets, forallb (fun e => match fe_kind e with Return => true | _ => false end) rets = true ->
  depth_guard O rets = [].
Proof.
  induction rets as [|e r IH]; intros H; [reflexivity|]. cbn in H. apply andb_prop in H as [H1 H2].
  cbn [depth_guard]. destruct (fe_kind e); try discriminate. now apply IH.
Qed.

Theorem exit_by_exception_current : forall fns f rets,
  forallb (fun e => match fe_kind e with Return => true | _ => false end) rets = true ->
  depth_guard O (ievents fns f ++ rets) = ievents fns f.
Proof. intros. rewrite depth_guard_ievents, depth_guard_returns by assumption. apply app_nil_r. Qed.

(* ---------------------------------------------------------------- main line: the current code (c_fixed = true) *)
Theorem run_forest_current : forall c f ci co l, c_fixed c = true ->
  0 <= ci -> 0 <= co -> 0 <= l ->
  run c {| cin := ci; cout := co; lc := l |} (events f) =
  ({| cin := ci; cout := co; lc := l |}, hooks_of (select c ci co l f)).
Proof. intros c f ci co l F Hi Ho Hl. apply run_forest; try assumption. now left. Qed.

Theorem balanced_current : forall c f, c_fixed c = true -> balanced (snd (run c st0 (events f))) = true.
Proof. intros. apply balanced_run. now left. Qed.

Theorem counters_current : forall c f s, c_fixed c = true -> 0 <= cin s -> 0 <= cout s -> 0 <= lc s ->
  fst (run c s (events f)) = s.
Proof. intros. apply counters_restored; try assumption. now left. Qed.

Theorem mc_run_current : forall c f, c_fixed c = true ->
  mc_run [] (snd (run c st0 (events f))) = ([], records_of O (select c 0 0 0 f), O).
Proof. intros. apply mc_run_forest. now left. Qed.

Theorem prefix_current : forall c f p q, c_fixed c = true -> events f = p ++ q ->
  no_underflow (snd (run c st0 p)) = true.
Proof. intros c f p q F E. apply (prefix_no_underflow c f p q); [now left|assumption]. Qed.

(* The identity of a function is its name.  The callback computes the name from what the interpreter
   hands over at every event (frame.f_code / the builtin object); the model has no other notion of
   identity, in particular not the address of a code object, which CPython re-uses as soon as the
   object is freed (functions made with compile()/exec(), modules imported and dropped).  Whatever
   the table already holds, every event is processed under a symbol that carries exactly the name
   computed for the function of that event. *)
Definition called_names (md : option name) (evs : list fevent) : list (evkind * name) :=
  flat_map (fun e => match sym_of_func md (fe_kind e) (fe_func e) with
                     | Some sy => [(fe_kind e, s_name sy)]
                     | None => []
                     end) evs.

Lemma sym_events_names : forall md evs tab,
  map (fun e => (e_kind e, s_name (e_sym e))) (snd (sym_events md tab evs)) = called_names md evs.
Proof.
  intros md evs. induction evs as [|e evs IH]; intros tab; [reflexivity|].
  cbn [sym_events called_names flat_map].
  destruct (sym_of_func md (fe_kind e) (fe_func e)) as [sy|]; [|apply IH].
  destruct (intern tab sy) as [[t1 a] sy'] eqn:I. apply intern_spec in I as (_ & Nm & _).
  specialize (IH t1). destruct (sym_events md t1 evs) as [t2 es]. cbn [snd map app e_kind e_sym] in *.
  rewrite Nm. f_equal. exact IH.
Qed.

(* ---------------------------------------------------------------- function level: the whole callback meets the specification *)
(* the symbol a function gets when it is seen first *)
Notation fsym := fsym_of.
(* names determine symbols (two functions with one name have one library flag) *)
Definition consistent (md : option name) (fns : list func) : Prop :=
  forall f g s t, In f (dummy_func :: fns) -> In g (dummy_func :: fns) ->
    fsym md f = Some s -> fsym md g = Some t -> s_name s = s_name t -> s = t.
Definition canon (md : option name) (fns : list func) (tab : list sym) : Prop :=
  forall s, In s tab -> forall g t, In g (dummy_func :: fns) -> fsym md g = Some t -> s_name t = s_name s -> t = s.
Definition returns_only (rets : list fevent) : bool :=
  forallb (fun e => match fe_kind e with Return => true | _ => false end) rets.

Lemma fsym_some : forall md fn, exists s, fsym md fn = Some s.
Proof. intros md [m q fl|m q]; unfold fsym; cbn; eauto. Qed.

Lemma sym_of_exit : forall md fn (exc : bool),
  sym_of_func md (if func_is_c fn then (if exc then CException else CReturn) else Return) fn = fsym md fn.
Proof. intros md [m q fl|m q] exc; unfold fsym; cbn; [reflexivity|]. now destruct exc. Qed.

Lemma nth_in_dummy : forall i (fns : list func), In (nth i fns dummy_func) (dummy_func :: fns).
Proof. intros i fns. destruct (nth_in_or_default i fns dummy_func) as [H|H]; [now right|left; now rewrite H]. Qed.

Lemma lookup_in : forall tab nm i a s, lookup tab nm i = Some (a, s) -> In s tab.
Proof.
  intros tab nm i a s H. apply lookup_resolve in H as (_ & H & _). eapply nth_error_In; eassumption.
Qed.

Lemma intern_canon : forall md fns tab g t tab' a t',
  consistent md fns -> canon md fns tab -> In g (dummy_func :: fns) -> fsym md g = Some t ->
  intern tab t = (tab', a, t') -> t' = t /\ canon md fns tab'.
Proof.
  intros md fns tab g t tab' a t' Co Ca Ig Fg H. unfold intern in H.
  destruct (lookup tab (s_name t) 1%N) as [[a0 s0]|] eqn:L.
  - inversion H; subst. pose proof (lookup_in _ _ _ _ _ L) as I.
    apply lookup_resolve in L as (_ & _ & Nm).
    split; [|assumption]. symmetry. eapply Ca; eauto.
  - inversion H; subst. split; [reflexivity|].
    intros s Is g' t0 Ig' Fg' Nm. apply in_app_or in Is as [Is|[<-|[]]].
    + eapply Ca; eauto.
    + exact (Co g' g t0 t' Ig' Ig Fg' Fg Nm).
Qed.

Lemma sym_events_ievents : forall md fns, consistent md fns -> forall f tab rest, canon md fns tab ->
  exists tab1, canon md fns tab1 /\
    sym_events md tab (ievents fns f ++ rest) =
    (let '(t2, es) := sym_events md tab1 rest in (t2, events (iforest_syms md fns f) ++ es)).
Proof.
  intros md fns Co f. induction f as [|i exc k IHk r IHr]; intros tab rest Ca.
  - exists tab. split; [assumption|]. cbn. now destruct (sym_events md tab rest).
  - cbn [ievents iforest_syms events app]. set (fn := nth i fns dummy_func).
    destruct (fsym_some md fn) as [sy Fs]. pose proof (nth_in_dummy i fns) as In1. fold fn in In1.
    cbn [sym_events fe_kind fe_func]. fold (fsym md fn). rewrite Fs.
    destruct (intern tab sy) as [[ta a1] sy1] eqn:I1.
    destruct (intern_canon _ _ _ _ _ _ _ _ Co Ca In1 Fs I1) as [-> Ca1].
    rewrite <- app_assoc. cbn [app].
    destruct (IHk ta ({| fe_kind := if func_is_c fn then if exc then CException else CReturn else Return;
                          fe_func := fn |} :: ievents fns r ++ rest) Ca1) as (tb & Cab & Ek).
    rewrite Ek. cbn [sym_events fe_kind fe_func]. rewrite sym_of_exit, Fs.
    destruct (intern tb sy) as [[tc a2] sy2] eqn:I2.
    destruct (intern_canon _ _ _ _ _ _ _ _ Co Cab In1 Fs I2) as [-> Ca2].
    destruct (IHr tc rest Ca2) as (td & Cad & Er). rewrite Er.
    exists td. split; [assumption|].
    destruct (sym_events md td rest) as [t2 es]. f_equal.
    unfold entry_kind, exit_kind. cbn [l_c l_exc l_sym].
    rewrite <- app_assoc. reflexivity.
Qed.

Lemma sym_events_forests : forall md fns, consistent md fns -> forall fs tab, canon md fns tab ->
  exists tab1, sym_events md tab (flat_map (ievents fns) fs) =
               (tab1, flat_map (fun f => events (iforest_syms md fns f)) fs).
Proof.
  intros md fns Co fs. induction fs as [|f fs IH]; intros tab Ca.
  - exists tab. reflexivity.
  - cbn [flat_map]. destruct (sym_events_ievents md fns Co f tab (flat_map (ievents fns) fs) Ca) as (t1 & C1 & E).
    rewrite E. destruct (IH t1 C1) as (t2 & E2). rewrite E2. now exists t2.
Qed.

Lemma run_forests_fixed : forall c fs, c_fixed c = true ->
  run c st0 (flat_map events fs) = (st0, select_all c fs).
Proof.
  intros c fs F. induction fs as [|f fs IH]; [reflexivity|].
  cbn [flat_map select_all]. rewrite run_app, run_forest_fixed by assumption. now rewrite IH.
Qed.

Lemma depth_guard_forests : forall fns fs d rest,
  depth_guard d (flat_map (ievents fns) fs ++ rest) = flat_map (ievents fns) fs ++ depth_guard d rest.
Proof.
  intros fns fs. induction fs as [|f fs IH]; intros d rest; [reflexivity|].
  cbn [flat_map]. rewrite <- !app_assoc. now rewrite depth_guard_ievents, IH.
Qed.

(* The callback as a whole, on interpreter-level events: for every configuration, every sequence
   of call forests over any table of functions whose names determine their symbols, followed by any
   number of returns of frames that were never called (script ended by an exception): the state is
   restored and the addresses handed to libmcount, resolved through the symbol table written at
   exit, are exactly the traversal of the selected forests. *)
Theorem trace_python_spec : forall c md fns fs rets,
  c_fixed c = true -> consistent md fns -> returns_only rets = true ->
  let '(tab, s, hs) := trace_python c md (flat_map (ievents fns) fs ++ rets) in
  s = st0 /\ resolve_hooks tab hs = map Some (select_all c (map (iforest_syms md fns) fs)).
Proof.
  intros c md fns fs rets F Co R. unfold trace_python.
  rewrite depth_guard_forests, (depth_guard_returns rets R), app_nil_r.
  pose proof (arun_resolves c md (flat_map (ievents fns) fs) [] st0) as A.
  destruct (arun c md [] st0 (flat_map (ievents fns) fs)) as [[tab s] hs].
  assert (Ca : canon md fns []) by (intros s0 []).
  destruct (sym_events_forests md fns Co fs [] Ca) as (t1 & E). rewrite E in A.
  destruct A as (_ & _ & S & H).
  assert (FM : flat_map (fun f => events (iforest_syms md fns f)) fs = flat_map events (map (iforest_syms md fns) fs)).
  { clear. induction fs as [|f fs IH]; [reflexivity|]. cbn. now rewrite IH. }
  rewrite FM, run_forests_fixed in S, H by assumption. cbn [fst snd] in *.
  split; [assumption|]. specialize (H []). now rewrite app_nil_r in H.
Qed.

(* executable equalities are sound *)
Lemma name_eqb_eq : forall a b, name_eqb a b = true -> a = b.
Proof.
  induction a as [|x a IH]; destruct b as [|y b]; cbn; intros H; try discriminate; [reflexivity|].
  apply andb_prop in H as [H1 H2]. apply N.eqb_eq in H1. subst. f_equal. now apply IH.
Qed.
Lemma sym_eqb_eq : forall a b, sym_eqb a b = true -> a = b.
Proof.
  intros [n1 l1] [n2 l2] H. unfold sym_eqb in H. cbn in H. apply andb_prop in H as [H1 H2].
  apply name_eqb_eq in H1. apply eqb_prop in H2. now subst.
Qed.
Lemma list_eqb_eq : forall {A} (eq : A -> A -> bool), (forall x y, eq x y = true -> x = y) ->
  forall a b, list_eqb eq a b = true -> a = b.
Proof.
  intros A eq S. induction a as [|x a IH]; destruct b as [|y b]; cbn; intros H; try discriminate; [reflexivity|].
  apply andb_prop in H as [H1 H2]. apply S in H1. subst. f_equal. now apply IH.
Qed.
Lemma ahook_eqb_eq : forall a b, ahook_eqb a b = true -> a = b.
Proof. intros [x|] [y|] H; cbn in H; try discriminate; [apply N.eqb_eq in H; now subst|reflexivity]. Qed.

(* ---------------------------------------------------------------- the run-time checker accepts the model *)
(* names are compared with name_eqb; reflexivity of the executable equalities *)
Lemma sym_eqb_refl : forall s, sym_eqb s s = true.
Proof. intros [n l]; unfold sym_eqb; cbn. rewrite name_eqb_refl. now destruct l. Qed.
Lemma hook_eqb_refl : forall h, hook_eqb h h = true.
Proof. intros [s|]; cbn; [apply sym_eqb_refl|reflexivity]. Qed.
Lemma olist_eqb_map_some : forall hs, olist_eqb (map Some hs) hs = true.
Proof. induction hs as [|h hs IH]; cbn; [reflexivity|]. now rewrite hook_eqb_refl, IH. Qed.

Lemma consistentb_sound : forall md fns, consistentb md fns = true -> consistent md fns.
Proof.
  intros md fns H f g s t If Ig Fs Ft Nm. unfold consistentb in H.
  rewrite forallb_forall in H. specialize (H f If). rewrite forallb_forall in H. specialize (H g Ig).
  unfold fsym in *. rewrite Fs, Ft, Nm, name_eqb_refl in H. now apply sym_eqb_eq.
Qed.

(* non-vacuity: tests/s-abc.py as the interpreter presents it, -F a -N .getpid, then the two runpy returns *)
Definition ex_main : name := str [47; 109; 47; 115; 46; 112; 121]%nat.     (* /m/s.py *)
Definition ex_fns : list func :=
  [PyF (Some n_main) nm_a ex_main; PyF (Some n_main) nm_b ex_main; PyF (Some n_main) nm_c ex_main;
   CF (Some (str [112; 111; 115; 105; 120]%nat)) (str [103; 101; 116; 112; 105; 100]%nat);
   PyF (Some (str [114; 117; 110; 112; 121]%nat)) (str [95; 114; 117; 110]%nat) (str [47; 117; 47; 114; 46; 112; 121]%nat)].
Definition ex_forest : iforest := INode 0 false (INode 1 false (INode 2 false (INode 3 false INil INil) INil) INil) INil.
Definition ex_rets : list fevent := [ {| fe_kind := Return; fe_func := nth 4 ex_fns dummy_func |} ].
Example trace_python_example :
  consistentb (Some (main_dir_of ex_main)) ex_fns = true /\ returns_only ex_rets = true /\
  (let '(tab, s, hs) := trace_python (cfg_FN true) (Some (main_dir_of ex_main)) (ievents ex_fns ex_forest ++ ex_rets) in
   hs = [AEnter 1; AEnter 2; AEnter 3; AExit; AExit; AExit] /\ length tab = 4%nat /\ s = st0).
Proof. vm_compute. repeat split; reflexivity. Qed.

(* the two judgements of a run agree: an implementation output that equals the model's is accepted
   by the specification checker (for cases whose tail consists of stray returns only) *)
Theorem checker_accepts_model : forall k,
  consistent (option_map main_dir_of (k_pymain k)) (k_funcs k) ->
  forallb (fun p => match fst p with Return => true | _ => false end) (k_raw k) = true ->
  agrees k = true -> ok_case k = true.
Proof.
  intros k Co R A. unfold agrees in A. unfold ok_case.
  set (c := mkcfg_pt (k_patt k) (k_env k) (k_lib k) true) in *.
  set (md := option_map main_dir_of (k_pymain k)) in *.
  assert (F : c_fixed c = true) by (unfold c, mkcfg_pt; destruct (init_filters_pt (k_patt k) (k_env k)); reflexivity).
  unfold case_events in A.
  set (rets := map (fun p => {| fe_kind := fst p; fe_func := nth (snd p) (k_funcs k) dummy_func |}) (k_raw k)) in *.
  assert (Rr : returns_only rets = true).
  { unfold rets, returns_only. clear -R. induction (k_raw k) as [|p l IH]; [reflexivity|].
    cbn in *. apply andb_prop in R as [R1 R2]. rewrite R1. now apply IH. }
  pose proof (trace_python_spec c md (k_funcs k) (k_forests k) rets F Co Rr) as T.
  destruct (trace_python c md (flat_map (ievents (k_funcs k)) (k_forests k) ++ rets)) as [[tab s] hs].
  destruct T as [_ T]. apply andb_prop in A as [A1 A2].
  apply (list_eqb_eq _ ahook_eqb_eq) in A1. apply (list_eqb_eq _ sym_eqb_eq) in A2.
  rewrite <- A1, <- A2, T. apply olist_eqb_map_some.
Qed.
