(* Property C01 - only statements, each closed by [exact].  (partial: see manifest.d/C01.json) *)
From Coq Require Import ZArith List Bool String.
Import ListNotations.
Require Import UV.C01.Model UV.Gen.Stubs UV.C01.MachineProofs UV.C01.StubTheorems UV.C01.ArchCtxProofs UV.C01.Proofs UV.C01.ShadowProofs UV.C01.ShadowRecover UV.C01.LifeProofs UV.C01.StopKinds UV.C01.Fds UV.C01.FdsProofs.
Local Open Scope Z_scope.

(* ---- (i) the assembly stubs, as generated from arch/x86_64/*.S of the current tree ----
   [stub_guarantee W regs xmm up mem zf ext spec prog] (Machine.v) says about the concrete run of prog
   from ANY register file / xmm file / memory / ZF in ANY world W (= any behaviour of the hooks the
   contract of [c_call] allows): no fault, control leaves to [s_target], every register of [s_pres]
   and every architecturally visible bit of vector registers 0-7 (xmm / ymm / zmm: argument and return registers;
   bits 128.. are the words [up]) hold their entry values, rsp = rsp0 + s_rsp, and every memory
   cell at or above rsp0 + s_memfrom except the hijacked slot is unchanged.
   The contract for xmm registers is [c_call_xmm]: the C wrappers listed in hook_wrappers (generated
   from the C text) run the hook body between the generated save/restore pair of ArchCtx.v, so the
   theorems below also rest on C01_arch_context_roundtrip; the body itself - including any libc code
   it reaches - may do anything to all sixteen xmm registers. *)

(* every wrapper the stubs call brackets its body with the xmm0-7 pair and with errno save/restore *)
Theorem C01_hook_wrappers_bracketed :
  map fst hook_wrappers = ["mcount_entry"; "mcount_exit"; "plthook_entry"; "plthook_exit"; "xray_entry"; "xray_exit"]%string /\
  forallb (fun p => fst (snd p) && snd (snd p)) hook_wrappers = true.
Proof. exact hook_wrappers_ok. Qed.
Print Assumptions C01_hook_wrappers_bracketed.

(* the abstract executor is sound for every program, every 8-byte aligned entry stack pointer *)
Theorem C01_stub_executor_sound : forall W regs xmm up mem zf ext cond sp prog,
  check_both ext cond sp prog = true ->
  regs RSP mod 8 = 0 ->
  (forall e, ext = Some e -> regs RSP + 8 <= den W regs xmm mem e) ->
  (forall v k b, cond = Some (v, k, b) -> (den W regs xmm mem v =? k) = b) ->
  stub_guarantee W regs xmm up mem zf ext sp prog.
Proof. exact both_alignments. Qed.
Print Assumptions C01_stub_executor_sound.

(* entry stubs: rdi rsi rdx rcx r8 r9, rax (variadic %al), r10, r11 and all callee-saved registers
   preserved; control returns into the traced function; only the parent's return slot may change *)
Theorem C01_entry_stub_preserves_mcount : forall W regs xmm up mem zf,
  regs RSP mod 8 = 0 -> regs RSP <= regs RBP ->
  stub_guarantee W regs xmm up mem zf (Some (VOff RBP 8))
    {| s_pres := [RAX; RCX; RDX; RSI; RDI; R8; R9; R10; R11; RBX; RBP; R12; R13; R14; R15];
       s_rsp := 8; s_target := VInitMem 0; s_memfrom := 8; s_allowed := [] |} stub_mcount.
Proof. exact mcount_ok. Qed.
Print Assumptions C01_entry_stub_preserves_mcount.

Theorem C01_entry_stub_preserves_fentry : forall W regs xmm up mem zf,
  regs RSP mod 8 = 0 ->
  stub_guarantee W regs xmm up mem zf None
    {| s_pres := [RAX; RCX; RDX; RSI; RDI; R8; R9; R10; R11; RBX; RBP; R12; R13; R14; R15];
       s_rsp := 8; s_target := VInitMem 0; s_memfrom := 8; s_allowed := [8] |} stub___fentry__.
Proof. exact fentry_ok. Qed.
Print Assumptions C01_entry_stub_preserves_fentry.

(* dynamic entry: control goes to the address mcount_find_code returned (second hook call) *)
Theorem C01_entry_stub_preserves_dentry : forall W regs xmm up mem zf,
  regs RSP mod 8 = 0 ->
  stub_guarantee W regs xmm up mem zf None
    {| s_pres := [RAX; RCX; RDX; RSI; RDI; R8; R9; R10; R11; RBX; RBP; R12; R13; R14; R15];
       s_rsp := 8; s_target := VHav 1 RAX; s_memfrom := 8; s_allowed := [8] |} stub___dentry__.
Proof. exact dentry_ok. Qed.
Print Assumptions C01_entry_stub_preserves_dentry.

(* XRay entry sled: plain ABI (r10 is written by the sled itself, r11 is scratch) *)
Theorem C01_entry_stub_preserves_xray : forall W regs xmm up mem zf,
  regs RSP mod 8 = 0 ->
  stub_guarantee W regs xmm up mem zf None
    {| s_pres := [RAX; RCX; RDX; RSI; RDI; R8; R9; RBX; RBP; R12; R13; R14; R15];
       s_rsp := 8; s_target := VInitMem 0; s_memfrom := 8; s_allowed := [] |} stub___xray_entry.
Proof. exact xray_entry_ok. Qed.
Print Assumptions C01_entry_stub_preserves_xray.

(* PLT hook, both outcomes of plthook_entry *)
Theorem C01_plt_hooker_to_resolver : forall W regs xmm up mem zf,
  regs RSP mod 8 = 0 -> w_regs W 0 RAX = 0 ->
  stub_guarantee W regs xmm up mem zf None
    {| s_pres := [RAX; RCX; RDX; RSI; RDI; R8; R9; RBX; RBP; R12; R13; R14; R15];
       s_rsp := 0; s_target := VGlob "plthook_resolver_addr" 1; s_memfrom := 0; s_allowed := [16] |}
    stub_plt_hooker.
Proof. exact plt_hooker_resolve_ok. Qed.
Print Assumptions C01_plt_hooker_to_resolver.

Theorem C01_plt_hooker_to_resolved_function : forall W regs xmm up mem zf,
  regs RSP mod 8 = 0 -> w_regs W 0 RAX <> 0 ->
  stub_guarantee W regs xmm up mem zf None
    {| s_pres := [RAX; RCX; RDX; RSI; RDI; R8; R9; RBX; RBP; R12; R13; R14; R15];
       s_rsp := 16; s_target := VHav 0 RAX; s_memfrom := 16; s_allowed := [16] |}
    stub_plt_hooker.
Proof. exact plt_hooker_direct_ok. Qed.
Print Assumptions C01_plt_hooker_to_resolved_function.

(* return trampolines of instrumented functions: rax, rdx, xmm0/xmm1 (with xmm2-7) AND
   all other caller-saved registers (-fipa-ra) preserved; control goes to the address the exit hook
   handed back; nothing at or above the entry rsp is touched *)
Theorem C01_return_stub_preserves_mcount_return : forall W regs xmm up mem zf,
  regs RSP mod 8 = 0 ->
  stub_guarantee W regs xmm up mem zf None
    {| s_pres := [RAX; RCX; RDX; RSI; RDI; R8; R9; R10; R11; RBX; RBP; R12; R13; R14; R15];
       s_rsp := 0; s_target := VHav 0 RAX; s_memfrom := 0; s_allowed := [] |} stub_mcount_return.
Proof. exact mcount_return_ok. Qed.
Print Assumptions C01_return_stub_preserves_mcount_return.

Theorem C01_return_stub_preserves_dynamic_return : forall W regs xmm up mem zf,
  regs RSP mod 8 = 0 ->
  stub_guarantee W regs xmm up mem zf None
    {| s_pres := [RAX; RCX; RDX; RSI; RDI; R8; R9; R10; R11; RBX; RBP; R12; R13; R14; R15];
       s_rsp := 0; s_target := VHav 0 RAX; s_memfrom := 0; s_allowed := [] |} stub_dynamic_return.
Proof. exact dynamic_return_ok. Qed.
Print Assumptions C01_return_stub_preserves_dynamic_return.

(* return from an external (PLT) callee / XRay exit sled: plain ABI - rax, rdx, xmm0-7, rdi and the
   callee-saved registers *)
Theorem C01_return_stub_preserves_plthook_return : forall W regs xmm up mem zf,
  regs RSP mod 8 = 0 ->
  stub_guarantee W regs xmm up mem zf None
    {| s_pres := [RAX; RDX; RDI; RBX; RBP; R12; R13; R14; R15];
       s_rsp := 0; s_target := VHav 0 RAX; s_memfrom := 0; s_allowed := [] |} stub_plthook_return.
Proof. exact plthook_return_ok. Qed.
Print Assumptions C01_return_stub_preserves_plthook_return.

Theorem C01_return_stub_preserves_xray_exit : forall W regs xmm up mem zf,
  regs RSP mod 8 = 0 ->
  stub_guarantee W regs xmm up mem zf None
    {| s_pres := [RAX; RDX; RDI; RBX; RBP; R12; R13; R14; R15];
       s_rsp := 8; s_target := VInitMem 0; s_memfrom := 0; s_allowed := [] |} stub___xray_exit.
Proof. exact xray_exit_ok. Qed.
Print Assumptions C01_return_stub_preserves_xray_exit.

(* ---- (ii) the shadow return stack (Shadow.v) ----
   A program is a call tree: every activation has a return address, the hook its entry met
   (none / -pg,fentry,dynamic / PLT / cygprof), calls, and tail calls that reuse its return slot.
   [full d c] is the operation list the tree performs on slot d (call, entry hooks, returns through
   the trampolines); [native c] is where the untraced program's returns go.
   [Good d s]: the state of libmcount's shadow stack at a call boundary (every open frame owns a slot
   below d; tail-call frames are linked; the innermost frame's slot is hooked). *)
Theorem C01_returns_to_real_caller : forall c d s,
  (1 <= d)%nat -> no_recover c = true -> Good d s ->
  exists s' outs, run_ops s (full d c) = (s', outs) /\
                  targets outs = map Some (native c) /\           (* every return goes to its real caller *)
                  rs s' = rs s /\                                 (* the shadow stack is popped back *)
                  (forall l, (0 < l < d)%nat -> mem s' l = mem s l) /\  (* outer return slots hold what they held *)
                  Good d s'.
Proof. exact returns_to_real_caller. Qed.
Print Assumptions C01_returns_to_real_caller.

Theorem C01_program_returns_to_real_callers : forall c, no_recover c = true ->
  exists s' outs, run_ops st0 (full 1%nat c) = (s', outs) /\ targets outs = map Some (native c) /\ rs s' = [].
Proof. exact program_returns_to_real_callers. Qed.
Print Assumptions C01_program_returns_to_real_callers.

(* the run-time checker applied to libmcount's observed returns accepts every run of the model *)
Theorem C01_checker_accepts_model : forall c, no_recover c = true ->
  ok_returns c (snd (run_ops st0 (full 1%nat c))) = true.
Proof. exact checker_accepts_model. Qed.
Print Assumptions C01_checker_accepts_model.

(* the `recover` trigger (mcount_rstack_restore / mcount_rstack_rehook over ALL frames at the entry / exit of a
   function): for every call tree whose hooks are -pg/fentry/dynamic entries - plain and `recover` ones in any
   mix, nested, in tail-call chains, with unhooked activations in between - every return goes to its real
   caller.  [Inv2]: every chain of the shadow stack has its slot holding the trampoline or the real address its
   oldest frame saved; the innermost chain's slot holds the trampoline. *)
Theorem C01_returns_to_real_caller_recover : forall c d s,
  (1 <= d)%nat -> only_pg c = true -> Inv2 s -> Forall (fun f => (floc f < d)%nat) (rs s) ->
  exists s' outs, run_ops s (full d c) = (s', outs) /\
                  targets outs = map Some (native c) /\
                  rs s' = rs s /\ Inv2 s' /\
                  (forall l, (l < d)%nat -> notin l (rs s) -> mem s' l = mem s l).
Proof. exact returns_to_real_caller_recover. Qed.
Print Assumptions C01_returns_to_real_caller_recover.

Theorem C01_program_returns_recover : forall c, only_pg c = true ->
  exists s' outs, run_ops st0 (full 1%nat c) = (s', outs) /\ targets outs = map Some (native c) /\ rs s' = [].
Proof. exact program_returns_recover. Qed.
Print Assumptions C01_program_returns_recover.

(* mcount_rstack_rehook must write the trampoline of the NEWEST frame of a tail-call chain into the shared slot: the
   newest-first walk of the code before fix C01-9 left plthook_return under a -pg frame and killed the traced program *)
Theorem C01_rehook_newest_first_refuted :
  let fs := [mkF 1%nat (Tramp KP) KM false; mkF 1%nat (Real 100) KP false] in
  let m := fun _ : nat => Real 0 in
  rehook_all_legacy fs m 1%nat = Tramp KP /\
  ret_through 3%nat 1%nat (mkSt (rehook_all_legacy fs m) fs) 0%nat = None /\
  rehook_all fs m 1%nat = Tramp KM /\
  ret_through 3%nat 1%nat (mkSt (rehook_all fs m) fs) 0%nat
  = Some (mkSt (upd (upd (rehook_all fs m) 1%nat (Tramp KP)) 1%nat (Real 100)) [], 2%nat, Real 100).
Proof. exact rehook_newest_first_refuted. Qed.
Print Assumptions C01_rehook_newest_first_refuted.

(* tracing is finished (finish trigger / signal in another thread) while frames are open: the exit hook
   that notices it - [exit_stop]: bookkeeping, mtd_dtor restores every slot and drops the shadow stack,
   the slot is re-read - hands back the real return address of the activation that owns slot d, also for
   a tail-called function whose saved address is the trampoline.  [BInvW] is the invariant every
   (recover-free) call tree maintains inside an activation (ShadowProofs.body_correct). *)
Theorem C01_finish_exit_returns_to_real_caller : forall d ra low m0 s chain,
  (1 <= d)%nat -> Forall (fun f => (floc f < d)%nat) low ->
  BInvW d ra low m0 s chain -> chain <> [] ->
  exists s', exit_stop s = Some (s', Real ra) /\ rs s' = [] /\ mem s' d = Real ra.
Proof. exact stop_exit_returns_to_real_caller. Qed.
Print Assumptions C01_finish_exit_returns_to_real_caller.

(* handing back the saved parent_ip instead (a seeded regression) is wrong for a tail-called function *)
Theorem C01_finish_saved_ip_refuted :
  let s := fst (run_ops st0 [OPush 1%nat 100%nat; OEnter (HM false) 1%nat; OEnter (HM false) 1%nat]) in
  option_map snd (exit_stop s) = Some (Real 100) /\
  match rs s with f :: _ => fip f = Tramp KM | [] => False end.
Proof. exact stop_saved_ip_is_trampoline_refuted. Qed.
Print Assumptions C01_finish_saved_ip_refuted.

(* ... spelled out for EVERY mix of hook kinds that share one return slot (tail calls: -pg function -> -pg function, an
   instrumented function of a -pg shared library called through the PLT, a library function tail-calling an instrumented
   callback, an instrumented function tail-calling through the PLT): the caller stores ra into slot d, any non-empty
   sequence [ks] of -pg/fentry/dynamic (KM) and PLT (KP) entries runs on that slot, tracing is finished elsewhere; the first
   exit hook hands back ra - whatever trampoline its entry had saved -, the slot holds ra, no shadow frame is left *)
Theorem C01_finish_exit_any_kinds : forall (ks : list kind) (d ra : nat) (m : nat -> word),
  ks <> [] ->
  let s := fst (run_ops (mkSt (upd m d (Real ra)) []) (enters d ks)) in
  exists s', exit_stop s = Some (s', Real ra) /\ rs s' = [] /\ mem s' d = Real ra.
Proof. exact finish_exit_any_kinds. Qed.
Print Assumptions C01_finish_exit_any_kinds.

(* reloading the slot only when the saved address is mcount_return (a seeded regression) hands plthook_return back for an
   instrumented library function called through the PLT *)
Theorem C01_finish_reload_km_only_refuted :
  let s := fst (run_ops st0 [OPush 1%nat 100%nat; OEnter HP 1%nat; OEnter (HM false) 1%nat]) in
  option_map snd (exit_stop_km_only s) = Some (Tramp KP) /\ option_map snd (exit_stop s) = Some (Real 100).
Proof. exact finish_reload_km_only_refuted. Qed.
Print Assumptions C01_finish_reload_km_only_refuted.

(* for all thread schedules: the shadow state is per thread (mtd is thread-local, stacks are disjoint); in any
   interleaving [sched] of (thread, operation) pairs, a thread t that performs the operations of a call tree
   has every return go to its real caller, whatever the other threads do in between *)
Theorem C01_threads_return_to_real_callers : forall (trees : nat -> call) (sched : list (nat * op)) (t : nat),
  proj t sched = full 1%nat (trees t) ->
  no_recover (trees t) = true ->
  targets (proj t (snd (run_sched (fun _ => st0) sched))) = map Some (native (trees t)) /\
  rs (fst (run_sched (fun _ => st0) sched) t) = [].
Proof. exact threads_return_to_real_callers. Qed.
Print Assumptions C01_threads_return_to_real_callers.

(* the per-thread life cycle (Life.v): alive --thread exit: glibc clears the value of libmcount's key and calls
   mtd_dtor()--> torn down.  A thread that was alive (key value set, not dead; ANY shadow stack, ANY slot contents)
   and is torn down is left alone from then on: whatever operations it still performs - instrumented key
   destructors of the program, further destructor rounds [LTeardown], late signal handlers; entry hooks of every
   kind, cygprof exits, returns - have exactly the effect of the native run [native_run], the shadow stack stays
   empty and the key value stays cleared *)
Theorem C01_torn_down_thread_is_left_alone : forall (t : life) (ops : list lop),
  l_key t = true -> l_dead t = false ->
  let t1 := teardown false t in
  let r := run_lops false t1 ops in
  (mem (l_st (fst r)), snd r) = native_run (mem (l_st t1)) ops /\
  rs (l_st (fst r)) = [] /\ l_key (fst r) = false.
Proof. exact torn_down_thread_is_left_alone. Qed.
Print Assumptions C01_torn_down_thread_is_left_alone.

(* no return address is hijacked: if the teardown left real addresses in the slots, no slot ever holds a trampoline
   again, and every return goes straight (no exit hook) to the address the program stored *)
Theorem C01_torn_down_thread_never_hijacked : forall (t : life) (ops : list lop),
  l_key t = true -> l_dead t = false ->
  let t1 := teardown false t in
  clean (mem (l_st t1)) ->
  let r := run_lops false t1 ops in
  clean (mem (l_st (fst r))) /\
  Forall (fun u => match u with UNone => True | URet n (Real _) => n = 0%nat | _ => False end) (snd r).
Proof. exact torn_down_thread_never_hijacked. Qed.
Print Assumptions C01_torn_down_thread_never_hijacked.

(* a whole call tree run by the torn-down thread, with any hooks (-pg, recover, PLT, cygprof) at any depth:
   every return goes to its real caller *)
Theorem C01_torn_down_thread_returns_to_real_callers : forall (t : life) (c : call) (d : nat),
  l_key t = true -> l_dead t = false ->
  let r := run_lops false (teardown false t) (map lift (full d c)) in
  targets (snd r) = map Some (native c) /\ rs (l_st (fst r)) = [].
Proof. exact torn_down_thread_returns_to_real_callers. Qed.
Print Assumptions C01_torn_down_thread_returns_to_real_callers.

(* mtd_dtor clearing the recursion marker when it is done (a seeded regression: guard/unguard as a balanced pair):
   the dead thread data is set up again by the first hook of a key destructor, the destructor's return address is
   hijacked and its return runs into ASSERT(!mtdp->dead) [UDead]; the code as it is returns to 100 *)
Theorem C01_teardown_marker_cleared_refuted :
  snd (run_lops true life0 seeded_witness) = [UNone; UNone; URet 1 (Real 50); UNone; UNone; UNone; UDead] /\
  mem (l_st (fst (run_lops true life0 seeded_witness))) 1%nat = Tramp KM /\
  snd (run_lops false life0 seeded_witness) = [UNone; UNone; URet 1 (Real 50); UNone; UNone; UNone; URet 0 (Real 100)].
Proof. exact teardown_marker_cleared_refuted. Qed.
Print Assumptions C01_teardown_marker_cleared_refuted.

(* --estimate-return: the model of the entry hooks in this mode (mcount_rstack_inject_return + push, no
   hijack, no exit hook) never writes a return-address slot: EVERY call tree - any hooks, any triggers -
   returns natively from any state of the shadow stack *)
Theorem C01_estimate_return_is_native : forall c d s,
  exists s' outs, run_ops_est s (full d c) = (s', outs) /\
                  targets outs = map Some (native c) /\
                  (forall l, (l < d)%nat -> mem s' l = mem s l).
Proof. exact estimate_return_is_native. Qed.
Print Assumptions C01_estimate_return_is_native.

(* ---- process-wide resources: the descriptor table (Fds.v) ----
   The kernel's table under uftrace is the union of the program's descriptors p and libmcount's own set L (the pipe to
   uftrace, the --logfile descriptor, the ELF files of the debug info: all moved to the top of the table, at or above H,
   since fix C01-10); libmcount's close() wrapper swallows a close of the descriptors in prot, and prot is a subset of L.
   As long as the program stays below H - every descriptor it names and every descriptor the native run hands out
   [stays_below] - every close / open / dup / dup2 / fcntl(F_GETFD) it performs has the native result (return value, EBADF,
   lowest-free rule) and its own table evolves as natively *)
Theorem C01_own_descriptors_native : forall (N H : nat) (L prot : list nat),
  (forall l, In l L -> (H <= l)%nat) -> (forall x, In x prot -> In x L) ->
  forall (ops : list fop) (p k : table),
  teq k (union p L) -> stays_below N H p ops = true ->
  snd (trun N prot k ops) = snd (krun N p ops) /\
  teq (fst (trun N prot k ops)) (union (fst (krun N p ops)) L).
Proof. exact own_descriptors_native. Qed.
Print Assumptions C01_own_descriptors_native.

(* the close() wrapper also protecting fileno(logfp) - the program's own descriptor 2 when no --logfile is given (a seeded
   regression): close(2); open() gets 3 instead of 2 and a second close(2) returns 0 instead of EBADF *)
Theorem C01_close_protects_stderr_refuted :
  snd (krun 1024 std [FClose 2; FOpen; FClose 2; FClose 2]) = [ROk 0; ROk 2; ROk 0; RBadf] /\
  snd (trun 1024 [1000; 2] (union std [1000]) [FClose 2; FOpen; FClose 2; FClose 2])%nat = [ROk 0; ROk 3; ROk 0; ROk 0] /\
  snd (trun 1024 [1000] (union std [1000]) [FClose 2; FOpen; FClose 2; FClose 2])%nat = [ROk 0; ROk 2; ROk 0; RBadf].
Proof. exact close_protects_stderr_refuted. Qed.
Print Assumptions C01_close_protects_stderr_refuted.

(* the code as found: the pipe took the lowest free descriptor (3), so the program's first open() returned 4 *)
Theorem C01_low_pipe_legacy_refuted :
  snd (krun 1024 std [FOpen; FDup 0]) = [ROk 3; ROk 4] /\
  snd (trun 1024 [3] (union std [3]) [FOpen; FDup 0])%nat = [ROk 4; ROk 5].
Proof. exact low_pipe_legacy_refuted. Qed.
Print Assumptions C01_low_pipe_legacy_refuted.

(* ---- (iii) errno ---- *)
Theorem C01_errno_preserved : forall (A : Type) (inner : Z -> A * Z) (e : Z),
  snd (with_saved_errno inner e) = e /\ fst (with_saved_errno inner e) = fst (inner e).
Proof. intros. split; [apply errno_preserved | apply errno_result_is_inner]. Qed.
Print Assumptions C01_errno_preserved.

(* ---- (iv) vector argument/return registers around the hooks (generated from mcount-support.c) ----
   a register is eight 64-bit words; a machine of level 0 / 1 / 2 (xmm / ymm / zmm state enabled, as detected by
   mcount_arch_check_avx) has [visible level] = 2 / 4 / 8 of them *)
Theorem C01_arch_context_roundtrip : forall (level : nat) (x : vfile) (c0 : Z -> Z) (clobber : vfile) (r i : nat),
  (level <= 2)%nat -> (r < 8)%nat -> (i < visible level)%nat ->
  arch_roundtrip_now level x c0 clobber r i = x r i.
Proof. exact arch_context_roundtrip. Qed.
Print Assumptions C01_arch_context_roundtrip.

(* the SSE control/status register MXCSR (rounding mode, sticky exception flags, masks) is saved first and restored
   last by the generated pair: floating-point work of a script or of libc inside a hook is invisible to the traced program *)
Theorem C01_mxcsr_preserved : forall csr clobber : Z, mxcsr_now csr clobber = csr.
Proof. exact mxcsr_preserved. Qed.
Print Assumptions C01_mxcsr_preserved.

Theorem C01_mxcsr_legacy_refuted : exists csr clobber, mxcsr_roundtrip false csr clobber <> csr.
Proof. exact mxcsr_legacy_refuted. Qed.
Print Assumptions C01_mxcsr_legacy_refuted.

(* the code before fix C01-6 (AVX pair on a machine with live zmm state) lost bits 256-511 *)
Theorem C01_arch_context_avx_only_refuted :
  exists (x : vfile) c0 clobber r i, (r < 8)%nat /\ (i < 8)%nat /\ arch_roundtrip_avx_only x c0 clobber r i <> x r i.
Proof. exact arch_context_avx_only_refuted. Qed.
Print Assumptions C01_arch_context_avx_only_refuted.

(* the code before fix C01-5 (SSE pair on a machine with live ymm state) lost bits 128-255 *)
Theorem C01_arch_context_sse_only_refuted :
  exists (x : vfile) c0 clobber r i, (r < 8)%nat /\ (i < 4)%nat /\ arch_roundtrip_sse_only x c0 clobber r i <> x r i.
Proof. exact arch_context_sse_only_refuted. Qed.
Print Assumptions C01_arch_context_sse_only_refuted.

(* the code before fix C01-1 (movsd both ways) destroyed bits 64-127 *)
Theorem C01_arch_context_legacy_refuted :
  exists (x : vfile) c0 clobber r, (r < 8)%nat /\ arch_roundtrip_legacy x c0 clobber r 1%nat <> x r 1%nat.
Proof. exact arch_context_legacy_refuted. Qed.
Print Assumptions C01_arch_context_legacy_refuted.
