(* Property C07 - only statements, each closed by [exact]. *)
From Coq Require Import NArith ZArith List Bool.
Import ListNotations.
Require Import UV.C07.Model UV.C07.Check.
