(* Property C07 - only statements, each closed by [exact].
   Model: UV.C07.Model (replay side, as the code is), UV.Mcount.Model (record side).
   Spec:  select = vis o tprune, by recursion on call trees (UV.C07.Model). *)
From Coq Require Import NArith ZArith List Bool.
Import ListNotations.
Require Import UV.C07.Model UV.C07.Check UV.C07.Proofs UV.C07.Replay UV.C07.RecordReplay.
Require UV.C07.RecordProof UV.C07.RecordProofCyg UV.C07.RecordProofB UV.C07.RecordProofT UV.C07.RecordProofD UV.C07.Size UV.C07.Origin UV.C07.Fixup UV.C07.Range UV.C07.Multi UV.C07.MultiReplay UV.C07.Switch.
Local Open Scope Z_scope.

(* get_task_ustack's look-ahead list (time filter -t / time=, caller filter -C, `trace`) hands the
   command loops exactly the recording of the pruned forest, for every forest and option set. *)
Theorem C07_lookahead_is_tree_pruning : forall c f d,
  lookahead c (flats d f) [] [] = flats d (flat_map (tprune c (threshold c)) f).
Proof. exact lookahead_forest. Qed.
Print Assumptions C07_lookahead_is_tree_pruning.

(* report / graph / dump --chrome|--flame-graph (fstack_check_filter loop): for every forest and every
   option set without trace_on/trace_off triggers and without -r the visible call stream is the
   documented selection (-F -N -D -H -C -t, depth= time= trace filter notrace hide, --no-libcall). *)
Theorem C07_matches_documented : forall c f, no_switch_all c -> no_range c = true ->
  run_std c (flats 0 f) = select c f.
Proof. exact std_matches_select. Qed.
Print Assumptions C07_matches_documented.

(* ... dump --chrome closes nothing artificially and report counts no left-over call then *)
Theorem C07_matches_documented_chrome : forall c f, no_switch_all c -> no_range c = true ->
  run_chrome c (flats 0 f) = select c f.
Proof. exact chrome_matches_select. Qed.
Print Assumptions C07_matches_documented_chrome.

Theorem C07_report_counts_only_selected : forall c f, no_switch_all c -> no_range c = true ->
  remaining c (flats 0 f) = [].
Proof. exact nothing_remains. Qed.
Print Assumptions C07_report_counts_only_selected.

(* script (and replay --no-merge) see the same calls as report/graph/dump, for EVERY record stream and
   option set, provided no PLT function is hidden by --no-libcall. *)
Theorem C07_commands_agree_script : forall c rs, plt_free_all c -> run_script c rs = run_std c rs.
Proof. exact script_eq_std. Qed.
Print Assumptions C07_commands_agree_script.

Theorem C07_commands_agree_nomerge : forall c rs, plt_free_all c -> no_merge c = true ->
  run_rp c rs = run_std c rs.
Proof. exact rp_nomerge_eq_std. Qed.
Print Assumptions C07_commands_agree_nomerge.

(* replay WITH leaf folding (fstack_skip, fstack_check_skip, the delayed ENTRY line) shows the same calls
   as report/graph/dump for every record stream whose depth fields are the nesting (dcons0), every option
   set - trace_on/trace_off and -r included -, provided no PLT function is hidden by --no-libcall. *)
Theorem C07_commands_agree_replay : forall c rs, plt_free_all c -> dcons0 (pre c rs) ->
  run_rp c rs = run_std c rs.
Proof. exact rp_eq_std_stream. Qed.
Print Assumptions C07_commands_agree_replay.

Theorem C07_commands_agree_replay_forest : forall c f, plt_free_all c -> no_range c = true ->
  run_rp c (flats 0 f) = run_std c (flats 0 f).
Proof. exact rp_eq_std_forest. Qed.
Print Assumptions C07_commands_agree_replay_forest.

(* hence replay shows the documented selection, display depths included *)
Theorem C07_matches_documented_replay : forall c f, plt_free_all c -> no_switch_all c -> no_range c = true ->
  run_rp c (flats 0 f) = select c f.
Proof. exact replay_matches_select. Qed.
Print Assumptions C07_matches_documented_replay.

(* -r alone: report/graph/dump --chrome, replay, script and the raw dump show exactly the records whose
   timestamp lies in [start, stop] (ends included), for every depth-consistent recording with non-decreasing
   timestamps nested less deep than -D (in particular the recording of every call forest). *)
Theorem C07_time_range_selects_window : forall c rs,
  Range.range_only c -> Range.sorted rs -> dcons 0 rs -> Forall (fun r => r_depth r < gdepth c) rs ->
  map ob_rt (run_std c rs) = map Range.shown_rec (filter (fun r => Range.in_window c (r_time r)) rs).
Proof. exact Range.range_std_window. Qed.
Print Assumptions C07_time_range_selects_window.

Theorem C07_time_range_replay : forall c rs,
  Range.range_only c -> Range.sorted rs -> dcons 0 rs -> Forall (fun r => r_depth r < gdepth c) rs ->
  map ob_rt (run_rp c rs) = map Range.shown_rec (Range.window c rs)
  /\ map ob_rt (run_script c rs) = map Range.shown_rec (Range.window c rs).
Proof. exact Range.range_replay_script. Qed.
Print Assumptions C07_time_range_replay.

Theorem C07_time_range_raw_dump : forall c rs,
  Range.range_only c -> Range.sorted rs -> dcons 0 rs -> Forall (fun r => r_depth r < gdepth c) rs ->
  map ob_rt (run_raw c rs) = map Range.shown_rec (Range.window c rs).
Proof. exact Range.range_raw. Qed.
Print Assumptions C07_time_range_raw_dump.

(* several tasks (threads / processes), merged by timestamp with the lowest task index first on ties, one
   look-ahead list and one filter state per task, fstack_enabled shared: the merge keeps every task's own
   order; without trace_on/trace_off every task shows in report/graph/dump exactly what it would show alone,
   i.e. the documented selection of its own forest; script and replay --no-merge read the merged stream like
   report/graph/dump do. *)
Theorem C07_merge_keeps_task_order : forall fuel ss t, (total_len ss <= fuel)%nat ->
  Multi.of_task t (merge fuel ss) = nth t ss [] /\ Forall (fun p => (fst p < length ss)%nat) (merge fuel ss).
Proof. exact Multi.merge_task. Qed.
Print Assumptions C07_merge_keeps_task_order.

Theorem C07_tasks_independent : forall c ss t, no_switch_all c -> (t < length ss)%nat ->
  Multi.of_task t (run_std_m c ss) = run_std c (nth t ss []).
Proof. exact Multi.tasks_independent. Qed.
Print Assumptions C07_tasks_independent.

Theorem C07_matches_documented_tasks : forall c fs t, no_switch_all c -> no_range c = true -> (t < length fs)%nat ->
  Multi.of_task t (run_std_m c (map (flats 0) fs)) = select c (nth t fs []).
Proof. exact Multi.tasks_match_select. Qed.
Print Assumptions C07_matches_documented_tasks.

Theorem C07_commands_agree_nomerge_tasks : forall c ss, plt_free_all c -> no_merge c = true ->
  run_rp_m c ss = run_std_m c ss.
Proof. exact Multi.nomerge_multi. Qed.
Print Assumptions C07_commands_agree_nomerge_tasks.

(* replay WITH leaf folding over several tasks (fstack_skip peeks at the globally next record, which may belong
   to another task): same calls as report/graph/dump, all option sets (trace_on/off, -r included), all
   depth-consistent task streams; and every task of replay shows the documented selection of its forest. *)
Theorem C07_commands_agree_replay_tasks : forall c ss, plt_free_all c ->
  (forall t, dcons0 (pre c (nth t ss []))) -> run_rp_m c ss = run_std_m c ss.
Proof. exact MultiReplay.replay_multi. Qed.
Print Assumptions C07_commands_agree_replay_tasks.

Theorem C07_matches_documented_replay_tasks : forall c fs t,
  plt_free_all c -> no_switch_all c -> no_range c = true -> (t < length fs)%nat ->
  Multi.of_task t (run_rp_m c (map (flats 0) fs)) = select c (nth t fs []).
Proof. exact MultiReplay.replay_multi_select. Qed.
Print Assumptions C07_matches_documented_replay_tasks.

(* trace_on / trace_off (-T f@trace_on, f@trace_off): the calls shown are exactly those the documented switch
   lets through - one switch along the order of events, touched only by functions that -F/-N let through,
   the trace_off function itself hidden, the trace_on function shown - for every forest and every option set
   without depth= / -H whose nesting stays within -D (names of the events; display depths not claimed). *)
Theorem C07_trace_switch_documented : forall c f,
  Switch.sw_cfg c -> no_range c = true -> Switch.fheightZ f <= gdepth c ->
  map ob_n (run_std c (flats 0 f)) = select_sw c f.
Proof. exact Switch.switch_std. Qed.
Print Assumptions C07_trace_switch_documented.

Theorem C07_trace_switch_replay : forall c f,
  Switch.sw_cfg c -> plt_free_all c -> no_range c = true -> Switch.fheightZ f <= gdepth c ->
  map ob_n (run_rp c (flats 0 f)) = select_sw c f /\ map ob_n (run_script c (flats 0 f)) = select_sw c f.
Proof. exact Switch.switch_replay. Qed.
Print Assumptions C07_trace_switch_replay.

(* --no-libcall breaks the agreement: replay tests the symbol type before fstack_entry *)
Theorem C07_no_libcall_commands_agree_refuted :
  map ob_n (run_rp c_plt (flats 0 f_plt))
  = [(false, 0%N); (false, 4%N); (true, 4%N); (false, 3%N); (true, 3%N); (true, 0%N)]
  /\ map ob_n (run_std c_plt (flats 0 f_plt)) = [(false, 0%N); (false, 4%N); (true, 4%N); (true, 0%N)].
Proof. exact no_libcall_replay_vs_report. Qed.
Print Assumptions C07_no_libcall_commands_agree_refuted.

(* the raw `uftrace dump` ignores -t (and -C, time=): it shows what no option would hide *)
Theorem C07_raw_dump_time_filter_refuted :
  map ob_n (run_raw c_t101 (flats 0 f_cmd)) = map ob_n (run_std plain (flats 0 f_cmd))
  /\ map ob_n (run_std c_t101 (flats 0 f_cmd))
     = [(false, 0%N); (false, 1%N); (false, 2%N); (true, 2%N); (true, 1%N); (true, 0%N)].
Proof. exact raw_dump_ignores_time_filter. Qed.
Print Assumptions C07_raw_dump_time_filter_refuted.

(* record time = replay time, UNBOUNDED, for the options -F / -N / -D / -t on the -pg shape: for every
   forest whose calls take time and lie inside their caller's interval (a call may run exactly the threshold
   since /repo 075e798; nesting <= 1024) libmcount (lazy ENTRY flush, time filter on exit) writes exactly the recording of the
   selected forest, and replaying that without options shows the same calls, display depths and times as
   replaying the full recording with the options. *)
Theorem C07_record_writes_selected_forest : forall c f,
  RecordProof.filter_only c -> RecordProof.wf_forest c f -> (RecordProof.fheight f <= 1024)%nat ->
  record (to_mcfg c MC.PG) f = flats 0 (flat_map (RecordProof.sel c false 0) f).
Proof. exact RecordProof.record_is_sel. Qed.
Print Assumptions C07_record_writes_selected_forest.

Theorem C07_record_equals_replay : forall c f,
  RecordProof.filter_only c -> plt_free_all c -> no_range c = true ->
  RecordProof.wf_forest c f -> (RecordProof.fheight f <= 1024)%nat ->
  map RecordProof.strip (rec_then_plain c MC.PG f) = map RecordProof.strip (plain_then_opt c f).
Proof. exact RecordProof.record_equals_replay_filters. Qed.
Print Assumptions C07_record_equals_replay.

(* ... and on the -finstrument-functions shape (every call pushes a frame, rejected ones with NORECORD):
   both shapes write the same data file, so the same agreement holds. *)
Theorem C07_record_shape_independent : forall c f,
  RecordProof.filter_only c -> RecordProof.wf_forest c f -> (RecordProof.fheight f <= 1024)%nat ->
  record (to_mcfg c MC.CYG) f = record (to_mcfg c MC.PG) f.
Proof. exact RecordProofCyg.record_shape_independent. Qed.
Print Assumptions C07_record_shape_independent.

Theorem C07_record_equals_replay_cygprof : forall c f,
  RecordProof.filter_only c -> plt_free_all c -> no_range c = true ->
  RecordProof.wf_forest c f -> (RecordProof.fheight f <= 1024)%nat ->
  map RecordProof.strip (rec_then_plain c MC.CYG f) = map RecordProof.strip (plain_then_opt c f).
Proof. exact RecordProofCyg.record_equals_replay_cyg. Qed.
Print Assumptions C07_record_equals_replay_cygprof.

(* the caller filter -C, the `trace` trigger and -t when no call is hidden by -F/-N/-D (-pg shape): libmcount
   writes exactly the recording of the forest pruned by replay's look-ahead rule, so recording with the
   options and replaying the full recording with them show the same events (depths and times included). *)
Theorem C07_record_writes_pruned_forest : forall c f,
  RecordProofB.classB c -> RecordProof.wf_forest c f -> (RecordProof.fheight f <= 1024)%nat ->
  Z.of_nat (RecordProof.fheight f) <= gdepth c ->
  record (to_mcfg c MC.PG) f = flats 0 (flat_map (tprune c (threshold c)) f).
Proof. exact RecordProofB.record_is_pruned. Qed.
Print Assumptions C07_record_writes_pruned_forest.

Theorem C07_record_equals_replay_caller_trace : forall c f,
  RecordProofB.classB c -> plt_free_all c -> no_range c = true -> RecordProof.wf_forest c f ->
  (RecordProof.fheight f <= 1024)%nat -> Z.of_nat (RecordProof.fheight f) <= gdepth c ->
  rec_then_plain c MC.PG f = plain_then_opt c f.
Proof. exact RecordProofB.record_equals_replay_caller. Qed.
Print Assumptions C07_record_equals_replay_caller_trace.

(* ... and with time= triggers as well (libmcount's per-frame saved filter.time against replay's per-task
   stack of time= overrides), every call compared with the threshold in force for it. *)
Theorem C07_record_equals_replay_time_trigger : forall c f,
  RecordProofT.classT c -> plt_free_all c -> no_range c = true -> RecordProofT.wfT_forest c f ->
  (RecordProof.fheight f <= 1024)%nat -> Z.of_nat (RecordProof.fheight f) <= gdepth c ->
  rec_then_plain c MC.PG f = plain_then_opt c f.
Proof. exact RecordProofT.record_equals_replay_time. Qed.
Print Assumptions C07_record_equals_replay_time_trigger.

(* several tasks, --tid and elapsed ends of -r (-r 100us~): the origin of the elapsed time that fstack_setup_task
   establishes (setup_first, over the first records of ALL tasks, selected or not) is the time of the oldest record
   of the whole recording; it does not depend on --tid at all (setup_first has no such argument).  The selected
   tasks then show exactly their records inside [origin + start, origin + stop], the others nothing
   (report / graph / dump; replay and script agree with them by C07_commands_agree_replay_tasks). *)
Theorem C07_elapsed_origin_is_oldest_record : forall ss,
  Origin.all_sorted ss -> Origin.nonzero ss -> (exists s, In s ss /\ s <> []) ->
  (exists s r, In s ss /\ In r s /\ r_time r = setup_first ss)
  /\ forall s r, In s ss -> In r s -> (setup_first ss <= r_time r)%N.
Proof. exact Origin.origin_is_oldest. Qed.
Print Assumptions C07_elapsed_origin_is_oldest_record.

Theorem C07_tid_elapsed_range_selects_window : forall c e sel ss t,
  Range.range_only c -> (t < length ss)%nat ->
  Range.sorted (nth t ss []) -> dcons 0 (nth t ss []) -> Forall (fun r => r_depth r < gdepth c) (nth t ss []) ->
  map ob_rt (Multi.of_task t (run_std_m (resolve_range c e ss) (tid_select sel ss)))
  = if sel t then map Range.shown_rec (filter (fun r => Range.in_window (resolve_range c e ss) (r_time r)) (nth t ss []))
    else [].
Proof. exact Origin.tid_elapsed_window. Qed.
Print Assumptions C07_tid_elapsed_range_selects_window.

(* the code as found (before /repo 5ccb894): only the tasks --tid leaves out counted for the origin, then the first
   task of the info file: main{1000..} w1{1040..} w2{1100..} with --tid main,w2 counted from 1040, and two tasks
   listed {1040..} {1000..} without --tid as well *)
Theorem C07_elapsed_origin_legacy_refuted :
  setup_first_legacy (fun i => negb (Nat.eqb i 1)) Origin.ss_ex = 1040%N /\ setup_first Origin.ss_ex = 1000%N
  /\ setup_first_legacy (fun _ => true) [[Origin.r_at 1040]; [Origin.r_at 1000]] = 1040%N
  /\ setup_first [[Origin.r_at 1040]; [Origin.r_at 1000]] = 1000%N.
Proof. exact Origin.origin_legacy. Qed.
Print Assumptions C07_elapsed_origin_legacy_refuted.

(* the internal fixup table of fstack_entry (exec*, setjmp, longjmp, fork, vfork, daemon ...; looked up into the same
   slot as the user's table, which overwrites it when it has an entry) is trigger-only: what the options select does
   not depend on which functions are in that table.  Had its entries been opt-in filters, a call to fork outside the
   -F scope would be selected and -D would start again below it (witness). *)
Theorem C07_fixup_table_irrelevant : forall is_fixup has_user c forest, Fixup.user_table has_user c ->
  select (cfg_seen fixup_entry is_fixup has_user c) forest = select c forest.
Proof. exact Fixup.fixup_table_irrelevant. Qed.
Print Assumptions C07_fixup_table_irrelevant.

Theorem C07_fixup_as_filter_refuted :
  map ob_n (select Fixup.c_fx Fixup.f_fx) = [(false, 3%N); (false, 1%N); (true, 1%N); (true, 3%N)]
  /\ map ob_n (select (cfg_seen Fixup.as_filter Fixup.is_fork Fixup.user_fx Fixup.c_fx) Fixup.f_fx)
     = [(false, 2%N); (true, 2%N); (false, 3%N); (false, 1%N); (false, 2%N); (false, 4%N); (true, 4%N); (true, 2%N);
        (true, 1%N); (true, 3%N)]
  /\ Fixup.user_table Fixup.user_fx Fixup.c_fx.
Proof. exact Fixup.fixup_as_filter. Qed.
Print Assumptions C07_fixup_as_filter_refuted.

(* -Z SIZE / -T f@size=N (analysis time only; tied to the commands at the level of this documented semantics,
   the fstack model has no symbol sizes): -Z alone shows exactly what -H on every smaller function shows - for
   which the theorems above say what the commands do - and the tree view used by the checker (small functions
   spliced out, then the other options) is the event view, size= overrides included. *)
Theorem C07_size_filter_is_hide : forall szof zs f, (RecordProof.fheight f <= 1024)%nat ->
  select_size szof (fun _ => None) zs f = select (hide_small szof zs) f.
Proof. exact Size.size_filter_is_hide. Qed.
Print Assumptions C07_size_filter_is_hide.

Theorem C07_size_filter_tree_view : forall szof ztr zs f, (RecordProof.fheight f <= 1024)%nat ->
  map RecordProof.strip (select_z plain szof ztr zs f) = map RecordProof.strip (select_size szof ztr zs f).
Proof. exact Size.size_filter_tree_view. Qed.
Print Assumptions C07_size_filter_tree_view.

(* ... and with depth= triggers (-T f@depth=N, N >= 0, also on a function that -N hides), -N, -D and -t on the
   -pg shape: libmcount's per-frame saved depth budget (and, since /repo c9e77e5, the NORECORD frame a rejected
   call with a state-changing trigger leaves on the shadow stack) against replay's per-task depth counter that
   the fstack entry saves and restores.  Without -F: a depth= trigger on a function outside the -F filter
   fires at record time only (C07_filter_below_depth_trigger_refuted). *)
Theorem C07_record_equals_replay_depth_trigger : forall c f,
  RecordProofD.classD c -> plt_free_all c -> no_range c = true -> RecordProof.wf_forest c f ->
  (RecordProof.fheight f <= 1024)%nat ->
  map RecordProof.strip (rec_then_plain c MC.PG f) = map RecordProof.strip (plain_then_opt c f).
Proof. exact RecordProofD.record_equals_replay_depth. Qed.
Print Assumptions C07_record_equals_replay_depth_trigger.

(* the shared options MIXED (time= / -C / trace together with -F/-N/-D inside the class rr_class_of) and the
   cygprof shape for time= / -C / trace: exhaustive agreement on a bounded
   domain inside the class rr_class_of
   (no call runs zero time, no depth= / trace_on / trace_off, time= never lowers the
   threshold, -C / trace / time= only when nothing is hidden by -F/-N/-D): 21060 + 8900 compared pairs,
   both instrumentation shapes. *)
Theorem C07_record_equals_replay_bounded :
  agree_count dom_filter_cfgs dom_filter_forests = Some 21060%N
  /\ agree_count dom_time_cfgs dom_time_forests = Some 8900%N.
Proof. exact bounded_agreement. Qed.
Print Assumptions C07_record_equals_replay_bounded.

(* ... and outside that class the two times differ: *)
(* the former boundary divergence (record kept `>`, replay drops `<`) is repaired in /repo: a call that runs exactly
   the threshold, and a zero-duration call without -t, are kept at both times *)
Theorem C07_threshold_boundary_agrees :
  shown (rec_then_plain c_thr MC.PG f_thr)
  = [(false, 0%N, 0); (false, 1%N, 1); (true, 1%N, 1); (false, 2%N, 1); (true, 2%N, 1); (true, 0%N, 0)]
  /\ shown (plain_then_opt c_thr f_thr)
     = [(false, 0%N, 0); (false, 1%N, 1); (true, 1%N, 1); (false, 2%N, 1); (true, 2%N, 1); (true, 0%N, 0)].
Proof. exact threshold_boundary. Qed.
Print Assumptions C07_threshold_boundary_agrees.

Theorem C07_zero_duration_agrees :
  shown (rec_then_plain plain MC.PG f_zero) = [(false, 0%N, 0); (false, 1%N, 1); (true, 1%N, 1); (true, 0%N, 0)]
  /\ shown (plain_then_opt plain f_zero) = [(false, 0%N, 0); (false, 1%N, 1); (true, 1%N, 1); (true, 0%N, 0)].
Proof. exact zero_duration. Qed.
Print Assumptions C07_zero_duration_agrees.

Theorem C07_filter_below_depth_trigger_refuted :
  shown (rec_then_plain c_fd MC.PG f_fd)
  = [(false, 0%N, 0); (false, 1%N, 1); (false, 2%N, 2); (true, 2%N, 2); (true, 1%N, 1); (true, 0%N, 0)]
  /\ shown (plain_then_opt c_fd f_fd)
     = [(false, 0%N, 0); (false, 1%N, 1); (false, 2%N, 2); (false, 3%N, 3); (false, 4%N, 4); (true, 4%N, 4);
        (true, 3%N, 3); (true, 2%N, 2); (true, 1%N, 1); (true, 0%N, 0)].
Proof. exact filter_below_depth_trigger. Qed.
Print Assumptions C07_filter_below_depth_trigger_refuted.

Theorem C07_time_trigger_outside_filter_refuted :
  shown (rec_then_plain c_tf MC.PG f_tf)
  = [(false, 4%N, 0); (false, 2%N, 1); (true, 2%N, 1); (false, 3%N, 1); (true, 3%N, 1); (true, 4%N, 0)]
  /\ shown (plain_then_opt c_tf f_tf) = [(false, 4%N, 0); (false, 3%N, 1); (true, 3%N, 1); (true, 4%N, 0)].
Proof. exact time_trigger_outside_filter. Qed.
Print Assumptions C07_time_trigger_outside_filter_refuted.
