(* C01 - instruction set of the x86-64 entry/return stubs of uftrace
   (arch/x86_64/{mcount,fentry,plthook,dynamic,xray}.S).  Only data types live here so that the
   GENERATED file Gen/Stubs.v (written by gen/gen_stubs.py from the .S files of /repo's current
   tree) can state the stubs as instruction lists.  No proofs here. *)
From Coq Require Import ZArith String.

Inductive reg :=
| RAX | RBX | RCX | RDX | RSI | RDI | RBP | RSP
| R8 | R9 | R10 | R11 | R12 | R13 | R14 | R15.

(* AT&T operand order is kept: source first, destination last. *)
Inductive insn :=
| SubI (k : Z) (r : reg)                    (* sub  $k, %r *)
| AddI (k : Z) (r : reg)                    (* add  $k, %r *)
| AndI (k : Z) (r : reg)                    (* andq $k, %r      (k as a signed 64-bit number) *)
| MovRR (src dst : reg)                     (* movq %src, %dst *)
| MovRM (src base : reg) (disp : Z)         (* movq %src, disp(%base) *)
| MovMR (base : reg) (disp : Z) (dst : reg) (* movq disp(%base), %dst *)
| Lea (base : reg) (disp : Z) (dst : reg)   (* lea  disp(%base), %dst *)
| Push (r : reg)
| Pop (r : reg)
| MovdquRM (x : nat) (base : reg) (disp : Z) (* movdqu %xmm<x>, disp(%base) *)
| MovdquMR (base : reg) (disp : Z) (x : nat) (* movdqu disp(%base), %xmm<x> *)
| CmpI (k : Z) (r : reg)                    (* cmpq $k, %r *)
| CmovzG (sym : string) (r : reg)           (* cmovz sym(%rip), %r *)
| Jz (l : nat)                              (* jz <l>f   (forward only) *)
| Label (l : nat)                           (* <l>: *)
| JmpR (r : reg)                            (* jmp *%r *)
| Call (f : string)                         (* call f *)
| Ret.                                      (* retq *)

(* inline-asm moves of mcount_save_arch_context / mcount_restore_arch_context
   (arch/x86_64/mcount-support.c): mnemonic, xmm register, index of ctx->xmm[] *)
Inductive xmov := Xmovsd | Xmovq | Xmovdqu | Xmovups | Xvmovdqu.   (* Xvmovdqu: the 256-bit form on %ymm<x> *)
Inductive xop :=
| XSave (m : xmov) (x : nat) (slot : nat)      (* <m> %xmm<x>, ctx->xmm[slot] *)
| XLoad (m : xmov) (slot : nat) (x : nat).     (* <m> ctx->xmm[slot], %xmm<x> *)
