(* C01 - proofs about (iii) errno and (iv) the arch-context pair; the stub theorems are in
   StubTheorems.v (via MachineProofs.v), the shadow-stack theorems in ShadowProofs.v. *)
From Coq Require Import ZArith List Bool String Lia.
Require Import UV.C01.Model UV.Gen.Stubs UV.C01.ArchCtxProofs.
Import ListNotations.
Local Open Scope Z_scope.

(* (iii) whatever the inner hook does to errno, the caller sees the value it had *)
Lemma errno_preserved {A} (inner : Z -> A * Z) (e : Z) : snd (with_saved_errno inner e) = e.
Proof. unfold with_saved_errno. now destruct (inner e). Qed.
Lemma errno_result_is_inner {A} (inner : Z -> A * Z) (e : Z) :
  fst (with_saved_errno inner e) = fst (inner e).
Proof. unfold with_saved_errno. now destruct (inner e). Qed.

