(* C01 - proofs about (iii) errno and (iv) the arch-context pair; the stub theorems are in
   StubTheorems.v (via MachineProofs.v), the shadow-stack theorems in ShadowProofs.v. *)
From Coq Require Import ZArith List Bool String Lia.
Require Import UV.C01.Model UV.Gen.Stubs.
Import ListNotations.
Local Open Scope Z_scope.

(* (iii) whatever the inner hook does to errno, the caller sees the value it had *)
Lemma errno_preserved {A} (inner : Z -> A * Z) (e : Z) : snd (with_saved_errno inner e) = e.
Proof. unfold with_saved_errno. now destruct (inner e). Qed.
Lemma errno_result_is_inner {A} (inner : Z -> A * Z) (e : Z) :
  fst (with_saved_errno inner e) = fst (inner e).
Proof. unfold with_saved_errno. now destruct (inner e). Qed.

(* (iv) the generated save/restore pair gives back both halves of xmm0..xmm7, whatever ran in between
   and whatever the context buffer held *)
Lemma arch_context_roundtrip (x : xfile) (c0 : Z -> Z) (clobber : xfile) (r : nat) :
  (r < 8)%nat ->
  fst (arch_roundtrip_now x c0 clobber r) = fst (x r) /\
  snd (arch_roundtrip_now x c0 clobber r) = snd (x r).
Proof.
  intro H.
  do 8 (destruct r as [|r]; [vm_compute; split; reflexivity|]).
  lia.
Qed.

(* the pair as it was before the fix (movsd both ways): low halves survive ... *)
Lemma arch_context_legacy_low (x : xfile) (c0 : Z -> Z) (clobber : xfile) (r : nat) :
  (r < 8)%nat -> fst (arch_roundtrip_legacy x c0 clobber r) = fst (x r).
Proof.
  intro H.
  do 8 (destruct r as [|r]; [vm_compute; reflexivity|]).
  lia.
Qed.
(* ... but the high halves are zeroed: a __m128d / __float128 argument is destroyed *)
Lemma arch_context_legacy_refuted :
  exists (x : xfile) c0 clobber r, (r < 8)%nat /\ snd (arch_roundtrip_legacy x c0 clobber r) <> snd (x r).
Proof.
  exists (fun _ => (3, 7)), (fun _ => 0), (fun _ => (0, 0)), 0%nat. split; [lia|]. vm_compute. discriminate.
Qed.

(* the run-time checker accepts what the model of the current pair produces *)
Lemma xmm_checker_accepts_model (before clobber : list (Z * Z)) :
  List.length before = 16%nat ->
  ok_xmm before (xlist (arch_roundtrip_now (xof before) (fun _ => 0) (xof clobber))) = true.
Proof.
  intro H.
  do 16 (destruct before as [|[? ?] before]; [discriminate|]).
  destruct before; [|discriminate].
  cbv -[zeq]. unfold zeq. rewrite !Z.eqb_refl. reflexivity.
Qed.
