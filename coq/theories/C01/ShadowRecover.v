(* C01 (ii) - the shadow return stack with the `recover` trigger (mcount_rstack_restore /
   mcount_rstack_rehook over ALL frames at the entry / exit of a function), for programs whose
   hooks are -pg/fentry/dynamic ones (any nesting, tail-call chains, any mix of recover and plain
   entries).  The invariant here speaks about every chain of the shadow stack: its slot holds the
   trampoline or the real address saved by the chain's oldest frame; the innermost chain's slot holds
   the trampoline. *)
From Coq Require Import Arith List Bool Lia.
Require Import UV.C01.Shadow UV.C01.ShadowProofs.
Import ListNotations.

Fixpoint only_pg (c : call) : bool :=
  match c with
  | Call _ h kids tails =>
      (match h with HNone | HM _ => true | _ => false end) && forallb only_pg kids && forallb only_pg tails
  end.

(* frames of -pg kind on real slots, innermost first: slots never increase downwards; a frame saved the
   trampoline exactly when the frame below hijacked the same slot *)
Fixpoint WF2 (fs : list frame) : Prop :=
  match fs with
  | [] => True
  | f :: t =>
      WF2 t /\ fkind f = KM /\ 1 <= floc f /\
      match t with
      | g :: _ => if Nat.eqb (floc g) (floc f) then fip f = Tramp KM
                  else floc g < floc f /\ is_tramp (fip f) = false
      | [] => is_tramp (fip f) = false
      end
  end.

Fixpoint SlotsOK (m : nat -> word) (fs : list frame) : Prop :=
  match fs with
  | [] => True
  | f :: t => (m (floc f) = Tramp KM \/ m (floc f) = bottom_ip (f :: t)) /\ SlotsOK m t
  end.

Definition TopT (m : nat -> word) (fs : list frame) : Prop :=
  match fs with f :: _ => m (floc f) = Tramp KM | [] => True end.

Record Inv2 (s : st) : Prop := {
  I_wf : WF2 (rs s);
  I_slots : SlotsOK (mem s) (rs s);
  I_top : TopT (mem s) (rs s)
}.

Lemma WF2_tail f t : WF2 (f :: t) -> WF2 t.
Proof. cbn. tauto. Qed.

Lemma WF2_app_r a b : WF2 (a ++ b) -> WF2 b.
Proof. induction a as [|f a IH]; auto. intro H. apply IH. exact (WF2_tail _ _ H). Qed.

Lemma WF2_le : forall t f, WF2 (f :: t) -> Forall (fun g => floc g <= floc f) t.
Proof.
  induction t as [|g t IH]; intros f H; constructor.
  - cbn [WF2] in H. destruct H as (_ & _ & _ & H). destruct (Nat.eqb_spec (floc g) (floc f)); lia.
  - pose proof (IH g (WF2_tail _ _ H)) as H2.
    assert (floc g <= floc f).
    { cbn [WF2] in H. destruct H as (_ & _ & _ & H). destruct (Nat.eqb_spec (floc g) (floc f)); lia. }
    eapply Forall_impl; [|exact H2]. cbn. intros; lia.
Qed.

Lemma WF2_strict t f : WF2 (f :: t) -> is_tramp (fip f) = false -> Forall (fun g => floc g < floc f) t.
Proof.
  intros H Hr. destruct t as [|g t]; constructor.
  - cbn [WF2] in H. destruct H as (_ & _ & _ & H).
    destruct (Nat.eqb_spec (floc g) (floc f)); [rewrite H in Hr; discriminate | tauto].
  - assert (Hlt : floc g < floc f).
    { cbn [WF2] in H. destruct H as (_ & _ & _ & H).
      destruct (Nat.eqb_spec (floc g) (floc f)); [rewrite H in Hr; discriminate | tauto]. }
    pose proof (WF2_le t g (WF2_tail _ _ H)) as H2.
    eapply Forall_impl; [|exact H2]. cbn. intros; lia.
Qed.

Lemma WF2_kinds fs : WF2 fs -> Forall (fun f => fkind f = KM) fs.
Proof. induction fs as [|f t IH]; intro H; constructor; cbn [WF2] in H; tauto. Qed.

Lemma bottom_real fs : WF2 fs -> fs <> [] -> is_tramp (bottom_ip fs) = false.
Proof.
  induction fs as [|f t IH]; intros H Hne; [congruence|].
  cbn [bottom_ip]. destruct (is_tramp (fip f)) eqn:E; auto.
  apply IH; [exact (WF2_tail _ _ H)|].
  cbn [WF2] in H. destruct H as (_ & _ & _ & H). destruct t; [congruence | discriminate].
Qed.

Lemma SlotsOK_out m fs l w : Forall (fun f => floc f <> l) fs -> SlotsOK m fs -> SlotsOK (upd m l w) fs.
Proof.
  induction fs as [|f t IH]; intros Hn H; cbn [SlotsOK] in *; auto.
  destruct H as [H1 H2]. split; [|apply IH; auto; eapply Forall_inv_tail; eauto].
  apply Forall_inv in Hn. now rewrite upd_other by exact Hn.
Qed.

Lemma SlotsOK_tramp m fs l : SlotsOK m fs -> SlotsOK (upd m l (Tramp KM)) fs.
Proof.
  induction fs as [|f t IH]; intros H; cbn [SlotsOK] in *; auto.
  destruct H as [H1 H2]. split; auto.
  destruct (Nat.eq_dec (floc f) l) as [->|Hne]; [left; apply upd_same | now rewrite upd_other by exact Hne].
Qed.

Lemma SlotsOK_bottom : forall t g m, WF2 (g :: t) -> SlotsOK m (g :: t) ->
  SlotsOK (upd m (floc g) (bottom_ip (g :: t))) (g :: t).
Proof.
  induction t as [|g' t IH]; intros g m Hw H.
  - cbn [SlotsOK]. split; auto. right. apply upd_same.
  - cbn [SlotsOK] in H. destruct H as [_ Ht].
    split; [right; apply upd_same|].
    pose proof Hw as Hw'. cbn [WF2] in Hw'. destruct Hw' as (Hwt & _ & _ & Hl).
    destruct (Nat.eqb_spec (floc g') (floc g)) as [E|Hne].
    + change (bottom_ip (g :: g' :: t)) with (if is_tramp (fip g) then bottom_ip (g' :: t) else fip g).
      rewrite Hl. cbn [is_tramp]. rewrite <- E. apply IH; auto.
    + apply SlotsOK_out; auto.
      constructor; [lia|].
      pose proof (WF2_le t g' Hwt) as H2. eapply Forall_impl; [|exact H2]. cbn. intros; lia.
Qed.

Lemma restore_all_spec : forall fs m, WF2 fs -> SlotsOK (restore_all fs m) fs.
Proof.
  induction fs as [|f t IH]; intros m Hw; cbn [SlotsOK]; auto.
  cbn [restore_all]. split; [|apply IH; exact (WF2_tail _ _ Hw)].
  destruct (is_tramp (fip f)) eqn:E.
  - (* a tail-call frame: the slot belongs to the frame below *)
    cbn [bottom_ip]. rewrite E.
    pose proof Hw as Hw'. cbn [WF2] in Hw'. destruct Hw' as (Hwt & _ & _ & Hl).
    destruct t as [|g t']; [congruence|].
    destruct (Nat.eqb_spec (floc g) (floc f)) as [Eq|]; [|destruct Hl; congruence].
    pose proof (IH m Hwt) as Hs. cbn [SlotsOK] in Hs. rewrite <- Eq. tauto.
  - right. cbn [bottom_ip]. rewrite E.
    rewrite restore_all_notin; [apply upd_same|].
    pose proof (WF2_strict t f Hw E) as H2. eapply Forall_impl; [|exact H2]. cbn. intros; lia.
Qed.

Lemma rehook_all_slots : forall fs m fs', Forall (fun f => fkind f = KM) fs -> SlotsOK m fs' ->
  SlotsOK (rehook_all fs m) fs'.
Proof.
  induction fs as [|f t IH]; intros m fs' Hk H; cbn [rehook_all]; auto.
  pose proof (Forall_inv Hk) as Hf. rewrite Hf. cbn [hk]. apply SlotsOK_tramp.
  apply IH; auto. eapply Forall_inv_tail; eauto.
Qed.

Lemma rehook_all_notin : forall fs m l, Forall (fun f => floc f <> l) fs -> rehook_all fs m l = m l.
Proof.
  induction fs as [|f t IH]; intros m l H; cbn [rehook_all]; auto.
  pose proof (Forall_inv H) as Hf. rewrite upd_other by congruence. apply IH. eapply Forall_inv_tail; eauto.
Qed.

Lemma rehook_all_in : forall fs m l, Forall (fun f => fkind f = KM) fs -> In l (map floc fs) ->
  rehook_all fs m l = Tramp KM.
Proof.
  induction fs as [|f t IH]; intros m l Hk Hin; [contradiction|].
  cbn [rehook_all]. pose proof (Forall_inv Hk) as Hf. apply Forall_inv_tail in Hk. rewrite Hf. cbn [hk].
  destruct (Nat.eq_dec l (floc f)) as [->|Hne]; [apply upd_same|].
  rewrite upd_other by exact Hne. apply IH; auto.
  cbn in Hin. destruct Hin as [E|]; [congruence | assumption].
Qed.

Lemma walk_restore_wf2 : forall t g m, WF2 (g :: t) ->
  walk_restore (g :: t) m = upd m (floc g) (bottom_ip (g :: t)).
Proof.
  induction t as [|g' t IH]; intros g m Hw.
  - cbn [WF2] in Hw. destruct Hw as (_ & _ & _ & Hl). cbn. now rewrite Hl.
  - pose proof Hw as Hw'. cbn [WF2] in Hw'. destruct Hw' as (Hwt & _ & _ & Hl).
    remember (g' :: t) as fs. cbn [walk_restore bottom_ip]. destruct (is_tramp (fip g)) eqn:E; auto. subst fs.
    destruct (Nat.eqb_spec (floc g') (floc g)) as [Eq|]; [|destruct Hl; congruence].
    rewrite (IH g' m Hwt). now rewrite Eq.
Qed.

(* ------------------------------------------------------------------ inside an activation on slot d *)
Record B2 (d ra : nat) (low : list frame) (s : st) (chain : list frame) : Prop := {
  B2_rs : rs s = chain ++ low;
  B2_ch : Forall (fun f => floc f = d) chain;
  B2_low : Forall (fun f => floc f < d) low;
  B2_inv : Inv2 s;
  B2_top : match chain with
           | [] => mem s d = Real ra
           | _ :: _ => bottom_ip (chain ++ low) = Real ra
           end
}.

Definition notin (l : nat) (fs : list frame) : Prop := Forall (fun f => floc f <> l) fs.

Lemma low_notin d low l : Forall (fun f => floc f < d) low -> d <= l -> notin l low.
Proof. intros H Hl. eapply Forall_impl; [|exact H]. cbn. intros; lia. Qed.

(* entering: __mcount_entry with or without the recover trigger *)
Lemma enter_B2 d ra low s chain r : 1 <= d ->
  B2 d ra low s chain ->
  exists chain', B2 d ra low (enter_hijack KM r d s) chain' /\
                 (forall l, l < d -> notin l low -> mem (enter_hijack KM r d s) l = mem s l).
Proof.
  intros Hd [Hrs Hch Hlow [Hwf Hsl Htop] Hbt].
  set (f := mkF d (mem s d) KM r).
  exists (f :: chain).
  unfold enter_hijack. fold f.
  destruct chain as [|f0 ch].
  - (* first hook on this slot *)
    cbn [app] in *. rewrite Hrs in *.
    assert (Hwf' : WF2 (f :: low)).
    { cbn [WF2]. split; [exact Hwf|]. split; [reflexivity|]. split; [cbn; lia|].
      cbn [fip floc f]. rewrite Hbt. destruct low as [|g t]; [reflexivity|].
      apply Forall_inv in Hlow. destruct (Nat.eqb_spec (floc g) d); [lia|]. split; [lia | reflexivity]. }
    (* memory after the hijack and mcount_auto_restore *)
    set (m1 := upd (mem s) d (Tramp KM)).
    assert (Har : exists m2, mem (auto_restore (mkSt m1 (f :: low))) = m2 /\ rs (auto_restore (mkSt m1 (f :: low))) = f :: low /\
                             SlotsOK m2 low /\ m2 d = Tramp KM /\ (forall l, notin l low -> l <> d -> m2 l = mem s l)).
    { unfold auto_restore. cbn [rs mem].
      destruct low as [|g t] eqn:El.
      - exists m1. split; [reflexivity|]. split; [reflexivity|]. split; [exact I|]. split; [apply upd_same|].
        intros l _ Hld. unfold m1. now rewrite upd_other.
      - assert (Hne : floc g <> d) by (apply Forall_inv in Hlow; lia).
        cbn [floc f]. destruct (Nat.eqb_spec d (floc g)); [congruence|].
        rewrite (walk_restore_wf2 t g m1 Hwf). exists (upd m1 (floc g) (bottom_ip (g :: t))). split; [reflexivity|]. split; [reflexivity|].
        split; [|split].
        + apply SlotsOK_bottom; auto. unfold m1. apply SlotsOK_out; auto.
          eapply Forall_impl; [|exact Hlow]. cbn. intros; lia.
        + rewrite upd_other by lia. unfold m1. apply upd_same.
        + intros l Hn Hld. apply Forall_inv in Hn. rewrite upd_other by lia. unfold m1. now rewrite upd_other. }
    destruct Har as (m2 & Hm2 & Hr2 & Hs2 & Hd2 & Hf2).
    destruct (auto_restore (mkSt m1 (f :: low))) as [m2' rs2] eqn:Ea. cbn [mem rs] in Hm2, Hr2. subst m2' rs2.
    destruct r.
    + (* recover: every slot restored, own slot hooked again *)
      cbn [rs mem]. split.
      * constructor; cbn [rs mem app].
        -- reflexivity.
        -- constructor; [reflexivity | constructor].
        -- exact Hlow.
        -- constructor; cbn [rs mem].
           ++ exact Hwf'.
           ++ apply SlotsOK_tramp. apply restore_all_spec. exact Hwf'.
           ++ cbn. apply upd_same.
        -- cbn [bottom_ip fip f is_tramp]. rewrite Hbt. reflexivity.
      * intros l Hl Hn. rewrite upd_other by lia.
        rewrite restore_all_notin; [apply Hf2; auto; lia|].
        constructor; [cbn; lia | exact Hn].
    + cbn [rs mem]. split.
      * constructor; cbn [rs mem app].
        -- reflexivity.
        -- constructor; [reflexivity | constructor].
        -- exact Hlow.
        -- constructor; cbn [rs mem].
           ++ exact Hwf'.
           ++ cbn [SlotsOK]. split; [left; exact Hd2 | exact Hs2].
           ++ cbn. exact Hd2.
        -- cbn [bottom_ip fip f is_tramp]. rewrite Hbt. reflexivity.
      * intros l Hl Hn. apply Hf2; auto. lia.
  - (* tail call: the slot holds the trampoline of the frame below *)
    rewrite Hrs in *. cbn [app] in *.
    assert (Hf0 : floc f0 = d) by (apply Forall_inv in Hch; exact Hch).
    cbn in Htop. rewrite Hf0 in Htop.
    assert (Hwf' : WF2 (f :: f0 :: ch ++ low)).
    { cbn [WF2]. split; [exact Hwf|]. split; [reflexivity|]. split; [cbn; lia|].
      cbn [fip floc f]. rewrite Hf0, Nat.eqb_refl. exact Htop. }
    unfold auto_restore. cbn [rs mem floc f]. rewrite Hf0, Nat.eqb_refl. cbn [rs mem].
    assert (Hs1 : SlotsOK (upd (mem s) d (Tramp KM)) (f :: f0 :: ch ++ low)).
    { refine (conj (or_introl _) (SlotsOK_tramp _ _ d Hsl)). apply upd_same. }
    destruct r.
    + split.
      * constructor; cbn [rs mem app].
        -- reflexivity.
        -- constructor; [reflexivity | exact Hch].
        -- exact Hlow.
        -- constructor; cbn [rs mem].
           ++ exact Hwf'.
           ++ apply SlotsOK_tramp. apply restore_all_spec. exact Hwf'.
           ++ cbn. apply upd_same.
        -- cbn [bottom_ip fip f]. rewrite Htop. cbn [is_tramp]. exact Hbt.
      * intros l Hl Hn. cbn [rs mem]. rewrite upd_other by lia.
        rewrite restore_all_notin; [now rewrite upd_other by lia|].
        constructor; [cbn; lia|]. constructor; [cbn; lia|].
        apply Forall_app. split; [|exact Hn].
        apply Forall_inv_tail in Hch. eapply Forall_impl; [|exact Hch]. cbn. intros; lia.
    + split.
      * constructor; cbn [rs mem app].
        -- reflexivity.
        -- constructor; [reflexivity | exact Hch].
        -- exact Hlow.
        -- constructor; cbn [rs mem]; auto. cbn. apply upd_same.
        -- cbn [bottom_ip fip f]. rewrite Htop. cbn [is_tramp]. exact Hbt.
      * intros l Hl Hn. cbn [rs mem]. now rewrite upd_other by lia.
Qed.

(* returning through slot d *)
Lemma ret_B2 d ra low : 1 <= d -> forall chain s fuel n,
  B2 d ra low s chain -> length chain < fuel ->
  exists s3, ret_through fuel d s n = Some (s3, n + length chain, Real ra) /\
             rs s3 = low /\ Inv2 s3 /\ mem s3 d = Real ra /\
             (forall l, l < d -> notin l low -> mem s3 l = mem s l).
Proof.
  intros Hd. induction chain as [|f ch IH]; intros s fuel n [Hrs Hch Hlow [Hwf Hsl Htop] Hbt] Hfuel.
  - exists s. destruct fuel; [cbn in Hfuel; lia|]. cbn [ret_through]. rewrite Hbt. cbn [length].
    rewrite Nat.add_0_r. repeat split; auto.
  - destruct fuel as [|fuel]; [cbn in Hfuel; lia|].
    rewrite Hrs in *. cbn [app] in *.
    pose proof (Forall_inv Hch) as Hfd. cbn beta in Hfd. apply Forall_inv_tail in Hch.
    cbn in Htop. rewrite Hfd in Htop.
    pose proof Hwf as Hwf'. cbn [WF2] in Hwf'. destruct Hwf' as (Hwt & Hfk & _ & Hl).
    cbn [ret_through]. rewrite Htop, Hrs. cbn [kind_eqb andb]. unfold exit_hijack. rewrite Hrs.
    pose proof (WF2_kinds _ Hwf) as Hk.
    set (m1 := if frec f then rehook_all (f :: ch ++ low) (mem s) else mem s).
    assert (Hs1 : SlotsOK m1 (f :: ch ++ low)).
    { unfold m1. destruct (frec f); [apply rehook_all_slots; auto | exact Hsl]. }
    assert (Hd1 : m1 d = Tramp KM).
    { unfold m1. destruct (frec f); [|exact Htop]. apply rehook_all_in; auto. cbn. left. exact Hfd. }
    assert (Hf1 : forall l, l < d -> notin l low -> m1 l = mem s l).
    { intros l Hl' Hn. unfold m1. destruct (frec f); auto. apply rehook_all_notin.
      constructor; [cbn; lia|]. apply Forall_app. split; [|exact Hn].
      eapply Forall_impl; [|exact Hch]. cbn. intros; lia. }
    destruct ch as [|g ch'].
    + (* the oldest frame of the chain: real address; the frame below is hooked again *)
      cbn [app] in *.
      assert (Hreal : fip f = Real ra).
      { cbn [bottom_ip] in Hbt. destruct low as [|g0 t0].
        - rewrite Hl in Hbt. exact Hbt.
        - apply Forall_inv in Hlow. destruct (Nat.eqb_spec (floc g0) (floc f)); [lia|].
          destruct Hl as [_ Hl]. rewrite Hl in Hbt. exact Hbt. }
      unfold auto_rehook. cbn [rs mem].
      destruct low as [|g0 t0] eqn:El.
      * cbn [rs mem]. rewrite Hreal.
        assert (X : exists s3, ret_through fuel d (mkSt (upd m1 d (Real ra)) []) (S n) = Some (s3, S n, Real ra) /\ s3 = mkSt (upd m1 d (Real ra)) []).
        { eexists. split; [|reflexivity]. destruct fuel; cbn [ret_through mem]; rewrite upd_same; reflexivity. }
        destruct X as (s3 & X1 & ->). rewrite X1. eexists. split; [cbn; rewrite Nat.add_1_r; reflexivity|].
        cbn [rs mem]. repeat split; cbn; auto. apply upd_same.
        intros l Hl' _. rewrite upd_other by lia. apply Hf1; auto. constructor.
      * assert (Hne : floc g0 <> d) by (apply Forall_inv in Hlow; lia).
        rewrite Hfd. destruct (Nat.eqb_spec d (floc g0)); [congruence|]. cbn [rs mem]. rewrite Hreal.
        pose proof (Forall_inv Hk) as _. apply Forall_inv_tail in Hk. pose proof (Forall_inv Hk) as Hg0k.
        rewrite Hg0k. cbn [hk].
        set (m3 := upd (upd m1 (floc g0) (Tramp KM)) d (Real ra)).
        assert (X : ret_through fuel d (mkSt m3 (g0 :: t0)) (S n) = Some (mkSt m3 (g0 :: t0), S n, Real ra)).
        { destruct fuel; cbn [ret_through mem]; unfold m3; rewrite upd_same; reflexivity. }
        rewrite X. eexists. split; [cbn; rewrite Nat.add_1_r; reflexivity|].
        cbn [rs mem]. split; [reflexivity|]. split; [|split].
        -- constructor; cbn [rs mem].
           ++ exact Hwt.
           ++ unfold m3. apply SlotsOK_out; [eapply Forall_impl; [|exact Hlow]; cbn; intros; lia|].
              apply SlotsOK_tramp. exact (proj2 Hs1).
           ++ cbn. unfold m3. rewrite upd_other by congruence. apply upd_same.
        -- unfold m3. apply upd_same.
        -- intros l Hl' Hn. unfold m3. rewrite upd_other by lia.
           pose proof (Forall_inv Hn) as Hn0. rewrite upd_other by congruence. apply Hf1; auto.
    + (* a tail-call frame: hands back the trampoline *)
      pose proof (Forall_inv Hch) as Hgd. cbn beta in Hgd. cbn [app] in *.
      rewrite Hgd, Hfd, Nat.eqb_refl in Hl.
      unfold auto_rehook. cbn [rs mem]. rewrite Hfd, Hgd, Nat.eqb_refl. cbn [rs mem]. rewrite Hl.
      destruct (IH (mkSt (upd m1 d (Tramp KM)) (g :: ch' ++ low)) fuel (S n)) as (s3 & H3 & H4 & H5 & H6 & H7).
      * constructor; cbn [rs mem].
        -- reflexivity.
        -- exact Hch.
        -- exact Hlow.
        -- constructor; cbn [rs mem].
           ++ exact Hwt.
           ++ apply SlotsOK_tramp. exact (proj2 Hs1).
           ++ cbn. rewrite Hgd. apply upd_same.
        -- cbn [bottom_ip] in Hbt. rewrite Hl in Hbt. cbn [is_tramp] in Hbt. exact Hbt.
      * cbn [length] in *. lia.
      * exists s3. split; [rewrite H3; cbn [length]; f_equal; f_equal; f_equal; lia|].
        split; [exact H4|]. split; [exact H5|]. split; [exact H6|].
        intros l Hl' Hn. rewrite H7 by auto. cbn [mem]. rewrite upd_other by lia. apply Hf1; auto.
Qed.

(* ------------------------------------------------------------------ the induction over call trees *)
Definition P2 (c : call) : Prop := forall d ra low s chain,
  1 <= d -> only_pg c = true -> B2 d ra low s chain ->
  exists s' outs chain', run_ops s (body d c) = (s', outs) /\
                  targets outs = map Some (native_body c) /\ B2 d ra low s' chain' /\
                  (forall l, l < d -> notin l low -> mem s' l = mem s l).

Definition Q2 (c : call) : Prop := forall d s,
  1 <= d -> only_pg c = true -> Inv2 s -> Forall (fun f => floc f < d) (rs s) ->
  exists s' outs, run_ops s (full d c) = (s', outs) /\
                  targets outs = map Some (native c) /\
                  rs s' = rs s /\ Inv2 s' /\
                  (forall l, l < d -> notin l (rs s) -> mem s' l = mem s l).

Lemma Q2_of_P2 c : P2 c -> Q2 c.
Proof.
  intros HP d s Hd Ho [Hwf Hsl Htop] Hlow.
  unfold full. cbn [run_ops run_op].
  set (s1 := mkSt (upd (mem s) d (Real (ra_of c))) (rs s)).
  assert (Hn : notin d (rs s)) by (apply (low_notin d); auto).
  assert (HB : B2 d (ra_of c) (rs s) s1 []).
  { constructor; cbn [rs mem app s1]; auto.
    - constructor; cbn [rs mem]; auto.
      + apply SlotsOK_out; auto.
      + destruct (rs s) as [|g t]; cbn in *; auto. apply Forall_inv in Hlow. now rewrite upd_other by lia.
    - apply upd_same. }
  destruct (HP d (ra_of c) (rs s) s1 [] Hd Ho HB) as (s2 & outs & chain & Hrun & Htg & HB2 & Hfr).
  rewrite run_ops_app, Hrun. cbn [run_ops run_op].
  destruct (ret_B2 d (ra_of c) (rs s) Hd chain s2 (S (length (rs s2))) 0 HB2) as (s3 & Hret & Hrs3 & Hi3 & _ & Hm3).
  { destruct HB2 as [Hrs2 _ _ _ _]. rewrite Hrs2, app_length. lia. }
  rewrite Hret. exists s3. eexists. split; [reflexivity|]. split; [|split; [exact Hrs3|split; [exact Hi3|]]].
  - change (UNone :: outs ++ [URet (0 + length chain) (Real (ra_of c))])
      with ([UNone] ++ outs ++ [URet (0 + length chain) (Real (ra_of c))]).
    rewrite !targets_app, Htg. unfold native. rewrite map_app. reflexivity.
  - intros l Hl Hnl. rewrite Hm3, Hfr by auto. unfold s1. cbn. now rewrite upd_other by lia.
Qed.

Lemma B2_after_kid d ra low s chain s' :
  B2 d ra low s chain -> rs s' = rs s -> Inv2 s' ->
  (forall l, l < S d -> notin l (rs s) -> mem s' l = mem s l) ->
  B2 d ra low s' chain.
Proof.
  intros [Hrs Hch Hlow Hinv Hbt] Hr Hi Hm. constructor; auto.
  - now rewrite Hr.
  - destruct chain as [|f ch]; auto. cbn [app] in Hrs.
    rewrite Hm; auto. rewrite Hrs. apply (low_notin d); auto.
Qed.

Lemma kids_run2 kids : Forall Q2 kids -> forall d s,
  1 <= d -> forallb only_pg kids = true -> Inv2 s -> Forall (fun f => floc f < S d) (rs s) ->
  exists s' outs,
    run_ops s (concat (map (fun k => OPush (S d) (ra_of k) :: body (S d) k ++ [ORet (S d)]) kids)) = (s', outs) /\
    targets outs = map Some (concat (map (fun k => native_body k ++ [Real (ra_of k)]) kids)) /\
    rs s' = rs s /\ Inv2 s' /\ (forall l, l < S d -> notin l (rs s) -> mem s' l = mem s l).
Proof.
  induction 1 as [|k t Hk _ IH]; intros d s Hd Ho Hi Hl.
  - exists s, []. cbn. auto.
  - cbn in Ho. apply andb_true_iff in Ho as [Ho1 Ho2].
    cbn [map concat]. rewrite run_ops_app.
    destruct (Hk (S d) s ltac:(lia) Ho1 Hi Hl) as (s1 & o1 & Hr1 & Ht1 & Hrs1 & Hi1 & Hm1).
    unfold full in Hr1. rewrite Hr1.
    destruct (IH d s1 Hd Ho2 Hi1 ltac:(rewrite Hrs1; exact Hl)) as (s2 & o2 & Hr2 & Ht2 & Hrs2 & Hi2 & Hm2).
    rewrite Hr2. exists s2, (o1 ++ o2). split; [reflexivity|]. split; [|split; [congruence|split; [exact Hi2|]]].
    + rewrite targets_app, Ht1, Ht2. unfold native. now rewrite <- map_app.
    + intros l Hl' Hn. rewrite Hm2, Hm1; auto. now rewrite Hrs1.
Qed.

Lemma tails_run2 tails : Forall P2 tails -> forall d ra low s chain,
  1 <= d -> forallb only_pg tails = true -> B2 d ra low s chain ->
  exists s' outs chain',
    run_ops s (concat (map (body d) tails)) = (s', outs) /\
    targets outs = map Some (concat (map native_body tails)) /\ B2 d ra low s' chain' /\
    (forall l, l < d -> notin l low -> mem s' l = mem s l).
Proof.
  induction 1 as [|k t Hk _ IH]; intros d ra low s chain Hd Ho HB.
  - exists s, [], chain. cbn. auto.
  - cbn in Ho. apply andb_true_iff in Ho as [Ho1 Ho2].
    cbn [map concat]. rewrite run_ops_app.
    destruct (Hk d ra low s chain Hd Ho1 HB) as (s1 & o1 & c1 & Hr1 & Ht1 & HB1 & Hm1). rewrite Hr1.
    destruct (IH d ra low s1 c1 Hd Ho2 HB1) as (s2 & o2 & c2 & Hr2 & Ht2 & HB2 & Hm2). rewrite Hr2.
    exists s2, (o1 ++ o2), c2. split; [reflexivity|]. split; [|split; [exact HB2|]].
    + rewrite targets_app, Ht1, Ht2. now rewrite <- map_app.
    + intros l Hl Hn. rewrite Hm2, Hm1; auto.
Qed.

Lemma B2_locs d ra low s chain : B2 d ra low s chain -> Forall (fun f => floc f < S d) (rs s).
Proof.
  intros [Hrs Hch Hlow _ _]. rewrite Hrs. apply Forall_app. split.
  - eapply Forall_impl; [|exact Hch]. cbn. intros; lia.
  - eapply Forall_impl; [|exact Hlow]. cbn. intros; lia.
Qed.

Theorem body_correct2 : forall c, P2 c.
Proof.
  induction c as [ra0 h kids tails IHk IHt] using call_ind'.
  assert (HQ : Forall Q2 kids) by (eapply Forall_impl; [apply Q2_of_P2 | exact IHk]).
  intros d ra low s chain Hd Ho HB.
  cbn [only_pg] in Ho. apply andb_true_iff in Ho as [Ho Hot]. apply andb_true_iff in Ho as [Hoh Hok].
  cbn [body native_body]. cbn [run_ops].
  (* the entry hook *)
  assert (HE : exists s1 chain1, run_op s (OEnter h d) = (s1, UNone) /\ B2 d ra low s1 chain1 /\
                                 (forall l, l < d -> notin l low -> mem s1 l = mem s l)).
  { destruct h as [|r| |]; try discriminate.
    - exists s, chain. cbn. auto.
    - destruct (enter_B2 d ra low s chain r Hd HB) as (c1 & H1 & H2). eexists. exists c1. cbn. auto. }
  destruct HE as (s1 & chain1 & HE1 & HB1 & Hm1). rewrite HE1.
  pose proof (B2_inv _ _ _ _ _ HB1) as Hi1.
  destruct (kids_run2 kids HQ d s1 Hd Hok Hi1 (B2_locs _ _ _ _ _ HB1)) as (s2 & o2 & Hr2 & Ht2 & Hrs2 & Hi2 & Hm2).
  rewrite run_ops_app, Hr2.
  assert (Hcx : (match h with HC => [OCygExit] | _ => [] end) = []) by (destruct h; try discriminate; reflexivity).
  rewrite Hcx. cbn [app].
  pose proof (B2_after_kid d ra low s1 chain1 s2 HB1 Hrs2 Hi2 Hm2) as HB2.
  destruct (tails_run2 tails IHt d ra low s2 chain1 Hd Hot HB2) as (s3 & o3 & chain3 & Hr3 & Ht3 & HB3 & Hm3).
  rewrite Hr3. exists s3. eexists. exists chain3. split; [reflexivity|]. split; [|split; [exact HB3|]].
  - change (UNone :: o2 ++ o3) with ([UNone] ++ o2 ++ o3). rewrite !targets_app, Ht2, Ht3, map_app. reflexivity.
  - intros l Hl Hn. rewrite Hm3 by auto. rewrite Hm2.
    + apply Hm1; auto.
    + lia.
    + destruct HB1 as [Hrs1 Hch1 Hlow1 _ _]. rewrite Hrs1. apply Forall_app. split; [|exact Hn].
      eapply Forall_impl; [|exact Hch1]. cbn. intros; lia.
Qed.

(* every activation of every -pg call tree - plain entries, `recover` entries, tail chains, unhooked
   activations in any mix - returns where the untraced program returns; the shadow stack is popped back and
   the invariant holds again *)
Theorem returns_to_real_caller_recover : forall c d s,
  1 <= d -> only_pg c = true -> Inv2 s -> Forall (fun f => floc f < d) (rs s) ->
  exists s' outs, run_ops s (full d c) = (s', outs) /\
                  targets outs = map Some (native c) /\
                  rs s' = rs s /\ Inv2 s' /\
                  (forall l, l < d -> notin l (rs s) -> mem s' l = mem s l).
Proof. intros c. apply Q2_of_P2, body_correct2. Qed.

Lemma Inv2_st0 : Inv2 st0.
Proof. constructor; cbn; auto. Qed.

Theorem program_returns_recover : forall c, only_pg c = true ->
  exists s' outs, run_ops st0 (full 1 c) = (s', outs) /\ targets outs = map Some (native c) /\ rs s' = [].
Proof.
  intros c Ho.
  destruct (returns_to_real_caller_recover c 1 st0 (le_n 1) Ho Inv2_st0 (Forall_nil _)) as (s' & outs & Hr & Ht & Hrs & _).
  exists s', outs. auto.
Qed.

(* non-vacuity: recover entries nested, in a tail chain, and above/below plain entries *)
Definition nv_recover_tree2 : call :=
  Call 100 (HM false)
    [ Call 101 (HM true) [ Call 102 (HM false) [ Call 103 (HM true) [] [] ] [ Call 0 (HM true) [] [] ] ] [ Call 0 (HM false) [ Call 104 HNone [ Call 105 (HM true) [] [] ] [] ] [] ];
      Call 106 HNone [ Call 107 (HM true) [] [ Call 0 (HM true) [] [] ] ] [] ]
    [ Call 0 (HM true) [ Call 108 (HM false) [] [] ] [] ].
Example nv_recover_tree2_ok :
  only_pg nv_recover_tree2 = true /\ no_recover nv_recover_tree2 = false /\
  targets (snd (run_ops st0 (full 1 nv_recover_tree2))) = map Some (native nv_recover_tree2).
Proof. vm_compute. repeat split; reflexivity. Qed.

(* why mcount_rstack_rehook has to walk from the oldest entry to the newest: a PLT-called function that tail-called
   a -pg function leaves the chain [pg frame (saved: plthook_return); PLT frame (saved: real)] on one slot.  Walking
   newest-first (the code before fix C01-9) leaves plthook_return in the slot, and plthook_exit then meets the -pg frame
   ("invalid dynsym idx", the traced program is killed); walking oldest-first leaves mcount_return. *)
Example rehook_newest_first_refuted :
  let fs := [mkF 1 (Tramp KP) KM false; mkF 1 (Real 100) KP false] in
  let m := fun _ => Real 0 in
  rehook_all_legacy fs m 1 = Tramp KP /\
  ret_through 3 1 (mkSt (rehook_all_legacy fs m) fs) 0 = None /\
  rehook_all fs m 1 = Tramp KM /\
  ret_through 3 1 (mkSt (rehook_all fs m) fs) 0 = Some (mkSt (upd (upd (rehook_all fs m) 1 (Tramp KP)) 1 (Real 100)) [], 2, Real 100).
Proof. vm_compute. repeat split; reflexivity. Qed.
