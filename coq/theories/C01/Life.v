(* C01 - the per-thread life cycle of libmcount's thread data (struct mcount_thread_data mtd, TLS):

     fresh  --first hook: mcount_prepare()-->  alive  --thread exit: glibc clears the value of mtd_key and
     calls mtd_dtor()-->  torn down

   After mtd_dtor() the thread may still run instrumented code: destructors of the program's own pthread keys
   (libmcount's key is older, so glibc runs mtd_dtor first; up to PTHREAD_DESTRUCTOR_ITERATIONS rounds), signal
   handlers delivered late in start_thread().  pthread_getspecific(mtd_key) is NULL again for such a thread, so
   every entry hook goes to mcount_prepare(), and the ONLY thing that keeps mcount_prepare() from setting the dead
   thread data up a second time is the recursion marker that mtd_dtor() leaves set for good
   ("this thread is done, do not enter anymore").  [teardown true] is the seeded variant that clears the
   marker at the end of mtd_dtor (guard/unguard pair): refuted below. *)
From Coq Require Import Arith List Bool Lia.
Require Import UV.C01.Shadow.
Import ListNotations.

Record life := mkL {
  l_st : st;            (* return-address slots + shadow stack (mtd.rstack, mtd.idx) *)
  l_key : bool;         (* pthread_getspecific(mtd_key) != NULL *)
  l_marker : bool;      (* mtd.recursion_marker, as it is BETWEEN hooks *)
  l_dead : bool         (* mtd.dead *)
}.
Definition life0 : life := mkL st0 false false false.     (* a new thread: zeroed TLS, no key value *)
Definition set_st (t : life) (s : st) : life := mkL s (l_key t) (l_marker t) (l_dead t).

(* the preamble of mcount_entry / plthook_entry / cygprof_entry:
     mtdp = get_thread_data();
     if (check_thread_data(mtdp)) { mtdp = mcount_prepare(); if (mtdp == NULL) return; }
     else if (!mcount_guard_recursion(mtdp)) return;
   mcount_prepare: if (!mcount_guard_recursion(&mtd)) return NULL; ...; pthread_setspecific(mtd_key, &mtd).
   The marker is cleared again when the hook leaves (mcount_unguard_recursion). *)
Definition admit_entry (t : life) : option life :=
  if l_marker t then None else Some (mkL (l_st t) true false (l_dead t)).
(* cygprof_exit / xray_exit: if (check_thread_data(mtdp)) return; if (!mcount_guard_recursion(mtdp)) return *)
Definition admit_exit (t : life) : bool := l_key t && negb (l_marker t).

(* thread exit, one round of __nptl_deallocate_tsd: a key with a non-NULL value is cleared and its destructor
   called.  mtd_dtor: if (dead) return; marker = true; dead = true; mcount_rstack_restore(); free(rstack); idx = 0.
   [seeded]: the marker is cleared again at the end. *)
Definition teardown (seeded : bool) (t : life) : life :=
  if l_key t then
    if l_dead t then mkL (l_st t) false (l_marker t) true
    else mkL (mkSt (restore_all (rs (l_st t)) (mem (l_st t))) []) false (negb seeded) true
  else t.

Inductive lop :=
| LPush (l a : nat) | LEnter (h : hook) (l : nat) | LCygExit | LRet (l : nat)   (* as Shadow.op *)
| LTeardown.                                                                     (* a round of key destructors *)

Definition lift (o : op) : lop :=
  match o with OPush l a => LPush l a | OEnter h l => LEnter h l | OCygExit => LCygExit | ORet l | ORetStop l => LRet l end.

Definition run_lop (seeded : bool) (t : life) (o : lop) : life * out :=
  match o with
  | LTeardown => (teardown seeded t, UNone)
  | LPush l a => (set_st t (fst (run_op (l_st t) (OPush l a))), UNone)
  | LEnter HNone _ => (t, UNone)
  | LEnter h l =>
      match admit_entry t with
      | None => (t, UNone)
      | Some t' => (set_st t' (fst (run_op (l_st t') (OEnter h l))), UNone)
      end
  | LCygExit => if admit_exit t then (set_st t (exit_cyg (l_st t)), UNone) else (t, UNone)
  | LRet l =>
      match mem (l_st t) l with
      | Real a => (t, URet 0 (Real a))
      | Tramp _ =>
          (* mcount_exit / plthook_exit: ASSERT(mtdp != NULL); ASSERT(!mtdp->dead) *)
          if (negb (l_key t) || l_dead t)%bool then (t, UDead)
          else let '(s', u) := run_op (l_st t) (ORet l) in (set_st t s', u)
      end
  end.

Fixpoint run_lops (seeded : bool) (t : life) (ops : list lop) : life * list out :=
  match ops with
  | [] => (t, [])
  | o :: r => let '(t1, u) := run_lop seeded t o in
              let '(t2, us) := run_lops seeded t1 r in (t2, u :: us)
  end.

(* what the same operations do without uftrace *)
Definition native_lop (m : nat -> word) (o : lop) : (nat -> word) * out :=
  match o with
  | LPush l a => (upd m l (Real a), UNone)
  | LRet l => (m, match m l with Real a => URet 0 (Real a) | Tramp _ => UDead end)
  | _ => (m, UNone)
  end.
Fixpoint native_run (m : nat -> word) (ops : list lop) : (nat -> word) * list out :=
  match ops with
  | [] => (m, [])
  | o :: r => let '(m1, u) := native_lop m o in
              let '(m2, us) := native_run m1 r in (m2, u :: us)
  end.

