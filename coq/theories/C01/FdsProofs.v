(* C01 - what the program does to ITS descriptors has the native result (model: Fds.v) *)
From Coq Require Import Arith List Bool Lia.
Require Import UV.C01.Fds.
Import ListNotations.

Section S.
Variables (N H : nat) (L prot : list nat).
Hypothesis L_high : forall l, In l L -> H <= l.           (* libmcount's descriptors sit at or above H *)
Hypothesis prot_own : forall x, In x prot -> In x L.      (* close() protects only descriptors libmcount owns *)

Lemma inL_false x : x < H -> existsb (Nat.eqb x) L = false.
Proof.
  intro Hx. destruct (existsb (Nat.eqb x) L) eqn:E; auto.
  apply existsb_exists in E as (l & Hl & He). apply Nat.eqb_eq in He. subst. apply L_high in Hl. lia.
Qed.
Lemma inprot_false x : x < H -> existsb (Nat.eqb x) prot = false.
Proof.
  intro Hx. destruct (existsb (Nat.eqb x) prot) eqn:E; auto.
  apply existsb_exists in E as (l & Hl & He). apply Nat.eqb_eq in He. subst. apply prot_own, L_high in Hl. lia.
Qed.

Lemma union_low p x : x < H -> union p L x = p x.
Proof. intro Hx. unfold union. rewrite inL_false by exact Hx. apply orb_false_r. Qed.

Lemma union_tset p fd b : fd < H -> forall x, union (tset p fd b) L x = tset (union p L) fd b x.
Proof.
  intros Hfd x. unfold union, tset. destruct (Nat.eqb_spec x fd); auto.
  subst. rewrite inL_false by exact Hfd. now rewrite orb_false_r.
Qed.

(* two tables that agree pointwise behave alike; tables are compared extensionally *)
Definition teq (a b : table) : Prop := forall x, a x = b x.

Lemma lowest_ext a b : teq a b -> forall fuel from, lowest a from fuel = lowest b from fuel.
Proof. intros E fuel. induction fuel as [|f IH]; intro from; cbn; auto. rewrite E. destruct (b from); auto. Qed.

Lemma lowest_ge p : forall fuel a m, lowest p a fuel = Some m -> a <= m.
Proof.
  induction fuel as [|g IHg]; intros a m; cbn; [discriminate|].
  destruct (p a); [intro X; apply IHg in X; lia | intro X; inversion X; lia].
Qed.

(* below H the union finds the same lowest free descriptor *)
Lemma lowest_union p : forall fuel from n, lowest p from fuel = Some n -> n < H ->
  lowest (union p L) from fuel = Some n.
Proof.
  induction fuel as [|f IH]; intros from n E Hn; cbn in *; [discriminate|].
  destruct (p from) eqn:Ep.
  - pose proof (lowest_ge p _ _ _ E) as Hge.
    unfold union at 1. rewrite Ep. cbn. apply IH; auto.
  - inversion E; subst. rewrite union_low by exact Hn. now rewrite Ep.
Qed.

Lemma step_sim p k o :
  teq k (union p L) ->
  below H o (snd (kstep N p o)) = true ->
  snd (tstep N prot k o) = snd (kstep N p o) /\ teq (fst (tstep N prot k o)) (union (fst (kstep N p o)) L).
Proof.
  intros E B. unfold below in B. apply andb_true_iff in B as [B1 B2].
  destruct o as [fd| |fd|a b|fd]; cbn [tstep kstep] in *.
  - apply Nat.ltb_lt in B1. rewrite inprot_false by exact B1. cbn [kstep].
    rewrite E, union_low by exact B1. destruct (p fd); cbn; split; auto.
    intro x. rewrite union_tset by exact B1. unfold tset. destruct (Nat.eqb x fd); auto.
  - destruct (lowest p 0 N) as [n|] eqn:El; cbn [snd] in B2; [|discriminate].
    apply Nat.ltb_lt in B2.
    rewrite (lowest_ext k (union p L) E), (lowest_union p N 0 n El B2). cbn. split; auto.
    intro x. rewrite union_tset by exact B2. unfold tset. destruct (Nat.eqb x n); auto.
  - apply Nat.ltb_lt in B1. rewrite E, union_low by exact B1. destruct (p fd); cbn; [|split; auto].
    destruct (lowest p 0 N) as [n|] eqn:El; cbn [snd] in B2; [|discriminate].
    apply Nat.ltb_lt in B2.
    rewrite (lowest_ext k (union p L) E), (lowest_union p N 0 n El B2). cbn. split; auto.
    intro x. rewrite union_tset by exact B2. unfold tset. destruct (Nat.eqb x n); auto.
  - apply andb_true_iff in B1 as [Ba Bb]. apply Nat.ltb_lt in Ba. apply Nat.ltb_lt in Bb.
    rewrite E, union_low by exact Ba. destruct (p a); [|cbn; split; auto].
    destruct (Nat.ltb b N); cbn; split; auto.
    intro x. rewrite union_tset by exact Bb. unfold tset. destruct (Nat.eqb x b); auto.
  - apply Nat.ltb_lt in B1. rewrite E, union_low by exact B1. cbn. split; auto.
Qed.

Lemma kstep_ext a b o : teq a b -> snd (kstep N a o) = snd (kstep N b o) /\ teq (fst (kstep N a o)) (fst (kstep N b o)).
Proof.
  intro E. destruct o as [fd| |fd|x y|fd]; cbn [kstep]; rewrite ?E, ?(lowest_ext a b E).
  - destruct (b fd); cbn; split; auto. intro z. unfold tset. destruct (Nat.eqb z fd); auto.
  - destruct (lowest b 0 N); cbn; split; auto. intro z. unfold tset. destruct (Nat.eqb z n); auto.
  - destruct (b fd); cbn; [|split; auto]. destruct (lowest b 0 N); cbn; split; auto.
    intro z. unfold tset. destruct (Nat.eqb z n); auto.
  - destruct (b x); [|cbn; split; auto]. destruct (Nat.ltb y N); cbn; split; auto.
    intro z. unfold tset. destruct (Nat.eqb z y); auto.
  - cbn. split; auto.
Qed.

Theorem own_descriptors_native : forall ops p k,
  teq k (union p L) -> stays_below N H p ops = true ->
  snd (trun N prot k ops) = snd (krun N p ops) /\
  teq (fst (trun N prot k ops)) (union (fst (krun N p ops)) L).
Proof.
  induction ops as [|o r IH]; intros p k E SB; cbn [trun krun stays_below] in *; [split; auto|].
  destruct (kstep N p o) as [p1 x] eqn:Ek.
  apply andb_true_iff in SB as [B SB].
  pose proof (step_sim p k o E) as HS. rewrite Ek in HS. cbn [fst snd] in HS. specialize (HS B).
  destruct (tstep N prot k o) as [k1 y]. cbn [fst snd] in HS. destruct HS as [Hy Hk1]. subst y.
  specialize (IH p1 k1 Hk1 SB).
  destruct (trun N prot k1 r) as [k2 ys]. destruct (krun N p1 r) as [p2 xs]. cbn [fst snd] in *.
  destruct IH as [I1 I2]. split; [now rewrite I1 | exact I2].
Qed.
End S.

(* the close() wrapper also protecting fileno(logfp) = 2, a descriptor of the program (a seeded regression): the
   redirect idiom close(2); open() gets 3 instead of 2, a second close(2) 0 instead of EBADF *)
Definition std : table := fun x => Nat.ltb x 3.
Lemma close_protects_stderr_refuted :
  snd (krun 1024 std [FClose 2; FOpen; FClose 2; FClose 2]) = [ROk 0; ROk 2; ROk 0; RBadf] /\
  snd (trun 1024 [1000; 2] (union std [1000]) [FClose 2; FOpen; FClose 2; FClose 2]) = [ROk 0; ROk 3; ROk 0; ROk 0] /\
  snd (trun 1024 [1000] (union std [1000]) [FClose 2; FOpen; FClose 2; FClose 2]) = [ROk 0; ROk 2; ROk 0; RBadf].
Proof. vm_compute. repeat split. Qed.

(* the code as found (before fix C01-10): the pipe sits at the lowest free descriptor, 3: the program's first open()
   returns 4 *)
Lemma low_pipe_legacy_refuted :
  snd (krun 1024 std [FOpen; FDup 0]) = [ROk 3; ROk 4] /\
  snd (trun 1024 [3] (union std [3]) [FOpen; FDup 0]) = [ROk 4; ROk 5].
Proof. vm_compute. split; reflexivity. Qed.

(* non-vacuity: a daemon-style sequence stays below 992 on a 1024-descriptor table *)
Example nv_fds :
  stays_below 1024 992 std [FClose 0; FClose 1; FClose 2; FOpen; FDup 0; FDup 0; FDup2 0 7; FGetfd 7; FClose 7; FClose 7; FOpen] = true /\
  snd (krun 1024 std [FClose 0; FClose 1; FClose 2; FOpen; FDup 0; FDup 0; FDup2 0 7; FGetfd 7; FClose 7; FClose 7; FOpen])
    = [ROk 0; ROk 0; ROk 0; ROk 0; ROk 1; ROk 2; ROk 7; ROk 0; ROk 0; RBadf; ROk 3].
Proof. vm_compute. split; reflexivity. Qed.
