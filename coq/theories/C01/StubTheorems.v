(* C01 (i) - the stub theorems: every concrete run of each GENERATED stub (Gen/Stubs.v, re-derived
   from arch/x86_64/*.S on every run) from any register file, any memory, any 8-byte aligned stack
   pointer and under any behaviour of the hook the contract allows, keeps the stub's guarantee. *)
From Coq Require Import ZArith List Bool String Lia.
Require Import UV.C01.Isa UV.Gen.Stubs UV.C01.Machine UV.C01.MachineProofs.
Import ListNotations.
Local Open Scope Z_scope.

Lemma mod16_cases x : x mod 8 = 0 -> x mod 16 = 0 \/ x mod 16 = 8.
Proof.
  intro H. pose proof (Z.div_mod x 8 ltac:(lia)). pose proof (Z.div_mod x 16 ltac:(lia)).
  pose proof (Z.mod_pos_bound x 16 ltac:(lia)). lia.
Qed.

(* the verdict computed for both stack alignments covers every 8-byte aligned rsp0 *)
Theorem both_alignments W regs xmm up mem zf ext cond sp prog :
  check_both ext cond sp prog = true ->
  regs RSP mod 8 = 0 ->
  (forall e, ext = Some e -> regs RSP + 8 <= den W regs xmm mem e) ->
  (forall v k b, cond = Some (v, k, b) -> (den W regs xmm mem v =? k) = b) ->
  stub_guarantee W regs xmm up mem zf ext sp prog.
Proof.
  intros H Hal He Hc. unfold check_both in H. apply andb_true_iff in H as [H0 H8].
  destruct (mod16_cases _ Hal) as [E|E].
  - apply (stub_sound W {| p_a0 := 0; p_ext := ext; p_cond := cond |} regs xmm up mem); cbn; auto.
  - apply (stub_sound W {| p_a0 := 8; p_ext := ext; p_cond := cond |} regs xmm up mem); cbn; auto.
Qed.

Ltac by_check := apply (both_alignments _ _ _ _ _ _ _ None); [vm_compute; reflexivity | assumption | try (intros ? [=]) | try (intros ? ? ? [=])].

Lemma hook_wrappers_ok :
  map fst hook_wrappers = ["mcount_entry"; "mcount_exit"; "plthook_entry"; "plthook_exit"; "xray_entry"; "xray_exit"]%string /\
  forallb (fun p => fst (snd p) && snd (snd p)) hook_wrappers = true.
Proof. vm_compute. split; reflexivity. Qed.

(* ---- entry stubs ---- *)
Theorem fentry_ok W regs xmm up mem zf : regs RSP mod 8 = 0 ->
  stub_guarantee W regs xmm up mem zf None spec_fentry stub___fentry__.
Proof. intro. by_check. Qed.

Theorem dentry_ok W regs xmm up mem zf : regs RSP mod 8 = 0 ->
  stub_guarantee W regs xmm up mem zf None spec_dentry stub___dentry__.
Proof. intro. by_check. Qed.

Theorem xray_entry_ok W regs xmm up mem zf : regs RSP mod 8 = 0 ->
  stub_guarantee W regs xmm up mem zf None spec_xray_entry stub___xray_entry.
Proof. intro. by_check. Qed.

(* -pg: the parent's return-address slot is 8(%rbp), which lies above the stub's own return
   address (the caller pushed %rbp after being called) *)
Theorem mcount_ok W regs xmm up mem zf : regs RSP mod 8 = 0 -> regs RSP <= regs RBP ->
  stub_guarantee W regs xmm up mem zf ext_mcount spec_mcount stub_mcount.
Proof.
  intros ? Hbp. apply (both_alignments _ _ _ _ _ _ _ None); [vm_compute; reflexivity | assumption | | intros ? ? ? [=]].
  intros e [= <-]. cbn. lia.
Qed.

(* ---- return stubs ---- *)
Theorem mcount_return_ok W regs xmm up mem zf : regs RSP mod 8 = 0 ->
  stub_guarantee W regs xmm up mem zf None spec_return stub_mcount_return.
Proof. intro. by_check. Qed.

Theorem dynamic_return_ok W regs xmm up mem zf : regs RSP mod 8 = 0 ->
  stub_guarantee W regs xmm up mem zf None spec_return stub_dynamic_return.
Proof. intro. by_check. Qed.

Theorem plthook_return_ok W regs xmm up mem zf : regs RSP mod 8 = 0 ->
  stub_guarantee W regs xmm up mem zf None spec_plthook_return stub_plthook_return.
Proof. intro. by_check. Qed.

Theorem xray_exit_ok W regs xmm up mem zf : regs RSP mod 8 = 0 ->
  stub_guarantee W regs xmm up mem zf None spec_xray_exit stub___xray_exit.
Proof. intro. by_check. Qed.

(* ---- PLT hook: both outcomes of plthook_entry ---- *)
Theorem plt_hooker_resolve_ok W regs xmm up mem zf : regs RSP mod 8 = 0 -> w_regs W 0 RAX = 0 ->
  stub_guarantee W regs xmm up mem zf None spec_plt_resolve stub_plt_hooker.
Proof.
  intros ? Hz. apply (both_alignments W regs xmm up mem zf None (cond_plt true));
    [vm_compute; reflexivity | assumption | intros ? [=] | ].
  intros v k b [= <- <- <-]. cbn. lia.
Qed.

Theorem plt_hooker_direct_ok W regs xmm up mem zf : regs RSP mod 8 = 0 -> w_regs W 0 RAX <> 0 ->
  stub_guarantee W regs xmm up mem zf None spec_plt_direct stub_plt_hooker.
Proof.
  intros ? Hz. apply (both_alignments W regs xmm up mem zf None (cond_plt false));
    [vm_compute; reflexivity | assumption | intros ? [=] | ].
  intros v k b [= <- <- <-]. cbn. lia.
Qed.

(* what the plain-ABI stubs do NOT promise (and need not: %r10/%r11 are scratch at a PLT call and at
   an XRay sled): the same check with the full register list fails *)
Lemma plt_hooker_does_not_keep_r10_r11 :
  check_both None (cond_plt false)
    {| s_pres := all_but_rsp; s_rsp := 16; s_target := VHav 0 RAX; s_memfrom := 16; s_allowed := [16] |}
    stub_plt_hooker = false.
Proof. vm_compute. reflexivity. Qed.

(* non-vacuity: a concrete world, register file and memory; the guarantee's hypotheses hold and the
   run really ends at the expected place *)
Definition nv_world : world :=
  {| w_regs := fun n r => 1000 + Z.of_nat n; w_mem := fun n a => 7; w_zf := fun _ => true;
     w_glob := fun _ _ => 555; w_xmm := fun n i => (1, 2); w_up := fun _ _ _ => 3; w_ctx := fun _ _ => 9; w_level := 2 |}.
Definition nv_regs (r : reg) : Z :=
  match r with RSP => 4096 + 8 | RBP => 4096 + 64 | RAX => 1 | RBX => 2 | RCX => 3 | RDX => 4 | RSI => 5 | RDI => 6
             | R8 => 8 | R9 => 9 | R10 => 10 | R11 => 11 | R12 => 12 | R13 => 13 | R14 => 14 | R15 => 15 end.
Definition nv_xmm (x : nat) : Z * Z := (Z.of_nat x * 2, Z.of_nat x * 2 + 1).
Definition nv_mem (a : Z) : Z := a * 3.
Example nv_fentry :
  let c := cexec nv_world stub___fentry__ (cstart nv_regs nv_xmm (fun x i => Z.of_nat (x * 10 + i)) nv_mem false) in
  cend c = Some (nv_mem (4096 + 8)) /\ cr c RAX = 1 /\ cr c R11 = 11 /\ cr c RSP = 4096 + 16 /\
  cm c (4096 + 16) = 7 /\ cfault c = false.
Proof. vm_compute. repeat split; reflexivity. Qed.
Example nv_mcount_return :
  let c := cexec nv_world stub_mcount_return (cstart nv_regs nv_xmm (fun x i => Z.of_nat (x * 10 + i)) nv_mem false) in
  cend c = Some 1000 /\ cr c RAX = 1 /\ cr c RDX = 4 /\ cx c 0%nat = (0, 1) /\ cr c RSP = 4096 + 8 /\ cfault c = false.
Proof. vm_compute. repeat split; reflexivity. Qed.
