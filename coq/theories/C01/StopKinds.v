(* C01 - finishing while frames are open, for EVERY mix of hook kinds that share one return slot.
   A slot is shared when functions tail-call each other: -pg function -> -pg function (saved address mcount_return),
   an instrumented function of a -pg shared library called through the PLT, or a library function tail-calling an
   instrumented callback (PLT entry below an mcount entry: saved address plthook_return), an instrumented function
   tail-calling through the PLT (mcount entry below a PLT entry).  When tracing was finished by another thread, the first
   exit hook the thread meets - __mcount_exit or __plthook_exit, [exit_stop] - runs mtd_dtor(), which restores every
   slot, and must then hand back the program's own return address WHATEVER trampoline its entry had saved. *)
From Coq Require Import Arith List Bool Lia.
Require Import UV.C01.Shadow UV.C01.ShadowProofs.
Import ListNotations.

Definition kind_hook (k : kind) : hook := match k with KP => HP | _ => HM false end.

Definition enters (d : nat) (ks : list kind) : list op := map (fun k => OEnter (kind_hook k) d) ks.

(* the state of a shared slot: empty shadow stack and the real address in the slot, or a chain of frames on slot d
   (no recover flag) whose restoration yields the real address from any memory, the slot holding a trampoline *)
Definition Shared (d ra : nat) (s : st) : Prop :=
  match rs s with
  | [] => mem s d = Real ra
  | _ :: _ => Forall (fun f => floc f = d /\ frec f = false) (rs s) /\
              (forall m, restore_all (rs s) m d = Real ra) /\ is_tramp (mem s d) = true
  end.

Lemma enter_shared d ra k s : Shared d ra s -> Shared d ra (fst (run_op s (OEnter (kind_hook k) d))).
Proof.
  intro H.
  assert (E : fst (run_op s (OEnter (kind_hook k) d)) =
              mkSt (upd (mem s) d (Tramp (hk k))) (mkF d (mem s d) (hk k) false :: rs s)).
  { destruct k; cbn [kind_hook run_op fst enter_hijack hk]; unfold auto_restore; cbn [rs mem];
      (destruct (rs s) as [|g t] eqn:Er; [reflexivity|]);
      unfold Shared in H; rewrite Er in H; destruct H as (HF & _ & _);
      apply Forall_inv in HF; destruct HF as [Hg _]; cbn [floc]; rewrite Hg, Nat.eqb_refl; reflexivity. }
  rewrite E. unfold Shared. cbn [rs mem].
  split; [|split].
  - constructor; [cbn; auto|]. unfold Shared in H. destruct (rs s); [constructor | apply H].
  - intro m. cbn [restore_all fip floc]. unfold Shared in H. destruct (rs s) as [|g t] eqn:Er.
    + rewrite H. cbn. apply upd_same.
    + destruct H as (_ & Hr & Ht). rewrite Ht. apply Hr.
  - now rewrite upd_same.
Qed.

Lemma enters_shared d ra : forall ks s, Shared d ra s -> Shared d ra (fst (run_ops s (enters d ks))).
Proof.
  induction ks as [|k r IH]; intros s H; cbn [enters map run_ops]; [exact H|].
  pose proof (enter_shared d ra k s H) as H1.
  destruct (run_op s (OEnter (kind_hook k) d)) as [s1 u]. cbn [fst] in H1.
  specialize (IH s1 H1). unfold enters in IH.
  destruct (run_ops s1 (map (fun k0 => OEnter (kind_hook k0) d) r)) as [s2 us]. exact IH.
Qed.

Lemma enters_nonempty d : forall ks s, ks <> [] \/ rs s <> [] -> rs (fst (run_ops s (enters d ks))) <> [].
Proof.
  induction ks as [|k r IH]; intros s H; cbn [enters map run_ops].
  - destruct H; [congruence | exact H].
  - assert (H1 : rs (fst (run_op s (OEnter (kind_hook k) d))) <> []).
    { destruct k; cbn [kind_hook run_op fst enter_hijack]; unfold auto_restore; cbn [rs];
        destruct (rs s) as [|g t]; try discriminate; destruct (Nat.eqb _ _); discriminate. }
    destruct (run_op s (OEnter (kind_hook k) d)) as [s1 u]. cbn [fst] in H1.
    specialize (IH s1 (or_intror H1)). unfold enters in IH.
    destruct (run_ops s1 (map (fun k0 => OEnter (kind_hook k0) d) r)) as [s2 us]. exact IH.
Qed.

(* the statement: a caller stores return address ra into slot d; ANY non-empty sequence of hooked entries - -pg/fentry/
   dynamic (KM, KC is treated as KM) and PLT (KP) in any order - runs on that slot (tail calls); tracing is finished
   elsewhere; the first exit hook tears the thread down and hands back ra, the slot holds ra, no shadow frame is left *)
Theorem finish_exit_any_kinds : forall (ks : list kind) (d ra : nat) (m : nat -> word),
  ks <> [] ->
  let s := fst (run_ops (mkSt (upd m d (Real ra)) []) (enters d ks)) in
  exists s', exit_stop s = Some (s', Real ra) /\ rs s' = [] /\ mem s' d = Real ra.
Proof.
  intros ks d ra m Hne s.
  assert (H0 : Shared d ra (mkSt (upd m d (Real ra)) [])) by (unfold Shared; cbn; apply upd_same).
  pose proof (enters_shared d ra ks _ H0) as HS. fold s in HS.
  pose proof (enters_nonempty d ks (mkSt (upd m d (Real ra)) []) (or_introl Hne)) as Hn. fold s in Hn.
  unfold Shared in HS. unfold exit_stop. destruct (rs s) as [|f t] eqn:Er; [congruence|].
  destruct HS as (HF & Hr & _). pose proof (Forall_inv HF) as [Hfd Hfr]. rewrite Hfr, Hfd.
  eexists. split; [rewrite Hr; reflexivity|]. cbn [rs mem]. split; [reflexivity | apply Hr].
Qed.

(* a seeded regression: __mcount_exit reloads the address only when the saved one is mcount_return *)
Definition exit_stop_km_only (s : st) : option (st * word) :=
  match exit_stop s, rs s with
  | Some (s', w), f :: _ => Some (s', if word_eqb (fip f) (Tramp KM) then w else fip f)
  | _, _ => None
  end.
(* an instrumented library function called through the PLT: PLT entry, then the function's own mcount entry *)
Lemma finish_reload_km_only_refuted :
  let s := fst (run_ops st0 [OPush 1 100; OEnter HP 1; OEnter (HM false) 1]) in
  option_map snd (exit_stop_km_only s) = Some (Tramp KP) /\ option_map snd (exit_stop s) = Some (Real 100).
Proof. vm_compute. split; reflexivity. Qed.

(* non-vacuity: three kinds on one slot *)
Example nv_finish_any_kinds :
  let s := fst (run_ops (mkSt (upd (fun _ => Real 0) 2 (Real 77)) []) (enters 2 [KM; KP; KM])) in
  length (rs s) = 3 /\ mem s 2 = Tramp KM /\ option_map snd (exit_stop s) = Some (Real 77).
Proof. vm_compute. repeat split. Qed.
