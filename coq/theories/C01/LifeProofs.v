(* C01 - a torn-down thread is left alone by every hook (model: Life.v) *)
From Coq Require Import Arith List Bool Lia.
Require Import UV.C01.Shadow UV.C01.ShadowProofs UV.C01.Life.
Import ListNotations.

(* ------------------------------------------------------------------ torn down = left alone *)
Definition torn (t : life) : Prop := l_key t = false /\ l_marker t = true /\ rs (l_st t) = [].

Lemma teardown_torn t : l_key t = true -> l_dead t = false -> torn (teardown false t).
Proof. intros Hk Hd. unfold teardown. rewrite Hk, Hd. now repeat split. Qed.

Lemma torn_step t o : torn t ->
  torn (fst (run_lop false t o)) /\
  (mem (l_st (fst (run_lop false t o))), snd (run_lop false t o)) = native_lop (mem (l_st t)) o.
Proof.
  intros (Hk & Hm & Hr). destruct o as [l a|h l| |l|]; cbn [run_lop native_lop].
  - cbn. repeat split; auto.
  - destruct h; cbn; unfold admit_entry; rewrite ?Hm; cbn; repeat split; auto.
  - unfold admit_exit. rewrite Hk. cbn. repeat split; auto.
  - destruct (mem (l_st t) l) eqn:E; cbn.
    + repeat split; auto.
    + rewrite Hk. cbn. repeat split; auto.
  - unfold teardown. rewrite Hk. cbn. repeat split; auto.
Qed.

Lemma torn_run : forall ops t, torn t ->
  torn (fst (run_lops false t ops)) /\
  (mem (l_st (fst (run_lops false t ops))), snd (run_lops false t ops)) = native_run (mem (l_st t)) ops.
Proof.
  induction ops as [|o r IH]; intros t Ht; cbn [run_lops native_run].
  - split; [exact Ht | reflexivity].
  - destruct (torn_step t o Ht) as [Ht1 E1].
    destruct (run_lop false t o) as [t1 u] eqn:E. cbn [fst snd] in Ht1, E1.
    destruct (IH t1 Ht1) as [Ht2 E2].
    destruct (run_lops false t1 r) as [t2 us]. cbn [fst snd] in *.
    rewrite <- E1. destruct (native_run (mem (l_st t1)) r) as [m2 us2].
    split; [exact Ht2 | now inversion E2].
Qed.

(* native runs never create a trampoline: "no return address is hijacked" *)
Definition clean (m : nat -> word) : Prop := forall l, is_tramp (m l) = false.
Lemma native_run_clean : forall ops m, clean m ->
  clean (fst (native_run m ops)) /\
  Forall (fun u => match u with UNone => True | URet n (Real _) => n = 0 | _ => False end) (snd (native_run m ops)).
Proof.
  induction ops as [|o r IH]; intros m Hc; cbn [native_run].
  - split; [exact Hc | constructor].
  - assert (Hc1 : clean (fst (native_lop m o))).
    { destruct o; cbn; auto. intro x. unfold upd. destruct (Nat.eqb x l); [reflexivity | apply Hc]. }
    assert (Hu : match snd (native_lop m o) with UNone => True | URet n (Real _) => n = 0 | _ => False end).
    { destruct o; cbn; auto. specialize (Hc l). destruct (m l); [reflexivity | discriminate]. }
    destruct (native_lop m o) as [m1 u]. cbn [fst snd] in *.
    destruct (IH m1 Hc1) as [H1 H2]. destruct (native_run m1 r) as [m2 us]. cbn [fst snd] in *.
    split; [exact H1 | constructor; assumption].
Qed.

(* the statement: a thread that was alive (any shadow stack, any slots) and is torn down is left alone by every
   hook from then on - whatever instrumented code it still runs (key destructors, further destructor rounds,
   signal handlers) behaves as in the native run, the shadow stack stays empty *)
Theorem torn_down_thread_is_left_alone : forall t ops,
  l_key t = true -> l_dead t = false ->
  let t1 := teardown false t in
  let r := run_lops false t1 ops in
  (mem (l_st (fst r)), snd r) = native_run (mem (l_st t1)) ops /\
  rs (l_st (fst r)) = [] /\ l_key (fst r) = false.
Proof.
  intros t ops Hk Hd t1 r.
  destruct (torn_run ops t1 (teardown_torn t Hk Hd)) as [(K & _ & R) E]. fold r in K, R, E. auto.
Qed.

(* ... in particular no return address is hijacked: if every slot holds a real address after the teardown
   (mcount_rstack_restore: C01_finish_exit_returns_to_real_caller's invariant), no slot ever holds a trampoline
   again and every return goes straight (0 exit hooks) to the address the program stored *)
Theorem torn_down_thread_never_hijacked : forall t ops,
  l_key t = true -> l_dead t = false ->
  let t1 := teardown false t in
  clean (mem (l_st t1)) ->
  let r := run_lops false t1 ops in
  clean (mem (l_st (fst r))) /\
  Forall (fun u => match u with UNone => True | URet n (Real _) => n = 0 | _ => False end) (snd r).
Proof.
  intros t ops Hk Hd t1 Hc r.
  destruct (torn_down_thread_is_left_alone t ops Hk Hd) as [E _]. fold t1 in E. fold r in E.
  destruct (native_run_clean ops _ Hc) as [H1 H2]. rewrite <- E in H1, H2. auto.
Qed.

(* ------------------------------------------------------------------ call trees after the teardown *)
Lemma native_run_app a b m :
  native_run m (a ++ b) =
  let '(m1, u1) := native_run m a in let '(m2, u2) := native_run m1 b in (m2, u1 ++ u2).
Proof.
  revert m. induction a as [|o a IH]; intro m; cbn.
  - now destruct (native_run m b).
  - destruct (native_lop m o) as [m1 u]. rewrite IH.
    destruct (native_run m1 a) as [m2 us]. now destruct (native_run m2 b).
Qed.

Lemma targets_cons_none us : targets (UNone :: us) = targets us.
Proof. reflexivity. Qed.

Definition PB (c : call) : Prop := forall d m,
  targets (snd (native_run m (map lift (body d c)))) = map Some (native_body c) /\
  forall l, l <= d -> fst (native_run m (map lift (body d c))) l = m l.

Lemma native_kids d : forall kids m, Forall PB kids ->
  let ops := concat (map (fun k => OPush (S d) (ra_of k) :: body (S d) k ++ [ORet (S d)]) kids) in
  targets (snd (native_run m (map lift ops))) = map Some (concat (map (fun k => native_body k ++ [Real (ra_of k)]) kids)) /\
  forall l, l <= d -> fst (native_run m (map lift ops)) l = m l.
Proof.
  induction kids as [|k r IH]; intros m HF; cbn zeta.
  - cbn. auto.
  - inversion HF as [|? ? Hk Hr]; subst.
    cbn [map concat]. rewrite map_app, native_run_app.
    cbn [app map lift native_run native_lop]. rewrite map_app, native_run_app.
    destruct (Hk (S d) (upd m (S d) (Real (ra_of k)))) as [T1 M1].
    destruct (native_run (upd m (S d) (Real (ra_of k))) (map lift (body (S d) k))) as [m1 u1]. cbn [fst snd] in T1, M1.
    cbn [map lift native_run native_lop].
    assert (E : m1 (S d) = Real (ra_of k)) by (rewrite M1 by lia; apply upd_same).
    rewrite E.
    destruct (IH m1 Hr) as [T2 M2]. cbn zeta in T2, M2.
    destruct (native_run m1 (map lift (concat (map (fun k0 => OPush (S d) (ra_of k0) :: body (S d) k0 ++ [ORet (S d)]) r)))) as [m2 u2].
    cbn [fst snd] in *. split.
    + rewrite targets_app, T2, targets_cons_none, targets_app, T1, !map_app. reflexivity.
    + intros l Hl. rewrite M2 by exact Hl. rewrite M1 by lia. apply upd_other. lia.
Qed.

Lemma native_tails d : forall tails m, Forall PB tails ->
  targets (snd (native_run m (map lift (concat (map (body d) tails))))) = map Some (concat (map native_body tails)) /\
  forall l, l <= d -> fst (native_run m (map lift (concat (map (body d) tails)))) l = m l.
Proof.
  induction tails as [|k r IH]; intros m HF.
  - cbn. auto.
  - inversion HF as [|? ? Hk Hr]; subst.
    cbn [map concat]. rewrite map_app, native_run_app.
    destruct (Hk d m) as [T1 M1].
    destruct (native_run m (map lift (body d k))) as [m1 u1]. cbn [fst snd] in T1, M1.
    destruct (IH m1 Hr) as [T2 M2].
    destruct (native_run m1 (map lift (concat (map (body d) r)))) as [m2 u2]. cbn [fst snd] in *.
    split.
    + rewrite targets_app, T1, T2, map_app. reflexivity.
    + intros l Hl. rewrite M2, M1; auto.
Qed.

Lemma native_body_run : forall c, PB c.
Proof.
  induction c as [ra0 h kids tails IHk IHt] using call_ind'.
  intros d m. cbn [body native_body map lift native_run native_lop].
  assert (Hn : native_lop m (LEnter h d) = (m, UNone)) by reflexivity.
  rewrite !map_app, !native_run_app.
  destruct (native_kids d kids m IHk) as [T1 M1]. cbn zeta in T1, M1.
  destruct (native_run m (map lift (concat (map (fun k => OPush (S d) (ra_of k) :: body (S d) k ++ [ORet (S d)]) kids)))) as [m1 u1].
  cbn [fst snd] in T1, M1.
  assert (Hc : native_run m1 (map lift match h with HC => [OCygExit] | _ => [] end) =
               (m1, match h with HC => [UNone] | _ => [] end)) by (destruct h; reflexivity).
  rewrite native_run_app, Hc.
  destruct (native_tails d tails m1 IHt) as [T2 M2].
  destruct (native_run m1 (map lift (concat (map (body d) tails)))) as [m2 u2]. cbn [fst snd] in *.
  split.
  - cbn [snd]. rewrite targets_cons_none, !targets_app, T1, T2. destruct h; reflexivity.
  - intros l Hl. rewrite M2, M1; auto.
Qed.

(* a whole call tree run by a torn-down thread (a key destructor and everything it calls, with any hooks:
   -pg, recover, PLT, cygprof): every return goes to its real caller *)
Theorem torn_down_thread_returns_to_real_callers : forall t c d,
  l_key t = true -> l_dead t = false ->
  let r := run_lops false (teardown false t) (map lift (full d c)) in
  targets (snd r) = map Some (native c) /\ rs (l_st (fst r)) = [].
Proof.
  intros t c d Hk Hd r.
  destruct (torn_down_thread_is_left_alone t (map lift (full d c)) Hk Hd) as (E & R & _). fold r in E, R.
  split; [|exact R].
  assert (E2 : snd r = snd (native_run (mem (l_st (teardown false t))) (map lift (full d c)))) by (now rewrite <- E).
  rewrite E2. unfold full, native. cbn [map lift native_run native_lop].
  rewrite map_app, native_run_app.
  set (m0 := upd (mem (l_st (teardown false t))) d (Real (ra_of c))).
  destruct (native_body_run c d m0) as [T M].
  destruct (native_run m0 (map lift (body d c))) as [m1 u1]. cbn [fst snd] in *.
  cbn [map lift native_run native_lop].
  rewrite (M d (le_n d)). unfold m0. rewrite upd_same. cbn [snd].
  rewrite targets_cons_none, targets_app, T, map_app. reflexivity.
Qed.

(* ------------------------------------------------------------------ the seeded variant: marker cleared *)
(* a -pg thread runs f (slot 1), exits; its key destructor (slot 1 again, return address 100) is instrumented:
   the dead thread data is set up again, the destructor's return address is hijacked, and the exit hook runs
   into ASSERT(!mtdp->dead) *)
Definition seeded_witness : list lop :=
  [LPush 1 50; LEnter (HM false) 1; LRet 1; LTeardown; LPush 1 100; LEnter (HM false) 1; LRet 1].
Lemma teardown_marker_cleared_refuted :
  snd (run_lops true life0 seeded_witness) = [UNone; UNone; URet 1 (Real 50); UNone; UNone; UNone; UDead] /\
  mem (l_st (fst (run_lops true life0 seeded_witness))) 1 = Tramp KM /\
  snd (run_lops false life0 seeded_witness) = [UNone; UNone; URet 1 (Real 50); UNone; UNone; UNone; URet 0 (Real 100)].
Proof. vm_compute. repeat split. Qed.

(* non-vacuity: the witness thread is alive (key set, not dead) when it is torn down *)
Example alive_before_teardown :
  let t := fst (run_lops false life0 [LPush 1 50; LEnter (HM false) 1; LEnter HC 1; LPush 2 60; LEnter (HM true) 2]) in
  l_key t = true /\ l_dead t = false /\ length (rs (l_st t)) = 3 /\ mem (l_st t) 2 = Tramp KM /\
  clean (mem (l_st (teardown false t))).
Proof.
  cbn zeta. repeat split. intro l.
  destruct l as [|[|[|l]]]; vm_compute; reflexivity.
Qed.
