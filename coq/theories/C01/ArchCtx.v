(* C01 (iv) - the save/restore pair mcount_save_arch_context / mcount_restore_arch_context
   (arch/x86_64/mcount-support.c) as the GENERATED lists of Gen/Stubs.v: an SSE pair (used when the ymm
   state is not enabled) and an AVX pair (used when cpuid/xgetbv say it is).  The six C hook wrappers
   bracket their body with this pair, so it is also what a hook call does to the vector registers
   (Machine.v).  A register is modelled with its 256 bits: ((bits 0-63, 64-127), (128-191, 192-255));
   without AVX only the first pair exists architecturally.  Definitions only - no proofs. *)
From Coq Require Import ZArith List Bool.
Require Import UV.C01.Isa UV.Gen.Stubs.
Import ListNotations.
Local Open Scope Z_scope.

Definition yreg := ((Z * Z) * (Z * Z))%type.
Definition yfile := nat -> yreg.
Definition xfile := nat -> Z * Z.            (* the 128-bit view used by the stub machine *)
Definition yset (x : yfile) (r : nat) (v : yreg) : yfile := fun i => if Nat.eqb i r then v else x i.
Definition cset (c : Z -> Z) (a : Z) (v : Z) : Z -> Z := fun i => if i =? a then v else c i.

(* ctx->xmm[] is a byte-addressed array of 8-byte cells.
   Stores write 1 (movsd/movq), 2 (movdqu/movups) or 4 (vmovdqu %ymm) cells.
   Loads: movsd/movq clear bits 64-127; every legacy-SSE load leaves bits 128-255 as they are;
   vmovdqu %ymm loads all 256 bits. *)
Definition xop_exec (slot_bytes : Z) (s : yfile * (Z -> Z)) (o : xop) : yfile * (Z -> Z) :=
  let '(x, c) := s in
  match o with
  | XSave m r k =>
      let off := Z.of_nat k * slot_bytes in
      let a := fst (fst (x r)) in let b := snd (fst (x r)) in
      let u := fst (snd (x r)) in let v := snd (snd (x r)) in
      match m with
      | Xmovsd | Xmovq => (x, cset c off a)
      | Xmovdqu | Xmovups => (x, cset (cset c off a) (off + 8) b)
      | Xvmovdqu => (x, cset (cset (cset (cset c off a) (off + 8) b) (off + 16) u) (off + 24) v)
      end
  | XLoad m k r =>
      let off := Z.of_nat k * slot_bytes in
      match m with
      | Xmovsd | Xmovq => (yset x r ((c off, 0), snd (x r)), c)
      | Xmovdqu | Xmovups => (yset x r ((c off, c (off + 8)), snd (x r)), c)
      | Xvmovdqu => (yset x r ((c off, c (off + 8)), (c (off + 16), c (off + 24))), c)
      end
  end.

(* save; arbitrary code that may use every vector register (a script, libc: pxor, vzeroupper, ...); restore *)
Definition arch_roundtrip (slot_bytes : Z) (save restore : list xop) (x : yfile) (c0 : Z -> Z)
           (clobber : yfile) : yfile :=
  let '(_, c1) := fold_left (xop_exec slot_bytes) save (x, c0) in
  fst (fold_left (xop_exec slot_bytes) restore (clobber, c1)).

(* avx = the ymm state is enabled (what mcount_arch_check_avx() detects) *)
Definition arch_roundtrip_now (avx : bool) : yfile -> (Z -> Z) -> yfile -> yfile :=
  if avx then arch_roundtrip arch_ctx_slot_bytes arch_ctx_save_avx arch_ctx_restore_avx
  else arch_roundtrip arch_ctx_slot_bytes arch_ctx_save_sse arch_ctx_restore_sse.

(* bits 0-127 only *)
Definition lift (x : xfile) : yfile := fun i => (x i, (0, 0)).
Definition arch_roundtrip128 (avx : bool) (x : xfile) (c0 : Z -> Z) (clobber : xfile) : xfile :=
  fun i => fst (arch_roundtrip_now avx (lift x) c0 (lift clobber) i).

(* the code before fix C01-1: movsd both ways into 8-byte slots *)
Definition legacy_save : list xop := map (fun i => XSave Xmovsd i i) (seq 0 8).
Definition legacy_restore : list xop := map (fun i => XLoad Xmovsd i i) (seq 0 8).
Definition arch_roundtrip_legacy := arch_roundtrip 8 legacy_save legacy_restore.
(* the code before fix C01-5: the SSE pair also on a machine whose ymm state is live *)
Definition arch_roundtrip_sse_only := arch_roundtrip_now false.
