(* C01 (iv) - the xmm save/restore pair mcount_save_arch_context / mcount_restore_arch_context
   (arch/x86_64/mcount-support.c) as the GENERATED lists arch_ctx_save / arch_ctx_restore of Gen/Stubs.v.
   Since fix C01-4 the six C hook wrappers bracket their body with this pair, so it is also what a
   hook call does to xmm0-7 (Machine.v).  Definitions only - no proofs. *)
From Coq Require Import ZArith List Bool.
Require Import UV.C01.Isa UV.Gen.Stubs.
Import ListNotations.
Local Open Scope Z_scope.

(* mcount_save_arch_context / mcount_restore_arch_context (arch/x86_64/mcount-support.c), as the
   generated lists arch_ctx_save / arch_ctx_restore.  ctx->xmm[] is a byte-addressed array of
   8-byte cells; a register is (low, high). *)
Definition xfile := nat -> Z * Z.
Definition xset (x : xfile) (r : nat) (v : Z * Z) : xfile := fun i => if Nat.eqb i r then v else x i.
Definition cset (c : Z -> Z) (a : Z) (v : Z) : Z -> Z := fun i => if i =? a then v else c i.

Definition full_width (m : xmov) : bool :=
  match m with Xmovdqu | Xmovups => true | Xmovsd | Xmovq => false end.

Definition xop_exec (slot_bytes : Z) (s : xfile * (Z -> Z)) (o : xop) : xfile * (Z -> Z) :=
  let '(x, c) := s in
  match o with
  | XSave m r k =>
      let off := Z.of_nat k * slot_bytes in
      if full_width m then (x, cset (cset c off (fst (x r))) (off + 8) (snd (x r)))
      else (x, cset c off (fst (x r)))                       (* movsd/movq store: low half only *)
  | XLoad m k r =>
      let off := Z.of_nat k * slot_bytes in
      if full_width m then (xset x r (c off, c (off + 8)), c)
      else (xset x r (c off, 0), c)                          (* movsd/movq load: high half cleared *)
  end.

(* save; arbitrary code that may use every xmm register (a script, libc's sscanf); restore *)
Definition arch_roundtrip (slot_bytes : Z) (save restore : list xop) (x : xfile) (c0 : Z -> Z)
           (clobber : xfile) : xfile :=
  let '(_, c1) := fold_left (xop_exec slot_bytes) save (x, c0) in
  fst (fold_left (xop_exec slot_bytes) restore (clobber, c1)).

Definition arch_roundtrip_now := arch_roundtrip arch_ctx_slot_bytes arch_ctx_save arch_ctx_restore.

(* the code before the fix: movsd both ways into 8-byte slots *)
Definition legacy_save : list xop := map (fun i => XSave Xmovsd i i) (seq 0 8).
Definition legacy_restore : list xop := map (fun i => XLoad Xmovsd i i) (seq 0 8).
Definition arch_roundtrip_legacy := arch_roundtrip 8 legacy_save legacy_restore.

