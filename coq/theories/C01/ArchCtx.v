(* C01 (iv) - the save/restore pair mcount_save_arch_context / mcount_restore_arch_context
   (arch/x86_64/mcount-support.c) as the GENERATED lists of Gen/Stubs.v: an SSE pair, an AVX pair and an
   AVX-512 pair, chosen by what cpuid/xgetbv report (mcount_arch_check_avx() = 0 / 1 / 2).  The six C hook
   wrappers bracket their body with the pair, so it is also what a hook call does to the vector registers
   (Machine.v).  A vector register is modelled with its 512 bits as eight 64-bit words (word i = bits
   64i..64i+63); a machine of level 0 / 1 / 2 has 2 / 4 / 8 of them architecturally.
   Definitions only - no proofs. *)
From Coq Require Import ZArith List Bool.
Require Import UV.C01.Isa UV.Gen.Stubs.
Import ListNotations.
Local Open Scope Z_scope.

Definition vreg := nat -> Z.
Definition vfile := nat -> vreg.
Definition xfile := nat -> Z * Z.            (* the 128-bit view used by the stub machine *)
Definition vset (x : vfile) (r : nat) (v : vreg) : vfile := fun i => if Nat.eqb i r then v else x i.
Definition cset (c : Z -> Z) (a : Z) (v : Z) : Z -> Z := fun i => if i =? a then v else c i.

(* number of 64-bit words an instruction moves *)
Definition width (m : xmov) : nat :=
  match m with Xmovsd | Xmovq => 1 | Xmovdqu | Xmovups => 2 | Xvmovdqu => 4 | Xvmovdqu64 => 8 end%nat.
(* VEX/EVEX-encoded loads clear every bit of the register above the vector length; legacy-SSE loads leave
   bits 128.. alone; movsd/movq from memory clear bits 64-127 *)
Definition vex (m : xmov) : bool := match m with Xvmovdqu | Xvmovdqu64 => true | _ => false end.
Definition scalar (m : xmov) : bool := match m with Xmovsd | Xmovq => true | _ => false end.

Definition words (n : nat) : list nat := seq 0 n.
Definition store_words (c : Z -> Z) (off : Z) (v : vreg) (n : nat) : Z -> Z :=
  fold_left (fun c' i => cset c' (off + 8 * Z.of_nat i) (v i)) (words n) c.
Definition load_reg (m : xmov) (c : Z -> Z) (off : Z) (old : vreg) : vreg :=
  fun i => if Nat.ltb i (width m) then c (off + 8 * Z.of_nat i)
           else if vex m then 0
           else if (scalar m && Nat.eqb i 1)%bool then 0
           else old i.

(* ctx->xmm[] is a byte-addressed array of 8-byte cells *)
Definition xop_exec (slot_bytes : Z) (s : vfile * (Z -> Z)) (o : xop) : vfile * (Z -> Z) :=
  let '(x, c) := s in
  match o with
  | XSave m r k => (x, store_words c (Z.of_nat k * slot_bytes) (x r) (width m))
  | XLoad m k r => (vset x r (load_reg m c (Z.of_nat k * slot_bytes) (x r)), c)
  end.

(* save; arbitrary code that may use every vector register (a script, libc: pxor, vzeroupper, ...); restore *)
Definition arch_roundtrip (slot_bytes : Z) (save restore : list xop) (x : vfile) (c0 : Z -> Z)
           (clobber : vfile) : vfile :=
  let '(_, c1) := fold_left (xop_exec slot_bytes) save (x, c0) in
  fst (fold_left (xop_exec slot_bytes) restore (clobber, c1)).

(* level = what mcount_arch_check_avx() detects: 0 xmm only, 1 ymm state enabled, 2 zmm state enabled *)
Definition arch_roundtrip_now (level : nat) : vfile -> (Z -> Z) -> vfile -> vfile :=
  match level with
  | O => arch_roundtrip arch_ctx_slot_bytes arch_ctx_save_sse arch_ctx_restore_sse
  | S O => arch_roundtrip arch_ctx_slot_bytes arch_ctx_save_avx arch_ctx_restore_avx
  | _ => arch_roundtrip arch_ctx_slot_bytes arch_ctx_save_avx512 arch_ctx_restore_avx512
  end.
(* words of a register that exist on a machine of that level *)
Definition visible (level : nat) : nat := match level with O => 2 | S O => 4 | _ => 8 end%nat.

(* the MXCSR register (rounding mode, sticky exception flags, masks): saved first and restored last by the pair
   iff the generated flag arch_ctx_mxcsr says so; otherwise whatever the hook body left *)
Definition mxcsr_roundtrip (saves : bool) (csr clobber : Z) : Z := if saves then csr else clobber.
Definition mxcsr_now : Z -> Z -> Z := mxcsr_roundtrip arch_ctx_mxcsr.

(* bits 0-127 only *)
Definition lift (x : xfile) : vfile := fun r i => match i with O => fst (x r) | S O => snd (x r) | _ => 0 end.
Definition arch_roundtrip128 (level : nat) (x : xfile) (c0 : Z -> Z) (clobber : xfile) : xfile :=
  fun r => let v := arch_roundtrip_now level (lift x) c0 (lift clobber) r in (v 0%nat, v 1%nat).

(* the code before fix C01-1: movsd both ways into 8-byte slots *)
Definition legacy_save : list xop := map (fun i => XSave Xmovsd i i) (seq 0 8).
Definition legacy_restore : list xop := map (fun i => XLoad Xmovsd i i) (seq 0 8).
Definition arch_roundtrip_legacy := arch_roundtrip 8 legacy_save legacy_restore.
(* the code before fix C01-5: the SSE pair (movdqu into 16-byte slots) also on a machine whose ymm state is live *)
Definition sse_save : list xop := map (fun i => XSave Xmovdqu i i) (seq 0 8).
Definition sse_restore : list xop := map (fun i => XLoad Xmovdqu i i) (seq 0 8).
Definition arch_roundtrip_sse_only := arch_roundtrip 16 sse_save sse_restore.
(* the code before fix C01-6: the AVX pair (vmovdqu %ymm into 32-byte slots) also on a machine whose zmm state is live *)
Definition avx_save : list xop := map (fun i => XSave Xvmovdqu i i) (seq 0 8).
Definition avx_restore : list xop := map (fun i => XLoad Xvmovdqu i i) (seq 0 8).
Definition arch_roundtrip_avx_only := arch_roundtrip 32 avx_save avx_restore.
