(* C01 (i) - soundness of the abstract stub executor w.r.t. the concrete machine, and the
   bridge from the computed verdict [check_stub] to a statement about every concrete run. *)
From Coq Require Import ZArith List Bool String Lia.
Require Import ZifyBool.
Require Import UV.C01.Isa UV.Gen.Stubs UV.C01.ArchCtx UV.C01.ArchCtxProofs UV.C01.Machine.
Import ListNotations.
Local Open Scope Z_scope.

Lemma reg_eqb_eq a b : reg_eqb a b = true <-> a = b.
Proof. split; [destruct a, b; cbn; congruence | intros ->; destruct b; reflexivity]. Qed.
Lemma reg_eqb_refl a : reg_eqb a a = true.
Proof. destruct a; reflexivity. Qed.

Lemma val_eqb_eq a b : val_eqb a b = true -> a = b.
Proof.
  destruct a, b; cbn; try discriminate; intro H;
    repeat match goal with
           | H : (_ && _)%bool = true |- _ => apply andb_true_iff in H; destruct H
           | H : reg_eqb _ _ = true |- _ => apply reg_eqb_eq in H; subst
           | H : (_ =? _) = true |- _ => apply Z.eqb_eq in H; subst
           | H : Nat.eqb _ _ = true |- _ => apply Nat.eqb_eq in H; subst
           | H : String.eqb _ _ = true |- _ => apply String.eqb_eq in H; subst
           | H : Bool.eqb _ _ = true |- _ => apply Bool.eqb_prop in H; subst
           end; reflexivity.
Qed.

Lemma mod8_of_mod16 x o : (x mod 16 + o) mod 8 = (x + o) mod 8.
Proof.
  pose proof (Z.div_mod x 16 ltac:(lia)) as E.
  replace (x + o) with (x mod 16 + o + (2 * (x / 16)) * 8) by lia.
  now rewrite Z.mod_add by lia.
Qed.
Lemma mod16_shift x o : (x mod 16 + o) mod 16 = (x + o) mod 16.
Proof. now rewrite Zplus_mod_idemp_l. Qed.

Section Sound.
  Variable W : world.
  Variable P : params.
  Variable regs0 : reg -> Z.
  Variable xmm0 : nat -> Z * Z.
  Variable up0 : nat -> nat -> Z.
  Variable mem0 : Z -> Z.
  Let rsp0 := regs0 RSP.

  Local Notation den := (den W regs0 xmm0 mem0).

  Hypothesis Ha0 : p_a0 P = rsp0 mod 16.
  Hypothesis Hext : forall e, p_ext P = Some e -> rsp0 + 8 <= den e.
  Hypothesis Hcond : forall v k b, p_cond P = Some (v, k, b) -> (den v =? k) = b.

  Record R (a : astate) (c : cstate) : Prop := mkR {
    R_fault : cfault c = false;
    R_reg : forall r, cr c r = den (ar a r);
    R_xmm : forall x, cx c x = (den (fst (ax a x)), den (snd (ax a x)));
    R_up : au a = true -> forall x i, (x < 8)%nat -> (2 <= i < visible (Nat.min (w_level W) 2))%nat -> cu c x i = up0 x i;
    R_mem : forall o, match lookup (am a) o with
                      | Some v => cm c (rsp0 + o) = den v
                      | None => below (ahi a) o = false ->
                                (forall e, p_ext P = Some e -> rsp0 + o <> den e) ->
                                cm c (rsp0 + o) = mem0 (rsp0 + o)
                      end;
    R_zf : forall v k, azf a = Some (v, k) -> czf c = (den v =? k);
    R_n : cn c = an a;
    R_skip : cskip c = askip a;
    R_end : cend c = option_map den (aend a)
  }.

  Lemma al8 o : (p_a0 P + o) mod 8 =? 0 = true -> aligned8 (rsp0 + o) = true.
  Proof. unfold aligned8. rewrite Ha0, mod8_of_mod16. auto. Qed.

  Lemma R_setr a c r v z : R a c -> z = den v -> R (a_setr a r v) (c_setr c r z).
  Proof.
    intros [] ->. constructor; cbn; auto.
    intro x. destruct (reg_eqb x r); auto.
  Qed.

  Lemma R_setx a c i v w : R a c -> R (a_setx a i (v, w)) (c_setx c i (den v, den w)).
  Proof.
    intros []. constructor; cbn; auto.
    intro x. destruct (Nat.eqb x i); auto.
  Qed.

  Lemma R_store a c o v : R a c -> R (a_store a o v) (c_setm c (rsp0 + o) (den v)).
  Proof.
    intros []. constructor; cbn; auto.
    intro o'. destruct (Z.eqb_spec o' o) as [->|Hne].
    - now rewrite Z.eqb_refl.
    - replace (rsp0 + o' =? rsp0 + o) with false by lia. apply R_mem0.
  Qed.

  Lemma R_setzf a c z b : R a c -> (forall v k, z = Some (v, k) -> b = (den v =? k)) ->
    R (a_setzf a z) (c_setzf c b).
  Proof. intros [] H. constructor; cbn; auto. Qed.

  Lemma R_setskip a c k : R a c -> R (a_setskip a k) (c_setskip c k).
  Proof. intros []. constructor; cbn; auto. Qed.

  Lemma R_setend a c v : R a c -> R (a_setend a v) (c_setend c (den v)).
  Proof. intros []. constructor; cbn; auto. Qed.

  Lemma R_load a c o v : R a c -> a_load P a o = Some v -> cm c (rsp0 + o) = den v.
  Proof.
    intros [] H. unfold a_load in H. specialize (R_mem0 o).
    destruct (lookup (am a) o) as [u|].
    - now inversion H; subst.
    - destruct (below (ahi a) o) eqn:Hb; [discriminate|].
      destruct (p_ext P) as [e|] eqn:He.
      + destruct (o <? 8) eqn:Ho; [|discriminate]. inversion H; subst. cbn.
        apply R_mem0; auto. intros e' Heq. inversion Heq; subst e'.
        specialize (Hext e eq_refl). lia.
      + inversion H; subst. cbn. apply R_mem0; auto. discriminate.
  Qed.

  Lemma lookup_filter p m o :
    lookup (filter (fun e : Z * val => p <=? fst e) m) o = if p <=? o then lookup m o else None.
  Proof.
    induction m as [|[k v] t IH]; cbn.
    - now destruct (p <=? o).
    - destruct (p <=? k) eqn:Hk; cbn.
      + destruct (Z.eqb_spec o k) as [->|]; [now rewrite Hk | exact IH].
      + destruct (Z.eqb_spec o k) as [->|]; [rewrite Hk; rewrite Hk in IH; exact IH | exact IH].
  Qed.

  Lemma lookup_keys m o v : lookup m o = Some v -> In o (map fst m).
  Proof.
    induction m as [|[k u] t IH]; cbn; [discriminate|].
    destruct (Z.eqb_spec o k); [left; auto | right; auto].
  Qed.

  Lemma cond_sound a c b : R a c -> cond_of P a = Some b -> czf c = b.
  Proof.
    intros [] H. unfold cond_of in H.
    destruct (azf a) as [[v k]|] eqn:Ez; [|discriminate].
    destruct (p_cond P) as [[[v' k'] b']|] eqn:Ep; [|discriminate].
    destruct (val_eqb v v' && (k =? k'))%bool eqn:E; [|discriminate].
    inversion H; subst b'. apply andb_true_iff in E as [E1 E2].
    apply val_eqb_eq in E1. apply Z.eqb_eq in E2. subst v' k'.
    rewrite (R_zf0 v k eq_refl). now apply Hcond.
  Qed.

  (* the hook call *)
  Lemma R_call a c f : R a c -> aok (a_call P f a) = true -> aok a = true ->
    R (a_call P f a) (c_call W f c).
  Proof.
    intros HR Hok Hoka. pose proof HR as [].
    unfold a_call in *. unfold c_call.
    pose proof (R_reg0 RSP) as Hsp.
    destruct (ar a RSP) as [ | p | | | | | | | | ] eqn:Ersp; try (cbn in Hok; congruence).
    cbn in Hsp.
    destruct ((p_a0 P + p) mod 16 =? 0) eqn:Hal; [|cbn in Hok; congruence].
    assert (Hal' : cr c RSP mod 16 =? 0 = true).
    { rewrite Hsp. fold rsp0. rewrite <- mod16_shift, <- Ha0. exact Hal. }
    rewrite Hal'.
    (* the common part: a lemma for any resulting cell list m that describes memory correctly *)
    set (n := an a) in *.
    set (m1 := filter (fun e : Z * val => p <=? fst e) (am a)) in *.
    assert (Common : forall m wr,
      (forall o, match lookup m o with
                 | Some v => (if ((rsp0 + o <? cr c RSP) || wr (rsp0 + o))%bool then w_mem W (cn c) (rsp0 + o)
                              else cm c (rsp0 + o)) = den v
                 | None => below (Some (match ahi a with None => p | Some h => Z.max h p end)) o = false ->
                           (forall e, p_ext P = Some e -> rsp0 + o <> den e) ->
                           (if ((rsp0 + o <? cr c RSP) || wr (rsp0 + o))%bool then w_mem W (cn c) (rsp0 + o)
                            else cm c (rsp0 + o)) = mem0 (rsp0 + o)
                 end) ->
      R {| ar := fun r => if callee_saved r then ar a r else VHav n r; ax := a_call_xmm f n (ax a); au := (au a && (xmm_leaf f || xmm_wrapped f))%bool; am := m;
           ahi := Some (match ahi a with None => p | Some h => Z.max h p end);
           azf := None; an := S n; askip := askip a; aend := aend a; aok := aok a |}
        {| cr := fun r => if callee_saved r then cr c r else w_regs W (cn c) r; cx := c_call_xmm W f (cn c) (cx c) (cu c); cu := c_call_vec W f (cn c) (cx c) (cu c);
           cm := fun x => if ((x <? cr c RSP) || wr x)%bool then w_mem W (cn c) x else cm c x;
           czf := w_zf W (cn c); cn := S (cn c); cskip := cskip c; cend := cend c; cfault := cfault c |}).
    { intros m wr Hm. constructor; cbn; auto; try discriminate; try (now rewrite R_n0).
      - intro r. destruct (callee_saved r); auto. now rewrite R_n0.
      - intro x. unfold c_call_xmm, c_call_vec, a_call_xmm. rewrite R_n0. fold n.
        destruct (xmm_leaf f); [cbn; rewrite <- surjective_pairing; apply R_xmm0|].
        destruct (xmm_wrapped f).
        + destruct (Nat.ltb_spec x 8) as [Hx|Hx].
          * assert (V0 : (0 < visible (Nat.min (w_level W) 2))%nat) by (destruct (Nat.min (w_level W) 2) as [|[|?]]; cbn; lia).
            assert (V1 : (1 < visible (Nat.min (w_level W) 2))%nat) by (destruct (Nat.min (w_level W) 2) as [|[|?]]; cbn; lia).
            rewrite !arch_context_roundtrip by (auto; apply Nat.le_min_r). cbn. rewrite <- surjective_pairing. apply R_xmm0.
          * rewrite !arch_roundtrip_untouched by (auto; apply Nat.le_min_r). cbn. first [reflexivity | apply surjective_pairing].
        + cbn. first [reflexivity | apply surjective_pairing].
      - intros Hau x i Hx Hi. apply andb_true_iff in Hau as [Hau Hk]. unfold c_call_vec.
        destruct (xmm_leaf f).
        + destruct i as [|[|i]]; [lia | lia | cbn; apply R_up0; auto].
        + cbn in Hk. rewrite Hk. rewrite arch_context_roundtrip by (try apply Nat.le_min_r; auto; lia).
          destruct i as [|[|i]]; [lia | lia | cbn; apply R_up0; auto]. }
    (* memory facts for the filtered list *)
    assert (M1 : forall o, lookup m1 o = None -> below (Some (match ahi a with None => p | Some h => Z.max h p end)) o = false ->
                   (forall e, p_ext P = Some e -> rsp0 + o <> den e) -> cm c (rsp0 + o) = mem0 (rsp0 + o)).
    { intros o Hl Hb He. unfold m1 in Hl. rewrite lookup_filter in Hl.
      cbn in Hb. specialize (R_mem0 o).
      destruct (p <=? o) eqn:Hpo.
      - rewrite Hl in R_mem0. apply R_mem0; auto.
        destruct (ahi a) as [h|]; cbn; [lia|reflexivity].
      - destruct (ahi a) as [h|]; lia. }
    assert (M1s : forall o v, lookup m1 o = Some v -> p <= o /\ cm c (rsp0 + o) = den v).
    { intros o v Hl. unfold m1 in Hl. rewrite lookup_filter in Hl.
      destruct (p <=? o) eqn:Hpo; [|discriminate]. split; [lia|].
      specialize (R_mem0 o). now rewrite Hl in R_mem0. }
    destruct (may_write f) eqn:Hmw.
    - pose proof (R_reg0 RDI) as Hdi.
      destruct (ar a RDI) as [ | o | r d | | | | | | | ] eqn:Erdi; try (cbn in Hok; congruence).
      + (* slot pointer relative to rsp0 *)
        cbn in Hdi.
        destruct (p <=? o) eqn:Hpo.
        * apply (Common ((o, VCell n o) :: m1) (fun x => (true && (x =? cr c RDI))%bool)).
          intro o'. cbn [lookup].
          destruct (Z.eqb_spec o' o) as [->|Hne].
          -- rewrite Hdi. fold rsp0. rewrite Z.eqb_refl, orb_true_r. cbn. now rewrite R_n0.
          -- replace (rsp0 + o' =? cr c RDI) with false by (rewrite Hdi; fold rsp0; lia).
             rewrite andb_false_r, orb_false_r.
             destruct (lookup m1 o') as [v|] eqn:El.
             ++ destruct (M1s _ _ El) as [Hge Hv]. replace (rsp0 + o' <? cr c RSP) with false by (rewrite Hsp; fold rsp0; lia).
                exact Hv.
             ++ intros Hb He. cbn in Hb.
                replace (rsp0 + o' <? cr c RSP) with false by (rewrite Hsp; fold rsp0; destruct (ahi a); lia).
                now apply M1.
        * apply (Common m1 (fun x => (true && (x =? cr c RDI))%bool)).
          intro o'.
          destruct (lookup m1 o') as [v|] eqn:El.
          -- destruct (M1s _ _ El) as [Hge Hv].
             replace (rsp0 + o' <? cr c RSP) with false by (rewrite Hsp; fold rsp0; lia).
             replace (rsp0 + o' =? cr c RDI) with false by (rewrite Hdi; fold rsp0; lia).
             exact Hv.
          -- intros Hb He. cbn in Hb.
             replace (rsp0 + o' <? cr c RSP) with false by (rewrite Hsp; fold rsp0; destruct (ahi a); lia).
             replace (rsp0 + o' =? cr c RDI) with false by (rewrite Hdi; fold rsp0; destruct (ahi a); lia).
             now apply M1.
      + (* slot pointer that is not rsp-relative: the declared external pointer *)
        destruct (p_ext P) as [e|] eqn:He; [|cbn in Hok; congruence].
        destruct (val_eqb e (VOff r d) && forallb (fun e0 : Z * val => fst e0 <? 8) m1)%bool eqn:Hc;
          [|cbn in Hok; congruence].
        apply andb_true_iff in Hc as [Hc1 Hc2]. apply val_eqb_eq in Hc1. subst e.
        pose proof (Hext _ eq_refl) as Hge. cbn in Hge, Hdi.
        apply (Common m1 (fun x => (true && (x =? cr c RDI))%bool)).
        intro o'.
        destruct (lookup m1 o') as [v|] eqn:El.
        * destruct (M1s _ _ El) as [Hpo Hv].
          assert (o' < 8).
          { apply lookup_keys in El. apply in_map_iff in El as [[k u] [Hk Hin]]. cbn in Hk; subst k.
            rewrite forallb_forall in Hc2. specialize (Hc2 _ Hin). cbn in Hc2. lia. }
          replace (rsp0 + o' <? cr c RSP) with false by (rewrite Hsp; fold rsp0; lia).
          replace (rsp0 + o' =? cr c RDI) with false by (rewrite Hdi; lia).
          exact Hv.
        * intros Hb Hne. cbn in Hb.
          replace (rsp0 + o' <? cr c RSP) with false by (rewrite Hsp; fold rsp0; destruct (ahi a); lia).
          replace (rsp0 + o' =? cr c RDI) with false by (rewrite Hdi; specialize (Hne _ eq_refl); cbn in Hne; lia).
          now apply M1.
    - apply (Common m1 (fun x => (false && (x =? cr c RDI))%bool)).
      intro o'. cbn.
      destruct (lookup m1 o') as [v|] eqn:El.
      + destruct (M1s _ _ El) as [Hge Hv].
        replace (rsp0 + o' <? cr c RSP) with false by (rewrite Hsp; fold rsp0; lia). exact Hv.
      + intros Hb He.
        replace (rsp0 + o' <? cr c RSP) with false by (rewrite Hsp; fold rsp0; destruct (ahi a); lia).
        now apply M1.
  Qed.

  Lemma astep_ok_mono a i : aok (astep P a i) = true -> aok a = true.
  Proof.
    intro H. destruct (aok a) eqn:E; auto. unfold astep in H. rewrite E in H. cbn in H. congruence.
  Qed.

  Lemma addr_of a c b d o : R a c -> ar a b = VPtr o -> cr c b + d = rsp0 + (o + d).
  Proof. intros [] H. rewrite R_reg0, H. cbn. unfold rsp0. lia. Qed.

  Ltac bad Hok := exfalso; cbn in Hok; congruence.

  Lemma step_sound a c i : R a c -> aok a = true -> aok (astep P a i) = true ->
    R (astep P a i) (cstep W c i).
  Proof.
    intros HR Hoka Hok. pose proof HR as [].
    unfold astep in *. unfold cstep. rewrite Hoka in *. cbn [negb] in *. rewrite R_fault0.
    rewrite R_end0. destruct (aend a) as [t|]; cbn [option_map]; [exact HR|].
    rewrite R_skip0. destruct (askip a) as [l|].
    { destruct i; try exact HR. destruct (Nat.eqb l l0); [apply R_setskip|]; exact HR. }
    destruct i.
    - (* SubI *)
      pose proof (R_reg0 r) as Hr. destruct (ar a r); try (bad Hok). cbn in Hr.
      apply R_setzf; [apply R_setr; auto; cbn; lia | discriminate].
    - (* AddI *)
      pose proof (R_reg0 r) as Hr. destruct (ar a r); try (bad Hok). cbn in Hr.
      apply R_setzf; [apply R_setr; auto; cbn; lia | discriminate].
    - (* AndI *)
      destruct (k =? -16); [|bad Hok].
      pose proof (R_reg0 r) as Hr. destruct (ar a r); try (bad Hok). cbn in Hr.
      apply R_setzf; [apply R_setr; auto | discriminate].
      cbn. rewrite Hr, Ha0, mod16_shift. unfold rsp0. lia.
    - (* MovRR *) apply R_setr; auto.
    - (* MovRM *)
      destruct (ar a base) eqn:Eb; try (bad Hok).
      destruct ((p_a0 P + (o + disp)) mod 8 =? 0) eqn:Hal; [|bad Hok].
      rewrite (addr_of a c base disp o HR Eb), (al8 _ Hal), R_reg0. now apply R_store.
    - (* MovMR *)
      destruct (ar a base) eqn:Eb; try (bad Hok).
      destruct ((p_a0 P + (o + disp)) mod 8 =? 0) eqn:Hal; [|bad Hok].
      destruct (a_load P a (o + disp)) as [v|] eqn:El; [|bad Hok].
      rewrite (addr_of a c base disp o HR Eb), (al8 _ Hal).
      apply R_setr; auto. eapply R_load; eauto.
    - (* Lea *)
      pose proof (R_reg0 base) as Hb.
      destruct (ar a base) eqn:Eb; try (bad Hok); cbn in Hb.
      + destruct (reg_eqb r RSP); [bad Hok|]. apply R_setr; auto. cbn. lia.
      + apply R_setr; auto. cbn. lia.
      + apply R_setr; auto. cbn. lia.
    - (* Push *)
      destruct (ar a RSP) eqn:Eb; try (bad Hok).
      destruct ((p_a0 P + (o - 8)) mod 8 =? 0) eqn:Hal; [|bad Hok].
      replace (cr c RSP - 8) with (rsp0 + (o - 8)) by (rewrite R_reg0, Eb; cbn; unfold rsp0; lia).
      rewrite (al8 _ Hal), R_reg0.
      apply R_store. apply R_setr; auto.
    - (* Pop *)
      destruct (ar a RSP) eqn:Eb; try (bad Hok).
      destruct ((p_a0 P + o) mod 8 =? 0) eqn:Hal; [|bad Hok].
      destruct (a_load P a o) as [v|] eqn:El; [|bad Hok].
      replace (cr c RSP) with (rsp0 + o) by (rewrite R_reg0, Eb; reflexivity).
      rewrite (al8 _ Hal).
      apply R_setr; [apply R_setr; auto; cbn; unfold rsp0; lia | eapply R_load; eauto].
    - (* MovdquRM *)
      destruct (ar a base) eqn:Eb; try (bad Hok).
      destruct ((p_a0 P + (o + disp)) mod 8 =? 0) eqn:Hal; [|bad Hok].
      rewrite (addr_of a c base disp o HR Eb), (al8 _ Hal), R_xmm0. cbn [fst snd].
      replace (rsp0 + (o + disp) + 8) with (rsp0 + (o + disp + 8)) by lia.
      apply R_store. now apply R_store.
    - (* MovdquMR *)
      destruct (ar a base) eqn:Eb; try (bad Hok).
      destruct ((p_a0 P + (o + disp)) mod 8 =? 0) eqn:Hal; [|bad Hok].
      destruct (a_load P a (o + disp)) as [v|] eqn:El; [|bad Hok].
      destruct (a_load P a (o + disp + 8)) as [w|] eqn:El2; [|bad Hok].
      rewrite (addr_of a c base disp o HR Eb), (al8 _ Hal).
      replace (rsp0 + (o + disp) + 8) with (rsp0 + (o + disp + 8)) by lia.
      rewrite (R_load a c _ _ HR El), (R_load a c _ _ HR El2). now apply R_setx.
    - (* CmpI *)
      apply R_setzf; auto. intros v k' H. inversion H; subst. now rewrite R_reg0.
    - (* CmovzG *)
      destruct (cond_of P a) as [[|]|] eqn:Ec; [| |bad Hok];
        rewrite (cond_sound a c _ HR Ec); auto.
      apply R_setr; auto. cbn. now rewrite R_n0.
    - (* Jz *)
      destruct (cond_of P a) as [[|]|] eqn:Ec; [| |bad Hok];
        rewrite (cond_sound a c _ HR Ec); auto.
      now apply R_setskip.
    - (* Label *) exact HR.
    - (* JmpR *) rewrite R_reg0. now apply R_setend.
    - (* Call *) now apply R_call.
    - (* Ret *)
      destruct (ar a RSP) eqn:Eb; try (bad Hok).
      destruct ((p_a0 P + o) mod 8 =? 0) eqn:Hal; [|bad Hok].
      destruct (a_load P a o) as [v|] eqn:El; [|bad Hok].
      replace (cr c RSP) with (rsp0 + o) by (rewrite R_reg0, Eb; reflexivity).
      rewrite (al8 _ Hal), (R_load a c _ _ HR El).
      apply R_setend. apply R_setr; auto. cbn. unfold rsp0. lia.
  Qed.

  Lemma exec_sound prog : forall a c, R a c -> aok a = true -> aok (aexec P prog a) = true ->
    R (aexec P prog a) (cexec W prog c).
  Proof.
    induction prog as [|i t IH]; intros a c HR Hoka Hok; cbn in *; [exact HR|].
    assert (Hs : aok (astep P a i) = true).
    { destruct (aok (astep P a i)) eqn:E; auto.
      exfalso. clear IH HR. revert Hok. generalize (astep P a i) E. induction t as [|j t IHt]; intros b Eb; cbn.
      - congruence.
      - apply IHt. destruct (aok (astep P b j)) eqn:E2; auto. apply astep_ok_mono in E2. congruence. }
    apply IH; auto. now apply step_sound.
  Qed.

  Lemma R_init zf : R ainit (cstart regs0 xmm0 up0 mem0 zf).
  Proof.
    constructor; cbn; auto; try discriminate.
    - intro r. destruct r; cbn; auto. unfold rsp0. lia.
    - intro x. now destruct (xmm0 x).
  Qed.

  (* from the computed verdict to every concrete run *)
  Theorem stub_sound sp prog zf :
    check_stub P sp prog = true -> stub_guarantee W regs0 xmm0 up0 mem0 zf (p_ext P) sp prog.
  Proof.
    intros H. unfold stub_guarantee. set (c := cexec W prog (cstart regs0 xmm0 up0 mem0 zf)). cbv zeta.
    unfold check_stub, check_final in H.
    repeat (apply andb_true_iff in H; destruct H as [H ?]).
    rename H into Hok.
    assert (HR : R (aexec P prog ainit) c) by (apply exec_sound; [apply R_init | reflexivity | exact Hok]).
    set (a := aexec P prog ainit) in *. clearbody c a. destruct HR.
    repeat split.
    - assumption.
    - rewrite R_end0. destruct (aend a) as [v|]; [|discriminate].
      match goal with H : val_eqb v _ = true |- _ => apply val_eqb_eq in H; subst v end. reflexivity.
    - intros r Hin. rewrite R_reg0.
      match goal with H : forallb _ (s_pres sp) = true |- _ => rewrite forallb_forall in H; specialize (H r Hin);
        apply val_eqb_eq in H; rewrite H end. reflexivity.
    - rewrite R_reg0.
      match goal with H : val_eqb (ar a RSP) _ = true |- _ => apply val_eqb_eq in H; rewrite H end. reflexivity.
    - intros x Hx. rewrite R_xmm0.
      match goal with H : forallb _ xmm_regs = true |- _ => rewrite forallb_forall in H; specialize (H x) end.
      match goal with H : In x xmm_regs -> _ |- _ =>
        assert (Hin : In x xmm_regs) by (unfold xmm_regs; apply in_seq; lia); specialize (H Hin);
        apply andb_true_iff in H; destruct H as [Hx1 Hx2]; apply val_eqb_eq in Hx1, Hx2; rewrite Hx1, Hx2 end.
      cbn. now destruct (xmm0 x).
    - intros x i Hx Hi. apply R_up0; auto.
    - intros o Hge Hna Hne. specialize (R_mem0 o).
      destruct (lookup (am a) o) as [v|] eqn:El.
      + exfalso. apply lookup_keys in El. apply in_map_iff in El as [[k u] [Hk Hin]]. cbn in Hk; subst k.
        match goal with H : forallb _ (am a) = true |- _ => rewrite forallb_forall in H; specialize (H _ Hin) end.
        cbn in *.
        match goal with H : ((o <? _) || existsb _ _)%bool = true |- _ => apply orb_true_iff in H; destruct H as [Hlt|Hex] end.
        * clear - Hlt Hge. lia.
        * apply existsb_exists in Hex as [y [Hy1 Hy2]]. apply Z.eqb_eq in Hy2. subst y. contradiction.
      + apply R_mem0; auto.
        destruct (ahi a) as [h|]; cbn; [|reflexivity].
        match goal with H : (h <=? _) = true |- _ => clear - H Hge; lia end.
  Qed.
End Sound.
