(* C01 (ii) - the shadow return stack: model of the return-address hijack in libmcount
     __mcount_entry / __mcount_exit            (libmcount/mcount.c)
     __plthook_entry / __plthook_exit          (libmcount/plthook.c)
     __cygprof_entry / __cygprof_exit          (libmcount/mcount.c; parent_loc = &cygprof_dummy)
     mcount_auto_restore / mcount_auto_rehook  (libmcount/misc.c; x86_64: mcount_auto_recover = true)
     mcount_rstack_restore / mcount_rstack_rehook (libmcount/misc.c; `recover` trigger)
   and of the return trampolines' last step (`movq %rax, <slot>; retq`).
   Return-address slots are numbered; slot 0 is mtd.cygprof_dummy.  A slot holds either a real
   code address of the program or one of the two trampolines.  Definitions only - no proofs. *)
From Coq Require Import Arith List Bool.
Import ListNotations.

Inductive kind := KM | KP | KC.          (* -pg/fentry/dynamic | PLT hook | -finstrument-functions *)
Inductive word := Real (a : nat) | Tramp (k : kind).   (* Tramp KM = mcount_return_fn, Tramp KP = plthook_return *)

Definition kind_eqb (a b : kind) : bool :=
  match a, b with KM, KM | KP, KP | KC, KC => true | _, _ => false end.
Definition word_eqb (a b : word) : bool :=
  match a, b with
  | Real x, Real y => Nat.eqb x y
  | Tramp k, Tramp k' => kind_eqb k k'
  | _, _ => false
  end.

(* struct mcount_ret_stack, the fields that matter here *)
Record frame := mkF {
  floc : nat;        (* parent_loc *)
  fip : word;        (* parent_ip *)
  fkind : kind;      (* dyn_idx != MCOUNT_INVALID_DYNIDX  <->  KP;  MCOUNT_FL_CYGPROF <-> KC *)
  frec : bool        (* MCOUNT_FL_RECOVER *)
}.

Record st := mkSt {
  mem : nat -> word;         (* return-address slots *)
  rs : list frame            (* mtdp->rstack[0 .. idx-1], innermost first *)
}.

Definition DUMMY : nat := 0.
Definition upd (m : nat -> word) (l : nat) (w : word) : nat -> word :=
  fun x => if Nat.eqb x l then w else m x.

(* the trampoline a frame's slot is (re)hooked with: dyn_idx == MCOUNT_INVALID_DYNIDX ? mcount_return_fn
   : plthook_return *)
Definition hk (k : kind) : kind := match k with KP => KP | _ => KM end.
Definition is_tramp (w : word) : bool := match w with Tramp _ => true | Real _ => false end.

(* mcount_auto_restore: walk down from the previous frame, skip frames whose saved address is a
   trampoline (tail calls), restore the first real one *)
Fixpoint walk_restore (fs : list frame) (m : nat -> word) : nat -> word :=
  match fs with
  | [] => m
  | f :: t => if is_tramp (fip f) then walk_restore t m else upd m (floc f) (fip f)
  end.
Definition auto_restore (s : st) : st :=
  match rs s with
  | cur :: prev :: rest =>
      if Nat.eqb (floc cur) (floc prev) then s       (* ignore tail calls *)
      else mkSt (walk_restore (prev :: rest) (mem s)) (rs s)
  | _ => s                                           (* idx < 2 *)
  end.
Definition auto_rehook (s : st) : st :=
  match rs s with
  | cur :: prev :: _ =>
      if Nat.eqb (floc cur) (floc prev) then s
      else mkSt (upd (mem s) (floc prev) (Tramp (hk (fkind prev)))) (rs s)
  | _ => s
  end.

(* mcount_rstack_restore / mcount_rstack_rehook: every frame, innermost first *)
Fixpoint restore_all (fs : list frame) (m : nat -> word) : nat -> word :=
  match fs with
  | [] => m
  | f :: t => restore_all t (if is_tramp (fip f) then m else upd m (floc f) (fip f))
  end.
(* mcount_rstack_rehook walks from the oldest entry to the newest (since fix C01-9): of the frames of a tail-call
   chain, which share one slot, the newest writes last *)
Fixpoint rehook_all (fs : list frame) (m : nat -> word) : nat -> word :=
  match fs with
  | [] => m
  | f :: t => upd (rehook_all t m) (floc f) (Tramp (hk (fkind f)))
  end.
(* the walk as it was before the fix: newest entry first, so the OLDEST frame of a chain wrote last *)
Fixpoint rehook_all_legacy (fs : list frame) (m : nat -> word) : nat -> word :=
  match fs with
  | [] => m
  | f :: t => rehook_all_legacy t (upd m (floc f) (Tramp (hk (fkind f))))
  end.

(* __mcount_entry (k = KM) / __plthook_entry (k = KP) on the path that hooks the call *)
Definition enter_hijack (k : kind) (recover : bool) (l : nat) (s : st) : st :=
  let f := mkF l (mem s l) k recover in
  let s1 := auto_restore (mkSt (upd (mem s) l (Tramp k)) (f :: rs s)) in
  if recover then mkSt (upd (restore_all (rs s1) (mem s1)) l (Tramp KM)) (rs s1) else s1.

(* __cygprof_entry: no slot is touched *)
Definition enter_cyg (parent : nat) (s : st) : st :=
  mkSt (mem s) (mkF DUMMY (Real parent) KC false :: rs s).

(* __mcount_exit / __plthook_exit: the address handed back to the trampoline *)
Definition exit_hijack (s : st) : option (st * word) :=
  match rs s with
  | [] => None
  | f :: rest =>
      let m1 := if frec f then rehook_all (rs s) (mem s) else mem s in
      let s1 := auto_rehook (mkSt m1 (rs s)) in
      Some (mkSt (mem s1) rest, fip f)
  end.

(* __mcount_exit / __plthook_exit when tracing is being finished (mcount_should_stop(): a `finish` trigger
   or signal fired elsewhere): after the usual bookkeeping mtd_dtor() restores every return slot
   (mcount_rstack_restore) and frees the shadow stack; the address handed back is RE-READ from the slot,
   because the saved one is a trampoline when the function was tail-called *)
Definition exit_stop (s : st) : option (st * word) :=
  match rs s with
  | [] => None
  | f :: _ =>
      let m1 := if frec f then rehook_all (rs s) (mem s) else mem s in
      let s1 := auto_rehook (mkSt m1 (rs s)) in
      let m2 := restore_all (rs s) (mem s1) in
      Some (mkSt m2 [], m2 (floc f))
  end.

(* __cygprof_exit: an exit that does not meet a cygprof frame is dropped *)
Definition exit_cyg (s : st) : st :=
  match rs s with
  | f :: rest => match fkind f with KC => mkSt (mem s) rest | _ => s end
  | [] => s
  end.

(* The function returns through slot l.  While the slot holds a trampoline the trampoline runs:
   it calls the exit hook, stores the address it got back into the slot and returns through it
   (`movq %rax, 88(%rsp); ...; retq`).  plthook_exit aborts (pr_err) on a frame that is not a PLT frame.
   Result: (state, number of exit hooks run, where control finally goes) - None if libmcount died. *)
Fixpoint ret_through (fuel : nat) (l : nat) (s : st) (n : nat) : option (st * nat * word) :=
  match mem s l with
  | Real a => Some (s, n, Real a)
  | Tramp k =>
    match fuel with
    | O => None
    | S fuel' =>
      match rs s with
      | [] => None
      | f :: _ =>
        if (kind_eqb k KP && negb (kind_eqb (fkind f) KP))%bool then None
        else match exit_hijack s with
             | None => None
             | Some (s', w) => ret_through fuel' l (mkSt (upd (mem s') l w) (rs s')) (S n)
             end
      end
    end
  end.

(* ------------------------------------------------------------------ operations, as the harness runs them *)
Inductive hook := HNone | HM (recover : bool) | HP | HC.
Inductive op :=
| OPush (l a : nat)          (* a `call` instruction stores return address a into slot l *)
| OEnter (h : hook) (l : nat) (* entry hook of a function whose return-address slot is l *)
| OCygExit                   (* __cyg_profile_func_exit *)
| ORet (l : nat)             (* the function returns through slot l *)
| ORetStop (l : nat).        (* the same, after tracing was told to finish: the first exit hook tears down *)

Inductive out := UNone | URet (exits : nat) (target : word) | UDead.

Definition run_op (s : st) (o : op) : st * out :=
  match o with
  | OPush l a => (mkSt (upd (mem s) l (Real a)) (rs s), UNone)
  | OEnter HNone _ => (s, UNone)
  | OEnter (HM r) l => (enter_hijack KM r l s, UNone)
  | OEnter HP l => (enter_hijack KP false l s, UNone)
  | OEnter HC l => (enter_cyg l s, UNone)
  | OCygExit => (exit_cyg s, UNone)
  | ORet l => match ret_through (S (length (rs s))) l s 0 with
              | Some (s', n, w) => (s', URet n w)
              | None => (s, UDead)
              end
  | ORetStop l =>
      match mem s l with
      | Real a => (s, URet 0 (Real a))
      | Tramp _ =>
          match exit_stop s with
          | None => (s, UDead)
          | Some (s', w) =>
              (* the trampoline stores w into the slot and returns through it; the thread is dead for the
                 tracer, so a trampoline address here can never be resolved *)
              (mkSt (upd (mem s') l w) (rs s'), URet 1 w)
          end
      end
  end.

Fixpoint run_ops (s : st) (ops : list op) : st * list out :=
  match ops with
  | [] => (s, [])
  | o :: t => let '(s1, u) := run_op s o in
              let '(s2, us) := run_ops s1 t in (s2, u :: us)
  end.

(* ------------------------------------------------------------------ --estimate-return *)
(* With mcount_estimate_return no return address is hijacked and no exit hook runs for -pg/PLT frames:
   __mcount_entry / __plthook_entry only push a frame, after mcount_rstack_inject_return() has closed
   (with an estimated exit time) every frame whose slot is not above the new one's.  Stack addresses grow
   downwards: a larger slot number is a LOWER address; `parent_loc > frame_pointer` is `floc f < l`.
   __cygprof_entry passes the frame pointer ~0UL. *)
Fixpoint pop_while (l : nat) (fs : list frame) : list frame :=
  match fs with
  | [] => []
  | f :: t => if Nat.eqb (floc f) DUMMY then fs
              else if Nat.ltb (floc f) l then fs
              else pop_while l t
  end.
Fixpoint pop_until_dummy (fs : list frame) : list frame :=
  match fs with
  | [] => []
  | f :: t => if Nat.eqb (floc f) DUMMY then fs else pop_until_dummy t
  end.
Definition inject_return (fp : option nat) (fs : list frame) : list frame :=
  match fs with
  | [] => []
  | f :: t =>
      match fp with
      | Some l => if (kind_eqb (fkind f) KP && Nat.ltb (floc f) l)%bool then t   (* PLT sibling in the same module *)
                  else pop_while l fs
      | None => pop_until_dummy fs
      end
  end.

Definition enter_est (k : kind) (l : nat) (s : st) : st :=
  mkSt (mem s) (mkF l (mem s l) k false :: inject_return (Some l) (rs s)).
Definition enter_cyg_est (parent : nat) (s : st) : st :=
  mkSt (mem s) (mkF DUMMY (Real parent) KC false :: inject_return None (rs s)).

Definition run_op_est (s : st) (o : op) : st * out :=
  match o with
  | OPush l a => (mkSt (upd (mem s) l (Real a)) (rs s), UNone)
  | OEnter HNone _ => (s, UNone)
  | OEnter (HM _) l => (enter_est KM l s, UNone)        (* the `recover` trigger is ignored in this mode *)
  | OEnter HP l => (enter_est KP l s, UNone)
  | OEnter HC l => (enter_cyg_est l s, UNone)
  | OCygExit => (exit_cyg s, UNone)
  | ORet l | ORetStop l =>
      (* the function returns through whatever its slot holds: nothing ever put a trampoline there *)
      (s, URet 0 (mem s l))
  end.

Fixpoint run_ops_est (s : st) (ops : list op) : st * list out :=
  match ops with
  | [] => (s, [])
  | o :: t => let '(s1, u) := run_op_est s o in
              let '(s2, us) := run_ops_est s1 t in (s2, u :: us)
  end.

(* ------------------------------------------------------------------ programs as call trees *)
(* One activation: its return address, the hook its entry met (HNone: not instrumented, filtered out,
   or beyond the depth limit), the calls it makes, and the functions it then tail-calls (they run
   on the same return-address slot). *)
Inductive call := Call (ra : nat) (h : hook) (kids : list call) (tails : list call).
Definition ra_of (c : call) : nat := match c with Call a _ _ _ => a end.

Fixpoint body (d : nat) (c : call) : list op :=
  match c with
  | Call _ h kids tails =>
      OEnter h d
      :: concat (map (fun k => OPush (S d) (ra_of k) :: body (S d) k ++ [ORet (S d)]) kids)
      ++ (match h with HC => [OCygExit] | _ => [] end)
      ++ concat (map (body d) tails)
  end.
Definition full (d : nat) (c : call) : list op := OPush d (ra_of c) :: body d c ++ [ORet d].

(* what the same program does without uftrace: every function returns to its caller *)
Fixpoint native_body (c : call) : list word :=
  match c with
  | Call _ _ kids tails =>
      concat (map (fun k => native_body k ++ [Real (ra_of k)]) kids) ++ concat (map native_body tails)
  end.
Definition native (c : call) : list word := native_body c ++ [Real (ra_of c)].

Definition targets (us : list out) : list (option word) :=
  concat (map (fun u => match u with URet _ w => [Some w] | UDead => [None] | UNone => [] end) us).

Fixpoint no_recover (c : call) : bool :=
  match c with
  | Call _ h kids tails =>
      (match h with HM true => false | _ => true end) && forallb no_recover kids && forallb no_recover tails
  end.
Fixpoint no_plt (c : call) : bool :=
  match c with
  | Call _ h kids tails =>
      (match h with HP => false | _ => true end) && forallb no_plt kids && forallb no_plt tails
  end.

(* ------------------------------------------------------------------ threads *)
(* struct mcount_thread_data (mtd) is thread-local and every thread has its own stack: a multi-threaded
   run is a schedule of (thread, operation) pairs over one shadow state per thread *)
Definition tupd (ss : nat -> st) (t : nat) (s : st) : nat -> st := fun x => if Nat.eqb x t then s else ss x.
Fixpoint run_sched (ss : nat -> st) (sched : list (nat * op)) : (nat -> st) * list (nat * out) :=
  match sched with
  | [] => (ss, [])
  | (t, o) :: r => let '(s1, u) := run_op (ss t) o in
                   let '(ss2, us) := run_sched (tupd ss t s1) r in (ss2, (t, u) :: us)
  end.
Definition proj {A} (t : nat) (l : list (nat * A)) : list A :=
  map snd (filter (fun p => Nat.eqb (fst p) t) l).

(* ------------------------------------------------------------------ checker used by the tie *)
(* On observed outputs (from libmcount itself): every return went where the native program's
   return goes, and the slots below the top frame hold what they held before the call. *)
Fixpoint list_eqb {A} (eqb : A -> A -> bool) (a b : list A) : bool :=
  match a, b with
  | [], [] => true
  | x :: a', y :: b' => eqb x y && list_eqb eqb a' b'
  | _, _ => false
  end.
Definition oword_eqb (a b : option word) : bool :=
  match a, b with Some x, Some y => word_eqb x y | None, None => true | _, _ => false end.

Definition ok_returns (c : call) (us : list out) : bool :=
  list_eqb oword_eqb (targets us) (map Some (native c)).

Definition snapshot (n : nat) (s : st) : list word := map (mem s) (seq 0 n).
Definition ok_slots (before after : list word) (d : nat) : bool :=
  list_eqb word_eqb (firstn d (tl before)) (firstn d (tl after)).    (* slots 1 .. d *)

Definition st0 : st := mkSt (fun _ => Real 0) [].
