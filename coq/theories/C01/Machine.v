(* C01 (i) - a small x86-64 machine for the entry/return stubs: a CONCRETE word-level semantics
   (registers, xmm halves, 8-byte memory cells, ZF) in which `call hook` is an oracle step that may
   do anything the contract below allows, and an ABSTRACT (symbolic) executor whose verdict
   [check_stub] is computed by vm_compute on the generated instruction lists of Gen/Stubs.v.
   Soundness of the abstract executor w.r.t. the concrete semantics is proved in MachineProofs.v.
   Definitions only - no proofs in this file. *)
From Coq Require Import ZArith List Bool String.
Require Import UV.C01.Isa UV.Gen.Stubs UV.C01.ArchCtx.
Import ListNotations.
Local Open Scope Z_scope.

Definition reg_eqb (a b : reg) : bool :=
  match a, b with
  | RAX, RAX | RBX, RBX | RCX, RCX | RDX, RDX | RSI, RSI | RDI, RDI | RBP, RBP | RSP, RSP
  | R8, R8 | R9, R9 | R10, R10 | R11, R11 | R12, R12 | R13, R13 | R14, R14 | R15, R15 => true
  | _, _ => false
  end.

(* System V AMD64: registers a callee must preserve *)
Definition callee_saved (r : reg) : bool :=
  match r with RBX | RBP | RSP | R12 | R13 | R14 | R15 => true | _ => false end.

(* hooks that receive the address of the caller's return-address slot as first argument and are
   entitled to overwrite that one cell (this is how the return is hijacked) *)
Definition may_write (f : string) : bool :=
  (String.eqb f "mcount_entry" || String.eqb f "plthook_entry")%bool.

(* What a hook call does to the xmm registers.
   - the six C wrappers (hook_wrappers, GENERATED from the C text of the current tree) bracket the hook
     body with mcount_save_arch_context / mcount_restore_arch_context: whatever the body and the libc
     functions it calls do, xmm0-7 go through the generated pair (ArchCtx.v); xmm8-15 are left to them;
   - mcount_find_code is a leaf of libmcount (hash lookup, built with -mgeneral-regs-only, no libc):
     assumed to leave all xmm registers alone (monitored by the objdump check, not proved);
   - any other callee: nothing is assumed. *)
Definition xmm_wrapped (f : string) : bool :=
  match find (fun p => String.eqb (fst p) f) hook_wrappers with
  | Some (_, (b, _)) => b
  | None => false
  end.
Definition xmm_leaf (f : string) : bool := String.eqb f "mcount_find_code".

(* ------------------------------------------------------------------ concrete semantics *)
(* Everything the environment may choose: what the n-th hook call leaves in the caller-saved
   registers, in the memory it may write, in ZF; and the contents of libmcount globals. *)
Record world := {
  w_regs : nat -> reg -> Z;
  w_mem : nat -> Z -> Z;
  w_zf : nat -> bool;
  w_glob : string -> nat -> Z;
  w_xmm : nat -> nat -> Z * Z;      (* what the n-th hook body (and the libc code it runs) leaves in xmm<i> *)
  w_up : nat -> nat -> nat -> Z;    (* ... and in word j >= 2 (bits 64j..) of vector register i *)
  w_ctx : nat -> Z -> Z;            (* garbage in the wrapper's context buffer before the save *)
  w_level : nat                     (* what mcount_arch_check_avx() finds: 0 xmm, 1 ymm state, >= 2 zmm state *)
}.

(* a vector register from its low 128 bits (a pair) and its words 2..7 *)
Definition join (x : nat -> Z * Z) (u : nat -> nat -> Z) : vfile :=
  fun r i => match i with O => fst (x r) | S O => snd (x r) | _ => u r i end.
Definition c_call_vec (W : world) (f : string) (n : nat) (x : nat -> Z * Z) (u : nat -> nat -> Z) : vfile :=
  if xmm_leaf f then join x u
  else if xmm_wrapped f then arch_roundtrip_now (Nat.min (w_level W) 2) (join x u) (w_ctx W n) (join (w_xmm W n) (w_up W n))
  else join (w_xmm W n) (w_up W n).
Definition c_call_xmm (W : world) (f : string) (n : nat) (x : nat -> Z * Z) (u : nat -> nat -> Z) : nat -> Z * Z :=
  fun r => (c_call_vec W f n x u r 0%nat, c_call_vec W f n x u r 1%nat).

Record cstate := {
  cr : reg -> Z;              (* general registers (words as integers; pointer arithmetic exact) *)
  cx : nat -> Z * Z;          (* xmm<i> as (low, high) 64-bit halves *)
  cu : nat -> nat -> Z;       (* words 2..7 of vector register i (bits 128-511): no stub instruction touches them *)
  cm : Z -> Z;                (* 8-byte cell at a byte address; only 8-aligned accesses are defined *)
  czf : bool;
  cn : nat;                   (* number of hook calls made so far *)
  cskip : option nat;         (* a taken forward jump: skipping to this label *)
  cend : option Z;            (* Some target: control has left the stub (ret / jmp *reg) *)
  cfault : bool               (* misaligned access, misaligned stack at a call, unsupported form *)
}.

Definition c_setr (s : cstate) (r : reg) (v : Z) : cstate :=
  {| cr := fun x => if reg_eqb x r then v else cr s x; cx := cx s; cu := cu s; cm := cm s; czf := czf s; cn := cn s;
     cskip := cskip s; cend := cend s; cfault := cfault s |}.
Definition c_setx (s : cstate) (i : nat) (v : Z * Z) : cstate :=
  {| cr := cr s; cx := fun x => if Nat.eqb x i then v else cx s x; cu := cu s; cm := cm s; czf := czf s; cn := cn s;
     cskip := cskip s; cend := cend s; cfault := cfault s |}.
Definition c_setm (s : cstate) (a : Z) (v : Z) : cstate :=
  {| cr := cr s; cx := cx s; cu := cu s; cm := fun x => if x =? a then v else cm s x; czf := czf s; cn := cn s;
     cskip := cskip s; cend := cend s; cfault := cfault s |}.
Definition c_setzf (s : cstate) (b : bool) : cstate :=
  {| cr := cr s; cx := cx s; cu := cu s; cm := cm s; czf := b; cn := cn s;
     cskip := cskip s; cend := cend s; cfault := cfault s |}.
Definition c_setskip (s : cstate) (k : option nat) : cstate :=
  {| cr := cr s; cx := cx s; cu := cu s; cm := cm s; czf := czf s; cn := cn s;
     cskip := k; cend := cend s; cfault := cfault s |}.
Definition c_setend (s : cstate) (t : Z) : cstate :=
  {| cr := cr s; cx := cx s; cu := cu s; cm := cm s; czf := czf s; cn := cn s;
     cskip := cskip s; cend := Some t; cfault := cfault s |}.
Definition c_fault (s : cstate) : cstate :=
  {| cr := cr s; cx := cx s; cu := cu s; cm := cm s; czf := czf s; cn := cn s;
     cskip := cskip s; cend := cend s; cfault := true |}.

Definition aligned8 (a : Z) : bool := a mod 8 =? 0.

(* `call f`: the stack must be 16-byte aligned; afterwards callee-saved registers, rsp and every
   memory cell at or above the caller's rsp are as before - except the one cell the hook was handed
   in %rdi if it is a slot-hijacking hook; xmm registers as [c_call_xmm] says; everything else
   (caller-saved registers, flags, memory below rsp) is whatever the environment chooses. *)
Definition c_call (W : world) (f : string) (s : cstate) : cstate :=
  let p := cr s RSP in
  if p mod 16 =? 0 then
    {| cr := fun r => if callee_saved r then cr s r else w_regs W (cn s) r;
       cx := c_call_xmm W f (cn s) (cx s) (cu s);
       cu := c_call_vec W f (cn s) (cx s) (cu s);
       cm := fun a => if ((a <? p) || (may_write f && (a =? cr s RDI)))%bool then w_mem W (cn s) a else cm s a;
       czf := w_zf W (cn s); cn := S (cn s); cskip := cskip s; cend := cend s; cfault := cfault s |}
  else c_fault s.

Definition cstep (W : world) (s : cstate) (i : insn) : cstate :=
  if cfault s then s else
  match cend s with
  | Some _ => s
  | None =>
    match cskip s with
    | Some l => match i with Label l' => if Nat.eqb l l' then c_setskip s None else s | _ => s end
    | None =>
      match i with
      | SubI k r => let v := cr s r - k in c_setzf (c_setr s r v) (v =? 0)
      | AddI k r => let v := cr s r + k in c_setzf (c_setr s r v) (v =? 0)
      | AndI k r => if k =? -16 then let v := cr s r - cr s r mod 16 in c_setzf (c_setr s r v) (v =? 0)
                    else c_fault s
      | MovRR a b => c_setr s b (cr s a)
      | MovRM a b d => let A := cr s b + d in if aligned8 A then c_setm s A (cr s a) else c_fault s
      | MovMR b d a => let A := cr s b + d in if aligned8 A then c_setr s a (cm s A) else c_fault s
      | Lea b d dst => c_setr s dst (cr s b + d)
      | Push r => let A := cr s RSP - 8 in
                  if aligned8 A then c_setm (c_setr s RSP A) A (cr s r) else c_fault s
      | Pop r => let A := cr s RSP in
                 if aligned8 A then c_setr (c_setr s RSP (A + 8)) r (cm s A) else c_fault s
      | MovdquRM x b d => let A := cr s b + d in
                          if aligned8 A then c_setm (c_setm s A (fst (cx s x))) (A + 8) (snd (cx s x))
                          else c_fault s
      | MovdquMR b d x => let A := cr s b + d in
                          if aligned8 A then c_setx s x (cm s A, cm s (A + 8)) else c_fault s
      | CmpI k r => c_setzf s (cr s r =? k)
      | CmovzG g r => if czf s then c_setr s r (w_glob W g (cn s)) else s
      | Jz l => if czf s then c_setskip s (Some l) else s
      | Label _ => s
      | JmpR r => c_setend s (cr s r)
      | Call f => c_call W f s
      | Ret => let A := cr s RSP in
               if aligned8 A then c_setend (c_setr s RSP (A + 8)) (cm s A) else c_fault s
      end
    end
  end.

Definition cexec (W : world) (prog : list insn) (s : cstate) : cstate := fold_left (cstep W) prog s.

(* a stub starts with nothing skipped, nothing ended, no fault, no call made *)
Definition cstart (regs : reg -> Z) (xmm : nat -> Z * Z) (up : nat -> nat -> Z) (mem : Z -> Z) (zf : bool) : cstate :=
  {| cr := regs; cx := xmm; cu := up; cm := mem; czf := zf; cn := 0%nat; cskip := None; cend := None; cfault := false |}.

(* ------------------------------------------------------------------ abstract executor *)
Inductive val :=
| VInit (r : reg)               (* the register's value on entry of the stub *)
| VPtr (o : Z)                  (* rsp0 + o *)
| VOff (r : reg) (d : Z)        (* (initial value of r) + d, r <> rsp *)
| VInitMem (o : Z)              (* initial content of the cell at rsp0 + o *)
| VHav (n : nat) (r : reg)      (* what the n-th hook call left in r (r = rax: its return value) *)
| VCell (n : nat) (o : Z)       (* what the n-th hook call left in the cell at rsp0 + o *)
| VGlob (g : string) (n : nat)  (* libmcount global g read after n calls *)
| VXlo (x : nat) | VXhi (x : nat)   (* halves of xmm<x> on entry *)
| VXC (n : nat) (x : nat) (hi : bool). (* what the n-th hook call left in a half of xmm<x> *)

Definition val_eqb (a b : val) : bool :=
  match a, b with
  | VInit r, VInit r' => reg_eqb r r'
  | VPtr o, VPtr o' => o =? o'
  | VOff r d, VOff r' d' => reg_eqb r r' && (d =? d')
  | VInitMem o, VInitMem o' => o =? o'
  | VHav n r, VHav n' r' => Nat.eqb n n' && reg_eqb r r'
  | VCell n o, VCell n' o' => Nat.eqb n n' && (o =? o')
  | VGlob g n, VGlob g' n' => String.eqb g g' && Nat.eqb n n'
  | VXlo x, VXlo x' => Nat.eqb x x'
  | VXhi x, VXhi x' => Nat.eqb x x'
  | VXC n x h, VXC n' x' h' => Nat.eqb n n' && Nat.eqb x x' && Bool.eqb h h'
  | _, _ => false
  end.

(* meaning of a symbolic value in a concrete run that started with (regs0, xmm0, mem0) in world W *)
Definition den (W : world) (regs0 : reg -> Z) (xmm0 : nat -> Z * Z) (mem0 : Z -> Z) (v : val) : Z :=
  match v with
  | VInit r => regs0 r
  | VPtr o => regs0 RSP + o
  | VOff r d => regs0 r + d
  | VInitMem o => mem0 (regs0 RSP + o)
  | VHav n r => w_regs W n r
  | VCell n o => w_mem W n (regs0 RSP + o)
  | VGlob g n => w_glob W g n
  | VXlo x => fst (xmm0 x)
  | VXhi x => snd (xmm0 x)
  | VXC n x h => if h then snd (w_xmm W n x) else fst (w_xmm W n x)
  end.

(* what a run of the abstract executor assumes about the concrete run it stands for *)
Record params := {
  p_a0 : Z;                            (* rsp0 mod 16 *)
  p_ext : option val;                  (* a slot pointer handed to a hook that is not rsp-relative
                                          (8(%rbp) in `mcount`): assumed >= rsp0 + 8 *)
  p_cond : option (val * Z * bool)     (* the outcome of the one comparison the stub branches on *)
}.

Record astate := {
  ar : reg -> val;
  ax : nat -> val * val;
  au : bool;                  (* the architecturally visible words 2.. of vector registers 0-7 still hold their entry values *)
  am : list (Z * val);        (* cells written since entry, newest first, keyed by offset from rsp0 *)
  ahi : option Z;             (* Some h: unlisted cells below rsp0 + h were left to a hook *)
  azf : option (val * Z);     (* Some (v,k): ZF = (v == k) *)
  an : nat;
  askip : option nat;
  aend : option val;
  aok : bool
}.

Definition a_setr (a : astate) (r : reg) (v : val) : astate :=
  {| ar := fun x => if reg_eqb x r then v else ar a x; ax := ax a; au := au a; am := am a; ahi := ahi a; azf := azf a;
     an := an a; askip := askip a; aend := aend a; aok := aok a |}.
Definition a_setx (a : astate) (i : nat) (v : val * val) : astate :=
  {| ar := ar a; ax := fun x => if Nat.eqb x i then v else ax a x; au := au a; am := am a; ahi := ahi a; azf := azf a;
     an := an a; askip := askip a; aend := aend a; aok := aok a |}.
Definition a_store (a : astate) (o : Z) (v : val) : astate :=
  {| ar := ar a; ax := ax a; au := au a; am := (o, v) :: am a; ahi := ahi a; azf := azf a;
     an := an a; askip := askip a; aend := aend a; aok := aok a |}.
Definition a_setzf (a : astate) (z : option (val * Z)) : astate :=
  {| ar := ar a; ax := ax a; au := au a; am := am a; ahi := ahi a; azf := z;
     an := an a; askip := askip a; aend := aend a; aok := aok a |}.
Definition a_setskip (a : astate) (k : option nat) : astate :=
  {| ar := ar a; ax := ax a; au := au a; am := am a; ahi := ahi a; azf := azf a;
     an := an a; askip := k; aend := aend a; aok := aok a |}.
Definition a_setend (a : astate) (v : val) : astate :=
  {| ar := ar a; ax := ax a; au := au a; am := am a; ahi := ahi a; azf := azf a;
     an := an a; askip := askip a; aend := Some v; aok := aok a |}.
Definition a_fail (a : astate) : astate :=
  {| ar := ar a; ax := ax a; au := au a; am := am a; ahi := ahi a; azf := azf a;
     an := an a; askip := askip a; aend := aend a; aok := false |}.

Fixpoint lookup (m : list (Z * val)) (o : Z) : option val :=
  match m with
  | [] => None
  | (o', v) :: t => if o =? o' then Some v else lookup t o
  end.

Definition below (h : option Z) (o : Z) : bool :=
  match h with None => false | Some x => o <? x end.

(* reading a cell: the newest write if there is one; otherwise the initial content, provided no hook
   could have touched the cell *)
Definition a_load (P : params) (a : astate) (o : Z) : option val :=
  match lookup (am a) o with
  | Some v => Some v
  | None =>
    if below (ahi a) o then None
    else match p_ext P with
         | Some _ => if o <? 8 then Some (VInitMem o) else None
         | None => Some (VInitMem o)
         end
  end.

Definition a_call_xmm (f : string) (n : nat) (x : nat -> val * val) : nat -> val * val :=
  if xmm_leaf f then x
  else if xmm_wrapped f then fun i => if Nat.ltb i 8 then x i else (VXC n i false, VXC n i true)
  else fun i => (VXC n i false, VXC n i true).

Definition a_call (P : params) (f : string) (a : astate) : astate :=
  match ar a RSP with
  | VPtr p =>
    if (p_a0 P + p) mod 16 =? 0 then
      let n := an a in
      let m1 := filter (fun e => p <=? fst e) (am a) in
      let mk m := {| ar := fun r => if callee_saved r then ar a r else VHav n r;
                     ax := a_call_xmm f n (ax a); au := (au a && (xmm_leaf f || xmm_wrapped f))%bool; am := m;
                     ahi := Some (match ahi a with None => p | Some h => Z.max h p end);
                     azf := None; an := S n; askip := askip a; aend := aend a; aok := aok a |} in
      if may_write f then
        match ar a RDI with
        | VPtr o => if p <=? o then mk ((o, VCell n o) :: m1) else mk m1
        | VOff r d =>
            match p_ext P with
            | Some e => if (val_eqb e (VOff r d) && forallb (fun e => fst e <? 8) m1)%bool then mk m1
                        else a_fail a
            | None => a_fail a
            end
        | _ => a_fail a
        end
      else mk m1
    else a_fail a
  | _ => a_fail a
  end.

Definition cond_of (P : params) (a : astate) : option bool :=
  match azf a, p_cond P with
  | Some (v, k), Some (v', k', b) => if (val_eqb v v' && (k =? k'))%bool then Some b else None
  | _, _ => None
  end.

Definition astep (P : params) (a : astate) (i : insn) : astate :=
  if negb (aok a) then a else
  match aend a with
  | Some _ => a
  | None =>
    match askip a with
    | Some l => match i with Label l' => if Nat.eqb l l' then a_setskip a None else a | _ => a end
    | None =>
      match i with
      | SubI k r => match ar a r with
                    | VPtr o => a_setzf (a_setr a r (VPtr (o - k))) None
                    | _ => a_fail a end
      | AddI k r => match ar a r with
                    | VPtr o => a_setzf (a_setr a r (VPtr (o + k))) None
                    | _ => a_fail a end
      | AndI k r => if k =? -16 then
                      match ar a r with
                      | VPtr o => a_setzf (a_setr a r (VPtr (o - (p_a0 P + o) mod 16))) None
                      | _ => a_fail a end
                    else a_fail a
      | MovRR x y => a_setr a y (ar a x)
      | MovRM x b d => match ar a b with
                       | VPtr o => if (p_a0 P + (o + d)) mod 8 =? 0 then a_store a (o + d) (ar a x) else a_fail a
                       | _ => a_fail a end
      | MovMR b d x => match ar a b with
                       | VPtr o => if (p_a0 P + (o + d)) mod 8 =? 0 then
                                     match a_load P a (o + d) with
                                     | Some v => a_setr a x v
                                     | None => a_fail a end
                                   else a_fail a
                       | _ => a_fail a end
      | Lea b d dst => match ar a b with
                       | VPtr o => a_setr a dst (VPtr (o + d))
                       | VInit r => if reg_eqb r RSP then a_fail a else a_setr a dst (VOff r d)
                       | VOff r e => a_setr a dst (VOff r (e + d))
                       | _ => a_fail a end
      | Push r => match ar a RSP with
                  | VPtr o => if (p_a0 P + (o - 8)) mod 8 =? 0
                              then a_store (a_setr a RSP (VPtr (o - 8))) (o - 8) (ar a r)
                              else a_fail a
                  | _ => a_fail a end
      | Pop r => match ar a RSP with
                 | VPtr o => if (p_a0 P + o) mod 8 =? 0 then
                               match a_load P a o with
                               | Some v => a_setr (a_setr a RSP (VPtr (o + 8))) r v
                               | None => a_fail a end
                             else a_fail a
                 | _ => a_fail a end
      | MovdquRM x b d => match ar a b with
                          | VPtr o => if (p_a0 P + (o + d)) mod 8 =? 0
                                      then a_store (a_store a (o + d) (fst (ax a x))) (o + d + 8) (snd (ax a x))
                                      else a_fail a
                          | _ => a_fail a end
      | MovdquMR b d x => match ar a b with
                          | VPtr o => if (p_a0 P + (o + d)) mod 8 =? 0 then
                                        match a_load P a (o + d), a_load P a (o + d + 8) with
                                        | Some v, Some w => a_setx a x (v, w)
                                        | _, _ => a_fail a end
                                      else a_fail a
                          | _ => a_fail a end
      | CmpI k r => a_setzf a (Some (ar a r, k))
      | CmovzG g r => match cond_of P a with
                      | Some true => a_setr a r (VGlob g (an a))
                      | Some false => a
                      | None => a_fail a end
      | Jz l => match cond_of P a with
                | Some true => a_setskip a (Some l)
                | Some false => a
                | None => a_fail a end
      | Label _ => a
      | JmpR r => a_setend a (ar a r)
      | Call f => a_call P f a
      | Ret => match ar a RSP with
               | VPtr o => if (p_a0 P + o) mod 8 =? 0 then
                             match a_load P a o with
                             | Some v => a_setend (a_setr a RSP (VPtr (o + 8))) v
                             | None => a_fail a end
                           else a_fail a
               | _ => a_fail a end
      end
    end
  end.

Definition aexec (P : params) (prog : list insn) (a : astate) : astate := fold_left (astep P) prog a.

Definition ainit : astate :=
  {| ar := fun r => if reg_eqb r RSP then VPtr 0 else VInit r;
     ax := fun x => (VXlo x, VXhi x); au := true; am := []; ahi := None; azf := None; an := 0%nat;
     askip := None; aend := None; aok := true |}.

(* ------------------------------------------------------------------ what a stub must guarantee *)
Record spec := {
  s_pres : list reg;      (* registers that hold their entry value when control leaves the stub *)
  s_rsp : Z;              (* rsp - rsp0 at that point *)
  s_target : val;         (* where control goes *)
  s_memfrom : Z;          (* every cell at rsp0 + o, o >= s_memfrom, holds its entry content ... *)
  s_allowed : list Z      (* ... except these offsets (the hijacked return-address slot) *)
}.

(* the xmm registers that carry arguments and return values *)
Definition xmm_regs : list nat := seq 0 8.

Definition check_final (P : params) (sp : spec) (a : astate) : bool :=
  aok a
  && match aend a with Some v => val_eqb v (s_target sp) | None => false end
  && forallb (fun r => val_eqb (ar a r) (VInit r)) (s_pres sp)
  && val_eqb (ar a RSP) (VPtr (s_rsp sp))
  && forallb (fun x => val_eqb (fst (ax a x)) (VXlo x) && val_eqb (snd (ax a x)) (VXhi x)) xmm_regs
  && au a
  && forallb (fun e => (fst e <? s_memfrom sp) || existsb (Z.eqb (fst e)) (s_allowed sp)) (am a)
  && match ahi a with None => true | Some h => h <=? s_memfrom sp end
  && match p_ext P with Some _ => 8 <=? s_memfrom sp | None => true end.

Definition check_stub (P : params) (sp : spec) (prog : list insn) : bool :=
  check_final P sp (aexec P prog ainit).

(* both stack alignments a caller can produce (rsp0 is 8-byte aligned) *)
Definition check_both (ext : option val) (cond : option (val * Z * bool)) (sp : spec) (prog : list insn) : bool :=
  check_stub {| p_a0 := 0; p_ext := ext; p_cond := cond |} sp prog
  && check_stub {| p_a0 := 8; p_ext := ext; p_cond := cond |} sp prog.

(* register sets *)
Definition callee_saved_regs : list reg := [RBX; RBP; R12; R13; R14; R15].
Definition arg_regs : list reg := [RDI; RSI; RDX; RCX; R8; R9].
Definition all_but_rsp : list reg := [RAX; RCX; RDX; RSI; RDI; R8; R9; R10; R11] ++ callee_saved_regs.
Definition all_but_r10_r11 : list reg := [RAX; RCX; RDX; RSI; RDI; R8; R9] ++ callee_saved_regs.
Definition ret_plain : list reg := [RAX; RDX; RDI] ++ callee_saved_regs.

(* the specifications, stub by stub *)
Definition spec_mcount : spec :=        (* -pg: parent slot is 8(%rbp) *)
  {| s_pres := all_but_rsp; s_rsp := 8; s_target := VInitMem 0; s_memfrom := 8; s_allowed := [] |}.
Definition ext_mcount : option val := Some (VOff RBP 8).
Definition spec_fentry : spec :=        (* -mfentry / patchable entry: parent slot is 8(%rsp0) *)
  {| s_pres := all_but_rsp; s_rsp := 8; s_target := VInitMem 0; s_memfrom := 8; s_allowed := [8] |}.
Definition spec_dentry : spec :=        (* dynamic: returns into the out-of-line copy of the patched code *)
  {| s_pres := all_but_rsp; s_rsp := 8; s_target := VHav 1 RAX; s_memfrom := 8; s_allowed := [8] |}.
Definition spec_xray_entry : spec :=
  {| s_pres := all_but_r10_r11; s_rsp := 8; s_target := VInitMem 0; s_memfrom := 8; s_allowed := [] |}.
Definition spec_return : spec :=        (* mcount_return / dynamic_return *)
  {| s_pres := all_but_rsp; s_rsp := 0; s_target := VHav 0 RAX; s_memfrom := 0; s_allowed := [] |}.
Definition spec_plthook_return : spec :=
  {| s_pres := ret_plain; s_rsp := 0; s_target := VHav 0 RAX; s_memfrom := 0; s_allowed := [] |}.
Definition spec_xray_exit : spec :=
  {| s_pres := ret_plain; s_rsp := 8; s_target := VInitMem 0; s_memfrom := 0; s_allowed := [] |}.
(* plt_hooker: plthook_entry returned 0 -> to the resolver, both PLT words still on the stack;
   otherwise -> to the returned address with the two words popped *)
Definition cond_plt (b : bool) : option (val * Z * bool) := Some (VHav 0 RAX, 0, b).
Definition spec_plt_resolve : spec :=
  {| s_pres := all_but_r10_r11; s_rsp := 0; s_target := VGlob "plthook_resolver_addr" 1;
     s_memfrom := 0; s_allowed := [16] |}.
Definition spec_plt_direct : spec :=
  {| s_pres := all_but_r10_r11; s_rsp := 16; s_target := VHav 0 RAX; s_memfrom := 16; s_allowed := [16] |}.

(* ------------------------------------------------------------------ the guarantee, concretely *)
(* What [spec] promises about EVERY concrete run of a stub from (regs, xmm, mem, zf) in world W:
   no fault; control leaves to the stated target; the listed registers, rsp (shifted), every architecturally
   visible bit of vector registers 0-7 (xmm/ymm/zmm: the argument/return registers) and every memory cell from rsp0 + s_memfrom upwards - except the hijacked slot(s) -
   hold their entry values. *)
Definition stub_guarantee (W : world) (regs : reg -> Z) (xmm : nat -> Z * Z) (up : nat -> nat -> Z) (mem : Z -> Z) (zf : bool)
           (ext : option val) (sp : spec) (prog : list insn) : Prop :=
  let c := cexec W prog (cstart regs xmm up mem zf) in
  cfault c = false /\
  cend c = Some (den W regs xmm mem (s_target sp)) /\
  (forall r, In r (s_pres sp) -> cr c r = regs r) /\
  cr c RSP = regs RSP + s_rsp sp /\
  (forall x, (x < 8)%nat -> cx c x = xmm x) /\
  (forall x i, (x < 8)%nat -> (2 <= i < visible (Nat.min (w_level W) 2))%nat -> cu c x i = up x i) /\
  (forall o, s_memfrom sp <= o -> ~ In o (s_allowed sp) ->
             (forall e, ext = Some e -> regs RSP + o <> den W regs xmm mem e) ->
             cm c (regs RSP + o) = mem (regs RSP + o)).
