(* C01 - the descriptor table is a process-wide resource the traced program shares with libmcount.
   libmcount keeps descriptors of its own (the pipe to uftrace .channel, the --logfile descriptor); since fix C01-10 they
   are moved to the top of the table (mcount_move_fd_high), and the interposed close() swallows a close of the pipe.
   Model: the kernel's table is the union of the program's descriptors P and libmcount's set L; open/dup hand out the
   lowest free number below the limit N. *)
From Coq Require Import Arith List Bool Lia.
Import ListNotations.

Definition table := nat -> bool.
Definition tset (t : table) (fd : nat) (b : bool) : table := fun x => if Nat.eqb x fd then b else t x.
Definition union (p : table) (l : list nat) : table := fun x => p x || existsb (Nat.eqb x) l.

Inductive fop := FClose (fd : nat) | FOpen | FDup (fd : nat) | FDup2 (a b : nat) | FGetfd (fd : nat).
Inductive fres := ROk (n : nat) | RBadf | RMfile.

(* lowest free descriptor in [from, from + fuel) *)
Fixpoint lowest (t : table) (from fuel : nat) : option nat :=
  match fuel with
  | O => None
  | S f => if t from then lowest t (S from) f else Some from
  end.

(* the kernel *)
Definition kstep (N : nat) (t : table) (o : fop) : table * fres :=
  match o with
  | FClose fd => if t fd then (tset t fd false, ROk 0) else (t, RBadf)
  | FOpen => match lowest t 0 N with Some n => (tset t n true, ROk n) | None => (t, RMfile) end
  | FDup fd => if t fd then match lowest t 0 N with Some n => (tset t n true, ROk n) | None => (t, RMfile) end
               else (t, RBadf)
  | FDup2 a b => if t a then if Nat.ltb b N then (tset t b true, ROk b) else (t, RBadf) else (t, RBadf)
  | FGetfd fd => (t, if t fd then ROk 0 else RBadf)
  end.

(* under uftrace: libmcount's close() wrapper returns 0 without closing for the descriptors in [prot] *)
Definition tstep (N : nat) (prot : list nat) (t : table) (o : fop) : table * fres :=
  match o with
  | FClose fd => if existsb (Nat.eqb fd) prot then (t, ROk 0) else kstep N t o
  | _ => kstep N t o
  end.

Fixpoint krun (N : nat) (t : table) (ops : list fop) : table * list fres :=
  match ops with
  | [] => (t, [])
  | o :: r => let '(t1, x) := kstep N t o in let '(t2, xs) := krun N t1 r in (t2, x :: xs)
  end.
Fixpoint trun (N : nat) (prot : list nat) (t : table) (ops : list fop) : table * list fres :=
  match ops with
  | [] => (t, [])
  | o :: r => let '(t1, x) := tstep N prot t o in let '(t2, xs) := trun N prot t1 r in (t2, x :: xs)
  end.

(* the program stays below H: every descriptor it names and every descriptor the native run hands out is < H *)
Definition below (H : nat) (o : fop) (x : fres) : bool :=
  match o with
  | FClose fd | FDup fd | FGetfd fd => Nat.ltb fd H
  | FDup2 a b => Nat.ltb a H && Nat.ltb b H
  | FOpen => true
  end && match x with ROk n => Nat.ltb n H | RBadf => true | RMfile => false end.
Fixpoint stays_below (N H : nat) (t : table) (ops : list fop) : bool :=
  match ops with
  | [] => true
  | o :: r => let '(t1, x) := kstep N t o in below H o x && stays_below N H t1 r
  end.
