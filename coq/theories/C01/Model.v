(* C01 - Tracing never changes what the traced program computes: the executable model.
     (i)   Machine.v  x86-64 stub machine: concrete semantics + abstract executor + stub specs
     (ii)  Shadow.v   the shadow return stack (slot hijack / auto-restore / rehook / trampolines)
     (iii) errno preserved around the hooks                                   (this file)
     (iv)  the xmm save/restore pair around script and memory-region hooks    (this file)
   plus the checkers the run-time tie evaluates on the implementation's outputs.
   Definitions only - no proofs. *)
From Coq Require Import ZArith List Bool String.
Require Export UV.C01.Isa UV.C01.ArchCtx UV.C01.Machine UV.C01.Shadow.
Require Import UV.Gen.Stubs.
Import ListNotations.
Local Open Scope Z_scope.

(* ------------------------------------------------------------------ (iii) errno *)
(* mcount_entry, mcount_exit, plthook_entry, plthook_exit, cygprof_entry/exit, xray_entry/exit:
     int saved_errno = errno;  r = __hook(...);  errno = saved_errno;  return r;
   the inner hook may leave anything in errno *)
Definition with_saved_errno {A} (inner : Z -> A * Z) (errno : Z) : A * Z :=
  let saved := errno in
  let '(r, _) := inner errno in
  (r, saved).

(* ------------------------------------------------------------------ (iv) arch context: see ArchCtx.v *)
(* argument registers xmm0-7 hold what they held before *)
Definition zeq (a b : Z) : bool := a =? b.
Definition pair_eqb (a b : Z * Z) : bool := zeq (fst a) (fst b) && zeq (snd a) (snd b).
Definition ok_xmm (before after : list (Z * Z)) : bool :=
  list_eqb pair_eqb (firstn 8 before) (firstn 8 after).
Definition xlist (x : xfile) : list (Z * Z) := map x (seq 0 16).
Definition xof (l : list (Z * Z)) : xfile := fun i => nth i l (0, 0).
(* vector registers as lists of eight 64-bit words *)
Definition wlist_eqb (a b : list Z) : bool := list_eqb zeq a b.
Definition vlist (x : vfile) : list (list Z) := map (fun r => map (x r) (seq 0 8)) (seq 0 16).
Definition vof (l : list (list Z)) : vfile := fun r i => nth i (nth r l []) 0.
(* what must come back: every architecturally visible word of registers 0-7 *)
Definition ok_vec (level : nat) (before after : list (list Z)) : bool :=
  list_eqb wlist_eqb (map (firstn (visible level)) (firstn 8 before)) (map (firstn (visible level)) (firstn 8 after)).

(* ------------------------------------------------------------------ the tie's bookkeeping *)
Fixpoint bad_indices {A} (f : A -> bool) (l : list A) (i : nat) : list nat :=
  match l with
  | [] => []
  | x :: r => if f x then bad_indices f r (S i) else i :: bad_indices f r (S i)
  end.

(* shadow-stack case: a call tree, the operation list the harness executed, and per operation the
   implementation's output and its snapshot of slots 0..n-1 *)
Definition op_eqb (a b : op) : bool :=
  match a, b with
  | OPush l x, OPush l' x' => Nat.eqb l l' && Nat.eqb x x'
  | OEnter h l, OEnter h' l' =>
      Nat.eqb l l' && match h, h' with
                      | HNone, HNone | HP, HP | HC, HC => true
                      | HM r, HM r' => Bool.eqb r r'
                      | _, _ => false end
  | OCygExit, OCygExit => true
  | ORet l, ORet l' => Nat.eqb l l'
  | ORetStop l, ORetStop l' => Nat.eqb l l'
  | _, _ => false
  end.
Definition out_eqb (a b : out) : bool :=
  match a, b with
  | UNone, UNone | UDead, UDead => true
  | URet n w, URet n' w' => Nat.eqb n n' && word_eqb w w'
  | _, _ => false
  end.

Fixpoint run_trace (n : nat) (s : st) (ops : list op) : list (out * nat * list word) :=
  match ops with
  | [] => []
  | o :: t => let '(s1, u) := run_op s o in (u, List.length (rs s1), snapshot n s1) :: run_trace n s1 t
  end.

Record shadow_case := {
  sc_tree : call;
  sc_ops : list op;                             (* what the driver sent to libmcount *)
  sc_obs : list (out * nat * list word);        (* per operation: result, mtd.idx, slots 0..n-1 *)
  sc_errno : list bool;                         (* per hook call: errno after = errno before *)
  sc_nslots : nat
}.
Definition obs_eqb (a b : out * nat * list word) : bool :=
  out_eqb (fst (fst a)) (fst (fst b)) && Nat.eqb (snd (fst a)) (snd (fst b)) && list_eqb word_eqb (snd a) (snd b).
(* model = implementation, and the driver's linearisation is the model's [full 1 tree] *)
Definition shadow_agrees (c : shadow_case) : bool :=
  list_eqb op_eqb (sc_ops c) (full 1 (sc_tree c))
  && list_eqb obs_eqb (run_trace (sc_nslots c) st0 (sc_ops c)) (sc_obs c).
(* the property on the implementation's own outputs: every return went where the native program's
   return goes; at the end the shadow stack is empty and the outermost slot holds its real address *)
Definition shadow_ok (c : shadow_case) : bool :=
  ok_returns (sc_tree c) (map (fun o => fst (fst o)) (sc_obs c))
  && forallb (fun b => b) (sc_errno c)
  && match rev (sc_obs c) with
     | (_, idx, last) :: _ => Nat.eqb idx 0 && word_eqb (nth 1 last (Tramp KM)) (Real (ra_of (sc_tree c)))
     | [] => false
     end.

(* arch-context case: xmm0-15 before, the clobber, and what the real pair left *)
Record xmm_case := { xc_level : nat; xc_before : list (list Z); xc_clobber : list (list Z); xc_after : list (list Z) }.
Definition xmm_agrees (c : xmm_case) : bool :=
  list_eqb wlist_eqb (vlist (arch_roundtrip_now (xc_level c) (vof (xc_before c)) (fun _ => 0) (vof (xc_clobber c)))) (xc_after c).
Definition xmm_ok (c : xmm_case) : bool := ok_vec (xc_level c) (xc_before c) (xc_after c).

(* hook-call case: xmm0..15 when the stub calls the C wrapper, and when the wrapper returns, while a libc
   function reached from the hook overwrites every xmm register *)
Record hook_xmm_case := { hx_hook : string; hx_before : list (Z * Z); hx_after : list (Z * Z) }.
Definition w_ones : world :=
  {| w_regs := fun _ _ => 0; w_mem := fun _ _ => 0; w_zf := fun _ => false; w_glob := fun _ _ => 0;
     w_xmm := fun _ _ => (18446744073709551615, 18446744073709551615); w_up := fun _ _ _ => 0; w_ctx := fun _ _ => 0; w_level := 2 |}.
Definition hook_xmm_agrees (c : hook_xmm_case) : bool :=
  list_eqb pair_eqb (firstn 8 (xlist (c_call_xmm w_ones (hx_hook c) 0 (xof (hx_before c)) (fun _ _ => 0)))) (firstn 8 (hx_after c)).
Definition hook_xmm_ok (c : hook_xmm_case) : bool := ok_xmm (hx_before c) (hx_after c).

(* finish case: a prefix of a tree's operations, then tracing is told to finish and the function that owns
   slot st_slot returns; what libmcount handed back (exits, word) and the real return address of that call *)
Record stop_case := { st_ops : list op; st_slot : nat; st_obs : out; st_expect : nat }.
Definition stop_agrees (c : stop_case) : bool :=
  let '(s, _) := run_ops st0 (st_ops c) in
  out_eqb (snd (run_op s (ORetStop (st_slot c)))) (st_obs c).
Definition stop_ok (c : stop_case) : bool :=
  match st_obs c with URet _ w => word_eqb w (Real (st_expect c)) | _ => false end.

(* --estimate-return case: like shadow_case, run with mcount_estimate_return set *)
Fixpoint run_trace_est (n : nat) (s : st) (ops : list op) : list (out * nat * list word) :=
  match ops with
  | [] => []
  | o :: t => let '(s1, u) := run_op_est s o in (u, List.length (rs s1), snapshot n s1) :: run_trace_est n s1 t
  end.
Definition est_agrees (c : shadow_case) : bool :=
  list_eqb op_eqb (sc_ops c) (full 1 (sc_tree c))
  && list_eqb obs_eqb (run_trace_est (sc_nslots c) st0 (sc_ops c)) (sc_obs c).
(* the property: returns as in the native run, errno kept, and no slot ever holds anything but what the
   program itself stored there *)
Definition est_ok (c : shadow_case) : bool :=
  ok_returns (sc_tree c) (map (fun o => fst (fst o)) (sc_obs c))
  && forallb (fun b => b) (sc_errno c)
  && forallb (fun o => forallb (fun w => negb (is_tramp w)) (tl (snd o))) (sc_obs c).

(* thread-schedule case: call trees per thread, the interleaved (thread, operation) list the driver sent,
   per step what libmcount did in that thread *)
Fixpoint run_sched_trace (n : nat) (ss : nat -> st) (sched : list (nat * op)) : list (out * nat * list word) :=
  match sched with
  | [] => []
  | (t, o) :: r => let '(s1, u) := run_op (ss t) o in
                   (u, List.length (rs s1), snapshot n s1) :: run_sched_trace n (tupd ss t s1) r
  end.
Record sched_case := {
  sd_trees : list (nat * call);
  sd_sched : list (nat * op);
  sd_obs : list (out * nat * list word);
  sd_errno : list bool;
  sd_nslots : nat
}.
Definition sched_agrees (c : sched_case) : bool :=
  forallb (fun tc => list_eqb op_eqb (proj (fst tc) (sd_sched c)) (full 1 (snd tc))) (sd_trees c)
  && list_eqb obs_eqb (run_sched_trace (sd_nslots c) (fun _ => st0) (sd_sched c)) (sd_obs c).
Definition sched_ok (c : sched_case) : bool :=
  forallb (fun tc => ok_returns (snd tc)
                       (proj (fst tc) (combine (map fst (sd_sched c)) (map (fun o => fst (fst o)) (sd_obs c)))))
          (sd_trees c)
  && forallb (fun b => b) (sd_errno c).

(* hook-call case with whole vector registers: registers 0..15 (8 words each) when the stub calls the C wrapper and
   when it returns, while a libc stand-in reached from the hook overwrites every vector register and ends with
   vzeroupper (bits 0-127 all ones, everything above zero) *)
Record hook_vec_case := { hv_level : nat; hv_hook : string; hv_before : list (list Z); hv_after : list (list Z);
                          hv_csr_before : Z; hv_csr_after : Z }.   (* MXCSR when the wrapper is called / returns *)
(* what the libc stand-in leaves in MXCSR: round-toward-zero, precision flag raised *)
Definition csr_clobber : Z := 24480.
Definition ones := 18446744073709551615.
Definition hook_call_vec (level : nat) (f : string) (x : vfile) : vfile :=
  let clobber : vfile := fun _ i => if Nat.ltb i 2 then ones else 0 in
  if xmm_leaf f then x
  else if xmm_wrapped f then arch_roundtrip_now level x (fun _ => 0) clobber
  else clobber.
Definition hook_call_csr (f : string) (csr : Z) : Z :=
  if xmm_leaf f then csr else if xmm_wrapped f then mxcsr_now csr csr_clobber else csr_clobber.
Definition hook_vec_agrees (c : hook_vec_case) : bool :=
  list_eqb wlist_eqb (firstn 8 (vlist (hook_call_vec (hv_level c) (hv_hook c) (vof (hv_before c))))) (firstn 8 (hv_after c))
  && zeq (hook_call_csr (hv_hook c) (hv_csr_before c)) (hv_csr_after c).
Definition hook_vec_ok (c : hook_vec_case) : bool :=
  ok_vec (hv_level c) (hv_before c) (hv_after c) && zeq (hv_csr_before c) (hv_csr_after c).
