(* C01 (ii) - the shadow return stack sends every return to the real caller.
   Induction over call trees (kids and tail calls nested), with an invariant that pins down the
   return-address slot of the current activation and of the innermost open frame below it, and
   keeps every other slot equal to a reference memory. *)
From Coq Require Import Arith List Bool Lia.
Require Import UV.C01.Shadow.
Import ListNotations.

(* ------------------------------------------------------------------ small facts *)
Lemma upd_same m l w : upd m l w l = w.
Proof. unfold upd. now rewrite Nat.eqb_refl. Qed.
Lemma upd_other m l w x : x <> l -> upd m l w x = m x.
Proof. unfold upd. intro H. destruct (Nat.eqb_spec x l); congruence. Qed.

Lemma run_ops_app s a b :
  run_ops s (a ++ b) =
  let '(s1, u1) := run_ops s a in let '(s2, u2) := run_ops s1 b in (s2, u1 ++ u2).
Proof.
  revert s. induction a as [|o a IH]; intro s; cbn.
  - now destruct (run_ops s b).
  - destruct (run_op s o) as [s1 u]. rewrite IH.
    destruct (run_ops s1 a) as [s2 us]. now destruct (run_ops s2 b).
Qed.

Lemma targets_app a b : targets (a ++ b) = targets a ++ targets b.
Proof. unfold targets. now rewrite map_app, concat_app. Qed.

Lemma word_eqb_refl w : word_eqb w w = true.
Proof. destruct w as [a|k]; cbn; [apply Nat.eqb_refl | now destruct k]. Qed.
Lemma list_eqb_refl {A} (eqb : A -> A -> bool) (l : list A) :
  (forall x, eqb x x = true) -> list_eqb eqb l l = true.
Proof. intro H. induction l; cbn; auto. now rewrite H, IHl. Qed.

(* nested induction principle for call trees *)
Section call_ind.
  Variable P : call -> Prop.
  Hypothesis H : forall ra h kids tails, Forall P kids -> Forall P tails -> P (Call ra h kids tails).
  Fixpoint call_ind' (c : call) : P c :=
    match c with
    | Call ra h kids tails =>
        H ra h kids tails
          ((fix go (l : list call) : Forall P l :=
              match l with [] => Forall_nil _ | x :: t => Forall_cons _ (call_ind' x) (go t) end) kids)
          ((fix go (l : list call) : Forall P l :=
              match l with [] => Forall_nil _ | x :: t => Forall_cons _ (call_ind' x) (go t) end) tails)
    end.
End call_ind.

(* ------------------------------------------------------------------ the invariant *)
Definition is_cyg (f : frame) : bool := match fkind f with KC => true | _ => false end.

(* cygprof frames point at the dummy slot and keep a real address; other frames own a real slot *)
Definition frame_wf (f : frame) : Prop :=
  frec f = false /\
  if is_cyg f then floc f = 0 /\ is_tramp (fip f) = false else 1 <= floc f.

(* a frame saved a trampoline exactly when the frame below it hijacked the same slot (tail call),
   and then it is that frame's trampoline *)
Fixpoint WFC (fs : list frame) : Prop :=
  match fs with
  | [] => True
  | f :: t =>
      WFC t /\ frame_wf f /\
      (is_cyg f = false ->
       match t with
       | g :: _ => if Nat.eqb (floc g) (floc f) then fip f = Tramp (hk (fkind g)) else is_tramp (fip f) = false
       | [] => is_tramp (fip f) = false
       end)
  end.

Fixpoint bottom_ip (fs : list frame) : word :=
  match fs with
  | [] => Real 0
  | f :: t => if is_tramp (fip f) then bottom_ip t else fip f
  end.

Definition TopHooked (m : nat -> word) (fs : list frame) : Prop :=
  match fs with
  | g :: _ => is_cyg g = true \/ m (floc g) = Tramp (hk (fkind g))
  | [] => True
  end.

(* the state at a call boundary for slot d: every open frame lives below d *)
Definition Good (d : nat) (s : st) : Prop :=
  WFC (rs s) /\ Forall (fun f => floc f < d) (rs s) /\ TopHooked (mem s) (rs s).

(* while the chain of frames on slot d is non-empty, the innermost frame below was un-hooked by
   mcount_auto_restore; everything else equals the reference memory m0 *)
Definition expected_low (chain low : list frame) (m0 : nat -> word) (l : nat) : word :=
  match chain, low with
  | _ :: _, g :: _ => if (negb (is_cyg g) && Nat.eqb l (floc g))%bool then bottom_ip low else m0 l
  | _, _ => m0 l
  end.

Record BInvW (d ra : nat) (low : list frame) (m0 : nat -> word) (s : st) (chain : list frame) : Prop := {
  B_rs : rs s = chain ++ low;
  B_ch : Forall (fun f => floc f = d /\ is_cyg f = false) chain;
  B_wf : WFC (rs s);
  B_low : forall l, 0 < l < d -> mem s l = expected_low chain low m0 l;
  B_top : match chain with
          | [] => mem s d = Real ra
          | f :: _ => mem s d = Tramp (hk (fkind f)) /\ bottom_ip chain = Real ra
          end
}.
Definition BInv (d ra : nat) (low : list frame) (m0 : nat -> word) (s : st) : Prop :=
  exists chain, BInvW d ra low m0 s chain.

Lemma hk_idem k : hk (hk k) = hk k.
Proof. now destruct k. Qed.

Lemma WFC_tail f t : WFC (f :: t) -> WFC t.
Proof. cbn. tauto. Qed.

Lemma WFC_app_r a b : WFC (a ++ b) -> WFC b.
Proof. induction a as [|f a IH]; cbn; auto. intros [H _]. auto. Qed.

(* mcount_auto_restore's walk stays inside the chain of the frame it starts from *)
Lemma walk_restore_wfc g t m : WFC (g :: t) ->
  walk_restore (g :: t) m = upd m (floc g) (bottom_ip (g :: t)).
Proof.
  revert g. induction t as [|g' t IH]; intros g Hw.
  - cbn [WFC] in Hw. destruct Hw as (_ & (_ & Hf) & Hl). cbn [walk_restore bottom_ip].
    destruct (is_tramp (fip g)) eqn:E; auto.
    exfalso. destruct (is_cyg g) eqn:C.
    + destruct Hf as [_ Hf]. congruence.
    + specialize (Hl eq_refl). congruence.
  - pose proof Hw as Hw'. cbn [WFC] in Hw'. destruct Hw' as (Ht & (_ & Hf) & Hl).
    remember (g' :: t) as fs eqn:Efs. cbn [walk_restore bottom_ip].
    destruct (is_tramp (fip g)) eqn:E; auto. subst fs.
    assert (Hc : is_cyg g = false).
    { destruct (is_cyg g) eqn:C; auto. destruct Hf as [_ Hf]. congruence. }
    specialize (Hl Hc).
    destruct (Nat.eqb_spec (floc g') (floc g)) as [Heq|Hne].
    + rewrite (IH g' Ht). now rewrite Heq.
    + congruence.
Qed.

(* ------------------------------------------------------------------ entering on slot d *)
Section ctx.
  Variables (d ra : nat) (low : list frame) (m0 : nat -> word).
  Hypothesis Hd : 1 <= d.
  Hypothesis Hlow : Forall (fun f => floc f < d) low.
  Hypothesis Htop : TopHooked m0 low.

  Lemma low_head_cyg_or_pos g t : low = g :: t -> WFC low ->
    (is_cyg g = true /\ floc g = 0) \/ (is_cyg g = false /\ 0 < floc g < d).
  Proof.
    intros E Hw. rewrite E in Hw, Hlow. destruct Hw as (_ & (_ & Hf) & _).
    apply Forall_inv in Hlow. destruct (is_cyg g); [left | right]; intuition lia.
  Qed.

  Lemma enter_hijack_BInv k s : (k = KM \/ k = KP) ->
    BInv d ra low m0 s -> BInv d ra low m0 (enter_hijack k false d s).
  Proof.
    intros Hk (chain & [Hrs Hch Hw Hm Hd']).
    assert (Hhk : hk k = k) by (destruct Hk; subst; reflexivity).
    assert (Hkc : match k with KC => true | _ => false end = false) by (destruct Hk; subst; reflexivity).
    unfold enter_hijack. set (f := mkF d (mem s d) k false).
    assert (Hfc : is_cyg f = false) by (unfold is_cyg; cbn; exact Hkc).
    assert (Hfw : frame_wf f) by (split; [reflexivity | rewrite Hfc; cbn; lia]).
    destruct chain as [|f0 ch].
    - (* first hook on this slot: not a tail call *)
      cbn [app] in Hrs. exists [f].
      assert (Hwf : WFC (f :: low)).
      { cbn [WFC]. rewrite Hrs in Hw. split; [exact Hw|]. split; [exact Hfw|].
        intros _. cbn [fip floc f]. rewrite Hd'. pose proof Hlow as HL. destruct low as [|g t]; [reflexivity|].
        apply Forall_inv in HL. destruct (Nat.eqb_spec (floc g) d); [lia | reflexivity]. }
      unfold auto_restore. cbn [rs mem]. rewrite Hrs.
      assert (Hcase : low = [] \/ exists g t, low = g :: t) by (destruct low; eauto).
      destruct Hcase as [El | (g & t & El)].
      + rewrite El in Hwf. rewrite El. constructor; cbn [rs mem app].
        * reflexivity.
        * constructor; [split; [reflexivity | exact Hfc] | constructor].
        * exact Hwf.
        * intros l Hl. rewrite upd_other by lia. rewrite Hm by lia. rewrite El. reflexivity.
        * split; [rewrite upd_same; unfold f; cbn [fkind]; now rewrite Hhk|]. cbn. now rewrite Hd'.
      + assert (Hne : floc g <> d) by (pose proof Hlow as HL; rewrite El in HL; apply Forall_inv in HL; lia).
        rewrite El in Hwf. rewrite El. cbn [floc f]. destruct (Nat.eqb_spec d (floc g)) as [E|_]; [congruence|].
        rewrite Hrs, El in Hw. rewrite (walk_restore_wfc g t _ Hw).
        constructor; cbn [rs mem app].
        * reflexivity.
        * constructor; [split; [reflexivity | exact Hfc] | constructor].
        * exact Hwf.
        * intros l Hl. cbn [expected_low].
          destruct (low_head_cyg_or_pos g t El ltac:(rewrite El; exact Hw)) as [[Hc H0]|[Hc Hp]]; rewrite Hc; cbn [negb andb].
          -- rewrite upd_other by lia. rewrite upd_other by lia. rewrite Hm by lia. rewrite El. reflexivity.
          -- destruct (Nat.eqb_spec l (floc g)) as [->|Hn].
             ++ now rewrite upd_same.
             ++ rewrite upd_other by lia. rewrite upd_other by lia. rewrite Hm by lia. rewrite El. reflexivity.
        * split; [rewrite upd_other by lia; rewrite upd_same; unfold f; cbn [fkind]; now rewrite Hhk|]. cbn. now rewrite Hd'.
    - (* tail call: the slot already holds the trampoline of the frame below *)
      destruct Hd' as [Hd1 Hd2]. exists (f :: f0 :: ch).
      assert (Hf0 : floc f0 = d) by (apply Forall_inv in Hch; tauto).
      unfold auto_restore. cbn [rs mem]. rewrite Hrs. cbn [app floc f]. rewrite Hf0, Nat.eqb_refl.
      constructor; cbn [rs mem app].
      + reflexivity.
      + constructor; [split; [reflexivity | exact Hfc] | exact Hch].
      + cbn [WFC]. split; [rewrite Hrs in Hw; exact Hw|]. split; [exact Hfw|].
        intros _. cbn [fip floc f]. rewrite Hf0, Nat.eqb_refl. exact Hd1.
      + intros l Hl. rewrite upd_other by lia. rewrite Hm by lia. reflexivity.
      + split; [rewrite upd_same; unfold f; cbn [fkind]; now rewrite Hhk|]. cbn [bottom_ip fip f]. rewrite Hd1. cbn [is_tramp]. exact Hd2.
  Qed.

  (* returning through slot d pops exactly the chain and re-hooks the frame below *)
  Lemma ret_through_BInv : forall chain s fuel n,
    BInvW d ra low m0 s chain ->
    length chain < fuel ->
    exists s3, ret_through fuel d s n = Some (s3, n + length chain, Real ra) /\
               rs s3 = low /\ (forall l, 0 < l < d -> mem s3 l = m0 l).
  Proof.
    induction chain as [|f ch IH]; intros s fuel n [Hrs Hch Hw Hm Hd'] Hfuel.
    - exists s. destruct fuel; [cbn in Hfuel; lia|]. cbn [ret_through]. rewrite Hd'. cbn.
      rewrite Nat.add_0_r. repeat split; auto.
    - destruct Hd' as [Hd1 Hd2]. destruct fuel as [|fuel]; [cbn in Hfuel; lia|].
      cbn [ret_through]. rewrite Hd1. rewrite Hrs. cbn [app].
      assert (Hnoabort : (kind_eqb (hk (fkind f)) KP && negb (kind_eqb (fkind f) KP))%bool = false)
        by (destruct (fkind f); reflexivity).
      rewrite Hnoabort. unfold exit_hijack. rewrite Hrs. cbn [app].
      pose proof Hw as Hw'. rewrite Hrs in Hw'. cbn [app WFC] in Hw'. destruct Hw' as (Hwt & (Hrec & Hfw) & Hlink).
      rewrite Hrec.
      assert (Hf : floc f = d /\ is_cyg f = false) by (apply Forall_inv in Hch; exact Hch).
      destruct Hf as [Hfd Hfc]. specialize (Hlink Hfc).
      apply Forall_inv_tail in Hch.
      destruct ch as [|g ch'].
      + (* bottom frame of the chain: hands back the real address and re-hooks the frame below *)
        cbn [app] in *. cbn [bottom_ip] in Hd2.
        assert (Hcase : low = [] \/ exists g0 t0, low = g0 :: t0) by (destruct low; eauto).
        assert (Hreal : fip f = Real ra).
        { destruct Hcase as [El | (g0 & t0 & El)]; rewrite El in Hlink.
          - rewrite Hlink in Hd2. exact Hd2.
          - pose proof Hlow as HL. rewrite El in HL. apply Forall_inv in HL. rewrite Hfd in Hlink.
            destruct (Nat.eqb_spec (floc g0) d); [lia|]. rewrite Hlink in Hd2. exact Hd2. }
        unfold auto_rehook. cbn [rs mem].
        destruct Hcase as [El | (g0 & t0 & El)].
        * rewrite El. cbn [rs mem]. rewrite Hreal.
          assert (Hmem : forall l, 0 < l < d -> upd (mem s) d (Real ra) l = m0 l).
          { intros l Hl. rewrite upd_other by lia. rewrite Hm by lia. rewrite El. reflexivity. }
          destruct fuel as [|fuel']; cbn [ret_through mem]; rewrite upd_same;
            (eexists; split; [rewrite Nat.add_1_r; reflexivity|]; cbn; split; auto).
        * assert (Hne : floc g0 <> d) by (pose proof Hlow as HL; rewrite El in HL; apply Forall_inv in HL; lia).
          rewrite El. rewrite Hfd. destruct (Nat.eqb_spec d (floc g0)) as [E|_]; [congruence|].
          cbn [rs mem]. rewrite Hreal.
          assert (Hmem : forall l, 0 < l < d ->
                    upd (upd (mem s) (floc g0) (Tramp (hk (fkind g0)))) d (Real ra) l = m0 l).
          { intros l Hl. rewrite upd_other by lia.
            destruct (low_head_cyg_or_pos g0 t0 El Hwt) as [[Hc H0]|[Hc Hp]].
            - rewrite upd_other by lia. rewrite Hm by lia. rewrite El. cbn. now rewrite Hc.
            - destruct (Nat.eqb_spec l (floc g0)) as [->|Hn].
              + rewrite upd_same. pose proof Htop as HT. rewrite El in HT. cbn in HT.
                destruct HT as [Hx|Hx]; [congruence | now rewrite Hx].
              + rewrite upd_other by lia. rewrite Hm by lia. rewrite El. cbn. rewrite Hc. cbn.
                destruct (Nat.eqb_spec l (floc g0)); [contradiction | reflexivity]. }
          destruct fuel as [|fuel']; cbn [ret_through mem]; rewrite upd_same;
            (eexists; split; [rewrite Nat.add_1_r; reflexivity|]; cbn; split; auto).
      + (* a tail-call frame: hands back the trampoline of the frame below on the same slot *)
        assert (Hg : floc g = d /\ is_cyg g = false) by (apply Forall_inv in Hch; exact Hch).
        destruct Hg as [Hgd Hgc].
        cbn [app] in *. rewrite Hgd, Hfd, Nat.eqb_refl in Hlink.
        unfold auto_rehook. cbn [rs mem]. rewrite Hfd, Hgd, Nat.eqb_refl. cbn [rs mem].
        rewrite Hlink.
        cbn [bottom_ip] in Hd2. rewrite Hlink in Hd2. cbn [is_tramp] in Hd2.
        destruct (IH (mkSt (upd (mem s) d (Tramp (hk (fkind g)))) (g :: ch' ++ low)) fuel (S n)) as (s3 & H3 & H4 & H5).
        * constructor; cbn [rs mem].
          -- reflexivity.
          -- exact Hch.
          -- exact Hwt.
          -- intros l Hl. rewrite upd_other by lia. rewrite Hm by lia. reflexivity.
          -- rewrite upd_same. split; [reflexivity | exact Hd2].
        * cbn [length] in *. lia.
        * exists s3. split; auto. rewrite H3. cbn [length]. f_equal. f_equal. f_equal. lia.
  Qed.
End ctx.

(* ------------------------------------------------------------------ the induction over call trees *)
Definition P (c : call) : Prop := forall d ra low m0 s,
  1 <= d -> no_recover c = true ->
  Forall (fun f => floc f < d) low -> TopHooked m0 low ->
  BInv d ra low m0 s ->
  exists s' outs, run_ops s (body d c) = (s', outs) /\
                  targets outs = map Some (native_body c) /\ BInv d ra low m0 s'.

Definition Q (c : call) : Prop := forall d s,
  1 <= d -> no_recover c = true -> Good d s ->
  exists s' outs, run_ops s (full d c) = (s', outs) /\
                  targets outs = map Some (native c) /\
                  rs s' = rs s /\ (forall l, 0 < l < d -> mem s' l = mem s l).

Lemma Good_ext d s s' : rs s' = rs s -> (forall l, 0 < l < d -> mem s' l = mem s l) ->
  Good d s -> Good d s'.
Proof.
  intros Hr Hm (Hw & Hl & Ht). unfold Good. rewrite Hr. repeat split; auto.
  destruct (rs s) as [|g t]; cbn in *; auto.
  destruct Ht as [Hc|Hx]; [left; exact Hc|].
  destruct (is_cyg g) eqn:C; [left; reflexivity|right].
  destruct Hw as (_ & (_ & Hf) & _). rewrite C in Hf. apply Forall_inv in Hl.
  rewrite Hm by lia. exact Hx.
Qed.

Lemma BInv_ext d ra low m0 s s' : rs s' = rs s -> (forall l, 0 < l < S d -> mem s' l = mem s l) ->
  1 <= d -> BInv d ra low m0 s -> BInv d ra low m0 s'.
Proof.
  intros Hr Hm Hd (chain & [Hrs Hch Hw Hlo Htp]). exists chain. constructor.
  - now rewrite Hr.
  - exact Hch.
  - now rewrite Hr.
  - intros l Hl. rewrite Hm by lia. now apply Hlo.
  - rewrite Hm by lia. exact Htp.
Qed.

Lemma BInv_Good d ra low m0 s : 1 <= d -> Forall (fun f => floc f < d) low -> TopHooked m0 low ->
  BInv d ra low m0 s -> Good (S d) s.
Proof.
  intros Hd Hlow Htop (chain & [Hrs Hch Hw Hlo Htp]). unfold Good. rewrite Hrs in *. repeat split.
  - exact Hw.
  - apply Forall_app. split.
    + eapply Forall_impl; [|exact Hch]. cbn. intros a [Ha _]. lia.
    + eapply Forall_impl; [|exact Hlow]. cbn. intros a Ha. lia.
  - destruct chain as [|f ch]; cbn [app].
    + destruct low as [|g t]; cbn in *; auto.
      destruct Htop as [Hc|Hx]; [left; exact Hc|].
      destruct (is_cyg g) eqn:C; [left; reflexivity|right].
      destruct Hw as (_ & (_ & Hf) & _). rewrite C in Hf. apply Forall_inv in Hlow.
      rewrite Hlo by lia. exact Hx.
    + cbn. right. apply Forall_inv in Hch. destruct Hch as [Hfd _]. rewrite Hfd. tauto.
Qed.

Lemma Q_of_P c : P c -> Q c.
Proof.
  intros HP d s Hd Hnr (Hw & Hl & Ht).
  unfold full. cbn [run_ops run_op].
  set (s1 := mkSt (upd (mem s) d (Real (ra_of c))) (rs s)).
  assert (Htop1 : TopHooked (mem s1) (rs s)).
  { destruct (rs s) as [|g t]; cbn in *; auto. destruct Ht as [Hc|Hx]; [left; exact Hc|right].
    apply Forall_inv in Hl. rewrite upd_other by lia. exact Hx. }
  assert (HB : BInv d (ra_of c) (rs s) (mem s1) s1).
  { exists []. constructor; cbn; auto. now rewrite upd_same. }
  destruct (HP d (ra_of c) (rs s) (mem s1) s1 Hd Hnr Hl Htop1 HB) as (s2 & outs & Hrun & Htg & (chain & HB2)).
  rewrite run_ops_app, Hrun. cbn [run_ops run_op].
  destruct (ret_through_BInv d (ra_of c) (rs s) (mem s1) Hd Hl Htop1 chain s2 (S (length (rs s2))) 0 HB2)
    as (s3 & Hret & Hrs3 & Hm3).
  { destruct HB2 as [Hrs2 _ _ _ _]. rewrite Hrs2, app_length. lia. }
  rewrite Hret. exists s3. eexists. split; [reflexivity|]. repeat split.
  - change (UNone :: outs ++ [URet (0 + length chain) (Real (ra_of c))])
      with ([UNone] ++ outs ++ [URet (0 + length chain) (Real (ra_of c))]).
    rewrite !targets_app, Htg. unfold native. rewrite map_app. reflexivity.
  - exact Hrs3.
  - intros l Hlt. rewrite Hm3 by lia. cbn. rewrite upd_other by lia. reflexivity.
Qed.

Lemma kids_run kids : Forall Q kids -> forall d s,
  1 <= d -> forallb no_recover kids = true -> Good (S d) s ->
  exists s' outs,
    run_ops s (concat (map (fun k => OPush (S d) (ra_of k) :: body (S d) k ++ [ORet (S d)]) kids)) = (s', outs) /\
    targets outs = map Some (concat (map (fun k => native_body k ++ [Real (ra_of k)]) kids)) /\
    rs s' = rs s /\ (forall l, 0 < l < S d -> mem s' l = mem s l).
Proof.
  induction 1 as [|k t Hk _ IH]; intros d s Hd Hnr Hg.
  - exists s, []. cbn. auto.
  - cbn in Hnr. apply andb_true_iff in Hnr as [Hn1 Hn2].
    cbn [map concat]. rewrite run_ops_app.
    destruct (Hk (S d) s ltac:(lia) Hn1 Hg) as (s1 & o1 & Hr1 & Ht1 & Hrs1 & Hm1).
    unfold full in Hr1. rewrite Hr1.
    destruct (IH d s1 Hd Hn2 (Good_ext _ _ _ Hrs1 Hm1 Hg)) as (s2 & o2 & Hr2 & Ht2 & Hrs2 & Hm2).
    rewrite Hr2. exists s2, (o1 ++ o2). split; [reflexivity|]. repeat split.
    + rewrite targets_app, Ht1, Ht2. unfold native. now rewrite <- map_app.
    + congruence.
    + intros l Hl. rewrite Hm2, Hm1 by lia. reflexivity.
Qed.

Lemma tails_run tails : Forall P tails -> forall d ra low m0 s,
  1 <= d -> forallb no_recover tails = true ->
  Forall (fun f => floc f < d) low -> TopHooked m0 low ->
  BInv d ra low m0 s ->
  exists s' outs,
    run_ops s (concat (map (body d) tails)) = (s', outs) /\
    targets outs = map Some (concat (map native_body tails)) /\ BInv d ra low m0 s'.
Proof.
  induction 1 as [|k t Hk _ IH]; intros d ra low m0 s Hd Hnr Hlow Htop HB.
  - exists s, []. cbn. auto.
  - cbn in Hnr. apply andb_true_iff in Hnr as [Hn1 Hn2].
    cbn [map concat]. rewrite run_ops_app.
    destruct (Hk d ra low m0 s Hd Hn1 Hlow Htop HB) as (s1 & o1 & Hr1 & Ht1 & HB1).
    rewrite Hr1.
    destruct (IH d ra low m0 s1 Hd Hn2 Hlow Htop HB1) as (s2 & o2 & Hr2 & Ht2 & HB2).
    rewrite Hr2. exists s2, (o1 ++ o2). split; [reflexivity|]. split; [|exact HB2].
    rewrite targets_app, Ht1, Ht2. now rewrite <- map_app.
Qed.

Theorem body_correct : forall c, P c.
Proof.
  induction c as [ra0 h kids tails IHk IHt] using call_ind'.
  assert (HQ : Forall Q kids) by (eapply Forall_impl; [apply Q_of_P | exact IHk]).
  intros d ra low m0 s Hd Hnr Hlow Htop HB.
  cbn [no_recover] in Hnr. apply andb_true_iff in Hnr as [Hnr Hnt]. apply andb_true_iff in Hnr as [Hnh Hnk].
  cbn [body native_body].
  (* what the entry hook leaves: either the invariant again, or (cygprof) one more frame on top *)
  destruct h as [|[|]| |].
  - (* not instrumented *)
    cbn [run_ops run_op].
    destruct (kids_run kids HQ d s Hd Hnk (BInv_Good _ _ _ _ _ Hd Hlow Htop HB)) as (s2 & o2 & Hr2 & Ht2 & Hrs2 & Hm2).
    rewrite run_ops_app, Hr2. cbn [app].
    destruct (tails_run tails IHt d ra low m0 s2 Hd Hnt Hlow Htop (BInv_ext _ _ _ _ _ _ Hrs2 Hm2 Hd HB))
      as (s3 & o3 & Hr3 & Ht3 & HB3).
    cbn [run_ops]. rewrite Hr3. exists s3. eexists. split; [reflexivity|]. split; [|exact HB3].
    change (UNone :: o2 ++ o3) with ([UNone] ++ o2 ++ o3). rewrite !targets_app, Ht2, Ht3, map_app. reflexivity.
  - discriminate.
  - (* -pg / fentry / dynamic entry *)
    cbn [run_ops run_op].
    pose proof (enter_hijack_BInv d ra low m0 Hd Hlow Htop KM s (or_introl eq_refl) HB) as HB1.
    set (s1 := enter_hijack KM false d s) in *.
    destruct (kids_run kids HQ d s1 Hd Hnk (BInv_Good _ _ _ _ _ Hd Hlow Htop HB1)) as (s2 & o2 & Hr2 & Ht2 & Hrs2 & Hm2).
    rewrite run_ops_app, Hr2. cbn [app].
    destruct (tails_run tails IHt d ra low m0 s2 Hd Hnt Hlow Htop (BInv_ext _ _ _ _ _ _ Hrs2 Hm2 Hd HB1))
      as (s3 & o3 & Hr3 & Ht3 & HB3).
    cbn [run_ops]. rewrite Hr3. exists s3. eexists. split; [reflexivity|]. split; [|exact HB3].
    change (UNone :: o2 ++ o3) with ([UNone] ++ o2 ++ o3). rewrite !targets_app, Ht2, Ht3, map_app. reflexivity.
  - (* PLT hook *)
    cbn [run_ops run_op].
    pose proof (enter_hijack_BInv d ra low m0 Hd Hlow Htop KP s (or_intror eq_refl) HB) as HB1.
    set (s1 := enter_hijack KP false d s) in *.
    destruct (kids_run kids HQ d s1 Hd Hnk (BInv_Good _ _ _ _ _ Hd Hlow Htop HB1)) as (s2 & o2 & Hr2 & Ht2 & Hrs2 & Hm2).
    rewrite run_ops_app, Hr2. cbn [app].
    destruct (tails_run tails IHt d ra low m0 s2 Hd Hnt Hlow Htop (BInv_ext _ _ _ _ _ _ Hrs2 Hm2 Hd HB1))
      as (s3 & o3 & Hr3 & Ht3 & HB3).
    cbn [run_ops]. rewrite Hr3. exists s3. eexists. split; [reflexivity|]. split; [|exact HB3].
    change (UNone :: o2 ++ o3) with ([UNone] ++ o2 ++ o3). rewrite !targets_app, Ht2, Ht3, map_app. reflexivity.
  - (* -finstrument-functions: a frame on the dummy slot while the body runs *)
    cbn [run_ops run_op].
    set (c0 := mkF DUMMY (Real d) KC false).
    set (s1 := enter_cyg d s).
    pose proof (BInv_Good _ _ _ _ _ Hd Hlow Htop HB) as (Hw & Hl & _).
    assert (Hg1 : Good (S d) s1).
    { unfold Good, s1, enter_cyg. cbn [rs mem]. split; [|split].
      - cbn [WFC]. split; [exact Hw|]. split; [split; [reflexivity | cbn; split; reflexivity]|]. cbn. discriminate.
      - constructor; [unfold DUMMY; cbn; lia | exact Hl].
      - cbn. left. reflexivity. }
    destruct (kids_run kids HQ d s1 Hd Hnk Hg1) as (s2 & o2 & Hr2 & Ht2 & Hrs2 & Hm2).
    rewrite run_ops_app, Hr2. rewrite run_ops_app. cbn [run_ops run_op].
    assert (Hex : exit_cyg s2 = mkSt (mem s2) (rs s)).
    { unfold exit_cyg. rewrite Hrs2. unfold s1, enter_cyg. cbn. reflexivity. }
    rewrite Hex.
    assert (HB2 : BInv d ra low m0 (mkSt (mem s2) (rs s))).
    { apply (BInv_ext d ra low m0 s); auto. }
    destruct (tails_run tails IHt d ra low m0 _ Hd Hnt Hlow Htop HB2) as (s3 & o3 & Hr3 & Ht3 & HB3).
    rewrite Hr3. exists s3. eexists. split; [reflexivity|]. split; [|exact HB3].
    change (UNone :: o2 ++ [UNone] ++ o3) with ([UNone] ++ o2 ++ [UNone] ++ o3).
    rewrite !targets_app, Ht2, Ht3, map_app. reflexivity.
Qed.

(* ------------------------------------------------------------------ the statements *)
(* every activation of every call tree returns where the untraced program returns; afterwards the
   shadow stack is what it was and every slot below holds what it held *)
Theorem returns_to_real_caller : forall c d s,
  1 <= d -> no_recover c = true -> Good d s ->
  exists s' outs, run_ops s (full d c) = (s', outs) /\
                  targets outs = map Some (native c) /\
                  rs s' = rs s /\ (forall l, 0 < l < d -> mem s' l = mem s l) /\ Good d s'.
Proof.
  intros c d s Hd Hnr Hg.
  destruct (Q_of_P c (body_correct c) d s Hd Hnr Hg) as (s' & outs & Hr & Ht & Hrs & Hm).
  exists s', outs. repeat split; auto; eapply Good_ext; eauto.
Qed.

Lemma Good_st0 : Good 1 st0.
Proof. unfold Good, st0. cbn. auto. Qed.

(* from a fresh thread: the whole program *)
Theorem program_returns_to_real_callers : forall c, no_recover c = true ->
  exists s' outs, run_ops st0 (full 1 c) = (s', outs) /\
                  targets outs = map Some (native c) /\ rs s' = [].
Proof.
  intros c Hnr. destruct (returns_to_real_caller c 1 st0 (le_n 1) Hnr Good_st0) as (s' & outs & Hr & Ht & Hrs & _).
  exists s', outs. auto.
Qed.

(* the run-time checker accepts the model's own outputs *)
Theorem checker_accepts_model : forall c, no_recover c = true ->
  ok_returns c (snd (run_ops st0 (full 1 c))) = true.
Proof.
  intros c Hnr. destruct (program_returns_to_real_callers c Hnr) as (s' & outs & Hr & Ht & _).
  rewrite Hr. cbn [snd]. unfold ok_returns. rewrite Ht. apply list_eqb_refl.
  intros [w|]; cbn; auto. apply word_eqb_refl.
Qed.

(* non-vacuity: a tree with a tail chain (-pg -> PLT -> -pg), a cygprof function calling a -pg
   function, and unhooked activations; the hypotheses hold and the run is as stated *)
Definition nv_tree : call :=
  Call 100 (HM false)
    [ Call 101 (HM false) [ Call 102 HP [ Call 103 (HM false) [] [] ] [] ] [ Call 0 HP [] [ Call 0 (HM false) [ Call 104 HNone [] [] ] [] ] ];
      Call 105 HC [ Call 106 (HM false) [] [ Call 0 HNone [ Call 107 HP [] [] ] [] ] ] [] ]
    [ Call 0 HNone [ Call 108 (HM false) [] [] ] [] ].
Example nv_tree_ok :
  no_recover nv_tree = true /\
  targets (snd (run_ops st0 (full 1 nv_tree))) = map Some (native nv_tree) /\
  length (native nv_tree) = 9.
Proof. vm_compute. repeat split; reflexivity. Qed.
(* the model also runs `recover` trees (not covered by the theorem above): one concrete instance *)
Example nv_recover_tree :
  let c := Call 100 (HM false) [ Call 101 (HM true) [ Call 102 (HM false) [] [] ] [ Call 0 (HM false) [] [] ] ] [] in
  targets (snd (run_ops st0 (full 1 c))) = map Some (native c).
Proof. vm_compute. reflexivity. Qed.

(* ------------------------------------------------------------------ finishing while frames are open *)
Lemma restore_all_notin fs : forall m l, Forall (fun f => floc f <> l) fs -> restore_all fs m l = m l.
Proof.
  induction fs as [|f t IH]; intros m l H; cbn; auto.
  rewrite IH by (eapply Forall_inv_tail; eauto). apply Forall_inv in H.
  destruct (is_tramp (fip f)); auto. now rewrite upd_other by congruence.
Qed.

Lemma restore_all_app a b m : restore_all (a ++ b) m = restore_all b (restore_all a m).
Proof. revert m. induction a as [|f t IH]; intro m; cbn; auto. Qed.

(* within the chain of one slot only the oldest frame holds a real address: it is written last *)
Lemma restore_all_chain d : forall chain low m,
  chain <> [] -> Forall (fun f => floc f = d /\ is_cyg f = false) chain ->
  Forall (fun f => floc f < d) low -> WFC (chain ++ low) ->
  restore_all chain m d = bottom_ip chain /\ is_tramp (bottom_ip chain) = false.
Proof.
  induction chain as [|f ch IH]; intros low m Hne Hch Hlow Hw; [congruence|].
  pose proof (Forall_inv Hch) as [Hfd Hfc]. apply Forall_inv_tail in Hch.
  cbn [app WFC] in Hw. destruct Hw as (Hwt & _ & Hlink). specialize (Hlink Hfc).
  cbn [restore_all bottom_ip].
  destruct ch as [|g ch'].
  - cbn [app] in Hlink. assert (Hreal : is_tramp (fip f) = false).
    { destruct low as [|g0 t0]; auto. apply Forall_inv in Hlow. rewrite Hfd in Hlink.
      destruct (Nat.eqb_spec (floc g0) d); [lia | auto]. }
    rewrite Hreal. cbn. rewrite Hfd, upd_same. auto.
  - pose proof (Forall_inv Hch) as [Hgd _]. cbn [app] in Hlink. rewrite Hgd, Hfd, Nat.eqb_refl in Hlink.
    rewrite Hlink. cbn [is_tramp]. apply (IH low m); auto. discriminate.
Qed.

(* an exit hook that meets the finish request hands back the real return address of the activation that
   owns the slot - also when the exiting function was tail-called - and leaves no shadow frame behind *)
Theorem stop_exit_returns_to_real_caller d ra low m0 s chain :
  1 <= d -> Forall (fun f => floc f < d) low ->
  BInvW d ra low m0 s chain -> chain <> [] ->
  exists s', exit_stop s = Some (s', Real ra) /\ rs s' = [] /\ mem s' d = Real ra.
Proof.
  intros Hd Hlow [Hrs Hch Hw Hm Htp] Hne.
  destruct chain as [|f ch]; [congruence|]. destruct Htp as [_ Hbot].
  unfold exit_stop. rewrite Hrs. cbn [app].
  pose proof Hw as Hw'. rewrite Hrs in Hw'. cbn [app WFC] in Hw'. destruct Hw' as (_ & (Hrec & _) & _).
  rewrite Hrec.
  pose proof (Forall_inv Hch) as [Hfd _].
  set (m1 := mem (auto_rehook {| mem := mem s; rs := f :: ch ++ low |})).
  assert (E : restore_all (f :: ch ++ low) m1 d = Real ra).
  { change (f :: ch ++ low) with ((f :: ch) ++ low). rewrite restore_all_app.
    rewrite restore_all_notin by (eapply Forall_impl; [|exact Hlow]; cbn; intros; lia).
    rewrite Hrs in Hw.
    destruct (restore_all_chain d (f :: ch) low m1 Hne Hch Hlow Hw) as [E _]. now rewrite E. }
  eexists. split; [rewrite Hfd, E; reflexivity|]. cbn. auto.
Qed.

(* why the slot must be re-read: for a tail-called function the saved parent_ip is the trampoline *)
Example stop_saved_ip_is_trampoline_refuted :
  let s := fst (run_ops st0 [OPush 1 100; OEnter (HM false) 1; OEnter (HM false) 1]) in
  option_map snd (exit_stop s) = Some (Real 100) /\
  match rs s with f :: _ => fip f = Tramp KM | [] => False end.
Proof. vm_compute. split; reflexivity. Qed.

(* ------------------------------------------------------------------ --estimate-return: nothing is hijacked *)
Lemma run_ops_est_app s a b :
  run_ops_est s (a ++ b) =
  let '(s1, u1) := run_ops_est s a in let '(s2, u2) := run_ops_est s1 b in (s2, u1 ++ u2).
Proof.
  revert s. induction a as [|o a IH]; intro s; cbn [app run_ops_est].
  - now destruct (run_ops_est s b).
  - destruct (run_op_est s o) as [s1 u]. rewrite IH.
    destruct (run_ops_est s1 a) as [s2 us]. now destruct (run_ops_est s2 b).
Qed.

(* the entry hooks and the cygprof exit never write a return-address slot *)
Lemma run_op_est_mem s o : match o with OPush _ _ => True | _ => mem (fst (run_op_est s o)) = mem s end.
Proof.
  destruct o as [l a|h l| |l|l]; cbn; auto.
  - destruct h as [|r| |]; reflexivity.
  - unfold exit_cyg. destruct (rs s) as [|f t]; auto. destruct (fkind f); reflexivity.
Qed.

Definition PE (c : call) : Prop := forall d s,
  exists s' outs, run_ops_est s (body d c) = (s', outs) /\
                  targets outs = map Some (native_body c) /\
                  (forall l, l <= d -> mem s' l = mem s l).

Definition QE (c : call) : Prop := forall d s,
  exists s' outs, run_ops_est s (full d c) = (s', outs) /\
                  targets outs = map Some (native c) /\
                  (forall l, l < d -> mem s' l = mem s l).

Lemma QE_of_PE c : PE c -> QE c.
Proof.
  intros HP d s. unfold full. cbn [run_ops_est run_op_est].
  set (s1 := mkSt (upd (mem s) d (Real (ra_of c))) (rs s)).
  destruct (HP d s1) as (s2 & outs & Hr & Ht & Hm).
  rewrite run_ops_est_app, Hr. cbn [run_ops_est run_op_est].
  exists s2. eexists. split; [reflexivity|]. split.
  - change (UNone :: outs ++ [URet 0 (mem s2 d)]) with ([UNone] ++ outs ++ [URet 0 (mem s2 d)]).
    rewrite !targets_app, Ht. unfold native. rewrite map_app. cbn.
    rewrite Hm by lia. unfold s1. cbn. now rewrite upd_same.
  - intros l Hl. rewrite Hm by lia. unfold s1. cbn. now rewrite upd_other by lia.
Qed.

Lemma kids_run_est kids : Forall QE kids -> forall d s,
  exists s' outs,
    run_ops_est s (concat (map (fun k => OPush (S d) (ra_of k) :: body (S d) k ++ [ORet (S d)]) kids)) = (s', outs) /\
    targets outs = map Some (concat (map (fun k => native_body k ++ [Real (ra_of k)]) kids)) /\
    (forall l, l <= d -> mem s' l = mem s l).
Proof.
  induction 1 as [|k t Hk _ IH]; intros d s.
  - exists s, []. cbn. auto.
  - cbn [map concat]. rewrite run_ops_est_app.
    destruct (Hk (S d) s) as (s1 & o1 & Hr1 & Ht1 & Hm1). unfold full in Hr1. rewrite Hr1.
    destruct (IH d s1) as (s2 & o2 & Hr2 & Ht2 & Hm2). rewrite Hr2.
    exists s2, (o1 ++ o2). split; [reflexivity|]. split.
    + rewrite targets_app, Ht1, Ht2. unfold native. now rewrite <- map_app.
    + intros l Hl. rewrite Hm2, Hm1 by lia. reflexivity.
Qed.

Lemma tails_run_est tails : Forall PE tails -> forall d s,
  exists s' outs,
    run_ops_est s (concat (map (body d) tails)) = (s', outs) /\
    targets outs = map Some (concat (map native_body tails)) /\
    (forall l, l <= d -> mem s' l = mem s l).
Proof.
  induction 1 as [|k t Hk _ IH]; intros d s.
  - exists s, []. cbn. auto.
  - cbn [map concat]. rewrite run_ops_est_app.
    destruct (Hk d s) as (s1 & o1 & Hr1 & Ht1 & Hm1). rewrite Hr1.
    destruct (IH d s1) as (s2 & o2 & Hr2 & Ht2 & Hm2). rewrite Hr2.
    exists s2, (o1 ++ o2). split; [reflexivity|]. split.
    + rewrite targets_app, Ht1, Ht2. now rewrite <- map_app.
    + intros l Hl. rewrite Hm2, Hm1 by lia. reflexivity.
Qed.

Theorem body_correct_est : forall c, PE c.
Proof.
  induction c as [ra0 h kids tails IHk IHt] using call_ind'.
  assert (HQ : Forall QE kids) by (eapply Forall_impl; [apply QE_of_PE | exact IHk]).
  intros d s. cbn [body native_body]. cbn [run_ops_est].
  pose proof (run_op_est_mem s (OEnter h d)) as Hm0. cbn beta iota in Hm0.
  destruct (run_op_est s (OEnter h d)) as [s1 u1] eqn:E1. cbn [fst] in Hm0.
  assert (Hu1 : u1 = UNone) by (destruct h as [|r| |]; cbn in E1; inversion E1; reflexivity).
  subst u1.
  destruct (kids_run_est kids HQ d s1) as (s2 & o2 & Hr2 & Ht2 & Hm2).
  rewrite run_ops_est_app, Hr2.
  set (cx := match h with HC => [OCygExit] | _ => [] end).
  destruct (run_ops_est s2 cx) as [s3 o3] eqn:E3.
  assert (H3 : mem s3 = mem s2 /\ targets o3 = []).
  { unfold cx in E3. destruct h as [|r| |]; cbn in E3; inversion E3; subst; auto.
    split; [|reflexivity]. pose proof (run_op_est_mem s2 OCygExit) as Hx. cbn in Hx. exact Hx. }
  destruct H3 as [Hm3 Ht3].
  rewrite run_ops_est_app, E3.
  destruct (tails_run_est tails IHt d s3) as (s4 & o4 & Hr4 & Ht4 & Hm4). rewrite Hr4.
  exists s4. eexists. split; [reflexivity|]. split.
  - change (UNone :: o2 ++ o3 ++ o4) with ([UNone] ++ o2 ++ o3 ++ o4).
    rewrite !targets_app, Ht2, Ht3, Ht4, map_app. reflexivity.
  - intros l Hl. rewrite Hm4 by lia. rewrite Hm3. rewrite Hm2 by lia. now rewrite Hm0.
Qed.

(* under --estimate-return every activation of EVERY call tree (any hooks, any triggers) returns where the
   untraced program returns, from any state, and no outer return slot changes *)
Theorem estimate_return_is_native : forall c d s,
  exists s' outs, run_ops_est s (full d c) = (s', outs) /\
                  targets outs = map Some (native c) /\
                  (forall l, l < d -> mem s' l = mem s l).
Proof. intros c. apply QE_of_PE, body_correct_est. Qed.

Example nv_estimate_return :
  targets (snd (run_ops_est st0 (full 1 nv_tree))) = map Some (native nv_tree) /\
  length (rs (fst (run_ops_est st0 (full 1 nv_tree)))) = 2.
Proof. vm_compute. split; reflexivity. Qed.

(* ------------------------------------------------------------------ thread schedules *)
(* whatever the interleaving, each thread sees exactly the run of its own operations *)
Lemma run_sched_proj sched : forall ss t,
  fst (run_sched ss sched) t = fst (run_ops (ss t) (proj t sched)) /\
  proj t (snd (run_sched ss sched)) = snd (run_ops (ss t) (proj t sched)).
Proof.
  induction sched as [|[t0 o] r IH]; intros ss t; cbn [run_sched proj filter map fst snd].
  - cbn. auto.
  - destruct (run_op (ss t0) o) as [s1 u] eqn:E.
    specialize (IH (tupd ss t0 s1) t).
    destruct (run_sched (tupd ss t0 s1) r) as [ss2 us] eqn:E2. cbn [fst snd] in *.
    unfold proj in *. cbn [filter fst].
    destruct (Nat.eqb_spec t0 t) as [->|Hne].
    + cbn [map snd run_ops]. rewrite E.
      unfold tupd in IH at 1 2. rewrite Nat.eqb_refl in IH.
      destruct (run_ops s1 (map snd (filter (fun p : nat * op => fst p =? t) r))) as [s3 us3] eqn:E3.
      cbn [fst snd] in *. destruct IH as [IH1 IH2]. split; [exact IH1|]. now rewrite IH2.
    + unfold tupd in IH at 1 2. destruct (Nat.eqb_spec t t0) as [->|_]; [congruence|]. exact IH.
Qed.

(* for all thread schedules: if every thread performs the operations of a (recover-free) call tree, every
   return of every thread goes to its real caller, however the threads are interleaved *)
Theorem threads_return_to_real_callers : forall (trees : nat -> call) (sched : list (nat * op)) (t : nat),
  proj t sched = full 1 (trees t) ->
  no_recover (trees t) = true ->
  targets (proj t (snd (run_sched (fun _ => st0) sched))) = map Some (native (trees t)) /\
  rs (fst (run_sched (fun _ => st0) sched) t) = [].
Proof.
  intros trees sched t Hp Hn.
  destruct (run_sched_proj sched (fun _ => st0) t) as [H1 H2]. rewrite H1, H2, Hp.
  destruct (program_returns_to_real_callers (trees t) Hn) as (s' & outs & Hr & Ht & Hrs).
  rewrite Hr. cbn. auto.
Qed.

(* non-vacuity: two threads, operations interleaved one by one *)
Fixpoint zip2 (a b : list op) : list (nat * op) :=
  match a, b with
  | x :: a', y :: b' => (1, x) :: (2, y) :: zip2 a' b'
  | [], _ => map (fun y => (2, y)) b
  | _, [] => map (fun x => (1, x)) a
  end.
Example nv_two_threads :
  let trees := fun t => if Nat.eqb t 1 then nv_tree else Call 200 (HM false) [Call 201 (HM false) [] [Call 0 HP [] []]] [] in
  let sched := zip2 (full 1 (trees 1)) (full 1 (trees 2)) in
  proj 1 sched = full 1 (trees 1) /\ proj 2 sched = full 1 (trees 2) /\
  targets (proj 2 (snd (run_sched (fun _ => st0) sched))) = map Some (native (trees 2)).
Proof. vm_compute. repeat split; reflexivity. Qed.
