(* C01 (iv) - proofs about the generated xmm save/restore pair *)
From Coq Require Import ZArith List Bool Lia.
Require Import UV.C01.Isa UV.Gen.Stubs UV.C01.ArchCtx.
Import ListNotations.
Local Open Scope Z_scope.

(* (iv) the generated save/restore pair gives back both halves of xmm0..xmm7, whatever ran in between
   and whatever the context buffer held *)
Lemma arch_context_roundtrip (x : xfile) (c0 : Z -> Z) (clobber : xfile) (r : nat) :
  (r < 8)%nat ->
  fst (arch_roundtrip_now x c0 clobber r) = fst (x r) /\
  snd (arch_roundtrip_now x c0 clobber r) = snd (x r).
Proof.
  intro H.
  do 8 (destruct r as [|r]; [vm_compute; split; reflexivity|]).
  lia.
Qed.

(* the pair as it was before the fix (movsd both ways): low halves survive ... *)
Lemma arch_context_legacy_low (x : xfile) (c0 : Z -> Z) (clobber : xfile) (r : nat) :
  (r < 8)%nat -> fst (arch_roundtrip_legacy x c0 clobber r) = fst (x r).
Proof.
  intro H.
  do 8 (destruct r as [|r]; [vm_compute; reflexivity|]).
  lia.
Qed.
(* ... but the high halves are zeroed: a __m128d / __float128 argument is destroyed *)
Lemma arch_context_legacy_refuted :
  exists (x : xfile) c0 clobber r, (r < 8)%nat /\ snd (arch_roundtrip_legacy x c0 clobber r) <> snd (x r).
Proof.
  exists (fun _ => (3, 7)), (fun _ => 0), (fun _ => (0, 0)), 0%nat. split; [lia|]. vm_compute. discriminate.
Qed.


(* registers the pair does not load keep whatever the code in between left there *)
Lemma arch_roundtrip_upper (x : xfile) (c0 : Z -> Z) (clobber : xfile) (r : nat) :
  (8 <= r)%nat -> arch_roundtrip_now x c0 clobber r = clobber r.
Proof.
  intro H. do 8 (destruct r as [|r]; [lia|]). vm_compute. reflexivity.
Qed.

Lemma arch_roundtrip_lower (x : xfile) (c0 : Z -> Z) (clobber : xfile) (r : nat) :
  (r < 8)%nat -> arch_roundtrip_now x c0 clobber r = x r.
Proof.
  intro H. destruct (arch_context_roundtrip x c0 clobber r H) as [H1 H2].
  rewrite (surjective_pairing (arch_roundtrip_now x c0 clobber r)), (surjective_pairing (x r)). congruence.
Qed.
