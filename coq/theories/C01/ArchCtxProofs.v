(* C01 (iv) - proofs about the generated save/restore pairs *)
From Coq Require Import ZArith List Bool Lia.
Require Import UV.C01.Isa UV.Gen.Stubs UV.C01.ArchCtx.
Import ListNotations.
Local Open Scope Z_scope.

Ltac cases8 r := do 8 (destruct r as [|r]; [|]); [.. | lia].

(* on a machine of any level the pair chosen for it gives back every architecturally visible word of the
   vector registers 0..7, whatever ran in between and whatever the context buffer held *)
Lemma arch_context_roundtrip (level : nat) (x : vfile) (c0 : Z -> Z) (clobber : vfile) (r i : nat) :
  (level <= 2)%nat -> (r < 8)%nat -> (i < visible level)%nat ->
  arch_roundtrip_now level x c0 clobber r i = x r i.
Proof.
  intros Hl Hr Hi.
  destruct level as [|[|[|level]]]; [| | |lia]; cbn [visible] in Hi.
  - do 8 (destruct r as [|r]; [do 2 (destruct i as [|i]; [vm_compute; reflexivity|]); lia|]). lia.
  - do 8 (destruct r as [|r]; [do 4 (destruct i as [|i]; [vm_compute; reflexivity|]); lia|]). lia.
  - do 8 (destruct r as [|r]; [do 8 (destruct i as [|i]; [vm_compute; reflexivity|]); lia|]). lia.
Qed.

(* registers a pair does not load keep whatever the code in between left there *)
Lemma arch_roundtrip_untouched (level : nat) (x : vfile) (c0 : Z -> Z) (clobber : vfile) (r i : nat) :
  (level <= 2)%nat -> (8 <= r)%nat -> arch_roundtrip_now level x c0 clobber r i = clobber r i.
Proof.
  intros Hl H. do 8 (destruct r as [|r]; [lia|]).
  destruct level as [|[|[|level]]]; [| | |lia]; vm_compute; reflexivity.
Qed.

(* the AVX pair on a machine whose zmm state is live (the code before fix C01-6): bits 256-511 are lost *)
Lemma arch_context_avx_only_refuted :
  exists (x : vfile) c0 clobber r i, (r < 8)%nat /\ (i < 8)%nat /\ arch_roundtrip_avx_only x c0 clobber r i <> x r i.
Proof.
  exists (fun _ _ => 5), (fun _ => 0), (fun _ _ => 0), 0%nat, 4%nat. split; [lia|]. split; [lia|].
  vm_compute. discriminate.
Qed.

(* the SSE pair on a machine whose ymm state is live (the code before fix C01-5): bits 128-255 are lost *)
Lemma arch_context_sse_only_refuted :
  exists (x : vfile) c0 clobber r i, (r < 8)%nat /\ (i < 4)%nat /\ arch_roundtrip_sse_only x c0 clobber r i <> x r i.
Proof.
  exists (fun _ _ => 5), (fun _ => 0), (fun _ _ => 0), 0%nat, 2%nat. split; [lia|]. split; [lia|].
  vm_compute. discriminate.
Qed.

(* the pair as it was before fix C01-1 (movsd both ways): bits 0-63 survive, bits 64-127 are zeroed *)
Lemma arch_context_legacy_low (x : vfile) (c0 : Z -> Z) (clobber : vfile) (r : nat) :
  (r < 8)%nat -> arch_roundtrip_legacy x c0 clobber r 0%nat = x r 0%nat.
Proof.
  intro H. do 8 (destruct r as [|r]; [vm_compute; reflexivity|]). lia.
Qed.
Lemma arch_context_legacy_refuted :
  exists (x : vfile) c0 clobber r, (r < 8)%nat /\ arch_roundtrip_legacy x c0 clobber r 1%nat <> x r 1%nat.
Proof.
  exists (fun _ _ => 7), (fun _ => 0), (fun _ _ => 0), 0%nat. split; [lia|]. vm_compute. discriminate.
Qed.

(* the 128-bit view used by the stub machine, for every kind of machine *)
Lemma arch_roundtrip_lower (level : nat) (x : xfile) (c0 : Z -> Z) (clobber : xfile) (r : nat) :
  (level <= 2)%nat -> (r < 8)%nat -> arch_roundtrip128 level x c0 clobber r = x r.
Proof.
  intros Hl H. unfold arch_roundtrip128.
  assert (V0 : (0 < visible level)%nat) by (destruct level as [|[|?]]; cbn; lia).
  assert (V1 : (1 < visible level)%nat) by (destruct level as [|[|?]]; cbn; lia).
  rewrite !arch_context_roundtrip by auto. cbn. now destruct (x r).
Qed.
Lemma arch_roundtrip_upper (level : nat) (x : xfile) (c0 : Z -> Z) (clobber : xfile) (r : nat) :
  (level <= 2)%nat -> (8 <= r)%nat -> arch_roundtrip128 level x c0 clobber r = clobber r.
Proof.
  intros Hl H. unfold arch_roundtrip128. rewrite !arch_roundtrip_untouched by auto. cbn. now destruct (clobber r).
Qed.

(* the SSE control/status register comes back as it was: rounding mode and sticky exception flags of the traced
   program do not see the floating-point work of a script or of libc inside the hook *)
Lemma mxcsr_preserved (csr clobber : Z) : mxcsr_now csr clobber = csr.
Proof. reflexivity. Qed.
(* the code before fix C01-8 did not save it *)
Lemma mxcsr_legacy_refuted : exists csr clobber, mxcsr_roundtrip false csr clobber <> csr.
Proof. exists 8064, 24480. vm_compute. discriminate. Qed.
