(* C01 (iv) - proofs about the generated save/restore pairs *)
From Coq Require Import ZArith List Bool Lia.
Require Import UV.C01.Isa UV.Gen.Stubs UV.C01.ArchCtx.
Import ListNotations.
Local Open Scope Z_scope.

Lemma yreg_eq (a b : yreg) :
  fst (fst a) = fst (fst b) -> snd (fst a) = snd (fst b) ->
  fst (snd a) = fst (snd b) -> snd (snd a) = snd (snd b) -> a = b.
Proof. destruct a as [[? ?] [? ?]], b as [[? ?] [? ?]]; cbn; congruence. Qed.

(* with the ymm state enabled the generated AVX pair gives back all 256 bits of ymm0..ymm7, whatever ran
   in between and whatever the context buffer held *)
Lemma arch_context_roundtrip_avx (x : yfile) (c0 : Z -> Z) (clobber : yfile) (r : nat) :
  (r < 8)%nat -> arch_roundtrip_now true x c0 clobber r = x r.
Proof.
  intro H.
  do 8 (destruct r as [|r]; [apply yreg_eq; vm_compute; reflexivity|]).
  lia.
Qed.

(* without it, the SSE pair gives back bits 0-127 of xmm0..xmm7 - all the state there is *)
Lemma arch_context_roundtrip_sse (x : yfile) (c0 : Z -> Z) (clobber : yfile) (r : nat) :
  (r < 8)%nat -> fst (arch_roundtrip_now false x c0 clobber r) = fst (x r).
Proof.
  intro H.
  do 8 (destruct r as [|r]; [apply injective_projections; vm_compute; reflexivity|]).
  lia.
Qed.

(* registers a pair does not load keep whatever the code in between left there *)
Lemma arch_roundtrip_untouched (avx : bool) (x : yfile) (c0 : Z -> Z) (clobber : yfile) (r : nat) :
  (8 <= r)%nat -> arch_roundtrip_now avx x c0 clobber r = clobber r.
Proof.
  intro H. do 8 (destruct r as [|r]; [lia|]).
  destruct avx; apply yreg_eq; vm_compute; reflexivity.
Qed.

(* the SSE pair on a machine whose ymm state is live (the code before fix C01-5): bits 128-255 are lost *)
Lemma arch_context_sse_only_refuted :
  exists (x : yfile) c0 clobber r, (r < 8)%nat /\ snd (arch_roundtrip_sse_only x c0 clobber r) <> snd (x r).
Proof.
  exists (fun _ => ((1, 2), (3, 4))), (fun _ => 0), (fun _ => ((0, 0), (0, 0))), 0%nat. split; [lia|].
  vm_compute. discriminate.
Qed.

(* the pair as it was before fix C01-1 (movsd both ways): bits 0-63 survive, bits 64-127 are zeroed *)
Lemma arch_context_legacy_low (x : yfile) (c0 : Z -> Z) (clobber : yfile) (r : nat) :
  (r < 8)%nat -> fst (fst (arch_roundtrip_legacy x c0 clobber r)) = fst (fst (x r)).
Proof.
  intro H.
  do 8 (destruct r as [|r]; [vm_compute; reflexivity|]).
  lia.
Qed.
Lemma arch_context_legacy_refuted :
  exists (x : yfile) c0 clobber r, (r < 8)%nat /\ snd (fst (arch_roundtrip_legacy x c0 clobber r)) <> snd (fst (x r)).
Proof.
  exists (fun _ => ((3, 7), (0, 0))), (fun _ => 0), (fun _ => ((0, 0), (0, 0))), 0%nat. split; [lia|]. vm_compute. discriminate.
Qed.

(* the 128-bit view used by the stub machine, for either kind of machine *)
Lemma arch_roundtrip_lower (avx : bool) (x : xfile) (c0 : Z -> Z) (clobber : xfile) (r : nat) :
  (r < 8)%nat -> arch_roundtrip128 avx x c0 clobber r = x r.
Proof.
  intro H. unfold arch_roundtrip128. destruct avx.
  - now rewrite arch_context_roundtrip_avx.
  - now rewrite arch_context_roundtrip_sse.
Qed.
Lemma arch_roundtrip_upper (avx : bool) (x : xfile) (c0 : Z -> Z) (clobber : xfile) (r : nat) :
  (8 <= r)%nat -> arch_roundtrip128 avx x c0 clobber r = clobber r.
Proof. intro H. unfold arch_roundtrip128. now rewrite arch_roundtrip_untouched. Qed.
