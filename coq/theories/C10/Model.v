(* C10 - model of address resolution in uftrace's analysis side:

     utils/symbol.c   addrfind/addrsort/is_kernel_address/get_kernel_address/guess_kernel_base
                      (GENERATED from the C text: UV.Gen.Kernels), bsearch (glibc), find_sym,
                      find_map, find_symtabs, load_module_symbol_file, save_module_symbol_file,
                      check_symbol_file, make_new_symbol_filename, load_module_symbol (file choice)
     utils/session.c  read_session_map, create_session (rb-tree as in-order list), find_session,
                      create_task, add_session_ref, find_task_session, session_add_dlopen,
                      session_find_dlsym, task_find_sym_addr

   All machine integers are Z with explicit wrap (2^64 for uint64_t, 2^32 for `unsigned`).
   Text is a list of bytes (Z).  No proofs in this file.                                   *)
From Coq Require Import ZArith List Bool.
Import ListNotations.
Require Import UV.Gen.Kernels.
Local Open Scope Z_scope.

Definition W64 : Z := 18446744073709551616.
Definition W32 : Z := 4294967296.
Definition U64MAX : Z := 18446744073709551615.

Definition str := list Z.

Fixpoint str_eqb (a b : str) : bool :=
  match a, b with
  | [], [] => true
  | x :: a', y :: b' => (x =? y) && str_eqb a' b'
  | _, _ => false
  end.

(* strncmp(s, p, strlen p) == 0 *)
Fixpoint prefix (p s : str) : bool :=
  match p, s with
  | [], _ => true
  | x :: p', y :: s' => (x =? y) && prefix p' s'
  | _, [] => false
  end.

(* ------------------------------------------------------------------ symbols *)
Record sym := mkSym { s_addr : Z; s_size : Z; s_type : Z; s_name : str }.
Definition symtab := list sym.

Definition sym_eqb (a b : sym) : bool :=
  (s_addr a =? s_addr b) && (s_size a =? s_size b) && (s_type a =? s_type b) && str_eqb (s_name a) (s_name b).

Definition n_sym_end : str := [95;95;115;121;109;95;101;110;100].                 (* "__sym_end" *)
Definition n_dynsym_end : str := [95;95;100;121;110;115;121;109;95;101;110;100].  (* "__dynsym_end" *)
Definition n_func_end : str := [95;95;102;117;110;99;95;101;110;100].             (* "__func_end" *)
Definition is_symbol_end (n : str) : bool :=
  str_eqb n n_sym_end || str_eqb n n_dynsym_end || str_eqb n n_func_end.

(* the comparison bsearch is called with: generated addrfind on the symbol's fields *)
Definition cmp_addr (a : Z) (s : sym) : Z := addrfind a (s_addr s) (s_size s).

(* glibc bsearch: l = 0, u = n; idx = (l+u)/2; <0 -> u = idx; >0 -> l = idx+1; 0 -> found *)
Fixpoint bsearch_go (fuel : nat) (cmp : sym -> Z) (tab : symtab) (l u : nat) : option nat :=
  match fuel with
  | O => None
  | S f =>
      if (l <? u)%nat then
        let idx := ((l + u) / 2)%nat in
        match nth_error tab idx with
        | None => None
        | Some s =>
            let c := cmp s in
            if c <? 0 then bsearch_go f cmp tab l idx
            else if c >? 0 then bsearch_go f cmp tab (S idx) u
            else Some idx
        end
      else None
  end.
Definition bsearch (cmp : sym -> Z) (tab : symtab) : option nat :=
  bsearch_go (S (length tab)) cmp tab 0%nat (length tab).

Definition bsearch_sym (cmp : sym -> Z) (tab : symtab) : option sym :=
  match bsearch cmp tab with
  | Some i => nth_error tab i
  | None => None
  end.

(* find_sym: bsearch + the dummy end symbols are hidden *)
Definition find_sym_idx (tab : symtab) (a : Z) : option nat :=
  match bsearch (cmp_addr a) tab with
  | Some i =>
      match nth_error tab i with
      | Some s => if is_symbol_end (s_name s) then None else Some i
      | None => None
      end
  | None => None
  end.
Definition find_sym (tab : symtab) (a : Z) : option sym :=
  match find_sym_idx tab a with
  | Some i => nth_error tab i
  | None => None
  end.

(* ------------------------------------------------------------------ maps *)
Record mmap := mkMap {
  m_start : Z; m_end : Z; m_prot : str; m_name : str; m_bid : str;
  m_tab : symtab                      (* map->mod->symtab, addresses relative to m_start *)
}.
Record sinfo := mkSinfo { kbase : Z; maps : list mmap; ktab : symtab }.

Inductive mapres := MapKernel | MapAt (m : mmap) | MapNone.

Fixpoint first_map (ms : list mmap) (a : Z) : option mmap :=
  match ms with
  | [] => None
  | m :: r => if map_contains (m_start m) a (m_end m) then Some m else first_map r a
  end.

Definition find_map (si : sinfo) (a : Z) : mapres :=
  if negb (is_kernel_address (kbase si) a =? 0) then MapKernel
  else match first_map (maps si) a with Some m => MapAt m | None => MapNone end.

Definition find_symtabs (si : sinfo) (a : Z) : option sym :=
  match find_map si a with
  | MapKernel => bsearch_sym (cmp_addr (get_kernel_address (kbase si) a)) (ktab si)   (* no end-symbol filter here *)
  | MapAt m => find_sym (m_tab m) ((a - m_start m) mod W64)
  | MapNone => None
  end.

(* ------------------------------------------------------------------ text helpers *)
Definition isspace (c : Z) : bool := (c =? 32) || ((9 <=? c) && (c <=? 13)).
Definition isdigit (c : Z) : bool := (48 <=? c) && (c <=? 57).
Definition hexval (c : Z) : option Z :=
  if (48 <=? c) && (c <=? 57) then Some (c - 48)
  else if (97 <=? c) && (c <=? 102) then Some (c - 87)
  else if (65 <=? c) && (c <=? 70) then Some (c - 55)
  else None.

Fixpoint skip_ws (s : str) : str :=
  match s with
  | c :: r => if isspace c then skip_ws r else s
  | [] => []
  end.

(* digits of base 16: unbounded value, number of digits consumed, rest *)
Fixpoint hex_digits (acc : Z) (n : nat) (s : str) : Z * nat * str :=
  match s with
  | c :: r => match hexval c with
              | Some d => hex_digits (acc * 16 + d) (S n) r
              | None => (acc, n, s)
              end
  | [] => (acc, n, [])
  end.

(* strtoull(s, &end, 16) / strtoul on LP64: leading white space, optional sign, optional 0x,
   saturation to ULLONG_MAX on overflow (all digits are still consumed), negation modulo 2^64;
   no digits: value 0 and end = s *)
Definition is_hex (c : Z) : bool := match hexval c with Some _ => true | None => false end.
Definition strtoull16 (s : str) : Z * str :=
  let s1 := skip_ws s in
  let neg := match s1 with c :: _ => c =? 45 | [] => false end in
  let s2 := match s1 with c :: r => if (c =? 45) || (c =? 43) then r else s1 | [] => s1 end in
  let s3 := match s2 with
            | z :: x :: h :: r => if (z =? 48) && ((x =? 120) || (x =? 88)) && is_hex h then h :: r else s2
            | _ => s2
            end in
  let '(v, n, rest) := hex_digits 0 0 s3 in
  match n with
  | O => (0, s)
  | _ => let v1 := if v >? U64MAX then U64MAX else if neg then (W64 - v) mod W64 else v in
         (v1, rest)
  end.

Fixpoint dec_digits (acc : Z) (n : nat) (s : str) : Z * nat * str :=
  match s with
  | c :: r => if isdigit c then dec_digits (acc * 10 + (c - 48)) (S n) r else (acc, n, s)
  | [] => (acc, n, [])
  end.

Fixpoint token (s : str) : str * str :=          (* maximal run of non-space characters *)
  match s with
  | c :: r => if isspace c then ([], s) else let '(t, rest) := token r in (c :: t, rest)
  | [] => ([], [])
  end.

Fixpoint cut_at (ch : Z) (s : str) : str :=      (* p = strchr(s, ch); if (p) *p = 0 *)
  match s with
  | c :: r => if c =? ch then [] else c :: cut_at ch r
  | [] => []
  end.

(* split a file into the lines getline/fgets return (without the newline; a final line
   without newline is still a line; an empty remainder is not) *)
Fixpoint split_lines_go (cur : str) (s : str) : list str :=
  match s with
  | [] => match cur with [] => [] | _ => [rev cur] end
  | c :: r => if c =? 10 then rev cur :: split_lines_go [] r else split_lines_go (c :: cur) r
  end.
Definition split_lines (s : str) : list str := split_lines_go [] s.

Definition hex_digit (d : Z) : Z := if d <? 10 then 48 + d else 87 + d.
Fixpoint hex_rev (w : nat) (n : Z) : str :=
  match w with
  | O => []
  | S w' => hex_digit (n mod 16) :: hex_rev w' (n / 16)
  end.
Definition hex_fixed (w : nat) (n : Z) : str := rev (hex_rev w n).   (* %0<w>x for n < 16^w *)

Fixpoint dec_rev (fuel : nat) (n : Z) : str :=
  match fuel with
  | O => []
  | S f => (48 + n mod 10) :: (if n / 10 =? 0 then [] else dec_rev f (n / 10))
  end.
Definition dec (n : Z) : str := rev (dec_rev 20 n).                   (* %u / %zd of a value < 10^20 *)

(* ------------------------------------------------------------------ .sym files *)
(* save_module_symbol_file: header lines, then one "%016lx %08x %c %s" line per symbol *)
Definition s_symbols : str := [35;32;115;121;109;98;111;108;115;58;32].          (* "# symbols: " *)
Definition s_pathname : str := [35;32;112;97;116;104;32;110;97;109;101;58;32]. (* "# path name: " *)
Definition s_buildid : str := [35;32;98;117;105;108;100;45;105;100;58;32].      (* "# build-id: " *)

Definition sym_line (s : sym) : str :=
  hex_fixed 16 (s_addr s) ++ 32 :: hex_fixed 8 (s_size s) ++ 32 :: s_type s :: 32 :: s_name s.

Definition sym_file_lines (tab : symtab) (path bid : str) : list str :=
  (s_symbols ++ dec (Z.of_nat (length tab)))
  :: (s_pathname ++ path)
  :: (match bid with [] => [] | _ => [s_buildid ++ bid] end)
  ++ map sym_line tab.

Definition unlines (ls : list str) : str := concat (map (fun l => l ++ [10]) ls).

(* nothing is written for an empty table *)
Definition save_sym (tab : symtab) (path bid : str) : option str :=
  match tab with
  | [] => None
  | _ => Some (unlines (sym_file_lines tab path bid))
  end.

(* one data line: "addr [size] type name" *)
Definition parse_sym_line (l : str) : option (Z * Z * Z * str) :=
  let '(addr, r) := strtoull16 l in
  match r with
  | sp :: ty :: r2 =>
      if negb (sp =? 32) then None
      else if isdigit ty then
        let '(sz, r3) := strtoull16 (ty :: r2) in
        match r3 with
        | sp2 :: ty2 :: sp3 :: nm =>
            if (sp2 =? 32) && (sp3 =? 32) then Some (addr, sz mod W32, ty2, cut_at 9 nm) else None
        | _ => None
        end
      else
        match r2 with
        | sp2 :: nm => if sp2 =? 32 then Some (addr, 0, ty, cut_at 9 nm) else None
        | _ => None
        end
  | _ => None
  end.

Definition allowed_types : str := [63;84;116;119;80;75;68;100;118;117].           (* "?TtwPKDdvu" *)
Definition allowed_type (t : Z) : bool := existsb (Z.eqb t) allowed_types.

Definition s_SyS_ : str := [83;121;83;95].
Definition s_sys_ : str := [115;121;115;95].
Definition s_ia32 : str := [95;95;105;97;51;50].
Definition s_x64 : str := [95;95;120;54;52].

(* the two in-place renames applied to the previous symbol when a duplicate line follows *)
Definition dup_rename (old new : str) : str :=
  let o1 := if prefix s_SyS_ old && prefix s_sys_ new && str_eqb (skipn 4 old) (skipn 4 new)
            then firstn 4 new ++ skipn 4 old else old in
  if prefix s_ia32 o1 && prefix s_x64 new && str_eqb (skipn 6 o1) (skipn 5 new) then new else o1.

(* loader state: symbols in REVERSE file order (head = most recently added), prev_addr, prev_type *)
Record ldst := mkLd { l_syms : list sym; l_paddr : Z; l_ptype : Z }.
Definition ld_init : ldst := mkLd [] U64MAX 88.    (* prev_addr = -1, prev_type = 'X' *)

Definition fix_size (last : sym) (addr : Z) : sym :=
  if s_size last =? 0 then mkSym (s_addr last) ((addr - s_addr last) mod W32) (s_type last) (s_name last)
  else last.

Definition is_comment (l : str) : bool := match l with c :: _ => c =? 35 | [] => false end.

Definition ld_line (dem : str -> str) (st : ldst) (l : str) : ldst :=
  if is_comment l then st                           (* '#' comment / header *)
  else
    match parse_sym_line l with
    | None => st
    | Some (addr, size, ty, nm) =>
        if (addr =? l_paddr st) && (ty =? l_ptype st) then
          match l_syms st with
          | last :: r => mkLd (mkSym (s_addr last) (s_size last) (s_type last) (dup_rename (s_name last) nm) :: r)
                              (l_paddr st) (l_ptype st)
          | [] => st                                (* the C code reads sym[-1] here (undefined) *)
          end
        else if negb (allowed_type ty) then st
        else if (ty =? K_ST_UNKNOWN) || is_symbol_end nm then
          match l_syms st with
          | last :: r => mkLd (fix_size last addr :: r) addr ty
          | [] => mkLd [] addr ty
          end
        else
          let s := mkSym addr size ty (dem nm) in
          match l_syms st with
          | last :: r => mkLd (s :: fix_size last addr :: r) addr ty
          | [] => mkLd [s] addr ty
          end
    end.

(* qsort(addrsort): modelled as a stable insertion sort on the generated comparator *)
Fixpoint insert_sym (x : sym) (l : symtab) : symtab :=
  match l with
  | [] => [x]
  | y :: r => if addrsort (s_addr x) (s_addr y) <=? 0 then x :: l else y :: insert_sym x r
  end.
Fixpoint sort_syms (l : symtab) : symtab :=
  match l with
  | [] => []
  | x :: r => insert_sym x (sort_syms r)
  end.

Definition load_sym (dem : str -> str) (file : str) : symtab :=
  sort_syms (rev (l_syms (fold_left (ld_line dem) (split_lines file) ld_init))).

(* demangle() is the identity on names that are not mangled: after an optional
   "_GLOBAL__sub_I_" prefix the name does not start with "_Z" or "_R" (utils/demangle.c) *)
Definition s_global_sub : str := [95;71;76;79;66;65;76;95;95;115;117;98;95;73;95].
Definition plain_name (n : str) : bool :=
  let m := if prefix s_global_sub n then skipn 15 n else n in
  negb (prefix [95;90] m) && negb (prefix [95;82] m).
Definition dem_plain (n : str) : str := n.

(* check_symbol_file: header lines before the first non-'#' line *)
Fixpoint sym_header (ls : list str) (path bid : option str) : option str * option str :=
  match ls with
  | l :: more =>
      if negb (is_comment l) then (path, bid) else
      let path' := if prefix s_pathname l then Some (skipn 13 l) else path in
      let bid' := if prefix s_buildid l then Some (firstn 40 (skipn 12 l)) else bid in
      sym_header more path' bid'
  | [] => (path, bid)
  end.

(* make_new_symbol_filename: "<base>-<4 chars of build-id>.sym" or "<base>-<csum %04x>.sym" *)
Definition csum16 (p : str) : Z := fold_left (fun a c => (a + c) mod 65536) p 0.
Definition s_dotsym : str := [46;115;121;109].
Definition new_symfile (base : str) (pathname bid : str) : str :=
  match bid with
  | [] => base ++ 45 :: hex_fixed 4 (csum16 pathname) ++ s_dotsym
  | _ => base ++ 45 :: firstn 4 bid ++ s_dotsym
  end.

Fixpoint basename_go (cur : str) (s : str) : str :=
  match s with
  | [] => rev cur
  | c :: r => if c =? 47 then basename_go [] r else basename_go (c :: cur) r
  end.
Definition basename (s : str) : str := basename_go [] s.

(* the symbol directory: file name -> content *)
Definition symdir := list (str * str).
Fixpoint dir_get (d : symdir) (n : str) : option str :=
  match d with
  | [] => None
  | (k, v) :: r => if str_eqb k n then Some v else dir_get r n
  end.

(* load_module_symbol (SYMTAB_FL_USE_SYMFILE, dirname = symdir): which file is read for module
   (name, build_id); no file / empty table falls back to the ELF file (absent here: empty) *)
Definition module_tab (dem : str -> str) (syms_dir : bool) (d : symdir) (mname mbid : str) : symtab :=
  let base := basename mname in
  let f0 := base ++ s_dotsym in
  let f :=
    match dir_get d f0 with
    | Some txt =>
        let '(p, b) := sym_header (split_lines txt) None None in
        let nmatch := (match p with Some _ => 1 | None => 0 end) + (match b with Some _ => 1 | None => 0 end) in
        let pathdiff := match p with Some pp => negb (str_eqb pp mname) | None => negb (str_eqb [] mname) end in
        let bb := match b with Some x => x | None => [] end in
        let biddiff := match bb, mbid with
                       | _ :: _, _ :: _ => negb (str_eqb bb mbid)
                       | _, _ => false
                       end in
        if (0 <? nmatch) && ((pathdiff && negb syms_dir) || biddiff) then new_symfile base mname mbid else f0
    | None => f0
    end in
  match dir_get d f with
  | Some txt => load_sym dem txt
  | None => []
  end.

(* ------------------------------------------------------------------ sid-*.map files *)
(* one line of a map file as sscanf("%lx-%lx %s %*x %*x:%*x %*d %s %s") sees it;
   result: start, end, prot, path, build-id token ("" if absent); None = fewer than 4 conversions *)
Definition scan_hex (s : str) : option (Z * str) :=
  let s1 := skip_ws s in
  let '(v, r) := strtoull16 s1 in
  match s1, r with
  | [], _ => None
  | _, _ => if (length r <? length s1)%nat then Some (v, r) else None
  end.
Definition scan_dec (s : str) : option str :=
  let s1 := skip_ws s in
  let s2 := match s1 with 45 :: r => r | 43 :: r => r | _ => s1 end in
  let '(_, n, r) := dec_digits 0 0 s2 in
  match n with O => None | _ => Some r end.
Definition scan_tok (s : str) : option (str * str) :=
  let '(t, r) := token (skip_ws s) in
  match t with [] => None | _ => Some (t, r) end.

Definition scan_map_line (l : str) : option (Z * Z * str * str * str) :=
  match scan_hex l with
  | Some (st, 45 :: r1) =>
    match scan_hex r1 with
    | Some (en, r2) =>
      match scan_tok r2 with
      | Some (prot, r3) =>
        match scan_hex r3 with
        | Some (_, r4) =>
          match scan_hex r4 with
          | Some (_, 58 :: r5) =>
            match scan_hex r5 with
            | Some (_, r6) =>
              match scan_dec r6 with
              | Some r7 =>
                match scan_tok r7 with
                | Some (path, r8) =>
                    match scan_tok r8 with
                    | Some (b, _) => Some (st, en, prot, path, b)
                    | None => Some (st, en, prot, path, [])
                    end
                | None => None
                end
              | None => None
              end
            | None => None
            end
          | _ => None
          end
        | None => None
        end
      | None => None
      end
    | None => None
    end
  | _ => None
  end.

Definition s_bid_prefix : str := [98;117;105;108;100;45;105;100;58].    (* "build-id:" *)
Definition s_stack : str := [91;115;116;97;99;107].                     (* "[stack" *)

(* reader state: maps in reverse order, kernel_base, index of exec map *)
Record mapst := mkMapSt { ms_maps : list mmap; ms_kbase : Z; ms_last : option str }.

Definition map_line (tabof : str -> str -> symtab) (st : mapst) (l : str) : mapst :=
  match scan_map_line l with
  | None => st
  | Some (start, en, prot, path, b) =>
      match path with
      | 91 :: _ =>
          if prefix s_stack path then mkMapSt (ms_maps st) (guess_kernel_base (fst (strtoull16 l))) (ms_last st)
          else st
      | _ =>
          match ms_last st, ms_maps st with
          | Some ln, last :: r =>
              if str_eqb ln path then
                mkMapSt (mkMap (m_start last) en (m_prot last) (m_name last) (m_bid last) (m_tab last) :: r)
                        (ms_kbase st) (ms_last st)
              else
                let bid := if prefix s_bid_prefix b then firstn 40 (skipn 9 b) else [] in
                mkMapSt (mkMap start en (firstn 4 prot) path bid (tabof path bid) :: ms_maps st) (ms_kbase st) (Some path)
          | _, _ =>
              let bid := if prefix s_bid_prefix b then firstn 40 (skipn 9 b) else [] in
              mkMapSt (mkMap start en (firstn 4 prot) path bid (tabof path bid) :: ms_maps st) (ms_kbase st) (Some path)
          end
      end
  end.

(* read_session_map + load_module_symtabs: kernel_base starts at 0 (zeroed session) *)
Definition read_map (tabof : str -> str -> symtab) (file : str) : sinfo :=
  let st := fold_left (map_line tabof) (split_lines file) (mkMapSt [] 0 None) in
  mkSinfo (ms_kbase st) (rev (ms_maps st)) [].

(* write_map of libmcount/record.c (offset, device and inode are always written as 0: the
   prev_* variables are re-initialised on every loop iteration) *)
Fixpoint hex_min_go (fuel : nat) (n : Z) (acc : str) : str :=
  match fuel with
  | O => acc
  | S f => let acc' := hex_digit (n mod 16) :: acc in
           if n / 16 =? 0 then acc' else hex_min_go f (n / 16) acc'
  end.
Definition hex_min (n : Z) : str := hex_min_go 16 n [].                 (* %lx *)

Definition write_map_line (start en : Z) (prot path : str) : str :=
  hex_min start ++ 45 :: hex_min en ++ 32 :: firstn 4 prot ++ 32 :: hex_fixed 8 0 ++ 32 ::
  hex_fixed 2 0 ++ 58 :: hex_fixed 2 0 ++ 32 :: 48 :: repeat 32 25 ++ 32 :: path.

(* record_proc_maps: consecutive lines of the same path become one map (the end is extended,
   the protection of an executable segment wins); special and anonymous lines are not part of
   the segment list given here *)
Definition seg := (Z * Z * str * str)%type.          (* start, end, prot, path *)
Fixpoint merge_go (cur : option seg) (l : list seg) : list seg :=
  match l with
  | [] => match cur with Some c => [c] | None => [] end
  | (s, e, p, n) :: r =>
      match cur with
      | Some (cs, ce, cp, cn) =>
          if str_eqb n cn then merge_go (Some (cs, e, (if nth 2 p 0 =? 120 then p else cp), cn)) r
          else (cs, ce, cp, cn) :: merge_go (Some (s, e, p, n)) r
      | None => merge_go (Some (s, e, p, n)) r
      end
  end.
Definition merge_segments (l : list seg) : list seg := merge_go None l.

Definition write_maps (segs : list seg) (stack_line : str) : str :=
  unlines (map (fun m => match m with (s, e, p, n) => write_map_line s e p n end) (merge_segments segs) ++ [stack_line]).

(* ------------------------------------------------------------------ sessions and tasks *)
Record dlib := mkDl { d_time : Z; d_base : Z; d_tab : symtab }.
Record session := mkSess {
  se_id : nat;                    (* creation number: identifies the object *)
  se_sid : str; se_pid : Z; se_tid : Z; se_start : Z;
  se_info : sinfo;
  se_dl : list dlib               (* dlopen_libs, ascending time *)
}.
Record sref := mkRef { r_start : Z; r_end : Z; r_sess : nat }.
Record task := mkTask { t_tid : Z; t_pid : Z; t_ppid : Z; t_refs : list sref }.
Record link := mkLink { sessions : list session;     (* in-order sequence of the rb-tree *)
                        tasks : list task;
                        nsess : nat;
                        first : option nat }.
Definition link0 : link := mkLink [] [] 0 None.

(* rb-tree insertion of create_session: keys (pid, start_time), an equal key goes to the right *)
Fixpoint insert_session (s : session) (l : list session) : list session :=
  match l with
  | [] => [s]
  | x :: r =>
      if cs_pid_gt (se_pid x) (se_pid s) || (negb (cs_pid_lt (se_pid x) (se_pid s)) && cs_start_gt (se_start x) (se_start s))
      then s :: l else x :: insert_session s r
  end.

(* find_session: the in-order last session with the pid and start_time <= timestamp (the three
   comparisons of the tree descent, generated from the C text) *)
Definition sess_matches (pid ts : Z) (x : session) : bool :=
  negb (fs_pid_gt (se_pid x) pid) && negb (fs_pid_lt (se_pid x) pid) && negb (fs_start_gt (se_start x) ts).
Fixpoint find_session_go (l : list session) (pid ts : Z) (best : option session) : option session :=
  match l with
  | [] => best
  | x :: r => find_session_go r pid ts (if sess_matches pid ts x then Some x else best)
  end.
Definition find_session (l : list session) (pid ts : Z) : option session := find_session_go l pid ts None.

Fixpoint find_task (ts : list task) (tid : Z) : option task :=
  match ts with
  | [] => None
  | t :: r => if t_tid t =? tid then Some t else find_task r tid
  end.

(* add_session_ref: close the last reference at `ts`, append [ts, 2^64-1) *)
Fixpoint close_last (refs : list sref) (ts : Z) : list sref :=
  match refs with
  | [] => []
  | [r] => [mkRef (r_start r) ts (r_sess r)]
  | r :: more => r :: close_last more ts
  end.
Definition add_ref (t : task) (sid : nat) (ts : Z) : task :=
  mkTask (t_tid t) (t_pid t) (t_ppid t) (close_last (t_refs t) ts ++ [mkRef ts U64MAX sid]).

Fixpoint update_task (ts : list task) (t : task) : list task :=
  match ts with
  | [] => []
  | x :: r => if t_tid x =? t_tid t then t :: r else x :: update_task r t
  end.

(* create_task(msg{tid,pid,time}, fork) *)
Definition create_task (lk : link) (tid pid time : Z) (fork : bool) : link :=
  match find_task (tasks lk) tid with
  | Some t =>
      match find_session (sessions lk) pid time with
      | Some s => mkLink (sessions lk) (update_task (tasks lk) (add_ref t (se_id s) time)) (nsess lk) (first lk)
      | None => lk
      end
  | None =>
      let t := mkTask tid (if fork then tid else pid) (if fork then pid else 0) [] in
      let s := match find_session (sessions lk) pid time with
               | Some s => Some (se_id s)
               | None =>
                   match find_task (tasks lk) pid with
                   | Some pt => match last (map Some (t_refs pt)) None with
                                | Some lr => if r_start lr <? time then Some (r_sess lr) else None
                                | None => None
                                end
                   | None => None
                   end
               end in
      let t' := match s with Some id => add_ref t id time | None => t end in
      mkLink (sessions lk) (tasks lk ++ [t']) (nsess lk) (first lk)
  end.

Definition create_session (lk : link) (sid : str) (pid tid time : Z) (info : sinfo) : link :=
  let s := mkSess (nsess lk) sid pid tid time info [] in
  mkLink (insert_session s (sessions lk)) (tasks lk) (S (nsess lk))
         (match first lk with None => Some (nsess lk) | f => f end).

(* session_add_dlopen: inserted before the first entry with a later time *)
Fixpoint insert_dl (d : dlib) (l : list dlib) : list dlib :=
  match l with
  | [] => [d]
  | x :: r => if dl_insert_before (d_time x) (d_time d) then d :: l else x :: insert_dl d r
  end.
(* get_session_from_sid: first in in-order with that sid *)
Fixpoint add_dlopen_go (l : list session) (sid : str) (d : dlib) : list session :=
  match l with
  | [] => []
  | x :: r => if str_eqb (se_sid x) sid
              then mkSess (se_id x) (se_sid x) (se_pid x) (se_tid x) (se_start x) (se_info x) (insert_dl d (se_dl x)) :: r
              else x :: add_dlopen_go r sid d
  end.
Definition add_dlopen (lk : link) (sid : str) (d : dlib) : link :=
  mkLink (add_dlopen_go (sessions lk) sid d) (tasks lk) (nsess lk) (first lk).

Fixpoint session_by_id (l : list session) (id : nat) : option session :=
  match l with
  | [] => None
  | x :: r => if Nat.eqb (se_id x) id then Some x else session_by_id r id
  end.

(* the references of one task: first one whose [start, end) holds the time stamp *)
Fixpoint find_ref (refs : list sref) (ts : Z) : option sref :=
  match refs with
  | [] => None
  | r :: more => if ref_contains (r_start r) ts (r_end r) then Some r else find_ref more ts
  end.

(* find_task_session: own references, else the parent's / thread leader's (the C loop has no
   bound; `fuel` = number of tasks + 1 is enough for every acyclic parent chain) *)
Fixpoint find_task_session_go (fuel : nat) (ts : list task) (t : task) (time : Z) : option nat :=
  match fuel with
  | O => None
  | S f =>
      match find_ref (t_refs t) time with
      | Some r => Some (r_sess r)
      | None =>
          let parent := if t_ppid t =? 0 then t_pid t else t_ppid t in
          if (parent =? 0) || (parent =? t_tid t) then None
          else match find_task ts parent with
               | Some p => find_task_session_go f ts p time
               | None => None
               end
      end
  end.
Definition find_task_session (lk : link) (t : task) (time : Z) : option session :=
  match find_task_session_go (S (length (tasks lk))) (tasks lk) t time with
  | Some id => session_by_id (sessions lk) id
  | None => None
  end.

(* session_find_dlsym: newest library loaded at or before the time stamp that has the address *)
Fixpoint find_dlsym_rev (l : list dlib) (time a : Z) : option sym :=      (* l = reversed list *)
  match l with
  | [] => None
  | d :: r =>
      if dl_later (d_time d) time then find_dlsym_rev r time a
      else match find_sym (d_tab d) ((a - d_base d) mod W64) with
           | Some s => Some s
           | None => find_dlsym_rev r time a
           end
  end.
Definition find_dlsym (s : session) (time a : Z) : option sym := find_dlsym_rev (rev (se_dl s)) time a.

Definition sched_sym : sym := mkSym K_EVENT_ID_PERF_SCHED_BOTH 1 116
  [108;105;110;117;120;58;115;99;104;101;100;117;108;101].
Definition sched_preempt_sym : sym := mkSym K_EVENT_ID_PERF_SCHED_BOTH_PREEMPT 1 116
  [108;105;110;117;120;58;115;99;104;101;100;117;108;101;32;40;112;114;101;45;101;109;112;116;101;100;41].

(* task_find_sym_addr *)
Definition resolve (lk : link) (tid time a : Z) : option sym :=
  match find_task (tasks lk) tid with
  | None => None
  | Some t =>
      let sess :=
        match find_task_session lk t time with
        | Some s => Some s
        | None =>
            match first lk with
            | Some id => match session_by_id (sessions lk) id with
                         | Some fs => if negb (is_kernel_address (kbase (se_info fs)) a =? 0) then Some fs else None
                         | None => None
                         end
            | None => None
            end
        end in
      match sess with
      | None => None
      | Some s =>
          let r := match find_symtabs (se_info s) a with
                   | Some x => Some x
                   | None => find_dlsym s time a
                   end in
          match r with
          | Some x => Some x
          | None =>
              if (a =? K_EVENT_ID_PERF_SCHED_IN) || (a =? K_EVENT_ID_PERF_SCHED_OUT) || (a =? K_EVENT_ID_PERF_SCHED_BOTH)
              then Some sched_sym
              else if (a =? K_EVENT_ID_PERF_SCHED_OUT_PREEMPT) || (a =? K_EVENT_ID_PERF_SCHED_BOTH_PREEMPT)
              then Some sched_preempt_sym
              else None
          end
      end
  end.

(* ------------------------------------------------------------------ a data directory *)
Inductive event :=
| EvSess (pid time : Z) (sid : str)                       (* SESS line; tid = pid; map file by sid *)
| EvTask (tid pid time : Z)
| EvFork (tid ppid time : Z)
| EvDlopen (sid : str) (time base : Z) (libname : str).

Record datadir := mkDir { dd_events : list event; dd_maps : list (str * str); dd_syms : symdir;
                          dd_symsdir : bool   (* --with-syms: symbol directory differs from the data directory *) }.

Definition open_step (dem : str -> str) (d : datadir) (lk : link) (e : event) : link :=
  match e with
  | EvSess pid time sid =>
      let info := match dir_get (dd_maps d) sid with
                  | Some txt => read_map (module_tab dem (dd_symsdir d) (dd_syms d)) txt
                  | None => mkSinfo 0 [] []
                  end in
      create_session lk sid pid pid time info
  | EvTask tid pid time => create_task lk tid pid time false
  | EvFork tid ppid time => create_task lk tid ppid time true
  | EvDlopen sid time base lib => add_dlopen lk sid (mkDl time base (module_tab dem (dd_symsdir d) (dd_syms d) lib []))
  end.
Definition open_data (dem : str -> str) (d : datadir) : link := fold_left (open_step dem d) (dd_events d) link0.

(* ------------------------------------------------------------------ specification side *)
(* what the property says, written without binary search / trees: used as the run-time
   checker on the implementation's answers and as the right-hand side of the theorems *)
Definition contains (s : sym) (a : Z) : bool := (s_addr s <=? a) && (a <? s_addr s + s_size s).

Definition spec_find (tab : symtab) (a : Z) : option sym :=
  find (fun s => contains s a && negb (is_symbol_end (s_name s))) tab.

(* well-formed table: sorted by address, ranges pairwise disjoint (adjacent allowed, zero size
   allowed), no 64-bit wrap of addr+size *)
Fixpoint wf_tab_from (lo : Z) (tab : symtab) : bool :=
  match tab with
  | [] => true
  | s :: r => (lo <=? s_addr s) && (0 <=? s_size s) && (s_addr s + s_size s <? W64) && wf_tab_from (s_addr s + s_size s) r
  end.
Definition wf_tab (tab : symtab) : bool := wf_tab_from 0 tab.

(* checker for one lookup answer given as an index (or None) *)
Definition ok_lookup (tab : symtab) (a : Z) (res : option nat) : bool :=
  match res with
  | Some i => match nth_error tab i with
              | Some s => (s_addr s <=? a) && (a <? (s_addr s + s_size s) mod W64) && negb (is_symbol_end (s_name s))
              | None => false
              end
  | None => if wf_tab tab then match spec_find tab a with None => true | Some _ => false end else true
  end.

Definition opt_nat_eqb (a b : option nat) : bool :=
  match a, b with
  | Some x, Some y => Nat.eqb x y
  | None, None => true
  | _, _ => false
  end.
Definition opt_sym_eqb (a b : option sym) : bool :=
  match a, b with
  | Some x, Some y => sym_eqb x y
  | None, None => true
  | _, _ => false
  end.
Fixpoint tab_eqb (a b : symtab) : bool :=
  match a, b with
  | [], [] => true
  | x :: a', y :: b' => sym_eqb x y && tab_eqb a' b'
  | _, _ => false
  end.

(* indices of the list elements on which f is false *)
Fixpoint bad_indices {A} (f : A -> bool) (l : list A) (i : nat) : list nat :=
  match l with
  | [] => []
  | x :: r => if f x then bad_indices f r (S i) else i :: bad_indices f r (S i)
  end.

(* session in force by the property's words: among the references of the task the one with the
   greatest start <= time (the later one for equal starts) *)
Fixpoint spec_ref (refs : list sref) (time : Z) (best : option sref) : option sref :=
  match refs with
  | [] => best
  | r :: more =>
      spec_ref more time
        (if r_start r <=? time then
           match best with
           | Some b => if r_start b <=? r_start r then Some r else best
           | None => Some r
           end
         else best)
  end.

(* round-trip guard of the .sym format for one symbol *)
Definition no_byte (c : Z) (s : str) : bool := forallb (fun x => negb (x =? c)) s.
Definition sym_file_ok (s : sym) : bool :=
  (0 <=? s_addr s) && (s_addr s <? W64) && (0 <? s_size s) && (s_size s <? 2684354560) (* 0xa0000000 *)
  && allowed_type (s_type s) && negb (s_type s =? K_ST_UNKNOWN)
  && no_byte 10 (s_name s) && no_byte 9 (s_name s) && negb (is_symbol_end (s_name s)).
Fixpoint no_adjacent_dup (tab : symtab) : bool :=
  match tab with
  | a :: ((b :: _) as r) => negb ((s_addr a =? s_addr b) && (s_type a =? s_type b)) && no_adjacent_dup r
  | _ => true
  end.
Fixpoint addr_sorted (tab : symtab) : bool :=
  match tab with
  | a :: ((b :: _) as r) => (s_addr a <=? s_addr b) && addr_sorted r
  | _ => true
  end.
Definition tab_file_ok (tab : symtab) : bool := forallb sym_file_ok tab && no_adjacent_dup tab.

(* ------------------------------------------------------------------ ground truth of a recording *)
(* the generator's description of what was really mapped where and when; the checker below is
   the property's wording (no search structure, no files) *)
Record gt_session := mkGt { g_mods : list (Z * Z * symtab);     (* start, end, table (relative) *)
                            g_dl : list (Z * Z * symtab) }.     (* load time, base, table; in load order *)

Fixpoint in_force (tl : list (Z * nat)) (t : Z) (best : option nat) : option nat :=
  match tl with
  | [] => best
  | (s, i) :: r => in_force r t (if s <=? t then Some i else best)
  end.

Fixpoint gt_mod (ms : list (Z * Z * symtab)) (a : Z) : option sym :=
  match ms with
  | [] => None
  | (s, e, tab) :: r => if (s <=? a) && (a <? e) then spec_find tab (a - s) else gt_mod r a
  end.
Fixpoint gt_dl (dl : list (Z * Z * symtab)) (t a : Z) (best : option sym) : option sym :=
  match dl with
  | [] => best
  | (tm, base, tab) :: r =>
      gt_dl r t a (if tm <=? t then match spec_find tab (a - base) with Some s => Some s | None => best end else best)
  end.

Fixpoint assoc_tl (tl : list (Z * list (Z * nat))) (tid : Z) : option (list (Z * nat)) :=
  match tl with
  | [] => None
  | (k, v) :: r => if k =? tid then Some v else assoc_tl r tid
  end.

Definition expected (gs : list gt_session) (tl : list (Z * list (Z * nat))) (tid t a : Z) : option (option sym) :=
  match assoc_tl tl tid with
  | None => None
  | Some l =>
      match in_force l t None with
      | None => None                                   (* before the task's first session: no verdict *)
      | Some i =>
          match nth_error gs i with
          | None => None
          | Some g => Some (match gt_mod (g_mods g) a with
                            | Some s => Some s
                            | None => gt_dl (g_dl g) t a None
                            end)
          end
      end
  end.

Definition ok_resolve (gs : list gt_session) (tl : list (Z * list (Z * nat))) (tid t a : Z)
           (ans : option (Z * Z * str)) : bool :=
  match expected gs tl tid t a with
  | None => true
  | Some None => match ans with None => true | Some _ => false end
  | Some (Some s) => match ans with
                     | Some (ad, sz, nm) => (s_addr s =? ad) && (s_size s =? sz) && str_eqb (s_name s) nm
                     | None => false
                     end
  end.

(* ------------------------------------------------------------------ record side: the dlopen() wrapper *)
(* libmcount/wrap.c dlopen() + dlopen_base_callback(): what one traced thread does, as a tree.
   [ARec a]: a traced call or return at address a (mcount_entry/mcount_exit read the clock and
   write a record).
   [ADlopen base tab deps ctor]: a call of the wrapper that loads something: real_dlopen() maps the
   library at [base] together with its not yet mapped DT_NEEDED dependencies [deps] and runs their
   static initialisers [ctor] (they record and may call dlopen again) before it returns; afterwards
   the wrapper sends the DLOP messages (time stamp, base, name) that end up in task.txt.
   [ADlnull]: dlopen(NULL, flags) - the wrapper returns right after real_dlopen().
   [ADlnone]: a call that maps nothing new (failed dlopen, RTLD_NOLOAD, library already loaded,
   thread not traced / recursion guard): every later path of the wrapper, no message.
   State of the wrapper: the thread's clock and the two TLS variables dlopen_depth / dlopen_start.
   Flags (the first three are generated from the C text, UV.Gen.Kernels):
   [early]    the clock is read on entry, BEFORE real_dlopen()          (wrap_dlopen_clock_first)
   [fixed]    every newly mapped library is reported, stamped with the entry time of the outermost
              dlopen in progress (fix 0c4417a); false = code as found: only the named library, with
              the call's own time                                        (wrap_dlopen_reports_all)
   [balanced] dlopen_depth is decremented right after real_dlopen(), before the first return
                                                                         (wrap_dlopen_depth_balanced)
   Every clock read returns a later value than the previous one of the thread. *)
Inductive act :=
| ARec (a : Z)
| ADlopen (base : Z) (tab : symtab) (deps : list (Z * symtab)) (ctor : list act)
| ADlnull
| ADlnone.

Record wst := mkW { w_clk : Z; w_depth : nat; w_start : Z }.
Definition rout := (wst * list (Z * Z) * list dlib)%type.      (* state, records (time, addr), DLOP messages *)

(* if (dlopen_depth++ == 0) dlopen_start = now; *)
Definition w_enter (st : wst) : wst :=
  mkW (w_clk st + 1) (S (w_depth st)) (if Nat.eqb (w_depth st) 0 then w_clk st else w_start st).
Definition w_leave (st : wst) : wst := mkW (w_clk st) (Nat.pred (w_depth st)) (w_start st).

Definition dl_stamp (fixed : bool) (st : wst) : Z :=
  if fixed then (if Nat.eqb (w_depth st) 0 then w_clk st else w_start st) else w_clk st.
Definition dl_msgs (fixed : bool) (stamp base : Z) (tab : symtab) (deps : list (Z * symtab)) : list dlib :=
  mkDl stamp base tab :: (if fixed then map (fun d => mkDl stamp (fst d) (snd d)) deps else []).

Fixpoint run_act (early fixed balanced : bool) (x : act) (st : wst) : rout :=
  match x with
  | ARec a => (mkW (w_clk st + 1) (w_depth st) (w_start st), [(w_clk st, a)], [])
  | ADlnull => ((if balanced then w_leave (w_enter st) else w_enter st), [], [])
  | ADlnone => (w_leave (w_enter st), [], [])
  | ADlopen base tab deps ctor =>
      let run_l :=
        (fix go (l : list act) (s : wst) : rout :=
           match l with
           | [] => (s, [], [])
           | y :: r => let '(s1, r1, d1) := run_act early fixed balanced y s in
                       let '(s2, r2, d2) := go r s1 in (s2, r1 ++ r2, d1 ++ d2)
           end) in
      let '(s2, rs, ds) := run_l ctor (w_enter st) in
      if early
      then (w_leave s2, rs, ds ++ dl_msgs fixed (dl_stamp fixed st) base tab deps)
      else (w_leave (mkW (w_clk s2 + 1) (w_depth s2) (w_start s2)), rs, ds ++ dl_msgs fixed (w_clk s2) base tab deps)
  end.

Fixpoint run_acts (early fixed balanced : bool) (l : list act) (s : wst) : rout :=
  match l with
  | [] => (s, [], [])
  | y :: r => let '(s1, r1, d1) := run_act early fixed balanced y s in
              let '(s2, r2, d2) := run_acts early fixed balanced r s1 in (s2, r1 ++ r2, d1 ++ d2)
  end.

Definition w0 (clk : Z) : wst := mkW clk 0 0.

(* the analysis side receives the DLOP messages in the order they were sent *)
Definition dl_list (msgs : list dlib) : list dlib := fold_left (fun l d => insert_dl d l) msgs [].

(* run-time checker of the ordering invariant on a real recording: a library's load event is not
   later than any record at an address inside it.  loads: (DLOP time, base, extent) *)
Definition ok_load_order (loads : list (Z * Z * Z)) (recs : list (Z * Z)) : bool :=
  forallb (fun r => match r with (t, a) =>
    forallb (fun l => match l with (lt, base, ext) =>
      if (base <=? a) && (a <? base + ext) then lt <=? t else true end) loads end) recs.

(* the name shown for a record of a real run against the ground truth (verdict only where the
   ground truth has a symbol) *)
Definition ok_resolve_name (gs : list gt_session) (tl : list (Z * list (Z * nat))) (tid t a : Z)
           (ans : option str) : bool :=
  match expected gs tl tid t a with
  | Some (Some s) => match ans with Some nm => str_eqb (s_name s) nm | None => false end
  | _ => true
  end.

(* ------------------------------------------------------------------ PLT symbols of an ELF file *)
(* utils/symbol.c load_elf_dynsymtab + load_dyn_symbol on x86_64 (entry size fixed to 16): one
   symbol per .rela.plt relocation, in relocation order.  The three expressions of load_dyn_symbol
   (is the dynsym a canonical PLT address?, canonical address + offset, previous + entry size) are
   generated from the C text (UV.Gen.Kernels).
   dynrel: name, st_value and st_shndx of the relocation's dynamic symbol. *)
Record dynrel := mkRel { dr_name : str; dr_value : Z; dr_shndx : Z }.
Record elfplt := mkElfPlt {
  ep_vaddr0 : Z;              (* p_vaddr of the first PT_LOAD: 0 for PIE / shared objects, 0x400000 for a non-PIE *)
  ep_plt : Z;                 (* sh_addr of .plt *)
  ep_pltsec : option Z;       (* sh_addr of .plt.sec when present (IBT) *)
  ep_rels : list dynrel
}.
Definition PLT_ENTSIZE : Z := 16.

Fixpoint load_dyn_syms (offset prev : Z) (rels : list dynrel) : symtab :=
  match rels with
  | [] => []
  | r :: more =>
      match dr_name r with
      | [] => load_dyn_syms offset prev more         (* unnamed symbol: no entry, prev_addr is not advanced *)
      | _ :: _ =>
          let a := if dyn_is_canonical (dr_value r) (dr_shndx r)
                   then dyn_addr_canonical (dr_value r) offset
                   else dyn_addr_next_slot prev PLT_ENTSIZE in
          mkSym a PLT_ENTSIZE K_ST_PLT_FUNC (dr_name r) :: load_dyn_syms offset a more
      end
  end.

(* adj: SYMTAB_FL_ADJ_OFFSET (record and the analysis commands), offset0: the caller's offset
   (libmcount passes the load base without the flag) *)
Definition plt_offset (adj : bool) (offset0 : Z) (e : elfplt) : Z :=
  if adj then (offset0 - ep_vaddr0 e) mod W64 else offset0.
Definition plt_prev0 (offset : Z) (e : elfplt) : Z :=
  match ep_pltsec e with
  | Some a => ((a + offset) mod W64 - PLT_ENTSIZE) mod W64      (* .plt.sec has no PLT0 *)
  | None => (ep_plt e + offset) mod W64                         (* PLT0 is the "previous" entry of slot 0 *)
  end.
Definition load_elf_dynsymtab (adj : bool) (offset0 : Z) (e : elfplt) : symtab :=
  let offset := plt_offset adj offset0 e in
  sort_syms (load_dyn_syms offset (plt_prev0 offset e) (ep_rels e)).

(* ground truth: link-time address of the PLT entry of relocation k *)
Definition plt_slot (e : elfplt) (k : nat) : Z :=
  match ep_pltsec e with
  | Some a => a + PLT_ENTSIZE * Z.of_nat k
  | None => ep_plt e + PLT_ENTSIZE * (Z.of_nat k + 1)
  end.

(* run-time checker: in a table loaded with ADJ_OFFSET the PLT entry named n of a file whose
   PLT entries really are at [truth] (name, link-time address) sits at address - vaddr0 *)
Definition ok_plt_entry (vaddr0 : Z) (truth : list (str * Z)) (s : sym) : bool :=
  if s_type s =? K_ST_PLT_FUNC then
    match find (fun p => str_eqb (fst p) (s_name s)) truth with
    | Some (_, a) => (s_addr s =? a - vaddr0) && (s_size s =? PLT_ENTSIZE)
    | None => true                  (* not a PLT slot symbol (GOT-only reference): no verdict *)
    end
  else true.
Definition ok_plt_table (vaddr0 : Z) (truth : list (str * Z)) (tab : symtab) : bool :=
  forallb (ok_plt_entry vaddr0 truth) tab &&
  forallb (fun p => existsb (fun s => (s_type s =? K_ST_PLT_FUNC) && str_eqb (s_name s) (fst p)) tab) truth.

(* ------------------------------------------------------------------ module of an address *)
(* what replay -f +module shows for a record: the map of the session in force that holds the
   address (find_task_session + find_map); "K" stands for the kernel pseudo map *)
Definition resolve_map (lk : link) (tid time a : Z) : option str :=
  match find_task (tasks lk) tid with
  | None => None
  | Some t =>
      match find_task_session lk t time with
      | None => None
      | Some s => match find_map (se_info s) a with
                  | MapAt m => Some (m_name m)
                  | MapKernel => Some [75]
                  | MapNone => None
                  end
      end
  end.

Fixpoint gt_modname (ms : list (Z * Z * str)) (a : Z) : option str :=
  match ms with
  | [] => None
  | (s, e, n) :: r => if (s <=? a) && (a <? e) then Some n else gt_modname r a
  end.
Definition ok_module (gm : list (list (Z * Z * str))) (tl : list (Z * list (Z * nat))) (tid t a : Z) (ans : option str) : bool :=
  match assoc_tl tl tid with
  | None => true
  | Some l =>
      match in_force l t None with
      | None => true
      | Some i =>
          match nth_error gm i with
          | None => true
          | Some ms =>
              match ans with
              | Some (75 :: nil) => true                      (* kernel address: no verdict *)
              | _ => match gt_modname ms a, ans with
                     | Some n, Some m => str_eqb n m
                     | None, None => true
                     | _, _ => false
                     end
              end
          end
      end
  end.

(* ------------------------------------------------------------------ the symbol table of an ELF file *)
(* utils/symbol.c load_symtab (load_symbol, sort_symtab), load_dynsymtab (PLT part above +
   arch/x86_64 arch_load_dynsymtab_noplt), merge_symtabs, update_symtab_using_dynsym: the table
   load_module_symtab builds when there is no .sym file - what record writes into <module>.sym. *)
Record esym := mkESym { e_value : Z; e_size : Z; e_type : Z; e_bind : Z; e_shndx : Z; e_name : str }.
Definition STT_OBJECT : Z := 1.
Definition STT_FUNC : Z := 2.
Definition STT_GNU_IFUNC : Z := 10.

Definition esym_typed (e : esym) : bool :=
  (e_type e =? STT_FUNC) || (e_type e =? STT_GNU_IFUNC) || (e_type e =? STT_OBJECT).
Definition loadable (e : esym) : bool :=
  negb (e_shndx e =? 0) && negb (e_size e =? 0) && esym_typed e.

(* enum uftrace_symtype from binding and type *)
Definition symtype_of (e : esym) : Z :=
  let obj := e_type e =? STT_OBJECT in
  if e_bind e =? 0 then (if obj then 100 else 116)            (* STB_LOCAL: 'd' / 't' *)
  else if e_bind e =? 1 then (if obj then 68 else 84)          (* STB_GLOBAL: 'D' / 'T' *)
  else if e_bind e =? 2 then (if obj then 118 else 119)        (* STB_WEAK: 'v' / 'w' *)
  else if (e_bind e =? 10) && obj then 117                     (* STB_GNU_UNIQUE object: 'u' *)
  else 63.                                                     (* '?' *)

(* load_symbol over the symbols in file order.  [prev] is load_symtab's prev_sym_value: with
   [only_acc = true] (the code; generated flag symtab_prev_only_accepted) it is the st_value of the
   last symbol that was LOADED - load_symbol skips an entry as an alias only of that one;
   [only_acc = false]: the value of the previous ELF entry whatever it was *)
Fixpoint load_symbols (only_acc : bool) (offset prev : Z) (l : list esym) : symtab :=
  match l with
  | [] => []
  | e :: r =>
      if loadable e && negb (prev =? e_value e)
      then mkSym ((e_value e + offset) mod W64) (e_size e mod W32) (symtype_of e) (e_name e)
           :: load_symbols only_acc offset (e_value e) r
      else load_symbols only_acc offset (if only_acc then prev else e_value e) r
  end.

(* sort_symtab: symbols of one address become one entry - the data of the last one, the name
   preferring one that does not start with '_' (unless mangled "_Z") *)
Definition better_name (best nm : str) : str :=
  if (nth 0 best 0 =? 95) && negb (nth 1 best 0 =? 90) && negb (nth 0 nm 0 =? 95) then nm else best.
Definition finish_run (best : str) (last : sym) : sym := mkSym (s_addr last) (s_size last) (s_type last) best.
Fixpoint dedup_go (cur : Z) (best : str) (last : sym) (l : symtab) : symtab :=
  match l with
  | [] => [finish_run best last]
  | y :: r => if s_addr y =? cur then dedup_go cur (better_name best (s_name y)) y r
              else finish_run best last :: dedup_go (s_addr y) (s_name y) y r
  end.
Definition dedup_syms (l : symtab) : symtab :=
  match l with [] => [] | x :: r => dedup_go (s_addr x) (s_name x) x r end.

Definition elf_offset (adj : bool) (offset0 vaddr0 : Z) : Z := if adj then (offset0 - vaddr0) mod W64 else offset0.

Definition load_symtab_gen (only_acc adj : bool) (offset0 vaddr0 : Z) (syms : list esym) : symtab :=
  dedup_syms (sort_syms (load_symbols only_acc (elf_offset adj offset0 vaddr0) (-1) syms)).
Definition load_symtab := load_symtab_gen true.

(* merge_symtabs: the table whose first address is smaller goes first, then qsort by address *)
Definition merge_symtabs (left right : symtab) : symtab :=
  match left, right with
  | _, [] => left
  | [], _ => right
  | l0 :: _, r0 :: _ => sort_syms (if s_addr l0 <? s_addr r0 then left ++ right else right ++ left)
  end.

(* arch_load_dynsymtab_noplt: one pseudo symbol per R_X86_64_GLOB_DAT relocation of an undefined
   function: (index of the relocation in .rela.dyn, name) *)
Definition noplt_syms (offset reladyn : Z) (gd : list (Z * str)) : symtab :=
  sort_syms (map (fun p => mkSym ((reladyn + offset) mod W64 + fst p * 24) 24 K_ST_PLT_FUNC (snd p)) gd).

(* update_symtab_using_dynsym: a defined dynamic symbol renames the entry that holds its address *)
Fixpoint set_name (tab : symtab) (i : nat) (nm : str) : symtab :=
  match tab, i with
  | [], _ => []
  | s :: r, O => mkSym (s_addr s) (s_size s) (s_type s) nm :: r
  | s :: r, S k => s :: set_name r k nm
  end.
Definition update_one (offset : Z) (tab : symtab) (e : esym) : symtab :=
  if (e_shndx e =? 0) || negb (esym_typed e) then tab
  else match bsearch (cmp_addr ((e_value e + offset) mod W64)) tab with
       | None => tab
       | Some i =>
           match nth_error tab i with
           | None => tab
           | Some s =>
               if (negb (nth 0 (s_name s) 0 =? 95) && (nth 0 (e_name e) 0 =? 95)) || (nth 1 (s_name s) 0 =? 90)
               then tab else set_name tab i (e_name e)
           end
       end.

Record elffile := mkElf {
  ef_vaddr0 : Z; ef_symtab : list esym; ef_dynsym : list esym; ef_plt : elfplt;
  ef_reladyn : Z; ef_globdat : list (Z * str)
}.
(* load_module_symbol without a symbol file, SYMTAB_FL_ADJ_OFFSET, caller's offset 0 *)
Definition module_table (f : elffile) : symtab :=
  let offset := elf_offset true 0 (ef_vaddr0 f) in
  let st := load_symtab_gen symtab_prev_only_accepted true 0 (ef_vaddr0 f) (ef_symtab f) in
  let dyn := merge_symtabs (load_elf_dynsymtab true 0 (ef_plt f)) (noplt_syms offset (ef_reladyn f) (ef_globdat f)) in
  (* update_symtab_using_dynsym applies the adjustment to its own copy of the offset (generated flag) *)
  fold_left (update_one (if dynsym_update_offset_adjusted then offset else 0)) (ef_dynsym f) (merge_symtabs st dyn).

Fixpoint strictly_sorted (tab : symtab) : bool :=
  match tab with
  | a :: ((b :: _) as r) => (s_addr a <? s_addr b) && strictly_sorted r
  | _ => true
  end.

(* run-time checker for a module table built by the implementation: every loadable symbol of the
   file is represented at (st_value - first PT_LOAD address), no address occurs twice among the
   non-PLT entries *)
Definition ok_module_table (f : elffile) (tab : symtab) : bool :=
  forallb (fun e => if loadable e then existsb (fun s => s_addr s =? e_value e - ef_vaddr0 f) tab else true) (ef_symtab f)
  && strictly_sorted (filter (fun s => negb (s_type s =? K_ST_PLT_FUNC)) tab).

(* run-time checker for the wrapper's time stamps on a real recording: the DLOP stamp of a load lies
   between the record of the dlopen() call that performed it (PLT entry, written before the wrapper
   reads the clock) and the first record made inside the library.  (lo, stamp, hi) *)
Definition ok_stamp_window (w : list (Z * Z * Z)) : bool :=
  forallb (fun x => match x with (lo, st, hi) => (lo <=? st) && (st <=? hi) end) w.
