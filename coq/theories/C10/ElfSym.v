(* C10 - the symbol table built from an ELF .symtab (load_symbol, sort_symtab): module-relative,
   one entry per address, every loadable symbol represented. *)
From Coq Require Import ZArith List Bool Lia ZifyBool Sorting.Permutation.
Import ListNotations.
Require Import UV.Gen.Kernels UV.C10.Model UV.C10.Proofs UV.C10.SymCodec.
Local Open Scope Z_scope.

Definition sym_addr_of (offset : Z) (e : esym) : Z := (e_value e + offset) mod W64.

(* ------------------------------------------------------------------ load_symbol *)
Lemma load_symbols_from : forall oa offset l prev s, In s (load_symbols oa offset prev l) ->
  exists e, In e l /\ loadable e = true /\
            s = mkSym (sym_addr_of offset e) (e_size e mod W32) (symtype_of e) (e_name e).
Proof.
  intros oa offset. induction l as [|h r IH]; intros prev s H; [destruct H|]. cbn [load_symbols] in H.
  destruct (loadable h && negb (prev =? e_value h)) eqn:E.
  - destruct H as [<-|H].
    + exists h. apply andb_prop in E. repeat split; [now left | tauto].
    + destruct (IH _ _ H) as (e & A & B & C). exists e. repeat split; auto. now right.
  - destruct (IH _ _ H) as (e & A & B & C). exists e. repeat split; auto. now right.
Qed.

(* aliases (a symbol whose value equals the previously loaded one) are dropped, but their address
   stays represented *)
Lemma load_symbols_covers : forall offset l prev e, In e l -> loadable e = true ->
  (exists s, In s (load_symbols true offset prev l) /\ s_addr s = sym_addr_of offset e) \/ prev = e_value e.
Proof.
  intros offset. induction l as [|h r IH]; intros prev e Hin Hl; [destruct Hin|]. cbn [load_symbols].
  destruct (loadable h && negb (prev =? e_value h)) eqn:E.
  - left. destruct Hin as [<-|Hin].
    + eexists. split; [now left | reflexivity].
    + destruct (IH (e_value h) e Hin Hl) as [(s & A & B)|Heq].
      * exists s. split; [now right | auto].
      * eexists. split; [now left|]. cbn. unfold sym_addr_of. now rewrite Heq.
  - destruct Hin as [<-|Hin].
    + right. rewrite Hl in E. cbn in E. lia.
    + destruct (IH prev e Hin Hl) as [(s & A & B)|Heq]; [left; eauto | now right].
Qed.

(* ------------------------------------------------------------------ sort_symtab's duplicate removal *)
Lemma dedup_go_addrs : forall l cur best last, s_addr last = cur ->
  (forall s, In s (last :: l) -> exists s', In s' (dedup_go cur best last l) /\ s_addr s' = s_addr s) /\
  (forall s', In s' (dedup_go cur best last l) -> exists s, In s (last :: l) /\ s_addr s' = s_addr s /\
                                                     s_size s' = s_size s /\ s_type s' = s_type s).
Proof.
  induction l as [|y r IH]; intros cur best last Hc.
  - cbn. split.
    + intros s [<-|[]]. exists (finish_run best last). split; [now left | reflexivity].
    + intros s' [<-|[]]. exists last. split; [now left|]. cbn. repeat split; reflexivity.
  - cbn [dedup_go]. destruct (s_addr y =? cur) eqn:E.
    + assert (Hy : s_addr y = cur) by lia.
      destruct (IH cur (better_name best (s_name y)) y Hy) as [A B]. split.
      * intros s [<-|Hs]; [|apply A; exact Hs].
        destruct (A y (or_introl eq_refl)) as (s' & H1 & H2). exists s'. split; auto. congruence.
      * intros s' Hs'. destruct (B s' Hs') as (s & H1 & H2). exists s. split; auto. now right.
    + destruct (IH (s_addr y) (s_name y) y eq_refl) as [A B]. split.
      * intros s [<-|Hs].
        -- exists (finish_run best last). split; [now left | reflexivity].
        -- destruct (A s Hs) as (s' & H1 & H2). exists s'. split; auto. now right.
      * intros s' [<-|Hs'].
        -- exists last. split; [now left|]. cbn. repeat split; reflexivity.
        -- destruct (B s' Hs') as (s & H1 & H2). exists s. split; auto. now right.
Qed.

Lemma dedup_addrs : forall l s, In s l -> exists s', In s' (dedup_syms l) /\ s_addr s' = s_addr s.
Proof.
  intros [|x r] s H; [destruct H|]. unfold dedup_syms.
  destruct (dedup_go_addrs r (s_addr x) (s_name x) x eq_refl) as [A _]. auto.
Qed.

Lemma dedup_from : forall l s', In s' (dedup_syms l) -> exists s, In s l /\ s_addr s' = s_addr s /\
                                                            s_size s' = s_size s /\ s_type s' = s_type s.
Proof.
  intros [|x r] s' H; [destruct H|]. unfold dedup_syms in H.
  destruct (dedup_go_addrs r (s_addr x) (s_name x) x eq_refl) as [_ B]. auto.
Qed.

Lemma addr_sorted_tail : forall x l, addr_sorted (x :: l) = true -> addr_sorted l = true.
Proof. intros x [|y r] H; [reflexivity|]. cbn [addr_sorted] in H. apply andb_prop in H. tauto. Qed.

Lemma strictly_sorted_cons2 : forall a b r, strictly_sorted (a :: b :: r) = (s_addr a <? s_addr b) && strictly_sorted (b :: r).
Proof. reflexivity. Qed.

Lemma dedup_go_sorted : forall l cur best last, s_addr last = cur -> addr_sorted (last :: l) = true ->
  strictly_sorted (dedup_go cur best last l) = true /\
  (exists s r, dedup_go cur best last l = s :: r /\ s_addr s = cur).
Proof.
  induction l as [|y r IH]; intros cur best last Hc Hs.
  - cbn. split; [reflexivity|]. eexists. eexists. split; [reflexivity | exact Hc].
  - cbn [dedup_go]. cbn [addr_sorted] in Hs. apply andb_prop in Hs. destruct Hs as [Hle Hs].
    destruct (s_addr y =? cur) eqn:E.
    + apply IH; [lia | exact Hs].
    + destruct (IH (s_addr y) (s_name y) y eq_refl Hs) as (A & s & t & B & C). split.
      * rewrite B. rewrite strictly_sorted_cons2. rewrite B in A. rewrite A.
        cbn [finish_run s_addr]. rewrite C. replace (s_addr last <? s_addr y) with true by lia. reflexivity.
      * eexists. eexists. split; [reflexivity | exact Hc].
Qed.

Lemma dedup_sorted : forall l, addr_sorted l = true -> strictly_sorted (dedup_syms l) = true.
Proof.
  intros [|x r] H; [reflexivity|]. unfold dedup_syms. apply (dedup_go_sorted r (s_addr x) (s_name x) x eq_refl H).
Qed.

(* ------------------------------------------------------------------ load_symtab *)
Lemma adj_relative : forall v vaddr0, 0 <= vaddr0 <= v -> v < W64 ->
  sym_addr_of (elf_offset true 0 vaddr0) (mkESym v 0 0 0 0 []) = v - vaddr0.
Proof.
  intros v vaddr0 H1 H2. unfold sym_addr_of, elf_offset. cbn [e_value].
  replace (0 - vaddr0) with (- vaddr0) by lia. rewrite Zplus_mod_idemp_r. apply Z.mod_small. lia.
Qed.

(* every entry comes from a loadable symbol of the file, at st_value - first PT_LOAD address *)
Lemma load_symtab_relative : forall vaddr0 syms s,
  (forall e, In e syms -> loadable e = true -> 0 <= vaddr0 <= e_value e /\ e_value e < W64) ->
  In s (load_symtab true 0 vaddr0 syms) ->
  exists e, In e syms /\ loadable e = true /\ s_addr s = e_value e - vaddr0.
Proof.
  intros vaddr0 syms s Hr Hin. unfold load_symtab, load_symtab_gen in Hin.
  destruct (dedup_from _ _ Hin) as (s0 & H0 & Ha & _).
  apply (Permutation_in _ (sort_syms_perm _)) in H0.
  destruct (load_symbols_from _ _ _ _ _ H0) as (e & He & Hl & ->).
  exists e. repeat split; auto. rewrite Ha. cbn [s_addr].
  specialize (Hr e He Hl). unfold sym_addr_of, elf_offset.
  replace (0 - vaddr0) with (- vaddr0) by lia. rewrite Zplus_mod_idemp_r. apply Z.mod_small. lia.
Qed.

(* every loadable symbol of the file (function, ifunc or object with a size, defined) is represented
   at its module-relative address - under its own name or the name of an alias *)
Lemma load_symtab_complete : forall vaddr0 syms e,
  (forall e, In e syms -> loadable e = true -> 0 <= vaddr0 <= e_value e /\ e_value e < W64) ->
  In e syms -> loadable e = true ->
  exists s, In s (load_symtab true 0 vaddr0 syms) /\ s_addr s = e_value e - vaddr0.
Proof.
  intros vaddr0 syms e Hr Hin Hl. unfold load_symtab, load_symtab_gen.
  destruct (load_symbols_covers (elf_offset true 0 vaddr0) syms (-1) e Hin Hl) as [(s & A & B)|Heq].
  2:{ specialize (Hr e Hin Hl). lia. }
  apply (Permutation_in _ (Permutation_sym (sort_syms_perm _))) in A.
  destruct (dedup_addrs _ _ A) as (s' & A' & B'). exists s'. split; auto.
  rewrite B', B. specialize (Hr e Hin Hl). unfold sym_addr_of, elf_offset.
  replace (0 - vaddr0) with (- vaddr0) by lia. rewrite Zplus_mod_idemp_r. apply Z.mod_small. lia.
Qed.

(* one entry per address, in address order *)
Lemma load_symtab_strictly_sorted : forall adj offset0 vaddr0 syms,
  strictly_sorted (load_symtab adj offset0 vaddr0 syms) = true.
Proof. intros. unfold load_symtab, load_symtab_gen. apply dedup_sorted. apply sort_syms_sorted. Qed.

(* a strictly sorted table whose symbols do not reach into the next one is a table the lookup
   theorems apply to *)
Example load_symtab_example :
  let syms := [mkESym 0 0 0 0 0 []; mkESym 4198400 16 2 1 14 [95;102]; mkESym 4198400 16 2 2 14 [102];
               mkESym 4198416 8 2 0 14 [103]; mkESym 0 0 2 1 0 [117]; mkESym 4210688 4 1 1 25 [100]] in
  load_symtab true 0 4194304 syms =
  [mkSym 4096 16 84 [95;102]; mkSym 4112 8 116 [103]; mkSym 16384 4 68 [100]].
Proof. vm_compute. reflexivity. Qed.

(* duplicate removal keeps the data of the last symbol of an address and prefers a name that does
   not start with an underscore *)
Example dedup_example :
  dedup_syms [mkSym 16 4 84 [95;120]; mkSym 16 8 119 [121]; mkSym 32 4 84 [122]] =
  [mkSym 16 8 119 [121]; mkSym 32 4 84 [122]].
Proof. vm_compute. reflexivity. Qed.

(* the same for load_symtab AS BUILT: the flag says whether the C text assigns prev_sym_value only
   under `if (load_symbol(...))` *)
Lemma load_symtab_complete_as_built : forall vaddr0 syms e,
  (forall e, In e syms -> loadable e = true -> 0 <= vaddr0 <= e_value e /\ e_value e < W64) ->
  In e syms -> loadable e = true ->
  exists s, In s (load_symtab_gen symtab_prev_only_accepted true 0 vaddr0 syms) /\ s_addr s = e_value e - vaddr0.
Proof. change symtab_prev_only_accepted with true. exact load_symtab_complete. Qed.

(* the alias rule must compare with the last ACCEPTED entry: comparing with the previous ELF entry
   drops a function that follows a label (NOTYPE, size 0) with the same value *)
Lemma alias_of_rejected_refuted :
  let syms := [mkESym 4198400 0 0 0 14 [108;97;98;101;108]; mkESym 4198400 16 2 0 14 [104;101;108;112;101;114];
               mkESym 4198416 8 2 1 14 [109;97;105;110]] in
  load_symtab_gen false true 0 4194304 syms = [mkSym 4112 8 84 [109;97;105;110]] /\
  load_symtab_gen true true 0 4194304 syms = [mkSym 4096 16 116 [104;101;108;112;101;114]; mkSym 4112 8 84 [109;97;105;110]].
Proof. vm_compute. split; reflexivity. Qed.

(* ------------------------------------------------------------------ update_symtab_using_dynsym *)
(* the update only renames: every entry keeps address, size and type, and a new name is the name of
   a defined dynamic symbol whose (value + offset) lies inside that entry *)
Definition named_ok (offset : Z) (dyn : list esym) (s s' : sym) : Prop :=
  s_addr s' = s_addr s /\ s_size s' = s_size s /\ s_type s' = s_type s /\
  (s_name s' = s_name s \/
   exists e, In e dyn /\ s_name s' = e_name e /\ cmp_addr ((e_value e + offset) mod W64) s = 0).

Lemma named_ok_refl : forall offset dyn tab, Forall2 (named_ok offset dyn) tab tab.
Proof. induction tab; constructor; auto. unfold named_ok. auto. Qed.

Lemma Forall2_set_name : forall offset dyn e (He : In e dyn) tab cur i si,
  Forall2 (named_ok offset dyn) tab cur -> nth_error cur i = Some si ->
  cmp_addr ((e_value e + offset) mod W64) si = 0 ->
  Forall2 (named_ok offset dyn) tab (set_name cur i (e_name e)).
Proof.
  intros offset dyn e He tab cur. revert tab. induction cur as [|c r IH]; intros tab i si HF Hn Hc.
  - destruct i; discriminate.
  - inversion HF as [|t0 c0 tr cr Hh Ht]; subst. destruct i as [|i]; cbn in Hn |- *.
    + inversion Hn; subst si. constructor; auto.
      destruct Hh as (A & B & C & _). unfold named_ok. cbn. repeat split; auto.
      right. exists e. repeat split; auto. unfold cmp_addr in *. rewrite <- A, <- B. exact Hc.
    + constructor; auto. eapply IH; eauto.
Qed.

Lemma update_one_ok : forall offset dyn e tab cur, In e dyn ->
  Forall2 (named_ok offset dyn) tab cur -> Forall2 (named_ok offset dyn) tab (update_one offset cur e).
Proof.
  intros offset dyn e tab cur He HF. unfold update_one.
  destruct ((e_shndx e =? 0) || negb (esym_typed e)); auto.
  destruct (bsearch (cmp_addr ((e_value e + offset) mod W64)) cur) as [i|] eqn:Eb; auto.
  destruct (bsearch_sound _ _ _ Eb) as (si & Hn & Hc). rewrite Hn.
  destruct ((negb (nth 0 (s_name si) 0 =? 95) && (nth 0 (e_name e) 0 =? 95)) || (nth 1 (s_name si) 0 =? 90)); auto.
  eapply Forall2_set_name; eauto.
Qed.

Lemma update_names_consistent : forall offset dyn tab,
  Forall2 (named_ok offset dyn) tab (fold_left (update_one offset) dyn tab).
Proof.
  intros offset dyn tab.
  assert (G : forall l cur, incl l dyn -> Forall2 (named_ok offset dyn) tab cur ->
                            Forall2 (named_ok offset dyn) tab (fold_left (update_one offset) l cur)).
  { induction l as [|e r IH]; intros cur Hi HF; [exact HF|]. cbn [fold_left].
    apply IH; [intros x Hx; apply Hi; now right|]. apply update_one_ok; auto. apply Hi. now left. }
  apply G; [apply incl_refl | apply named_ok_refl].
Qed.

(* in module-relative terms (SYMTAB_FL_ADJ_OFFSET, any first PT_LOAD address): a renamed entry
   holds the module-relative address of the dynamic symbol it is named after *)
Lemma update_names_relative : forall vaddr0 dyn s s',
  (forall e, In e dyn -> 0 <= vaddr0 <= e_value e /\ e_value e < W64) ->
  named_ok (elf_offset true 0 vaddr0) dyn s s' -> s_name s' <> s_name s ->
  exists e, In e dyn /\ s_name s' = e_name e /\
            s_addr s <= e_value e - vaddr0 /\ e_value e - vaddr0 < (s_addr s + s_size s) mod W64.
Proof.
  intros vaddr0 dyn s s' Hr (A & B & C & [D|(e & He & Hn & Hc)]) Hne; [congruence|].
  exists e. repeat split; auto; specialize (Hr e He);
    unfold cmp_addr, elf_offset in Hc; replace (0 - vaddr0) with (- vaddr0) in Hc by lia;
    rewrite Zplus_mod_idemp_r, (Z.mod_small (e_value e + - vaddr0)) in Hc by lia;
    pose proof (addrfind_cases (e_value e + - vaddr0) (s_addr s) (s_size s)); lia.
Qed.

(* as built: the offset update_symtab_using_dynsym really uses (generated flag) is the adjusted one *)
Lemma update_offset_as_built : forall vaddr0,
  (if dynsym_update_offset_adjusted then elf_offset true 0 vaddr0 else 0) = elf_offset true 0 vaddr0.
Proof. intros. change dynsym_update_offset_adjusted with true. reflexivity. Qed.

(* dropping the adjustment: the exported near function's ABSOLUTE address is looked up in the
   module-relative table and a far function sitting at that offset takes its name *)
Definition far_tab : symtab := [mkSym 4352 32 84 [110;101;97;114]; mkSym 4198400 12288 84 [102;97;114]].
Definition far_dyn : list esym := [mkESym 4198656 32 2 1 14 [110;101;97;114]].
Lemma update_unadjusted_refuted :
  fold_left (update_one 0) far_dyn far_tab = [mkSym 4352 32 84 [110;101;97;114]; mkSym 4198400 12288 84 [110;101;97;114]] /\
  fold_left (update_one (elf_offset true 0 4194304)) far_dyn far_tab = far_tab.
Proof. vm_compute. split; reflexivity. Qed.
