(* C10 - proofs (work in progress) *)
From Coq Require Import ZArith List Bool Lia.
Import ListNotations.
Require Import UV.Gen.Kernels UV.C10.Model.
Local Open Scope Z_scope.

Lemma addrfind_zero_iff : forall a sa sz, sa + sz < W64 -> 0 <= sa -> 0 <= sz ->
  (addrfind a sa sz = 0 <-> sa <= a < sa + sz).
Proof.
  intros a sa sz Hw Hsa Hsz. unfold addrfind.
  rewrite (Z.mod_small (sa + sz)) by (unfold W64 in Hw; lia).
  destruct (sa <=? a) eqn:E1; destruct (a <? sa + sz) eqn:E2; cbn [andb];
    try destruct (sa >? a) eqn:E3; split; intros; try lia; try discriminate.
Qed.
