(* C10 - proofs about the lookup side: generated comparator, glibc bsearch, find_sym,
   find_symtabs under ASLR shifts. *)
From Coq Require Import ZArith List Bool Lia Arith PeanoNat ZifyBool.
Import ListNotations.
Require Import UV.Gen.Kernels UV.C10.Model.
Local Open Scope Z_scope.

(* ------------------------------------------------------------------ the generated comparator *)
Lemma addrfind_cases : forall a sa sz,
  (addrfind a sa sz = 0 /\ sa <= a /\ a < (sa + sz) mod W64) \/
  (addrfind a sa sz = -1 /\ a < sa) \/
  (addrfind a sa sz = 1 /\ sa <= a /\ (sa + sz) mod W64 <= a).
Proof.
  intros a sa sz. unfold addrfind. fold W64.
  destruct (sa <=? a) eqn:E1; destruct (a <? (sa + sz) mod W64) eqn:E2; cbn [andb].
  - left. lia.
  - right. right. destruct (sa >? a) eqn:E3; lia.
  - right. left. destruct (sa >? a) eqn:E3; lia.
  - right. left. destruct (sa >? a) eqn:E3; lia.
Qed.

Lemma addrfind_zero_iff : forall a sa sz, sa + sz < W64 -> 0 <= sa -> 0 <= sz ->
  (addrfind a sa sz = 0 <-> sa <= a < sa + sz).
Proof.
  intros a sa sz Hw Hsa Hsz.
  pose proof (addrfind_cases a sa sz) as H.
  rewrite (Z.mod_small (sa + sz)) in H by lia.
  lia.
Qed.

(* ------------------------------------------------------------------ bsearch *)
Lemma bsearch_go_sound : forall fuel cmp tab l u i,
  bsearch_go fuel cmp tab l u = Some i ->
  exists s, nth_error tab i = Some s /\ cmp s = 0 /\ (l <= i < u)%nat.
Proof.
  induction fuel as [|f IH]; intros cmp tab l u i H; cbn [bsearch_go] in H; [discriminate|].
  destruct (l <? u)%nat eqn:Elu; [|discriminate].
  apply Nat.ltb_lt in Elu.
  assert (Hidx : (l <= (l + u) / 2 < u)%nat).
  { split; [apply Nat.div_le_lower_bound; lia | apply Nat.div_lt_upper_bound; lia]. }
  set (idx := ((l + u) / 2)%nat) in *.
  destruct (nth_error tab idx) as [s|] eqn:En; [|discriminate].
  destruct (cmp s <? 0) eqn:E1.
  - apply IH in H. destruct H as (s' & H1 & H2 & H3). exists s'. repeat split; auto; lia.
  - destruct (cmp s >? 0) eqn:E2.
    + apply IH in H. destruct H as (s' & H1 & H2 & H3). exists s'. repeat split; auto; lia.
    + inversion H; subst i. exists s. repeat split; auto; lia.
Qed.

(* the comparator is consistent with the order of the table: once it says "here or to the
   left" for an element, it says "to the right" for every element before it *)
Definition ordered (cmp : sym -> Z) (tab : symtab) : Prop :=
  forall i j si sj, (i < j)%nat -> nth_error tab i = Some si -> nth_error tab j = Some sj ->
                    cmp sj >= 0 -> cmp si > 0.

Lemma ordered_unique : forall cmp tab i j si sj, ordered cmp tab ->
  nth_error tab i = Some si -> nth_error tab j = Some sj -> cmp si = 0 -> cmp sj = 0 -> i = j.
Proof.
  intros cmp tab i j si sj Ho Hi Hj Ci Cj.
  destruct (Nat.lt_trichotomy i j) as [H|[H|H]]; auto.
  - pose proof (Ho i j si sj H Hi Hj). lia.
  - pose proof (Ho j i sj si H Hj Hi). lia.
Qed.

Lemma bsearch_go_complete : forall fuel cmp tab l u k s,
  ordered cmp tab -> (u <= length tab)%nat -> (l <= k < u)%nat -> (u - l < fuel)%nat ->
  nth_error tab k = Some s -> cmp s = 0 ->
  bsearch_go fuel cmp tab l u = Some k.
Proof.
  induction fuel as [|f IH]; intros cmp tab l u k s Ho Hu Hk Hf Hn Hc; [lia|].
  cbn [bsearch_go].
  assert (Elu : (l <? u)%nat = true) by (apply Nat.ltb_lt; lia). rewrite Elu.
  assert (Hidx : (l <= (l + u) / 2 < u)%nat).
  { split; [apply Nat.div_le_lower_bound; lia | apply Nat.div_lt_upper_bound; lia]. }
  set (idx := ((l + u) / 2)%nat) in *.
  destruct (nth_error tab idx) as [si|] eqn:En.
  2:{ apply nth_error_None in En. lia. }
  destruct (cmp si <? 0) eqn:E1.
  - (* go left: k < idx *)
    apply Z.ltb_lt in E1.
    assert (k < idx)%nat.
    { destruct (Nat.lt_trichotomy k idx) as [H|[H|H]]; auto.
      - subst k. rewrite Hn in En. inversion En; subst. lia.
      - pose proof (Ho idx k si s H En Hn). lia. }
    eapply IH; eauto; lia.
  - destruct (cmp si >? 0) eqn:E2.
    + assert (idx < k)%nat.
      { destruct (Nat.lt_trichotomy k idx) as [H|[H|H]]; auto.
        - pose proof (Ho k idx s si H Hn En). lia.
        - subst k. rewrite Hn in En. inversion En; subst. lia. }
      eapply IH; eauto; lia.
    + assert (cmp si = 0) by lia.
      f_equal. eapply ordered_unique; eauto.
Qed.

Lemma bsearch_complete : forall cmp tab k s, ordered cmp tab ->
  nth_error tab k = Some s -> cmp s = 0 -> bsearch cmp tab = Some k.
Proof.
  intros cmp tab k s Ho Hn Hc. unfold bsearch.
  assert (k < length tab)%nat by (apply nth_error_Some; congruence).
  eapply bsearch_go_complete; eauto; lia.
Qed.

Lemma bsearch_sound : forall cmp tab i, bsearch cmp tab = Some i ->
  exists s, nth_error tab i = Some s /\ cmp s = 0.
Proof.
  intros cmp tab i H. apply bsearch_go_sound in H. destruct H as (s & H1 & H2 & _). eauto.
Qed.

Lemma bsearch_none : forall cmp tab, ordered cmp tab -> bsearch cmp tab = None ->
  forall k s, nth_error tab k = Some s -> cmp s <> 0.
Proof.
  intros cmp tab Ho Hb k s Hn Hc.
  rewrite (bsearch_complete cmp tab k s Ho Hn Hc) in Hb. discriminate.
Qed.

(* ------------------------------------------------------------------ well-formed tables *)
Lemma wf_from_nth : forall tab lo i s, wf_tab_from lo tab = true -> nth_error tab i = Some s ->
  lo <= s_addr s /\ 0 <= s_size s /\ s_addr s + s_size s < W64.
Proof.
  induction tab as [|x r IH]; intros lo i s Hwf Hn; [destruct i; discriminate|].
  cbn [wf_tab_from] in Hwf. apply andb_prop in Hwf. destruct Hwf as [Hwf H4].
  apply andb_prop in Hwf. destruct Hwf as [Hwf H3]. apply andb_prop in Hwf. destruct Hwf as [H1 H2].
  destruct i as [|i]; cbn in Hn.
  - inversion Hn; subst. lia.
  - destruct (IH _ _ _ H4 Hn) as (A & B & C). lia.
Qed.

Lemma wf_from_lt : forall tab lo i j si sj, wf_tab_from lo tab = true -> (i < j)%nat ->
  nth_error tab i = Some si -> nth_error tab j = Some sj -> s_addr si + s_size si <= s_addr sj.
Proof.
  induction tab as [|x r IH]; intros lo i j si sj Hwf Hij Hi Hj; [destruct i; discriminate|].
  cbn [wf_tab_from] in Hwf. apply andb_prop in Hwf. destruct Hwf as [Hwf H4].
  destruct j as [|j]; [lia|]. cbn in Hj.
  destruct i as [|i]; cbn in Hi.
  - inversion Hi; subst. destruct (wf_from_nth _ _ _ _ H4 Hj) as (A & _). lia.
  - apply (IH _ i j si sj H4); auto; lia.
Qed.

Lemma wf_ordered : forall tab a, wf_tab tab = true -> ordered (cmp_addr a) tab.
Proof.
  intros tab a Hwf i j si sj Hij Hi Hj Hc. unfold cmp_addr in *.
  destruct (wf_from_nth _ _ _ _ Hwf Hi) as (A1 & A2 & A3).
  destruct (wf_from_nth _ _ _ _ Hwf Hj) as (B1 & B2 & B3).
  pose proof (wf_from_lt _ _ _ _ _ _ Hwf Hij Hi Hj) as Hlt.
  pose proof (addrfind_cases a (s_addr si) (s_size si)) as Ci.
  pose proof (addrfind_cases a (s_addr sj) (s_size sj)) as Cj.
  rewrite (Z.mod_small (s_addr si + s_size si)) in Ci by lia.
  rewrite (Z.mod_small (s_addr sj + s_size sj)) in Cj by lia.
  lia.
Qed.

Lemma cmp_addr_contains : forall a s, 0 <= s_addr s -> 0 <= s_size s -> s_addr s + s_size s < W64 ->
  (cmp_addr a s = 0 <-> contains s a = true).
Proof.
  intros a s H1 H2 H3. unfold cmp_addr, contains.
  rewrite addrfind_zero_iff by lia. rewrite andb_true_iff, Z.leb_le, Z.ltb_lt. tauto.
Qed.

(* ------------------------------------------------------------------ list search helpers *)
Lemma find_none_all : forall {A} (f : A -> bool) l, (forall x, In x l -> f x = false) -> find f l = None.
Proof.
  induction l as [|x r IH]; intros H; cbn; auto.
  rewrite (H x (or_introl eq_refl)). apply IH. intros y Hy. apply H. now right.
Qed.

Lemma find_some_nth : forall {A} (f : A -> bool) l x, find f l = Some x ->
  exists k, nth_error l k = Some x /\ f x = true.
Proof.
  intros A f l x H. destruct (find_some _ _ H) as [Hin Hf].
  destruct (In_nth_error _ _ Hin) as [k Hk]. eauto.
Qed.

(* ------------------------------------------------------------------ C10_lookup *)
(* soundness needs no hypothesis on the table at all *)
Lemma find_sym_sound : forall tab a s, find_sym tab a = Some s ->
  In s tab /\ s_addr s <= a /\ a < (s_addr s + s_size s) mod W64 /\ is_symbol_end (s_name s) = false.
Proof.
  intros tab a s H. unfold find_sym, find_sym_idx in H.
  destruct (bsearch (cmp_addr a) tab) as [i|] eqn:Eb; [|discriminate].
  destruct (bsearch_sound _ _ _ Eb) as (s' & Hn & Hc). rewrite Hn in H.
  destruct (is_symbol_end (s_name s')) eqn:Ee; [discriminate|].
  rewrite Hn in H. inversion H; subst s'.
  split; [eapply nth_error_In; eauto|].
  unfold cmp_addr in Hc. pose proof (addrfind_cases a (s_addr s) (s_size s)). repeat split; auto; lia.
Qed.

Lemma find_sym_wf : forall tab a, wf_tab tab = true -> find_sym tab a = spec_find tab a.
Proof.
  intros tab a Hwf. pose proof (wf_ordered tab a Hwf) as Ho.
  unfold find_sym, find_sym_idx, spec_find.
  destruct (bsearch (cmp_addr a) tab) as [i|] eqn:Eb.
  - destruct (bsearch_sound _ _ _ Eb) as (s & Hn & Hc). rewrite Hn.
    destruct (wf_from_nth _ _ _ _ Hwf Hn) as (A1 & A2 & A3).
    assert (Hcs : contains s a = true) by (apply cmp_addr_contains; auto; lia).
    (* every element that contains a is the one at index i *)
    assert (Huniq : forall k x, nth_error tab k = Some x -> contains x a = true -> x = s).
    { intros k x Hk Hx. destruct (wf_from_nth _ _ _ _ Hwf Hk) as (B1 & B2 & B3).
      assert (cmp_addr a x = 0) by (apply cmp_addr_contains; auto; lia).
      assert (k = i) by (eapply ordered_unique; eauto). subst k. congruence. }
    destruct (is_symbol_end (s_name s)) eqn:Ee.
    + symmetry. apply find_none_all. intros x Hx.
      destruct (contains x a) eqn:Ex; auto. cbn [andb].
      destruct (In_nth_error _ _ Hx) as [k Hk]. rewrite (Huniq k x Hk Ex). now rewrite Ee.
    + rewrite Hn.
      destruct (find (fun s0 => contains s0 a && negb (is_symbol_end (s_name s0))) tab) as [x|] eqn:Ef.
      * destruct (find_some_nth _ _ _ Ef) as (k & Hk & Hfx). apply andb_prop in Hfx.
        f_equal. symmetry. eapply Huniq; eauto. tauto.
      * exfalso. pose proof (find_none _ _ Ef s (nth_error_In _ _ Hn)) as Hf. cbn in Hf.
        rewrite Hcs, Ee in Hf. discriminate.
  - symmetry. apply find_none_all. intros x Hx.
    destruct (In_nth_error _ _ Hx) as [k Hk].
    destruct (wf_from_nth _ _ _ _ Hwf Hk) as (B1 & B2 & B3).
    destruct (contains x a) eqn:Ex; auto.
    exfalso. eapply (bsearch_none _ _ Ho Eb k x Hk). apply cmp_addr_contains; auto; lia.
Qed.

Lemma find_sym_iff : forall tab a s, wf_tab tab = true ->
  (find_sym tab a = Some s <->
   In s tab /\ s_addr s <= a < s_addr s + s_size s /\ is_symbol_end (s_name s) = false).
Proof.
  intros tab a s Hwf. rewrite find_sym_wf by auto. unfold spec_find. split.
  - intros H. destruct (find_some _ _ H) as [Hin Hf]. apply andb_prop in Hf. destruct Hf as [Hc He].
    unfold contains in Hc. apply andb_prop in Hc. rewrite negb_true_iff in He.
    repeat split; auto; lia.
  - intros (Hin & Hr & He).
    destruct (In_nth_error _ _ Hin) as [k Hk].
    assert (Hcs : contains s a = true) by (unfold contains; apply andb_true_intro; split; lia).
    destruct (find (fun s0 => contains s0 a && negb (is_symbol_end (s_name s0))) tab) as [x|] eqn:Ef.
    + destruct (find_some_nth _ _ _ Ef) as (k' & Hk' & Hfx). apply andb_prop in Hfx. destruct Hfx as [Hcx _].
      destruct (wf_from_nth _ _ _ _ Hwf Hk) as (A1 & A2 & A3).
      destruct (wf_from_nth _ _ _ _ Hwf Hk') as (B1 & B2 & B3).
      assert (k' = k).
      { eapply (ordered_unique (cmp_addr a)); eauto using wf_ordered; apply cmp_addr_contains; auto; lia. }
      subst. congruence.
    + pose proof (find_none _ _ Ef s Hin) as Hf. cbn in Hf. rewrite Hcs, He in Hf. discriminate.
Qed.

(* gaps and one-past addresses: nothing is found (shown as a raw address) *)
Lemma find_sym_gap : forall tab a, wf_tab tab = true ->
  (forall s, In s tab -> ~ (s_addr s <= a < s_addr s + s_size s)) -> find_sym tab a = None.
Proof.
  intros tab a Hwf Hgap. destruct (find_sym tab a) as [s|] eqn:E; auto.
  apply find_sym_iff in E; auto. destruct E as (Hin & Hr & _). exfalso. eapply Hgap; eauto.
Qed.

(* the completeness direction really needs disjoint ranges: nested symbols hide the outer one *)
Definition tab_overlap : symtab :=
  [mkSym 0 100 84 [65]; mkSym 10 10 84 [66]; mkSym 30 10 84 [67]].
Lemma lookup_overlap_refuted :
  find_sym tab_overlap 50 = None /\ spec_find tab_overlap 50 = Some (mkSym 0 100 84 [65]).
Proof. split; vm_compute; reflexivity. Qed.

(* a symbol that ends exactly at 2^64 is never found (addr+size wraps to 0) *)
Lemma lookup_wrap_refuted :
  find_sym [mkSym (W64 - 16) 16 84 [65]] (W64 - 8) = None.
Proof. vm_compute; reflexivity. Qed.

(* ------------------------------------------------------------------ ASLR independence *)
Definition shift_map (d : Z) (m : mmap) : mmap :=
  mkMap (m_start m + d) (m_end m + d) (m_prot m) (m_name m) (m_bid m) (m_tab m).
Definition shift_info (d : Z) (si : sinfo) : sinfo :=
  mkSinfo (kbase si) (map (shift_map d) (maps si)) (ktab si).

Lemma first_map_shift : forall ms d a,
  first_map (map (shift_map d) ms) (a + d) = option_map (shift_map d) (first_map ms a).
Proof.
  induction ms as [|m r IH]; intros d a; cbn; auto. unfold map_contains.
  replace (m_start m + d <=? a + d) with (m_start m <=? a) by (apply eq_true_iff_eq; rewrite !Z.leb_le; lia).
  replace (a + d <? m_end m + d) with (a <? m_end m) by (apply eq_true_iff_eq; rewrite !Z.ltb_lt; lia).
  destruct ((m_start m <=? a) && (a <? m_end m)); auto.
Qed.

Lemma is_kernel_address_lt : forall kb a, a < kb -> is_kernel_address kb a = 0.
Proof.
  intros kb a H. unfold is_kernel_address.
  destruct (a >=? kb) eqn:E; [lia|]. reflexivity.
Qed.

Lemma find_symtabs_shift : forall si d a,
  a < kbase si -> a + d < kbase si ->
  find_symtabs (shift_info d si) (a + d) = find_symtabs si a.
Proof.
  intros si d a H1 H2. unfold find_symtabs, find_map, shift_info. cbn [kbase maps ktab].
  rewrite !is_kernel_address_lt by auto. cbn [negb Z.eqb].
  rewrite first_map_shift. destruct (first_map (maps si) a) as [m|]; cbn; auto.
  replace (a + d - (m_start m + d)) with (a - m_start m) by lia. reflexivity.
Qed.

(* what find_symtabs answers for a user-space address in terms of the first containing map *)
Lemma find_symtabs_user : forall si a m, a < kbase si -> first_map (maps si) a = Some m ->
  wf_tab (m_tab m) = true -> m_start m <= a -> a - m_start m < W64 ->
  find_symtabs si a = spec_find (m_tab m) (a - m_start m).
Proof.
  intros si a m Hk Hm Hwf H1 H2. unfold find_symtabs, find_map.
  rewrite is_kernel_address_lt by auto. cbn [negb Z.eqb]. rewrite Hm.
  rewrite Z.mod_small by lia. apply find_sym_wf; auto.
Qed.

Lemma find_symtabs_unmapped : forall si a, a < kbase si -> first_map (maps si) a = None ->
  find_symtabs si a = None.
Proof.
  intros si a Hk Hm. unfold find_symtabs, find_map.
  rewrite is_kernel_address_lt by auto. cbn [negb Z.eqb]. now rewrite Hm.
Qed.

Lemma first_map_spec : forall ms a m, first_map ms a = Some m -> In m ms /\ m_start m <= a < m_end m.
Proof.
  induction ms as [|x r IH]; intros a m H; cbn in H; [discriminate|]. unfold map_contains in H.
  destruct ((m_start x <=? a) && (a <? m_end x)) eqn:E.
  - inversion H; subst. apply andb_prop in E. split; [now left | lia].
  - destruct (IH _ _ H). split; [now right | auto].
Qed.
