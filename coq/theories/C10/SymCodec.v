(* C10 - proofs about the .sym text codec (save_module_symbol_file / load_module_symbol_file)
   and the segment merge of the map files. *)
From Coq Require Import ZArith List Bool Lia Arith PeanoNat ZifyBool Sorting.Permutation.
Import ListNotations.
Require Import UV.Gen.Kernels UV.C10.Model UV.C10.Proofs.
Local Open Scope Z_scope.
Ltac Zify.zify_post_hook ::= Z.div_mod_to_equations.

(* ------------------------------------------------------------------ hex digits *)
Definition hexchar (c : Z) : Prop := exists d, 0 <= d < 16 /\ c = hex_digit d.

Lemma hexval_hex_digit : forall d, 0 <= d < 16 -> hexval (hex_digit d) = Some d.
Proof.
  intros d H. unfold hex_digit, hexval.
  destruct (d <? 10) eqn:E.
  - replace ((48 <=? 48 + d) && (48 + d <=? 57)) with true by lia. f_equal. lia.
  - replace ((48 <=? 87 + d) && (87 + d <=? 57)) with false by lia.
    replace ((97 <=? 87 + d) && (87 + d <=? 102)) with true by lia. f_equal. lia.
Qed.

Lemma hexchar_facts : forall c, hexchar c ->
  isspace c = false /\ (c =? 45) = false /\ (c =? 43) = false /\ (c =? 120) = false /\ (c =? 88) = false
  /\ (c =? 35) = false /\ (c =? 10) = false /\ is_hex c = true.
Proof.
  intros c (d & Hd & ->). unfold is_hex. rewrite hexval_hex_digit by auto.
  unfold hex_digit, isspace. destruct (d <? 10) eqn:E; repeat split; lia.
Qed.

Lemma hex_rev_length : forall w n, length (hex_rev w n) = w.
Proof. induction w; intros; cbn; auto. Qed.

Lemma hex_rev_chars : forall w n, Forall hexchar (hex_rev w n).
Proof.
  induction w as [|w IH]; intros n; cbn; constructor; auto.
  exists (n mod 16). split; [lia|reflexivity].
Qed.

Lemma hex_fixed_chars : forall w n, Forall hexchar (hex_fixed w n).
Proof.
  intros. unfold hex_fixed. apply Forall_forall. intros x Hx. apply in_rev in Hx.
  pose proof (hex_rev_chars w n) as H. rewrite Forall_forall in H. auto.
Qed.

Lemma hex_fixed_length : forall w n, length (hex_fixed w n) = w.
Proof. intros. unfold hex_fixed. rewrite rev_length. apply hex_rev_length. Qed.

Lemma hex_fixed_S : forall w n, hex_fixed (S w) n = hex_fixed w (n / 16) ++ [hex_digit (n mod 16)].
Proof. intros. unfold hex_fixed. reflexivity. Qed.

(* parsing the digits the writer printed gives the number back *)
Lemma hex_digits_fixed : forall w n acc k rest, 0 <= n < 16 ^ Z.of_nat w ->
  hex_digits acc k (hex_fixed w n ++ rest) = hex_digits (acc * 16 ^ Z.of_nat w + n) (k + w) rest.
Proof.
  induction w as [|w IH]; intros n acc k rest Hn.
  - cbn in Hn. assert (n = 0) by lia. subst. cbn [hex_fixed hex_rev rev app]. unfold hex_fixed. cbn.
    f_equal; [lia | lia].
  - rewrite hex_fixed_S, <- app_assoc. cbn [app].
    rewrite Nat2Z.inj_succ, Z.pow_succ_r in * by lia.
    rewrite IH by lia. cbn [hex_digits]. rewrite hexval_hex_digit by lia.
    f_equal; [|lia].
    rewrite (Z.div_mod n 16) at 3 by lia. ring.
Qed.

Lemma hex_digits_stop : forall acc k c rest, hexval c = None -> hex_digits acc k (c :: rest) = (acc, k, c :: rest).
Proof. intros. cbn. now rewrite H. Qed.

Lemma skip_ws_nonspace : forall c r, isspace c = false -> skip_ws (c :: r) = c :: r.
Proof. intros. cbn. now rewrite H. Qed.

(* strtoull on "<w hex digits><space>..." : w >= 2, value below 2^64 *)
Lemma strtoull16_fixed : forall w n rest, (2 <= w)%nat -> 0 <= n < 16 ^ Z.of_nat w -> n <= U64MAX ->
  strtoull16 (hex_fixed w n ++ 32 :: rest) = (n, 32 :: rest).
Proof.
  intros w n rest Hw Hn Hmax.
  pose proof (hex_fixed_chars w n) as Hch. pose proof (hex_fixed_length w n) as Hlen.
  pose proof (hex_digits_fixed w n 0 0 (32 :: rest) Hn) as Hd.
  destruct (hex_fixed w n) as [|c0 [|c1 tl]] eqn:E; cbn in Hlen; try lia. clear Hlen.
  inversion Hch as [|? ? H0 Hch']; subst. inversion Hch' as [|? ? H1 _]; subst.
  destruct (hexchar_facts _ H0) as (A1 & A2 & A3 & A4 & A5 & _).
  destruct (hexchar_facts _ H1) as (B1 & B2 & B3 & B4 & B5 & _).
  unfold strtoull16. cbn [app]. rewrite skip_ws_nonspace by auto.
  rewrite A2, A3. cbn [orb].
  assert (Hm : forall (X Y : list Z),
             match X with
             | [] => Y
             | h :: r => if (c0 =? 48) && ((c1 =? 120) || (c1 =? 88)) && is_hex h then h :: r else Y
             end = Y).
  { intros [|h r] Y; auto. rewrite B4, B5. cbn [orb]. rewrite andb_false_r. reflexivity. }
  rewrite Hm. cbn [app] in Hd. rewrite Hd.
  rewrite hex_digits_stop by reflexivity.
  replace (0 * 16 ^ Z.of_nat w + n) with n by lia.
  destruct (0 + w)%nat eqn:Ew; [lia|].
  replace (n >? U64MAX) with false by lia. reflexivity.
Qed.

(* ------------------------------------------------------------------ one line *)
Lemma cut_at_none : forall c s, no_byte c s = true -> cut_at c s = s.
Proof.
  induction s as [|x r IH]; intros H; cbn in *; auto.
  apply andb_prop in H. destruct H as [H1 H2]. rewrite negb_true_iff in H1. rewrite H1. f_equal. auto.
Qed.

Lemma hex8_first_digit : forall n, 0 <= n < 2684354560 ->
  exists c tl, hex_fixed 8 n = c :: tl /\ isdigit c = true.
Proof.
  intros n Hn. unfold hex_fixed. cbn [hex_rev rev app].
  eexists. eexists. split; [reflexivity|].
  unfold isdigit, hex_digit.
  set (q := n / 16 / 16 / 16 / 16 / 16 / 16 / 16).
  assert (Hq : 0 <= q < 10).
  { unfold q. rewrite !Z.div_div by lia. cbn. split; [apply Z.div_pos; lia | apply Z.div_lt_upper_bound; lia]. }
  rewrite (Z.mod_small q 16) by lia.
  replace (q <? 10) with true by lia. lia.
Qed.

Lemma sym_file_ok_facts : forall s, sym_file_ok s = true ->
  0 <= s_addr s < W64 /\ 0 < s_size s < 2684354560 /\ allowed_type (s_type s) = true /\
  (s_type s =? K_ST_UNKNOWN) = false /\ no_byte 10 (s_name s) = true /\ no_byte 9 (s_name s) = true /\
  is_symbol_end (s_name s) = false.
Proof.
  intros s H. unfold sym_file_ok in H. repeat (apply andb_prop in H; destruct H as [H ?]).
  rewrite !negb_true_iff in *. repeat split; auto; lia.
Qed.

Lemma allowed_not_digit : forall t, allowed_type t = true -> isdigit t = false.
Proof.
  intros t H. unfold allowed_type, allowed_types in H. cbn in H.
  unfold isdigit. repeat (apply orb_prop in H; destruct H as [H|H]; [lia|]). discriminate.
Qed.

Lemma parse_sym_line_ok : forall s, sym_file_ok s = true ->
  parse_sym_line (sym_line s) = Some (s_addr s, s_size s, s_type s, s_name s).
Proof.
  intros s Hok. destruct (sym_file_ok_facts s Hok) as (Ha & Hs & Hty & Hq & Hn10 & Hn9 & Hend).
  unfold parse_sym_line, sym_line.
  rewrite (strtoull16_fixed 16 (s_addr s)); [|lia| cbn; unfold W64 in Ha; lia | unfold U64MAX, W64 in *; lia].
  destruct (hex8_first_digit (s_size s)) as (c & tl & E & Hdig); [lia|].
  rewrite E. cbn [app]. cbn [Z.eqb negb]. rewrite Hdig.
  change (c :: tl ++ 32 :: s_type s :: 32 :: s_name s) with ((c :: tl) ++ 32 :: s_type s :: 32 :: s_name s).
  rewrite <- E.
  rewrite (strtoull16_fixed 8 (s_size s)); [|lia| cbn; lia | unfold U64MAX; lia].
  cbn [Z.eqb andb]. rewrite cut_at_none by auto.
  rewrite Z.mod_small by (unfold W32; lia). reflexivity.
Qed.

Lemma sym_line_first : forall s, exists c r, sym_line s = c :: r /\ (c =? 35) = false.
Proof.
  intros s. unfold sym_line.
  pose proof (hex_fixed_chars 16 (s_addr s)) as H. pose proof (hex_fixed_length 16 (s_addr s)) as L.
  destruct (hex_fixed 16 (s_addr s)) as [|c r]; [cbn in L; lia|].
  inversion H; subst. eexists. eexists. split; [reflexivity|].
  destruct (hexchar_facts c); tauto.
Qed.

Lemma sym_line_no_nl : forall s, no_byte 10 (s_name s) = true -> 0 <= s_type s -> s_type s <> 10 ->
  no_byte 10 (sym_line s) = true.
Proof.
  intros s Hn Ht1 Ht2. unfold sym_line, no_byte.
  assert (Hh : forall w n, forallb (fun x => negb (x =? 10)) (hex_fixed w n) = true).
  { intros. apply forallb_forall. intros x Hx. pose proof (hex_fixed_chars w n) as F. rewrite Forall_forall in F.
    destruct (hexchar_facts x (F x Hx)) as (_ & _ & _ & _ & _ & _ & A & _). now rewrite A. }
  change (hex_fixed 16 (s_addr s) ++ 32 :: hex_fixed 8 (s_size s) ++ 32 :: s_type s :: 32 :: s_name s)
    with (hex_fixed 16 (s_addr s) ++ [32] ++ hex_fixed 8 (s_size s) ++ [32; s_type s; 32] ++ s_name s).
  rewrite !forallb_app, !Hh. cbn [forallb]. change (32 =? 10) with false.
  replace (s_type s =? 10) with false by lia. cbn [negb andb]. exact Hn.
Qed.

(* ------------------------------------------------------------------ the loader's fold *)
Definition head_size_ok (acc : list sym) : Prop :=
  match acc with last :: _ => s_size last <> 0 | [] => True end.

Lemma ld_line_sym : forall dem st s, sym_file_ok s = true -> dem (s_name s) = s_name s ->
  head_size_ok (l_syms st) ->
  ((s_addr s =? l_paddr st) && (s_type s =? l_ptype st)) = false ->
  ld_line dem st (sym_line s) = mkLd (s :: l_syms st) (s_addr s) (s_type s).
Proof.
  intros dem st s Hok Hdem Hhead Hprev.
  destruct (sym_file_ok_facts s Hok) as (Ha & Hs & Hty & Hq & Hn10 & Hn9 & Hend).
  unfold ld_line. destruct (sym_line_first s) as (c & r & E & Hc).
  assert (is_comment (sym_line s) = false) by (rewrite E; exact Hc).
  rewrite H. rewrite parse_sym_line_ok by auto. rewrite Hprev.
  rewrite Hty. cbn [negb]. rewrite Hq, Hend. cbn [orb]. rewrite Hdem.
  destruct s as [a sz t n]. cbn [s_addr s_size s_type s_name] in *.
  destruct (l_syms st) as [|last more]; [reflexivity|].
  cbn in Hhead. unfold fix_size. replace (s_size last =? 0) with false by lia. reflexivity.
Qed.

Definition last_key (tab : symtab) (pa pt : Z) : Z * Z :=
  match last (map Some tab) None with Some s => (s_addr s, s_type s) | None => (pa, pt) end.

Lemma fold_sym_lines : forall dem tab acc pa pt,
  forallb sym_file_ok tab = true -> no_adjacent_dup tab = true ->
  (forall s, In s tab -> dem (s_name s) = s_name s) ->
  head_size_ok acc ->
  (match tab with s :: _ => ((s_addr s =? pa) && (s_type s =? pt)) = false | [] => True end) ->
  l_syms (fold_left (ld_line dem) (map sym_line tab) (mkLd acc pa pt)) = rev tab ++ acc.
Proof.
  induction tab as [|s r IH]; intros acc pa pt Hok Hdup Hdem Hhead Hfirst; [reflexivity|].
  cbn [forallb] in Hok. apply andb_prop in Hok. destruct Hok as [Hs Hr].
  cbn [map fold_left]. rewrite ld_line_sym; auto.
  2:{ apply Hdem. now left. }
  cbn [l_syms]. rewrite IH; auto.
  - cbn [rev]. rewrite <- app_assoc. reflexivity.
  - destruct r; [reflexivity|]. cbn [no_adjacent_dup] in Hdup. apply andb_prop in Hdup. tauto.
  - intros x Hx. apply Hdem. now right.
  - cbn. destruct (sym_file_ok_facts s Hs) as (_ & Hsz & _). lia.
  - destruct r as [|s2 r2]; [exact I|]. cbn [no_adjacent_dup] in Hdup. apply andb_prop in Hdup. destruct Hdup as [Hd _].
    rewrite negb_true_iff in Hd. rewrite Z.eqb_sym, (Z.eqb_sym (s_type s2)). exact Hd.
Qed.

Lemma fold_comment : forall dem st l, is_comment l = true -> ld_line dem st l = st.
Proof. intros. unfold ld_line. now rewrite H. Qed.

(* ------------------------------------------------------------------ lines of a file *)
Lemma split_lines_go_line : forall l cur rest, no_byte 10 l = true ->
  split_lines_go cur (l ++ 10 :: rest) = (rev cur ++ l) :: split_lines_go [] rest.
Proof.
  induction l as [|c r IH]; intros cur rest H.
  - cbn. rewrite app_nil_r. reflexivity.
  - cbn in H. apply andb_prop in H. destruct H as [H1 H2]. rewrite negb_true_iff in H1.
    cbn [app split_lines_go]. rewrite H1. rewrite IH by auto. cbn [rev]. rewrite <- app_assoc. reflexivity.
Qed.

Lemma split_unlines : forall ls, forallb (no_byte 10) ls = true -> split_lines (unlines ls) = ls.
Proof.
  unfold split_lines, unlines. induction ls as [|l r IH]; intros H; [reflexivity|].
  cbn [forallb] in H. apply andb_prop in H. destruct H as [H1 H2].
  cbn [map concat]. rewrite <- app_assoc. cbn [app]. rewrite split_lines_go_line by auto.
  cbn [rev app]. f_equal. auto.
Qed.

Lemma no_byte_app : forall c a b, no_byte c (a ++ b) = no_byte c a && no_byte c b.
Proof. intros. unfold no_byte. apply forallb_app. Qed.

Lemma dec_rev_no_nl : forall fuel n, 0 <= n -> no_byte 10 (dec_rev fuel n) = true.
Proof.
  induction fuel as [|f IH]; intros n Hn; [reflexivity|].
  cbn [dec_rev]. unfold no_byte in *. cbn [forallb].
  replace (48 + n mod 10 =? 10) with false by lia. cbn [negb andb].
  destruct (n / 10 =? 0); [reflexivity|]. apply IH. lia.
Qed.

Lemma dec_no_nl : forall n, 0 <= n -> no_byte 10 (dec n) = true.
Proof.
  intros n Hn. unfold dec, no_byte. apply forallb_forall. intros x Hx. apply in_rev in Hx.
  pose proof (dec_rev_no_nl 20 n Hn) as H. unfold no_byte in H. rewrite forallb_forall in H. auto.
Qed.

Lemma allowed_type_range : forall t, allowed_type t = true -> 0 <= t /\ t <> 10.
Proof.
  intros t H. unfold allowed_type, allowed_types in H. cbn in H.
  repeat (apply orb_prop in H; destruct H as [H|H]; [lia|]). discriminate.
Qed.

(* ------------------------------------------------------------------ sorting *)
Lemma addrsort_le : forall a b, (addrsort a b <=? 0) = (a <=? b).
Proof.
  intros a b. unfold addrsort. destruct (a >? b) eqn:E1; [lia|]. destruct (a <? b) eqn:E2; lia.
Qed.

Lemma sort_sorted_id : forall tab, addr_sorted tab = true -> sort_syms tab = tab.
Proof.
  induction tab as [|x r IH]; intros H; [reflexivity|].
  cbn [sort_syms]. destruct r as [|y r2]; [reflexivity|].
  cbn [addr_sorted] in H. apply andb_prop in H. destruct H as [H1 H2].
  rewrite IH by auto. cbn [insert_sym]. rewrite addrsort_le, H1. reflexivity.
Qed.

Lemma insert_sym_perm : forall x l, Permutation (insert_sym x l) (x :: l).
Proof.
  induction l as [|y r IH]; cbn; [apply Permutation_refl|].
  destruct (addrsort (s_addr x) (s_addr y) <=? 0); [apply Permutation_refl|].
  eapply perm_trans; [apply perm_skip, IH | apply perm_swap].
Qed.

Lemma sort_syms_perm : forall tab, Permutation (sort_syms tab) tab.
Proof.
  induction tab as [|x r IH]; cbn; [constructor|].
  eapply perm_trans; [apply insert_sym_perm | apply perm_skip, IH].
Qed.

Lemma insert_sym_sorted : forall x l, addr_sorted l = true -> addr_sorted (insert_sym x l) = true.
Proof.
  induction l as [|y r IH]; intros H; [reflexivity|].
  cbn [insert_sym]. rewrite addrsort_le. destruct (s_addr x <=? s_addr y) eqn:E.
  - cbn [addr_sorted]. rewrite E. exact H.
  - assert (Hr : addr_sorted r = true).
    { destruct r; [reflexivity|]. cbn [addr_sorted] in H. apply andb_prop in H. tauto. }
    specialize (IH Hr). destruct r as [|z r2].
    + cbn. replace (s_addr y <=? s_addr x) with true by lia. reflexivity.
    + cbn [insert_sym] in *. rewrite addrsort_le in *.
      cbn [addr_sorted] in H. apply andb_prop in H. destruct H as [Hyz _].
      destruct (s_addr x <=? s_addr z) eqn:E2.
      * cbn [addr_sorted]. replace (s_addr y <=? s_addr x) with true by lia. exact IH.
      * change (addr_sorted (y :: z :: insert_sym x r2)) with ((s_addr y <=? s_addr z) && addr_sorted (z :: insert_sym x r2)).
        rewrite Hyz. exact IH.
Qed.

Lemma sort_syms_sorted : forall tab, addr_sorted (sort_syms tab) = true.
Proof. induction tab as [|x r IH]; [reflexivity|]. cbn [sort_syms]. now apply insert_sym_sorted. Qed.

(* ------------------------------------------------------------------ C10_sym_roundtrip *)
Lemma sym_roundtrip_sorted : forall dem tab path bid file,
  tab_file_ok tab = true -> (forall s, In s tab -> dem (s_name s) = s_name s) ->
  no_byte 10 path = true -> no_byte 10 bid = true ->
  save_sym tab path bid = Some file ->
  load_sym dem file = sort_syms tab.
Proof.
  intros dem tab path bid file Hok Hdem Hp Hb Hsave.
  unfold tab_file_ok in Hok. apply andb_prop in Hok. destruct Hok as [Hall Hdup].
  unfold save_sym in Hsave. destruct tab as [|s0 r0] eqn:Et; [discriminate|]. rewrite <- Et in *.
  inversion Hsave as [Hf]. clear Hsave.
  unfold load_sym. rewrite split_unlines.
  2:{ unfold sym_file_lines. cbn [forallb]. rewrite forallb_app.
      assert (H1 : no_byte 10 (s_symbols ++ dec (Z.of_nat (length tab))) = true).
      { rewrite no_byte_app, dec_no_nl by lia. reflexivity. }
      assert (H2 : no_byte 10 (s_pathname ++ path) = true) by (rewrite no_byte_app, Hp; reflexivity).
      rewrite H1, H2. cbn [andb].
      assert (H3 : forallb (no_byte 10) (match bid with [] => [] | _ :: _ => [s_buildid ++ bid] end : list str) = true).
      { destruct bid; [reflexivity|]. cbn [forallb]. rewrite no_byte_app, Hb. reflexivity. }
      apply andb_true_intro. split; [exact H3|]. rewrite forallb_forall. intros l Hl. apply in_map_iff in Hl.
      destruct Hl as (s & <- & Hs). rewrite forallb_forall in Hall.
      destruct (sym_file_ok_facts s (Hall s Hs)) as (_ & _ & Hty & _ & Hn & _).
      destruct (allowed_type_range _ Hty). apply sym_line_no_nl; auto. }
  unfold sym_file_lines. cbn [fold_left].
  rewrite fold_comment by reflexivity. rewrite fold_comment by reflexivity.
  rewrite fold_left_app.
  assert (Hhdr : forall X : list (list Z), X = (match bid with [] => [] | _ :: _ => [s_buildid ++ bid] end) ->
            @fold_left ldst (list Z) (ld_line dem) X ld_init = ld_init).
  { intros X ->. destruct bid; [reflexivity|]. cbn [fold_left]. apply fold_comment. reflexivity. }
  match goal with |- context [fold_left (ld_line dem) ?X ld_init] => rewrite (Hhdr X eq_refl) end. unfold ld_init. rewrite fold_sym_lines; auto.
  - rewrite app_nil_r, rev_involutive. reflexivity.
  - exact I.
  - clear Et Hf. destruct tab as [|s r]; [exact I|].
    cbn [forallb] in Hall. apply andb_prop in Hall. destruct Hall as [Hs _].
    destruct (sym_file_ok_facts s Hs) as (_ & _ & Hty & _).
    destruct (s_type s =? 88) eqn:E; [|apply andb_false_r].
    assert (s_type s = 88) by lia. rewrite H in Hty. discriminate.
Qed.

Lemma sym_roundtrip : forall dem tab path bid file,
  tab_file_ok tab = true -> addr_sorted tab = true ->
  (forall s, In s tab -> dem (s_name s) = s_name s) ->
  no_byte 10 path = true -> no_byte 10 bid = true ->
  save_sym tab path bid = Some file ->
  load_sym dem file = tab.
Proof.
  intros dem tab path bid file H1 H2 H3 H4 H5 H6.
  rewrite (sym_roundtrip_sorted dem tab path bid file H1 H3 H4 H5 H6). now apply sort_sorted_id.
Qed.

(* non-vacuity: a concrete table inside the guard, through the concrete text *)
Example sym_roundtrip_example :
  let tab := [mkSym 4096 16 84 [109;97;105;110]; mkSym 4112 32 116 [102;111;111]; mkSym 4112 8 80 [112]] in
  tab_file_ok tab = true /\ addr_sorted tab = true /\
  match save_sym tab [47;120] [] with Some f => load_sym dem_plain f = tab | None => False end.
Proof. vm_compute. repeat split; reflexivity. Qed.

Lemma sym_size_refuted :
  load_sym dem_plain (unlines [sym_line (mkSym 16 2684354560 84 [102])]) = [].
Proof. vm_compute. reflexivity. Qed.

Lemma sym_dup_refuted :
  load_sym dem_plain (unlines (map sym_line [mkSym 16 4 84 [102]; mkSym 16 8 84 [103]])) = [mkSym 16 4 84 [102]].
Proof. vm_compute. reflexivity. Qed.

(* a symbol of type '?' (ST_UNKNOWN: a binding the ELF loader does not know) is written, but the
   reader takes a '?' line for an end marker and drops it *)
Lemma sym_unknown_type_refuted :
  match save_sym [mkSym 16 4 63 [117]; mkSym 32 4 84 [118]] [47;120] [] with
  | Some f => load_sym dem_plain f = [mkSym 32 4 84 [118]]
  | None => False
  end.
Proof. vm_compute. reflexivity. Qed.

(* ------------------------------------------------------------------ map segments *)
Lemma str_eqb_refl : forall a, str_eqb a a = true.
Proof. induction a; cbn; auto. rewrite Z.eqb_refl. auto. Qed.

Lemma str_eqb_eq : forall a b, str_eqb a b = true -> a = b.
Proof.
  induction a as [|x a IH]; destruct b as [|y b]; cbn; intros H; try discriminate; auto.
  apply andb_prop in H. destruct H as [H1 H2]. f_equal; [lia | auto].
Qed.

Definition seg_name (g : Z * Z * str * str) : str := match g with (_, _, _, n) => n end.

Fixpoint no_adj (l : list (Z * Z * str * str)) : Prop :=
  match l with
  | a :: ((b :: _) as r) => str_eqb (seg_name b) (seg_name a) = false /\ no_adj r
  | _ => True
  end.

Lemma merge_go_head : forall (l : list (Z * Z * str * str)) (c : Z * Z * str * str), exists c' rest, merge_go (Some c) l = c' :: rest /\ seg_name c' = seg_name c.
Proof.
  induction l as [|[[[s e] p] n] r IH]; intros [[[cs ce] cp] cn]; cbn.
  - eauto.
  - destruct (str_eqb n cn) eqn:E.
    + destruct (IH (cs, e, (if nth 2 p 0 =? 120 then p else cp), cn)) as (c' & rest & H1 & H2). eauto.
    + eauto.
Qed.

Lemma merge_go_no_adj : forall (l : list (Z * Z * str * str)) (c : Z * Z * str * str), no_adj (merge_go (Some c) l).
Proof.
  induction l as [|[[[s e] p] n] r IH]; intros [[[cs ce] cp] cn]; cbn [merge_go].
  - exact I.
  - destruct (str_eqb n cn) eqn:E; [apply IH|].
    destruct (merge_go_head r (s, e, p, n)) as (c' & rest & H1 & H2).
    pose proof (IH (s, e, p, n)) as Hn. rewrite H1 in *. cbn [no_adj]. split; auto.
    rewrite H2. exact E.
Qed.

Lemma merge_go_fix : forall (l : list (Z * Z * str * str)) (c : Z * Z * str * str), no_adj (c :: l) -> merge_go (Some c) l = c :: l.
Proof.
  induction l as [|[[[s e] p] n] r IH]; intros [[[cs ce] cp] cn] H; [reflexivity|].
  cbn [no_adj] in H. destruct H as [H1 H2]. cbn [seg_name] in H1.
  cbn [merge_go]. rewrite H1. f_equal. apply IH. exact H2.
Qed.

Lemma merge_idempotent : forall segs, merge_segments (merge_segments segs) = merge_segments segs.
Proof.
  intros segs. unfold merge_segments. unfold seg in segs. destruct segs as [|[[[s e] p] n] r]; [reflexivity|].
  cbn [merge_go]. pose proof (merge_go_no_adj r (s, e, p, n)) as H.
  destruct (merge_go (Some (s, e, p, n)) r) as [|c l]; [reflexivity|].
  destruct c as [[[cs ce] cp] cn]. cbn [merge_go]. now apply merge_go_fix.
Qed.
