(* C10 - the record side of dlopen: the wrapper's time stamp precedes every record made while
   (and after) the library is loaded, so the analysis side never skips the library for them. *)
From Coq Require Import ZArith List Bool Lia ZifyBool.
Import ListNotations.
Require Import UV.Gen.Kernels UV.C10.Model UV.C10.Proofs UV.C10.Sessions.
Local Open Scope Z_scope.

Section act_induction.
  Variable P : act -> Prop.
  Hypothesis Hrec : forall a, P (ARec a).
  Hypothesis Hdl : forall base tab deps ctor, Forall P ctor -> P (ADlopen base tab deps ctor).
  Fixpoint act_ind' (x : act) : P x :=
    match x with
    | ARec a => Hrec a
    | ADlopen b t deps ctor =>
        Hdl b t deps ctor ((fix go (l : list act) : Forall P l :=
                              match l with
                              | [] => Forall_nil P
                              | y :: r => Forall_cons y (act_ind' y) (go r)
                              end) ctor)
    end.
End act_induction.

Lemma run_act_dlopen : forall early fixed outer base tab deps ctor clk,
  run_act early fixed outer (ADlopen base tab deps ctor) clk =
  let stamp := dl_stamp fixed outer clk in
  if early
  then let '(c2, rs, ds) := run_acts early fixed (Some stamp) ctor (clk + 1) in (c2, rs, ds ++ dl_msgs fixed stamp base tab deps)
  else let '(c2, rs, ds) := run_acts early fixed (Some stamp) ctor clk in (c2 + 1, rs, ds ++ dl_msgs fixed c2 base tab deps).
Proof.
  intros early fixed outer base tab deps ctor clk. cbn [run_act].
  assert (E : forall st l c,
    (fix go (l : list act) (c : Z) : rout :=
       match l with
       | [] => (c, [], [])
       | y :: r => let '(c1, r1, d1) := run_act early fixed (Some st) y c in
                   let '(c2, r2, d2) := go r c1 in (c2, r1 ++ r2, d1 ++ d2)
       end) l c = run_acts early fixed (Some st) l c).
  { intros st. induction l as [|y r IH]; intros c; [reflexivity|]. cbn [run_acts].
    destruct (run_act early fixed (Some st) y c) as [[c1 r1] d1]. rewrite IH. reflexivity. }
  cbv zeta. rewrite !E. reflexivity.
Qed.

(* the clock only moves forward; records lie between the clock value an action started with and
   the one it ended with; DLOP time stamps are never later than the end and never earlier than the
   entry time of the outermost dlopen in progress (or the start, outside any dlopen) *)
Definition lower (outer : option Z) (clk : Z) : Z := match outer with Some t0 => t0 | None => clk end.
Definition outer_ok (outer : option Z) (clk : Z) : Prop := match outer with Some t0 => t0 <= clk | None => True end.

Definition bounded (outer : option Z) (clk : Z) (o : rout) : Prop :=
  let '(c', recs, dls) := o in
  clk <= c' /\ (forall t a, In (t, a) recs -> clk <= t < c') /\
  (forall d, In d dls -> lower outer clk <= d_time d < c').

Lemma dl_msgs_time : forall fixed stamp base tab deps d, In d (dl_msgs fixed stamp base tab deps) -> d_time d = stamp.
Proof.
  intros fixed stamp base tab deps d [<-|H]; [reflexivity|]. destruct fixed; [|destruct H].
  apply in_map_iff in H. destruct H as (x & <- & _). reflexivity.
Qed.

Lemma run_acts_bounded : forall early fixed outer l,
  Forall (fun x => forall outer clk, outer_ok outer clk -> bounded outer clk (run_act early fixed outer x clk)) l ->
  forall clk, outer_ok outer clk -> bounded outer clk (run_acts early fixed outer l clk).
Proof.
  induction l as [|y r IH]; intros HF clk Ho.
  - cbn. repeat split; try lia; intros; contradiction.
  - inversion HF as [|? ? Hy Hr]; subst. cbn [run_acts].
    specialize (Hy outer clk Ho). destruct (run_act early fixed outer y clk) as [[c1 r1] d1].
    cbn in Hy. destruct Hy as (A1 & A2 & A3).
    assert (Ho1 : outer_ok outer c1) by (destruct outer; cbn in *; lia).
    specialize (IH Hr c1 Ho1). destruct (run_acts early fixed outer r c1) as [[c2 r2] d2].
    cbn in *. destruct IH as (B1 & B2 & B3).
    split; [lia|]. split.
    + intros t a H. apply in_app_or in H. destruct H as [H|H]; [specialize (A2 _ _ H) | specialize (B2 _ _ H)]; lia.
    + intros d H. apply in_app_or in H. destruct H as [H|H]; [specialize (A3 _ H) | specialize (B3 _ H)];
        destruct outer; cbn in *; lia.
Qed.

Lemma run_act_bounded : forall early fixed x outer clk, outer_ok outer clk -> bounded outer clk (run_act early fixed outer x clk).
Proof.
  intros early fixed x. induction x as [a | base tab deps ctor IH] using act_ind'; intros outer clk Ho.
  - cbn. split; [lia|]. split; [|intros d []].
    intros t0 b [H|[]]. inversion H. lia.
  - rewrite run_act_dlopen. cbv zeta.
    assert (Hst : lower outer clk <= dl_stamp fixed outer clk <= clk).
    { unfold dl_stamp, lower. destruct fixed, outer; cbn in *; lia. }
    destruct early.
    + assert (Ho' : outer_ok (Some (dl_stamp fixed outer clk)) (clk + 1)) by (cbn; lia).
      pose proof (run_acts_bounded true fixed (Some (dl_stamp fixed outer clk)) ctor IH (clk + 1) Ho') as B.
      destruct (run_acts true fixed (Some (dl_stamp fixed outer clk)) ctor (clk + 1)) as [[c2 rs] ds].
      cbn in B. destruct B as (B1 & B2 & B3). cbn. split; [lia|]. split.
      * intros t a H. specialize (B2 _ _ H). lia.
      * intros d H. apply in_app_or in H. destruct H as [H|H]; [specialize (B3 _ H); lia|].
        rewrite (dl_msgs_time _ _ _ _ _ _ H). lia.
    + assert (Ho' : outer_ok (Some (dl_stamp fixed outer clk)) clk) by (cbn; lia).
      pose proof (run_acts_bounded false fixed (Some (dl_stamp fixed outer clk)) ctor IH clk Ho') as B.
      destruct (run_acts false fixed (Some (dl_stamp fixed outer clk)) ctor clk) as [[c2 rs] ds].
      cbn in B. destruct B as (B1 & B2 & B3). cbn. split; [lia|]. split.
      * intros t a H. specialize (B2 _ _ H). lia.
      * intros d H. apply in_app_or in H. destruct H as [H|H]; [specialize (B3 _ H); lia|].
        rewrite (dl_msgs_time _ _ _ _ _ _ H). lia.
Qed.

Lemma run_acts_bounded' : forall early fixed outer l clk, outer_ok outer clk -> bounded outer clk (run_acts early fixed outer l clk).
Proof.
  intros. apply run_acts_bounded; auto. apply Forall_forall. intros x _ o c Hc. now apply run_act_bounded.
Qed.

(* the ordering invariant at ANY dlopen node (outermost or nested in a constructor), for the code
   with the clock read first: the library AND (fixed code) every dependency mapped with it get a
   DLOP message whose time stamp - the entry time of the outermost dlopen in progress - is earlier
   than every record made while the library is being loaded *)
Lemma load_precedes_ctor_records : forall fixed outer base tab deps ctor clk c' recs dls,
  outer_ok outer clk ->
  run_act true fixed outer (ADlopen base tab deps ctor) clk = (c', recs, dls) ->
  let stamp := dl_stamp fixed outer clk in
  In (mkDl stamp base tab) dls /\
  (fixed = true -> forall d, In d deps -> In (mkDl stamp (fst d) (snd d)) dls) /\
  (forall t a, In (t, a) recs -> stamp < t) /\ stamp <= clk < c'.
Proof.
  intros fixed outer base tab deps ctor clk c' recs dls Ho H. rewrite run_act_dlopen in H. cbv zeta in *.
  assert (Hst : dl_stamp fixed outer clk <= clk) by (unfold dl_stamp; destruct fixed, outer; cbn in *; lia).
  assert (Ho' : outer_ok (Some (dl_stamp fixed outer clk)) (clk + 1)) by (cbn; lia).
  pose proof (run_acts_bounded' true fixed (Some (dl_stamp fixed outer clk)) ctor (clk + 1) Ho') as B.
  destruct (run_acts true fixed (Some (dl_stamp fixed outer clk)) ctor (clk + 1)) as [[c2 rs] ds].
  inversion H; subst. cbn in B. destruct B as (B1 & B2 & B3).
  split; [apply in_or_app; right; now left|]. split.
  - intros -> d Hd. apply in_or_app. right. right. apply in_map_iff. exists d. auto.
  - split; [|lia]. intros t a Hin. specialize (B2 _ _ Hin). lia.
Qed.

(* ... and every record of the rest of the run as well *)
Lemma load_precedes_all_records : forall fixed base tab deps ctor rest clk c' recs dls,
  run_acts true fixed None (ADlopen base tab deps ctor :: rest) clk = (c', recs, dls) ->
  In (mkDl clk base tab) dls /\
  (fixed = true -> forall d, In d deps -> In (mkDl clk (fst d) (snd d)) dls) /\
  (forall t a, In (t, a) recs -> clk < t).
Proof.
  intros fixed base tab deps ctor rest clk c' recs dls H. cbn [run_acts] in H.
  destruct (run_act true fixed None (ADlopen base tab deps ctor) clk) as [[c1 r1] d1] eqn:E1.
  destruct (load_precedes_ctor_records fixed None base tab deps ctor clk c1 r1 d1 I E1) as (A1 & A2 & A3 & A4).
  assert (Es : dl_stamp fixed None clk = clk) by (unfold dl_stamp; destruct fixed; reflexivity).
  rewrite Es in *.
  pose proof (run_acts_bounded' true fixed None rest c1 I) as B.
  destruct (run_acts true fixed None rest c1) as [[c2 r2] d2]. inversion H; subst. cbn in B. destruct B as (B1 & B2 & B3).
  split; [apply in_or_app; now left|]. split.
  - intros Hf d Hd. apply in_or_app. left. auto.
  - intros t a Hin. apply in_app_or in Hin. destruct Hin as [Hin|Hin]; [eauto|]. specialize (B2 _ _ Hin). lia.
Qed.

(* the same for the wrapper AS BUILT: both flags are generated from the C text of libmcount/wrap.c
   (mcount_gettime() called before real_dlopen()?  no name filter in dlopen_base_callback()?) *)
Lemma load_precedes_ctor_records_as_built : forall outer base tab deps ctor clk c' recs dls,
  outer_ok outer clk ->
  run_act wrap_dlopen_clock_first wrap_dlopen_reports_all outer (ADlopen base tab deps ctor) clk = (c', recs, dls) ->
  let stamp := match outer with Some t0 => t0 | None => clk end in
  In (mkDl stamp base tab) dls /\ (forall d, In d deps -> In (mkDl stamp (fst d) (snd d)) dls) /\
  (forall t a, In (t, a) recs -> stamp < t).
Proof.
  change wrap_dlopen_clock_first with true. change wrap_dlopen_reports_all with true.
  intros outer base tab deps ctor clk c' recs dls Ho H.
  destruct (load_precedes_ctor_records true outer base tab deps ctor clk c' recs dls Ho H) as (A & B & C & _).
  cbn in *. repeat split; auto.
Qed.

Lemma load_precedes_all_records_as_built : forall base tab deps ctor rest clk c' recs dls,
  run_acts wrap_dlopen_clock_first wrap_dlopen_reports_all None (ADlopen base tab deps ctor :: rest) clk = (c', recs, dls) ->
  In (mkDl clk base tab) dls /\ (forall d, In d deps -> In (mkDl clk (fst d) (snd d)) dls) /\
  (forall t a, In (t, a) recs -> clk < t).
Proof.
  change wrap_dlopen_clock_first with true. change wrap_dlopen_reports_all with true.
  intros base tab deps ctor rest clk c' recs dls H.
  destruct (load_precedes_all_records true base tab deps ctor rest clk c' recs dls H) as (A & B & C). auto.
Qed.

(* consequence for the analysis side: such a record is never rejected by the time test of
   session_find_dlsym - the library's table is searched for it *)
Lemma loaded_library_is_searched : forall d t a, d_time d <= t ->
  dl_hit t a d = find_sym (d_tab d) ((a - d_base d) mod W64).
Proof.
  intros d t a H. unfold dl_hit, dl_later. replace (d_time d >? t) with false by lia. reflexivity.
Qed.

Lemma insert_dl_In : forall d l x, In x (insert_dl d l) <-> x = d \/ In x l.
Proof.
  induction l as [|y r IH]; intros x; cbn; [intuition|].
  destruct (dl_insert_before (d_time y) (d_time d)); cbn; [intuition|]. rewrite IH. intuition.
Qed.

Lemma dl_list_In : forall msgs d, In d (dl_list msgs) <-> In d msgs.
Proof.
  intros msgs d. unfold dl_list.
  assert (G : forall msgs acc, In d (fold_left (fun l x => insert_dl x l) msgs acc) <-> In d msgs \/ In d acc).
  { induction msgs0 as [|m r IH]; intros acc; cbn; [intuition|]. rewrite IH, insert_dl_In. intuition. }
  rewrite G. cbn. intuition.
Qed.

(* end to end over the model: a record made by a constructor of a library (wrapper as in the code)
   at an address inside a symbol of that library OR of a dependency mapped with it is resolved to
   that symbol when no library that is listed later claims the address *)
Lemma ctor_record_resolves : forall outer base tab deps ctor clk c' recs dls s l1 l2 t a x lb ltab,
  outer_ok outer clk ->
  run_act true true outer (ADlopen base tab deps ctor) clk = (c', recs, dls) -> In (t, a) recs ->
  (lb, ltab) = (base, tab) \/ In (lb, ltab) deps ->
  se_dl s = l1 ++ mkDl (dl_stamp true outer clk) lb ltab :: l2 ->
  find_sym ltab ((a - lb) mod W64) = Some x ->
  (forall d', In d' l2 -> dl_hit t a d' = None) ->
  find_dlsym s t a = Some x.
Proof.
  intros outer base tab deps ctor clk c' recs dls s l1 l2 t a x lb ltab Ho Hrun Hin Hlib Hs Hx Hl2.
  destruct (load_precedes_ctor_records _ _ _ _ _ _ _ _ _ _ Ho Hrun) as (_ & _ & Hlt & _).
  specialize (Hlt _ _ Hin). cbv zeta in Hlt.
  apply (dlsym_latest_first s l1 (mkDl (dl_stamp true outer clk) lb ltab) l2 t a x Hs); cbn [d_time d_tab d_base]; [lia | exact Hx | exact Hl2].
Qed.

(* the order of the two steps in the wrapper matters: with the clock read after real_dlopen() a
   constructor's record predates the DLOP time stamp and the library is skipped for it *)
Definition tab_plugin : symtab := [mkSym 256 64 84 [105;110;105;116]].
Definition tab_dep : symtab := [mkSym 512 32 84 [100;101;112]].
Lemma late_timestamp_refuted :
  let '(_, recs, dls) := run_act false true None (ADlopen 4096 tab_plugin [] [ARec 4360]) 10 in
  recs = [(10, 4360)] /\ dls = [mkDl 11 4096 tab_plugin] /\
  find_dlsym (mkSess 0 [] 1 1 0 (mkSinfo 0 [] []) (dl_list dls)) 10 4360 = None /\
  spec_find tab_plugin (4360 - 4096) = Some (mkSym 256 64 84 [105;110;105;116]).
Proof. vm_compute. repeat split; reflexivity. Qed.

(* the code as found (name filter in dlopen_base_callback): a dependency mapped by the same
   dlopen() call gets no DLOP message, the record of its function is not resolved *)
Lemma dependency_legacy_refuted :
  let '(_, recs, dls) := run_act true false None (ADlopen 4096 tab_plugin [(8192, tab_dep)] [ARec 4360; ARec 8710]) 10 in
  recs = [(11, 4360); (12, 8710)] /\ dls = [mkDl 10 4096 tab_plugin] /\
  find_dlsym (mkSess 0 [] 1 1 0 (mkSinfo 0 [] []) (dl_list dls)) 12 8710 = None /\
  spec_find tab_dep (8710 - 8192) = Some (mkSym 512 32 84 [100;101;112]).
Proof. vm_compute. repeat split; reflexivity. Qed.

(* ... the fixed code resolves both, also when the dlopen is issued by a constructor of another
   library that recorded before (outermost time stamp) *)
Example dependency_fixed_example :
  let '(_, recs, dls) := run_act true true None
      (ADlopen 65536 [mkSym 16 16 84 [111]] [] [ARec 65552; ADlopen 4096 tab_plugin [(8192, tab_dep)] [ARec 4360; ARec 8710]]) 10 in
  let s := mkSess 0 [] 1 1 0 (mkSinfo 0 [] []) (dl_list dls) in
  recs = [(11, 65552); (13, 4360); (14, 8710)] /\
  map d_time dls = [10; 10; 10] /\
  find_dlsym s 11 65552 = Some (mkSym 16 16 84 [111]) /\
  find_dlsym s 13 4360 = Some (mkSym 256 64 84 [105;110;105;116]) /\
  find_dlsym s 14 8710 = Some (mkSym 512 32 84 [100;101;112]).
Proof. vm_compute. repeat split; reflexivity. Qed.
