(* C10 - the record side of dlopen: the wrapper's time stamp precedes every record made while
   (and after) the library is loaded, so the analysis side never skips the library for them. *)
From Coq Require Import ZArith List Bool Lia ZifyBool.
Import ListNotations.
Require Import UV.Gen.Kernels UV.C10.Model UV.C10.Proofs UV.C10.Sessions.
Local Open Scope Z_scope.

Section act_induction.
  Variable P : act -> Prop.
  Hypothesis Hrec : forall a, P (ARec a).
  Hypothesis Hnull : P ADlnull.
  Hypothesis Hnone : P ADlnone.
  Hypothesis Hdl : forall base tab deps ctor, Forall P ctor -> P (ADlopen base tab deps ctor).
  Fixpoint act_ind' (x : act) : P x :=
    match x with
    | ARec a => Hrec a
    | ADlnull => Hnull
    | ADlnone => Hnone
    | ADlopen b t deps ctor =>
        Hdl b t deps ctor ((fix go (l : list act) : Forall P l :=
                              match l with
                              | [] => Forall_nil P
                              | y :: r => Forall_cons y (act_ind' y) (go r)
                              end) ctor)
    end.
End act_induction.

Lemma run_act_dlopen : forall early fixed balanced base tab deps ctor st,
  run_act early fixed balanced (ADlopen base tab deps ctor) st =
  let '(s2, rs, ds) := run_acts early fixed balanced ctor (w_enter st) in
  if early
  then (w_leave s2, rs, ds ++ dl_msgs fixed (dl_stamp fixed st) base tab deps)
  else (w_leave (mkW (w_clk s2 + 1) (w_depth s2) (w_start s2)), rs, ds ++ dl_msgs fixed (w_clk s2) base tab deps).
Proof.
  intros early fixed balanced base tab deps ctor st. cbn [run_act].
  assert (E : forall l c,
    (fix go (l : list act) (s : wst) : rout :=
       match l with
       | [] => (s, [], [])
       | y :: r => let '(s1, r1, d1) := run_act early fixed balanced y s in
                   let '(s2, r2, d2) := go r s1 in (s2, r1 ++ r2, d1 ++ d2)
       end) l c = run_acts early fixed balanced l c).
  { induction l as [|y r IH]; intros c; [reflexivity|]. cbn [run_acts].
    destruct (run_act early fixed balanced y c) as [[c1 r1] d1]. rewrite IH. reflexivity. }
  rewrite E. reflexivity.
Qed.

(* invariant of the wrapper state: inside a dlopen the recorded start is not in the future *)
Definition w_ok (st : wst) : Prop := (0 < w_depth st)%nat -> w_start st <= w_clk st.
Definition lower (st : wst) : Z := if Nat.eqb (w_depth st) 0 then w_clk st else w_start st.

(* what an action does to the state and where its outputs lie, for the balanced wrapper:
   - dlopen_depth is back at its entry value, on EVERY path (load, NULL, nothing mapped, nested)
   - inside a dlopen (depth > 0) dlopen_start is untouched
   - the clock only moves forward; records lie between start and end clock
   - DLOP time stamps are not later than the end and not earlier than the entry time of the
     outermost dlopen in progress (or the start clock outside any dlopen) *)
Definition well_behaved (st : wst) (o : rout) : Prop :=
  let '(st', recs, dls) := o in
  w_depth st' = w_depth st /\
  ((0 < w_depth st)%nat -> w_start st' = w_start st) /\
  w_clk st <= w_clk st' /\
  (forall t a, In (t, a) recs -> w_clk st <= t < w_clk st') /\
  (forall d, In d dls -> lower st <= d_time d < w_clk st') /\
  w_ok st'.

Lemma dl_msgs_time : forall fixed stamp base tab deps d, In d (dl_msgs fixed stamp base tab deps) -> d_time d = stamp.
Proof.
  intros fixed stamp base tab deps d [<-|H]; [reflexivity|]. destruct fixed; [|destruct H].
  apply in_map_iff in H. destruct H as (x & <- & _). reflexivity.
Qed.

Lemma run_acts_well_behaved : forall early fixed l,
  Forall (fun x => forall st, w_ok st -> well_behaved st (run_act early fixed true x st)) l ->
  forall st, w_ok st -> well_behaved st (run_acts early fixed true l st).
Proof.
  induction l as [|y r IH]; intros HF st Ho.
  - cbn. repeat split; try lia; auto; intros; contradiction.
  - inversion HF as [|? ? Hy Hr]; subst. cbn [run_acts].
    specialize (Hy st Ho). destruct (run_act early fixed true y st) as [[s1 r1] d1].
    cbn in Hy. destruct Hy as (A1 & A2 & A3 & A4 & A5 & A6).
    specialize (IH Hr s1 A6). destruct (run_acts early fixed true r s1) as [[s2 r2] d2].
    cbn in *. destruct IH as (B1 & B2 & B3 & B4 & B5 & B6).
    split; [lia|]. split; [intros Hd; rewrite B2 by lia; auto|]. split; [lia|]. split; [|split; [|exact B6]].
    + intros t a Hin. apply in_app_or in Hin. destruct Hin as [Hin|Hin]; [specialize (A4 _ _ Hin) | specialize (B4 _ _ Hin)]; lia.
    + intros d Hin. apply in_app_or in Hin. destruct Hin as [Hin|Hin]; [specialize (A5 _ Hin); lia|].
      specialize (B5 _ Hin). unfold lower in *. rewrite A1 in B5.
      destruct (Nat.eqb (w_depth st) 0) eqn:E; [lia|].
      rewrite A2 in B5 by (apply Nat.eqb_neq in E; lia). lia.
Qed.

Lemma enter_ok : forall st, w_ok st -> w_ok (w_enter st) /\ w_start (w_enter st) <= w_clk st /\
                                       w_start (w_enter st) = lower st.
Proof.
  intros st Ho. unfold w_ok, w_enter, lower in *. cbn.
  destruct (Nat.eqb (w_depth st) 0) eqn:E.
  - repeat split; intros; lia.
  - apply Nat.eqb_neq in E. assert (w_start st <= w_clk st) by (apply Ho; lia). repeat split; intros; lia.
Qed.

Lemma run_act_well_behaved : forall early fixed x st, w_ok st -> well_behaved st (run_act early fixed true x st).
Proof.
  intros early fixed x. induction x as [a | | | base tab deps ctor IH] using act_ind'; intros st Ho.
  - cbn. split; [reflexivity|]. split; [auto|]. split; [lia|]. split; [|split].
    + intros t0 b [E|[]]. inversion E. lia.
    + intros d [].
    + unfold w_ok in *. cbn. intros Hd. specialize (Ho Hd). lia.
  - (* dlopen(NULL): enter, leave *)
    cbn. destruct (enter_ok st Ho) as (E1 & E2 & E3). unfold w_ok in *. cbn in *.
    repeat split; try lia; auto; try (intros; contradiction);
      try (intros Hd; destruct (Nat.eqb (w_depth st) 0) eqn:E; [apply Nat.eqb_eq in E; lia | try reflexivity; try (specialize (Ho Hd); lia)]).
  - cbn. destruct (enter_ok st Ho) as (E1 & E2 & E3). unfold w_ok in *. cbn in *.
    repeat split; try lia; auto; try (intros; contradiction);
      try (intros Hd; destruct (Nat.eqb (w_depth st) 0) eqn:E; [apply Nat.eqb_eq in E; lia | try reflexivity; try (specialize (Ho Hd); lia)]).
  - rewrite run_act_dlopen. destruct (enter_ok st Ho) as (E1 & E2 & E3).
    pose proof (run_acts_well_behaved early fixed ctor IH (w_enter st) E1) as B.
    destruct (run_acts early fixed true ctor (w_enter st)) as [[s2 rs] ds].
    cbn in B. destruct B as (B1 & B2 & B3 & B4 & B5 & B6).
    assert (Hs2 : w_start s2 = lower st) by (rewrite B2 by lia; exact E3).
    assert (Hlow : lower (w_enter st) = lower st) by (unfold lower at 1; cbn; exact E3).
    assert (Hstamp : lower st <= dl_stamp fixed st <= w_clk st).
    { unfold dl_stamp, lower in *. destruct fixed; destruct (Nat.eqb (w_depth st) 0); cbn in *; lia. }
    destruct early; cbn.
    + split; [lia|]. split.
      { intros Hd. rewrite Hs2. unfold lower. destruct (Nat.eqb (w_depth st) 0) eqn:E; [apply Nat.eqb_eq in E; lia | reflexivity]. }
      split; [lia|]. split; [intros t a H; specialize (B4 _ _ H); lia|]. split.
      * intros d H. apply in_app_or in H. destruct H as [H|H]; [specialize (B5 _ H); lia|].
        rewrite (dl_msgs_time _ _ _ _ _ _ H). lia.
      * unfold w_ok. cbn. intros Hd. rewrite Hs2. lia.
    + split; [lia|]. split.
      { intros Hd. rewrite Hs2. unfold lower. destruct (Nat.eqb (w_depth st) 0) eqn:E; [apply Nat.eqb_eq in E; lia | reflexivity]. }
      split; [lia|]. split; [intros t a H; specialize (B4 _ _ H); lia|]. split.
      * intros d H. apply in_app_or in H. destruct H as [H|H]; [specialize (B5 _ H); lia|].
        rewrite (dl_msgs_time _ _ _ _ _ _ H). lia.
      * unfold w_ok. cbn. intros Hd. rewrite Hs2. lia.
Qed.

Lemma run_acts_well_behaved' : forall early fixed l st, w_ok st -> well_behaved st (run_acts early fixed true l st).
Proof.
  intros. apply run_acts_well_behaved; auto. apply Forall_forall. intros x _ s Hs. now apply run_act_well_behaved.
Qed.

(* dlopen_depth returns to its entry value on every path of the wrapper - whatever the thread does:
   loads, dlopen(NULL), calls that map nothing, dlopen from constructors *)
Lemma depth_balanced : forall early fixed l st, w_ok st ->
  w_depth (fst (fst (run_acts early fixed true l st))) = w_depth st.
Proof.
  intros early fixed l st Ho. pose proof (run_acts_well_behaved' early fixed l st Ho) as B.
  destruct (run_acts early fixed true l st) as [[s r] d]. cbn in *. tauto.
Qed.

(* the ordering invariant at ANY dlopen node (outermost or nested in a constructor, after any
   number of dlopen(NULL) / empty calls), clock read first: the library AND (fixed code) every
   dependency mapped with it get a DLOP message whose time stamp is earlier than every record made
   while the library is being loaded; outside any dlopen (depth 0) the stamp is the call's own
   entry time - never an older one *)
Lemma load_precedes_ctor_records : forall fixed st base tab deps ctor st' recs dls,
  w_ok st ->
  run_act true fixed true (ADlopen base tab deps ctor) st = (st', recs, dls) ->
  let stamp := dl_stamp fixed st in
  In (mkDl stamp base tab) dls /\
  (fixed = true -> forall d, In d deps -> In (mkDl stamp (fst d) (snd d)) dls) /\
  (forall t a, In (t, a) recs -> stamp < t) /\ stamp <= w_clk st /\
  (w_depth st = 0%nat -> stamp = w_clk st).
Proof.
  intros fixed st base tab deps ctor st' recs dls Ho H. rewrite run_act_dlopen in H. cbv zeta.
  destruct (enter_ok st Ho) as (E1 & E2 & E3).
  pose proof (run_acts_well_behaved' true fixed ctor (w_enter st) E1) as B.
  destruct (run_acts true fixed true ctor (w_enter st)) as [[s2 rs] ds]. inversion H; subst.
  cbn in B. destruct B as (B1 & B2 & B3 & B4 & B5 & B6).
  assert (Hstamp : dl_stamp fixed st <= w_clk st).
  { unfold dl_stamp, lower in *. destruct fixed; destruct (Nat.eqb (w_depth st) 0); cbn in *; lia. }
  split; [apply in_or_app; right; now left|]. split.
  - intros -> d Hd. apply in_or_app. right. right. apply in_map_iff. exists d. auto.
  - split; [|split; [exact Hstamp|]].
    + intros t a Hin. specialize (B4 _ _ Hin). cbn in B4. lia.
    + intros Hd. unfold dl_stamp. rewrite Hd. cbn. destruct fixed; reflexivity.
Qed.

(* from the start of a thread (depth 0): the first load after any prefix of dlopen(NULL) / empty /
   load calls is stamped with its OWN entry time, and all records from then on are later *)
Lemma load_after_prefix : forall fixed pre base tab deps ctor rest clk s1 r1 d1 st' recs dls,
  run_acts true fixed true pre (w0 clk) = (s1, r1, d1) ->
  run_acts true fixed true (ADlopen base tab deps ctor :: rest) s1 = (st', recs, dls) ->
  In (mkDl (w_clk s1) base tab) dls /\
  (fixed = true -> forall d, In d deps -> In (mkDl (w_clk s1) (fst d) (snd d)) dls) /\
  (forall t a, In (t, a) recs -> w_clk s1 < t) /\
  (forall t a, In (t, a) r1 -> t < w_clk s1).
Proof.
  intros fixed pre base tab deps ctor rest clk s1 r1 d1 st' recs dls Hpre H.
  assert (Ho0 : w_ok (w0 clk)) by (unfold w_ok, w0; cbn; lia).
  pose proof (run_acts_well_behaved' true fixed pre (w0 clk) Ho0) as Bp. rewrite Hpre in Bp.
  cbn in Bp. destruct Bp as (P1 & _ & P3 & P4 & _ & P6).
  cbn [run_acts] in H.
  destruct (run_act true fixed true (ADlopen base tab deps ctor) s1) as [[s2 r2] d2] eqn:E1.
  destruct (load_precedes_ctor_records fixed s1 base tab deps ctor s2 r2 d2 P6 E1) as (A1 & A2 & A3 & A4 & A5).
  cbv zeta in *. rewrite (A5 P1) in *.
  pose proof (run_act_well_behaved true fixed (ADlopen base tab deps ctor) s1 P6) as B1. rewrite E1 in B1.
  cbn in B1. destruct B1 as (_ & _ & C3 & C4 & _ & C6).
  pose proof (run_acts_well_behaved' true fixed rest s2 C6) as B.
  destruct (run_acts true fixed true rest s2) as [[s3 r3] d3]. inversion H; subst.
  cbn in B. destruct B as (_ & _ & _ & B4 & _).
  split; [apply in_or_app; now left|]. split; [intros Hf d Hd; apply in_or_app; left; auto|]. split.
  - intros t a Hin. apply in_app_or in Hin. destruct Hin as [Hin|Hin]; [eauto|].
    specialize (B4 _ _ Hin). assert (w_clk s1 < w_clk s2); [|lia].
    { rewrite run_act_dlopen in E1. destruct (run_acts true fixed true ctor (w_enter s1)) as [[q1 q2] q3] eqn:Eq.
      pose proof (run_acts_well_behaved' true fixed ctor (w_enter s1) (proj1 (enter_ok s1 P6))) as Bq. rewrite Eq in Bq.
      cbn in Bq. inversion E1; subst. cbn. lia. }
  - intros t a Hin. specialize (P4 _ _ Hin). lia.
Qed.

(* the same for the wrapper AS BUILT: the three flags are generated from the C text of libmcount/wrap.c *)
Lemma load_precedes_ctor_records_as_built : forall st base tab deps ctor st' recs dls,
  w_ok st ->
  run_act wrap_dlopen_clock_first wrap_dlopen_reports_all wrap_dlopen_depth_balanced (ADlopen base tab deps ctor) st = (st', recs, dls) ->
  let stamp := if Nat.eqb (w_depth st) 0 then w_clk st else w_start st in
  In (mkDl stamp base tab) dls /\ (forall d, In d deps -> In (mkDl stamp (fst d) (snd d)) dls) /\
  (forall t a, In (t, a) recs -> stamp < t) /\ w_depth st' = w_depth st.
Proof.
  change wrap_dlopen_clock_first with true. change wrap_dlopen_reports_all with true. change wrap_dlopen_depth_balanced with true.
  intros st base tab deps ctor st' recs dls Ho H.
  destruct (load_precedes_ctor_records true st base tab deps ctor st' recs dls Ho H) as (A & B & C & _).
  pose proof (run_act_well_behaved true true (ADlopen base tab deps ctor) st Ho) as W. rewrite H in W. cbn in W.
  cbn in *. repeat split; auto. tauto.
Qed.

Lemma load_after_prefix_as_built : forall pre base tab deps ctor rest clk s1 r1 d1 st' recs dls,
  run_acts wrap_dlopen_clock_first wrap_dlopen_reports_all wrap_dlopen_depth_balanced pre (w0 clk) = (s1, r1, d1) ->
  run_acts wrap_dlopen_clock_first wrap_dlopen_reports_all wrap_dlopen_depth_balanced (ADlopen base tab deps ctor :: rest) s1 = (st', recs, dls) ->
  In (mkDl (w_clk s1) base tab) dls /\ (forall d, In d deps -> In (mkDl (w_clk s1) (fst d) (snd d)) dls) /\
  (forall t a, In (t, a) recs -> w_clk s1 < t) /\ (forall t a, In (t, a) r1 -> t < w_clk s1).
Proof.
  change wrap_dlopen_clock_first with true. change wrap_dlopen_reports_all with true. change wrap_dlopen_depth_balanced with true.
  intros pre base tab deps ctor rest clk s1 r1 d1 st' recs dls H1 H2.
  destruct (load_after_prefix true pre base tab deps ctor rest clk s1 r1 d1 st' recs dls H1 H2) as (A & B & C & D). auto.
Qed.

(* consequence for the analysis side: such a record is never rejected by the time test of
   session_find_dlsym - the library's table is searched for it *)
Lemma loaded_library_is_searched : forall d t a, d_time d <= t ->
  dl_hit t a d = find_sym (d_tab d) ((a - d_base d) mod W64).
Proof.
  intros d t a H. unfold dl_hit, dl_later. replace (d_time d >? t) with false by lia. reflexivity.
Qed.

Lemma insert_dl_In : forall d l x, In x (insert_dl d l) <-> x = d \/ In x l.
Proof.
  induction l as [|y r IH]; intros x; cbn; [intuition|].
  destruct (dl_insert_before (d_time y) (d_time d)); cbn; [intuition|]. rewrite IH. intuition.
Qed.

Lemma dl_list_In : forall msgs d, In d (dl_list msgs) <-> In d msgs.
Proof.
  intros msgs d. unfold dl_list.
  assert (G : forall msgs acc, In d (fold_left (fun l x => insert_dl x l) msgs acc) <-> In d msgs \/ In d acc).
  { induction msgs0 as [|m r IH]; intros acc; cbn; [intuition|]. rewrite IH, insert_dl_In. intuition. }
  rewrite G. cbn. intuition.
Qed.

(* end to end over the model: a record made by a constructor of a library (wrapper as in the code)
   at an address inside a symbol of that library OR of a dependency mapped with it is resolved to
   that symbol when no library that is listed later claims the address *)
Lemma ctor_record_resolves : forall st base tab deps ctor st' recs dls s l1 l2 t a x lb ltab,
  w_ok st ->
  run_act true true true (ADlopen base tab deps ctor) st = (st', recs, dls) -> In (t, a) recs ->
  (lb, ltab) = (base, tab) \/ In (lb, ltab) deps ->
  se_dl s = l1 ++ mkDl (dl_stamp true st) lb ltab :: l2 ->
  find_sym ltab ((a - lb) mod W64) = Some x ->
  (forall d', In d' l2 -> dl_hit t a d' = None) ->
  find_dlsym s t a = Some x.
Proof.
  intros st base tab deps ctor st' recs dls s l1 l2 t a x lb ltab Ho Hrun Hin Hlib Hs Hx Hl2.
  destruct (load_precedes_ctor_records _ _ _ _ _ _ _ _ _ Ho Hrun) as (_ & _ & Hlt & _).
  specialize (Hlt _ _ Hin). cbv zeta in Hlt.
  apply (dlsym_latest_first s l1 (mkDl (dl_stamp true st) lb ltab) l2 t a x Hs); cbn [d_time d_tab d_base]; [lia | exact Hx | exact Hl2].
Qed.

Definition tab_plugin : symtab := [mkSym 256 64 84 [105;110;105;116]].
Definition tab_dep : symtab := [mkSym 512 32 84 [100;101;112]].
Definition tab_other : symtab := [mkSym 256 64 84 [111;116;104;101;114]].
Definition sess_of (dls : list dlib) : session := mkSess 0 [] 1 1 0 (mkSinfo 0 [] []) (dl_list dls).

(* the order of the two steps in the wrapper matters: with the clock read after real_dlopen() a
   constructor's record predates the DLOP time stamp and the library is skipped for it *)
Lemma late_timestamp_refuted :
  let '(_, recs, dls) := run_act false true true (ADlopen 4096 tab_plugin [] [ARec 4360]) (w0 10) in
  recs = [(11, 4360)] /\ dls = [mkDl 12 4096 tab_plugin] /\
  find_dlsym (sess_of dls) 11 4360 = None /\
  spec_find tab_plugin (4360 - 4096) = Some (mkSym 256 64 84 [105;110;105;116]).
Proof. vm_compute. repeat split; reflexivity. Qed.

(* the code as found before 0c4417a (name filter in dlopen_base_callback): a dependency mapped by
   the same dlopen() call gets no DLOP message, the record of its function is not resolved *)
Lemma dependency_legacy_refuted :
  let '(_, recs, dls) := run_act true false true (ADlopen 4096 tab_plugin [(8192, tab_dep)] [ARec 4360; ARec 8710]) (w0 10) in
  recs = [(11, 4360); (12, 8710)] /\ dls = [mkDl 10 4096 tab_plugin] /\
  find_dlsym (sess_of dls) 12 8710 = None /\
  spec_find tab_dep (8710 - 8192) = Some (mkSym 512 32 84 [100;101;112]).
Proof. vm_compute. repeat split; reflexivity. Qed.

(* a wrapper that leaves dlopen_depth raised on the dlopen(NULL) path: every later load of the
   thread is stamped with the time of that old call; a library loaded later over the range of an
   unloaded one then claims the records of the first one *)
Lemma null_path_leak_refuted :
  let '(st', recs, dls) := run_acts true true false
      [ADlnull; ADlopen 4096 tab_plugin [] []; ARec 4360; ADlopen 4096 tab_other [] []; ARec 4360] (w0 10) in
  w_depth st' = 1%nat /\
  recs = [(12, 4360); (14, 4360)] /\ map d_time dls = [10; 10] /\
  find_dlsym (sess_of dls) 12 4360 = Some (mkSym 256 64 84 [111;116;104;101;114]) /\
  spec_find tab_plugin (4360 - 4096) = Some (mkSym 256 64 84 [105;110;105;116]).
Proof. vm_compute. repeat split; reflexivity. Qed.

(* ... the balanced wrapper dates the two loads by their own calls and each record goes to the
   library that was loaded at its time *)
Example null_path_balanced_example :
  let '(st', recs, dls) := run_acts true true true
      [ADlnull; ADlnone; ADlopen 4096 tab_plugin [] []; ARec 4360; ADlopen 4096 tab_other [] []; ARec 4360] (w0 10) in
  w_depth st' = 0%nat /\
  recs = [(13, 4360); (15, 4360)] /\ map d_time dls = [12; 14] /\
  find_dlsym (sess_of dls) 13 4360 = Some (mkSym 256 64 84 [105;110;105;116]) /\
  find_dlsym (sess_of dls) 15 4360 = Some (mkSym 256 64 84 [111;116;104;101;114]).
Proof. vm_compute. repeat split; reflexivity. Qed.

(* the fixed code resolves dependency and nested cases (outermost time stamp) *)
Example dependency_fixed_example :
  let '(_, recs, dls) := run_act true true true
      (ADlopen 65536 [mkSym 16 16 84 [111]] [] [ARec 65552; ADlopen 4096 tab_plugin [(8192, tab_dep)] [ARec 4360; ARec 8710]]) (w0 10) in
  let s := sess_of dls in
  recs = [(11, 65552); (13, 4360); (14, 8710)] /\
  map d_time dls = [10; 10; 10] /\
  find_dlsym s 11 65552 = Some (mkSym 16 16 84 [111]) /\
  find_dlsym s 13 4360 = Some (mkSym 256 64 84 [105;110;105;116]) /\
  find_dlsym s 14 8710 = Some (mkSym 512 32 84 [100;101;112]).
Proof. vm_compute. repeat split; reflexivity. Qed.

(* the code as found before bcf76bf: a library that is closed and opened again was not reported a
   second time (its map stayed known by name); when another library used the range in between, the
   newest entry at or before the record is the other library's *)
Lemma reload_unreported_legacy_refuted :
  let dls := [mkDl 10 4096 tab_plugin; mkDl 14 4096 tab_other] in      (* A, B; the reload of A at 18 is missing *)
  find_dlsym (sess_of dls) 20 4360 = Some (mkSym 256 64 84 [111;116;104;101;114]) /\
  find_dlsym (sess_of (dls ++ [mkDl 18 4096 tab_plugin])) 20 4360 = Some (mkSym 256 64 84 [105;110;105;116]).
Proof. vm_compute. split; reflexivity. Qed.
