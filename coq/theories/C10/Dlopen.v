(* C10 - the record side of dlopen: the wrapper's time stamp precedes every record made while
   (and after) the library is loaded, so the analysis side never skips the library for them. *)
From Coq Require Import ZArith List Bool Lia ZifyBool.
Import ListNotations.
Require Import UV.Gen.Kernels UV.C10.Model UV.C10.Proofs UV.C10.Sessions.
Local Open Scope Z_scope.

Section act_induction.
  Variable P : act -> Prop.
  Hypothesis Hrec : forall a, P (ARec a).
  Hypothesis Hdl : forall base tab ctor, Forall P ctor -> P (ADlopen base tab ctor).
  Fixpoint act_ind' (x : act) : P x :=
    match x with
    | ARec a => Hrec a
    | ADlopen b t ctor =>
        Hdl b t ctor ((fix go (l : list act) : Forall P l :=
                         match l with
                         | [] => Forall_nil P
                         | y :: r => Forall_cons y (act_ind' y) (go r)
                         end) ctor)
    end.
End act_induction.

Lemma run_act_dlopen : forall early base tab ctor clk,
  run_act early (ADlopen base tab ctor) clk =
  if early
  then let '(c2, rs, ds) := run_acts early ctor (clk + 1) in (c2, rs, ds ++ [mkDl clk base tab])
  else let '(c2, rs, ds) := run_acts early ctor clk in (c2 + 1, rs, ds ++ [mkDl c2 base tab]).
Proof.
  intros early base tab ctor clk. cbn [run_act].
  assert (E : forall l c,
    (fix go (l : list act) (c : Z) : rout :=
       match l with
       | [] => (c, [], [])
       | y :: r => let '(c1, r1, d1) := run_act early y c in
                   let '(c2, r2, d2) := go r c1 in (c2, r1 ++ r2, d1 ++ d2)
       end) l c = run_acts early l c).
  { induction l as [|y r IH]; intros c; [reflexivity|]. cbn [run_acts].
    destruct (run_act early y c) as [[c1 r1] d1]. rewrite IH. reflexivity. }
  rewrite !E. reflexivity.
Qed.

(* the clock only moves forward; everything produced by an action lies between the clock value
   it started with and the one it ended with *)
Definition bounded (early : bool) (clk : Z) (o : rout) : Prop :=
  let '(c', recs, dls) := o in
  clk <= c' /\ (forall t a, In (t, a) recs -> clk <= t < c') /\
  (forall d, In d dls -> clk <= d_time d < c').

Lemma run_acts_bounded : forall early l, Forall (fun x => forall clk, bounded early clk (run_act early x clk)) l ->
  forall clk, bounded early clk (run_acts early l clk).
Proof.
  induction l as [|y r IH]; intros HF clk.
  - cbn. repeat split; try lia; intros; contradiction.
  - inversion HF as [|? ? Hy Hr]; subst. cbn [run_acts].
    specialize (Hy clk). destruct (run_act early y clk) as [[c1 r1] d1].
    specialize (IH Hr c1). destruct (run_acts early r c1) as [[c2 r2] d2].
    cbn in *. destruct Hy as (A1 & A2 & A3). destruct IH as (B1 & B2 & B3).
    split; [lia|]. split.
    + intros t a H. apply in_app_or in H. destruct H as [H|H]; [specialize (A2 _ _ H) | specialize (B2 _ _ H)]; lia.
    + intros d H. apply in_app_or in H. destruct H as [H|H]; [specialize (A3 _ H) | specialize (B3 _ H)]; lia.
Qed.

Lemma run_act_bounded : forall early x clk, bounded early clk (run_act early x clk).
Proof.
  intros early x. induction x as [a | base tab ctor IH] using act_ind'; intros clk.
  - cbn. split; [lia|]. split; [|intros d []].
    intros t0 b [H|[]]. inversion H. lia.
  - rewrite run_act_dlopen. destruct early.
    + pose proof (run_acts_bounded true ctor IH (clk + 1)) as B.
      destruct (run_acts true ctor (clk + 1)) as [[c2 rs] ds]. cbn in *. destruct B as (B1 & B2 & B3).
      split; [lia|]. split.
      * intros t a H. specialize (B2 _ _ H). lia.
      * intros d H. apply in_app_or in H. destruct H as [H|[<-|[]]]; [specialize (B3 _ H); lia | cbn; lia].
    + pose proof (run_acts_bounded false ctor IH clk) as B.
      destruct (run_acts false ctor clk) as [[c2 rs] ds]. cbn in *. destruct B as (B1 & B2 & B3).
      split; [lia|]. split.
      * intros t a H. specialize (B2 _ _ H). lia.
      * intros d H. apply in_app_or in H. destruct H as [H|[<-|[]]]; [specialize (B3 _ H); lia | cbn; lia].
Qed.

Lemma run_acts_bounded' : forall early l clk, bounded early clk (run_acts early l clk).
Proof.
  intros. apply run_acts_bounded. apply Forall_forall. intros x _ c. apply run_act_bounded.
Qed.

(* the ordering invariant at ANY dlopen node (outermost or nested in a constructor): the DLOP
   message carries the clock value at which the wrapper was entered, and every record made while
   the library is being loaded (its constructors, whatever they call, nested dlopens) is later *)
Lemma load_precedes_ctor_records : forall base tab ctor clk c' recs dls,
  run_act true (ADlopen base tab ctor) clk = (c', recs, dls) ->
  In (mkDl clk base tab) dls /\ (forall t a, In (t, a) recs -> clk < t) /\ clk < c'.
Proof.
  intros base tab ctor clk c' recs dls H. rewrite run_act_dlopen in H.
  pose proof (run_acts_bounded' true ctor (clk + 1)) as B.
  destruct (run_acts true ctor (clk + 1)) as [[c2 rs] ds]. inversion H; subst. cbn in B.
  destruct B as (B1 & B2 & B3). split; [apply in_or_app; right; now left|]. split; [|lia].
  intros t a Hin. specialize (B2 _ _ Hin). lia.
Qed.

(* ... and every record of the rest of the run as well *)
Lemma load_precedes_all_records : forall base tab ctor rest clk c' recs dls,
  run_acts true (ADlopen base tab ctor :: rest) clk = (c', recs, dls) ->
  In (mkDl clk base tab) dls /\ (forall t a, In (t, a) recs -> clk < t).
Proof.
  intros base tab ctor rest clk c' recs dls H. cbn [run_acts] in H.
  destruct (run_act true (ADlopen base tab ctor) clk) as [[c1 r1] d1] eqn:E1.
  destruct (load_precedes_ctor_records _ _ _ _ _ _ _ E1) as (A1 & A2 & A3).
  pose proof (run_acts_bounded' true rest c1) as B.
  destruct (run_acts true rest c1) as [[c2 r2] d2]. inversion H; subst. cbn in B. destruct B as (B1 & B2 & B3).
  split; [apply in_or_app; now left|].
  intros t a Hin. apply in_app_or in Hin. destruct Hin as [Hin|Hin]; [eauto|]. specialize (B2 _ _ Hin). lia.
Qed.

(* the same for the wrapper AS BUILT: [wrap_dlopen_clock_first] is generated from the C text of
   libmcount/wrap.c (position of the mcount_gettime() call relative to real_dlopen()) *)
Lemma load_precedes_ctor_records_as_built : forall base tab ctor clk c' recs dls,
  run_act wrap_dlopen_clock_first (ADlopen base tab ctor) clk = (c', recs, dls) ->
  In (mkDl clk base tab) dls /\ (forall t a, In (t, a) recs -> clk < t) /\ clk < c'.
Proof. change wrap_dlopen_clock_first with true. exact load_precedes_ctor_records. Qed.

Lemma load_precedes_all_records_as_built : forall base tab ctor rest clk c' recs dls,
  run_acts wrap_dlopen_clock_first (ADlopen base tab ctor :: rest) clk = (c', recs, dls) ->
  In (mkDl clk base tab) dls /\ (forall t a, In (t, a) recs -> clk < t).
Proof. change wrap_dlopen_clock_first with true. exact load_precedes_all_records. Qed.

(* consequence for the analysis side: such a record is never rejected by the time test of
   session_find_dlsym - the library's table is searched for it *)
Lemma loaded_library_is_searched : forall d t a, d_time d <= t ->
  dl_hit t a d = find_sym (d_tab d) ((a - d_base d) mod W64).
Proof.
  intros d t a H. unfold dl_hit, dl_later. replace (d_time d >? t) with false by lia. reflexivity.
Qed.

Lemma insert_dl_In : forall d l x, In x (insert_dl d l) <-> x = d \/ In x l.
Proof.
  induction l as [|y r IH]; intros x; cbn; [intuition|].
  destruct (dl_insert_before (d_time y) (d_time d)); cbn; [intuition|]. rewrite IH. intuition.
Qed.

Lemma dl_list_In : forall msgs d, In d (dl_list msgs) <-> In d msgs.
Proof.
  intros msgs d. unfold dl_list.
  assert (G : forall msgs acc, In d (fold_left (fun l x => insert_dl x l) msgs acc) <-> In d msgs \/ In d acc).
  { induction msgs0 as [|m r IH]; intros acc; cbn; [intuition|]. rewrite IH, insert_dl_In. intuition. }
  rewrite G. cbn. intuition.
Qed.

(* end to end over the model: a record made by a constructor of a library (wrapper as in the code)
   at an address inside a symbol of that library is resolved to that symbol when no library that
   is listed later claims the address *)
Lemma ctor_record_resolves : forall base tab ctor clk c' recs dls s l1 l2 t a x,
  run_act true (ADlopen base tab ctor) clk = (c', recs, dls) -> In (t, a) recs ->
  se_dl s = l1 ++ mkDl clk base tab :: l2 ->
  find_sym tab ((a - base) mod W64) = Some x ->
  (forall d', In d' l2 -> dl_hit t a d' = None) ->
  find_dlsym s t a = Some x.
Proof.
  intros base tab ctor clk c' recs dls s l1 l2 t a x Hrun Hin Hs Hx Hl2.
  destruct (load_precedes_ctor_records _ _ _ _ _ _ _ Hrun) as (_ & Hlt & _).
  specialize (Hlt _ _ Hin).
  apply (dlsym_latest_first s l1 (mkDl clk base tab) l2 t a x Hs); cbn [d_time d_tab d_base]; [lia | exact Hx | exact Hl2].
Qed.

(* the order of the two steps in the wrapper matters: with the clock read after real_dlopen() a
   constructor's record predates the DLOP time stamp and the library is skipped for it *)
Definition tab_plugin : symtab := [mkSym 256 64 84 [105;110;105;116]].
Lemma late_timestamp_refuted :
  let '(_, recs, dls) := run_act false (ADlopen 4096 tab_plugin [ARec 4360]) 10 in
  recs = [(10, 4360)] /\ dls = [mkDl 11 4096 tab_plugin] /\
  find_dlsym (mkSess 0 [] 1 1 0 (mkSinfo 0 [] []) (dl_list dls)) 10 4360 = None /\
  spec_find tab_plugin (4360 - 4096) = Some (mkSym 256 64 84 [105;110;105;116]).
Proof. vm_compute. repeat split; reflexivity. Qed.

Example early_timestamp_example :
  let '(_, recs, dls) := run_act true (ADlopen 4096 tab_plugin [ARec 4360]) 10 in
  recs = [(11, 4360)] /\ dls = [mkDl 10 4096 tab_plugin] /\
  find_dlsym (mkSess 0 [] 1 1 0 (mkSinfo 0 [] []) (dl_list dls)) 11 4360 = Some (mkSym 256 64 84 [105;110;105;116]).
Proof. vm_compute. repeat split; reflexivity. Qed.
