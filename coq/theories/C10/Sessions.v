(* C10 - proofs about the choice of session and dlopen'ed library by time stamp. *)
From Coq Require Import ZArith List Bool Lia Arith PeanoNat ZifyBool Sorting.Sorted.
Import ListNotations.
Require Import UV.Gen.Kernels UV.C10.Model UV.C10.Proofs.
Local Open Scope Z_scope.

(* ------------------------------------------------------------------ session tree (in-order list) *)
Definition sess_le (x y : session) : Prop :=
  se_pid x < se_pid y \/ (se_pid x = se_pid y /\ se_start x <= se_start y).

Definition matches (pid ts : Z) (x : session) : bool := (se_pid x =? pid) && (se_start x <=? ts).

Lemma sess_matches_eq : forall pid ts x, sess_matches pid ts x = matches pid ts x.
Proof.
  intros. unfold sess_matches, matches, fs_pid_gt, fs_pid_lt, fs_start_gt.
  destruct (se_pid x >? pid) eqn:E1; destruct (se_pid x <? pid) eqn:E2; destruct (se_start x >? ts) eqn:E3;
    destruct (se_pid x =? pid) eqn:E4; destruct (se_start x <=? ts) eqn:E5; cbn; try reflexivity; lia.
Qed.

Lemma insert_cond_eq : forall x s,
  cs_pid_gt (se_pid x) (se_pid s) || (negb (cs_pid_lt (se_pid x) (se_pid s)) && cs_start_gt (se_start x) (se_start s)) =
  (se_pid x >? se_pid s) || ((se_pid x =? se_pid s) && (se_start x >? se_start s)).
Proof.
  intros. unfold cs_pid_gt, cs_pid_lt, cs_start_gt.
  destruct (se_pid x >? se_pid s) eqn:E1; destruct (se_pid x <? se_pid s) eqn:E2;
    destruct (se_pid x =? se_pid s) eqn:E4; cbn; try reflexivity; lia.
Qed.

Lemma sess_le_trans : forall x y z, sess_le x y -> sess_le y z -> sess_le x z.
Proof. unfold sess_le; intros; lia. Qed.

Lemma insert_session_In : forall s l x, In x (insert_session s l) <-> x = s \/ In x l.
Proof.
  induction l as [|y r IH]; intros x; cbn.
  - intuition.
  - rewrite insert_cond_eq. destruct ((se_pid y >? se_pid s) || ((se_pid y =? se_pid s) && (se_start y >? se_start s))); cbn.
    + intuition.
    + rewrite IH. intuition.
Qed.

Lemma insert_session_sorted : forall s l, StronglySorted sess_le l -> StronglySorted sess_le (insert_session s l).
Proof.
  induction l as [|y r IH]; intros Hs; cbn.
  - repeat constructor.
  - inversion Hs as [|? ? Hr Hall]; subst.
    rewrite insert_cond_eq. destruct ((se_pid y >? se_pid s) || ((se_pid y =? se_pid s) && (se_start y >? se_start s))) eqn:E.
    + constructor; auto. constructor.
      * unfold sess_le. lia.
      * rewrite Forall_forall in *. intros z Hz. specialize (Hall z Hz). unfold sess_le in *. lia.
    + constructor; auto. rewrite Forall_forall in *. intros z Hz.
      apply insert_session_In in Hz. destruct Hz as [->|Hz]; auto.
      unfold sess_le. lia.
Qed.

(* find_session_go returns the last matching element, else the incoming candidate *)
Lemma find_session_go_spec : forall l pid ts best,
  (exists l1 s l2, l = l1 ++ s :: l2 /\ matches pid ts s = true /\
                   (forall x, In x l2 -> matches pid ts x = false) /\
                   find_session_go l pid ts best = Some s)
  \/ ((forall x, In x l -> matches pid ts x = false) /\ find_session_go l pid ts best = best).
Proof.
  induction l as [|y r IH]; intros pid ts best; cbn [find_session_go].
  - right. split; auto. intros x [].
  - rewrite sess_matches_eq.
    destruct (IH pid ts (if matches pid ts y then Some y else best)) as [(l1 & s & l2 & E & Hm & Hn & Hf)|[Hn Hf]].
    + left. exists (y :: l1), s, l2. subst r. repeat split; auto.
    + destruct (matches pid ts y) eqn:Ey.
      * left. exists [], y, r. repeat split; auto.
      * right. split; auto. intros x [<-|Hx]; auto.
Qed.

Lemma sorted_app_le : forall l1 s l2, StronglySorted sess_le (l1 ++ s :: l2) -> forall x, In x l1 -> sess_le x s.
Proof.
  induction l1 as [|y r IH]; intros s l2 Hs x Hx; [destruct Hx|].
  cbn in Hs. inversion Hs as [|? ? Hr Hall]; subst.
  destruct Hx as [<-|Hx].
  - rewrite Forall_forall in Hall. apply Hall. apply in_or_app. right. now left.
  - eapply IH; eauto.
Qed.

(* C10_session_by_time, tree part: the session found for (pid, ts) has that pid, started at or
   before ts, and no session of the pid started later than it and at or before ts *)
Lemma find_session_some : forall l pid ts s, StronglySorted sess_le l ->
  find_session l pid ts = Some s ->
  In s l /\ se_pid s = pid /\ se_start s <= ts /\
  (forall x, In x l -> se_pid x = pid -> se_start x <= ts -> se_start x <= se_start s).
Proof.
  intros l pid ts s Hs H. unfold find_session in H.
  destruct (find_session_go_spec l pid ts None) as [(l1 & s' & l2 & E & Hm & Hn & Hf)|[Hn Hf]].
  - rewrite Hf in H. inversion H; subst s'. unfold matches in Hm.
    split; [subst l; apply in_or_app; right; now left|].
    split; [lia|]. split; [lia|].
    intros x Hx Hp Ht. subst l. apply in_app_or in Hx. destruct Hx as [Hx|[<-|Hx]].
    + pose proof (sorted_app_le _ _ _ Hs x Hx) as Hle. unfold sess_le in Hle. lia.
    + lia.
    + specialize (Hn x Hx). unfold matches in Hn. lia.
  - rewrite Hf in H. discriminate.
Qed.

Lemma find_session_none : forall l pid ts, find_session l pid ts = None ->
  forall x, In x l -> ~ (se_pid x = pid /\ se_start x <= ts).
Proof.
  intros l pid ts H x Hx [Hp Ht]. unfold find_session in H.
  destruct (find_session_go_spec l pid ts None) as [(l1 & s' & l2 & E & Hm & Hn & Hf)|[Hn Hf]].
  - rewrite Hf in H. discriminate.
  - specialize (Hn x Hx). unfold matches in Hn. lia.
Qed.

(* sessions with equal (pid, start): the one created later wins *)
Definition key_gt (x s : session) : Prop :=
  se_pid x > se_pid s \/ (se_pid x = se_pid s /\ se_start x > se_start s).

Lemma insert_session_split : forall s l, StronglySorted sess_le l ->
  exists l1 l2, insert_session s l = l1 ++ s :: l2 /\ l = l1 ++ l2 /\ (forall x, In x l2 -> key_gt x s).
Proof.
  induction l as [|y r IH]; intros Hs; cbn.
  - exists [], []. repeat split; auto. intros x [].
  - inversion Hs as [|? ? Hr Hall]; subst.
    rewrite insert_cond_eq. destruct ((se_pid y >? se_pid s) || ((se_pid y =? se_pid s) && (se_start y >? se_start s))) eqn:E.
    + exists [], (y :: r). repeat split; auto. intros x [<-|Hx].
      * unfold key_gt. lia.
      * rewrite Forall_forall in Hall. specialize (Hall x Hx). unfold key_gt, sess_le in *. lia.
    + destruct (IH Hr) as (l1 & l2 & E1 & E2 & H2). exists (y :: l1), l2. cbn. rewrite E1, E2. repeat split; auto.
Qed.

Lemma find_session_go_app : forall l1 l2 pid ts best,
  find_session_go (l1 ++ l2) pid ts best = find_session_go l2 pid ts (find_session_go l1 pid ts best).
Proof. induction l1 as [|y r IH]; intros; cbn; auto. Qed.

Lemma find_session_go_nomatch : forall l pid ts best, (forall x, In x l -> matches pid ts x = false) ->
  find_session_go l pid ts best = best.
Proof.
  induction l as [|y r IH]; intros pid ts best H; cbn; auto.
  pose proof (H y (or_introl eq_refl)) as Hy. rewrite sess_matches_eq, Hy.
  apply IH. intros x Hx. apply H. now right.
Qed.

Lemma find_session_latest_of_equal : forall l s pid ts, StronglySorted sess_le l ->
  se_pid s = pid -> se_start s <= ts ->
  (forall x, In x l -> se_pid x = pid -> se_start x <= ts -> se_start x <= se_start s) ->
  find_session (insert_session s l) pid ts = Some s.
Proof.
  intros l s pid ts Hs Hp Ht Hmax. unfold find_session.
  destruct (insert_session_split s l Hs) as (l1 & l2 & E1 & E2 & H2).
  rewrite E1, find_session_go_app. cbn [find_session_go]. rewrite sess_matches_eq. unfold matches at 1.
  replace ((se_pid s =? pid) && (se_start s <=? ts)) with true by lia.
  apply find_session_go_nomatch. intros x Hx. unfold matches.
  specialize (H2 x Hx). unfold key_gt in H2.
  destruct (se_pid x =? pid) eqn:Ep; auto. cbn [andb].
  assert (In x l) by (rewrite E2; apply in_or_app; now right).
  destruct (se_start x <=? ts) eqn:Et; auto.
  assert (se_start x <= se_start s) by (apply Hmax; auto; lia). lia.
Qed.

(* ------------------------------------------------------------------ a task's session references *)
Fixpoint chain_ok (refs : list sref) : bool :=
  match refs with
  | [] => true
  | r :: more =>
      match more with
      | [] => r_end r =? U64MAX
      | r2 :: _ => (r_end r =? r_start r2) && (r_start r <=? r_start r2) && chain_ok more
      end
  end.

Definition last_start (refs : list sref) : Z :=
  match last (map Some refs) None with Some r => r_start r | None => 0 end.

Lemma chain_cons2 : forall r c X,
  chain_ok (r :: c :: X) = (r_end r =? r_start c) && (r_start r <=? r_start c) && chain_ok (c :: X).
Proof. reflexivity. Qed.

Lemma close_last_nil : forall refs ts, close_last refs ts = [] -> refs = [].
Proof. destruct refs as [|r [|r2 m]]; cbn; intros; auto; discriminate. Qed.

(* add_session_ref keeps the references a chain [t1,t2) [t2,t3) ... [tn, 2^64-1) *)
Lemma chain_add : forall refs id ts,
  chain_ok refs = true -> (forall r, In r refs -> r_start r <= ts) ->
  chain_ok (close_last refs ts ++ [mkRef ts U64MAX id]) = true.
Proof.
  induction refs as [|r more IH]; intros id ts Hc Hle; [reflexivity|].
  destruct more as [|r2 m].
  - cbn. pose proof (Hle r (or_introl eq_refl)). rewrite Z.eqb_refl. cbn.
    apply andb_true_intro. split; [lia|reflexivity].
  - rewrite chain_cons2 in Hc. apply andb_prop in Hc. destruct Hc as [Hc H3]. apply andb_prop in Hc. destruct Hc as [H1 H2].
    change (close_last (r :: r2 :: m) ts) with (r :: close_last (r2 :: m) ts).
    cbn [app]. specialize (IH id ts H3 (fun x Hx => Hle x (or_intror Hx))).
    destruct (close_last (r2 :: m) ts) as [|c cs] eqn:Ec.
    + apply close_last_nil in Ec. discriminate.
    + cbn [app] in *. rewrite chain_cons2.
      assert (r_start c = r_start r2).
      { destruct m; cbn in Ec; inversion Ec; reflexivity. }
      rewrite IH. rewrite H. rewrite H1, H2. reflexivity.
Qed.

Lemma spec_ref_skip : forall refs t best, (forall r, In r refs -> t < r_start r) -> spec_ref refs t best = best.
Proof.
  induction refs as [|r more IH]; intros t best H; cbn; auto.
  pose proof (H r (or_introl eq_refl)).
  replace (r_start r <=? t) with false by lia. apply IH. intros x Hx. apply H. now right.
Qed.

Lemma chain_starts_ge : forall refs r0, chain_ok (r0 :: refs) = true -> forall r, In r refs -> r_start r0 <= r_start r /\ r_end r0 <= r_start r.
Proof.
  induction refs as [|r1 more IH]; intros r0 Hc r Hr; [destruct Hr|].
  cbn [chain_ok] in Hc. apply andb_prop in Hc. destruct Hc as [Hc H3]. apply andb_prop in Hc. destruct Hc as [H1 H2].
  destruct Hr as [<-|Hr]; [lia|].
  destruct (IH r1 H3 r Hr) as [A B].
  (* r_end r1 >= r_start r1 is not needed: starts are monotone *)
  lia.
Qed.

Lemma chain_find_some : forall refs r0 t, chain_ok (r0 :: refs) = true -> r_start r0 <= t < U64MAX ->
  exists r, find_ref (r0 :: refs) t = Some r.
Proof.
  induction refs as [|r1 more IH]; intros r0 t Hc Ht.
  - cbn in Hc. cbn. unfold ref_contains. replace (r_start r0 <=? t) with true by lia.
    replace (t <? r_end r0) with true by lia. cbn. eauto.
  - cbn [chain_ok] in Hc. apply andb_prop in Hc. destruct Hc as [Hc H3]. apply andb_prop in Hc. destruct Hc as [H1 H2].
    cbn [find_ref]. unfold ref_contains. destruct ((r_start r0 <=? t) && (t <? r_end r0)) eqn:E; [eauto|].
    apply IH; auto. lia.
Qed.

(* C10_session_by_time, reference part: on a chain the first reference whose [start,end) holds t is
   the reference with the greatest start <= t (the later one among equal starts) *)
Lemma find_ref_chain : forall refs t best, chain_ok refs = true -> 0 <= t < U64MAX ->
  (forall b, best = Some b -> forall r, In r refs -> r_start b <= r_start r) ->
  spec_ref refs t best = match find_ref refs t with Some r => Some r | None => best end.
Proof.
  induction refs as [|r0 more IH]; intros t best Hc Ht Hb; [reflexivity|].
  cbn [spec_ref find_ref]. unfold ref_contains.
  assert (Hc' : chain_ok more = true).
  { destruct more; [reflexivity|]. cbn [chain_ok] in Hc. apply andb_prop in Hc. tauto. }
  destruct (r_start r0 <=? t) eqn:E1.
  - assert (Hbest : (match best with Some b => if r_start b <=? r_start r0 then Some r0 else best | None => Some r0 end) = Some r0).
    { destruct best as [b|]; auto. pose proof (Hb b eq_refl r0 (or_introl eq_refl)).
      replace (r_start b <=? r_start r0) with true by lia. reflexivity. }
    rewrite Hbest. cbn [andb].
    destruct (t <? r_end r0) eqn:E2.
    + (* t inside r0: all later references start at >= end r0 > t *)
      apply spec_ref_skip. intros r Hr. destruct (chain_starts_ge _ _ Hc r Hr). lia.
    + (* t >= end r0: the chain continues, and something later holds t *)
      destruct more as [|r1 m].
      * cbn in Hc. lia.
      * rewrite IH; auto.
        -- assert (Hs : r_start r1 <= t).
           { cbn [chain_ok] in Hc. apply andb_prop in Hc. destruct Hc as [Hc _]. apply andb_prop in Hc. lia. }
           destruct (chain_find_some m r1 t Hc' (conj Hs (proj2 Ht))) as [r Hr]. rewrite Hr. reflexivity.
        -- intros b Eb r Hr. inversion Eb; subst b. destruct (chain_starts_ge _ _ Hc r Hr). lia.
  - cbn [andb]. apply IH; auto. intros b Eb r Hr. apply (Hb b Eb r). now right.
Qed.

Lemma find_ref_by_time : forall refs t, chain_ok refs = true -> 0 <= t < U64MAX ->
  find_ref refs t = spec_ref refs t None.
Proof.
  intros refs t Hc Ht. rewrite (find_ref_chain refs t None Hc Ht) by (intros; discriminate).
  destruct (find_ref refs t); reflexivity.
Qed.

(* what the chosen reference is, in plain words *)
Lemma spec_ref_max : forall refs t best r, spec_ref refs t best = Some r ->
  (In r refs \/ best = Some r) /\
  (forall x, In x refs -> r_start x <= t -> r_start x <= r_start r).
Proof.
  induction refs as [|r0 more IH]; intros t best r H; cbn in H.
  - split; auto. intros x [].
  - destruct (IH _ _ _ H) as [Hin Hmax]. split.
    + destruct Hin as [Hin|Hb]; [left; now right|].
      destruct (r_start r0 <=? t); [|now right].
      destruct best as [b|].
      * destruct (r_start b <=? r_start r0); [left; left; congruence | now right].
      * left; left; congruence.
    + intros x [<-|Hx] Hxt; [|now apply Hmax].
      (* r0 itself: the candidate after r0 has start >= start r0, and spec_ref never decreases it *)
      clear IH Hin Hmax.
      assert (Hmono : forall l bst c res, spec_ref l t (Some c) = Some res -> bst = c -> r_start c <= r_start res).
      { induction l as [|y l' IHl]; intros bst c res Hres _; cbn in Hres.
        - inversion Hres; lia.
        - destruct (r_start y <=? t); [|eapply IHl; eauto].
          destruct (r_start c <=? r_start y) eqn:Ec.
          + specialize (IHl y y res Hres eq_refl). lia.
          + eapply IHl; eauto. }
      replace (r_start r0 <=? t) with true in H by lia.
      destruct best as [b|].
      * destruct (r_start b <=? r_start r0) eqn:Eb.
        -- apply (Hmono more r0 r0 r H eq_refl).
        -- pose proof (Hmono more b b r H eq_refl). lia.
      * apply (Hmono more r0 r0 r H eq_refl).
Qed.

(* the task keeps no session before its first reference: fall back to parent / leader *)
Lemma find_task_session_fallback : forall fuel ts t time,
  find_ref (t_refs t) time = None ->
  find_task_session_go (S fuel) ts t time =
  (let parent := if t_ppid t =? 0 then t_pid t else t_ppid t in
   if (parent =? 0) || (parent =? t_tid t) then None
   else match find_task ts parent with
        | Some p => find_task_session_go fuel ts p time
        | None => None
        end).
Proof. intros fuel ts t time H. cbn [find_task_session_go]. rewrite H. reflexivity. Qed.

Lemma find_task_session_own : forall fuel ts t time r,
  find_ref (t_refs t) time = Some r -> find_task_session_go (S fuel) ts t time = Some (r_sess r).
Proof. intros fuel ts t time r H. cbn [find_task_session_go]. rewrite H. reflexivity. Qed.

(* ------------------------------------------------------------------ dlopen'ed libraries *)
Definition dl_hit (time a : Z) (d : dlib) : option sym :=
  if dl_later (d_time d) time then None else find_sym (d_tab d) ((a - d_base d) mod W64).

Lemma find_dlsym_rev_app : forall l1 l2 time a,
  find_dlsym_rev (l1 ++ l2) time a =
  match find_dlsym_rev l1 time a with Some s => Some s | None => find_dlsym_rev l2 time a end.
Proof.
  induction l1 as [|d r IH]; intros l2 time a; cbn; auto.
  destruct (dl_later (d_time d) time); auto.
  destruct (find_sym (d_tab d) ((a - d_base d) mod W64)); auto.
Qed.

Lemma find_dlsym_rev_none : forall l time a, (forall d, In d l -> dl_hit time a d = None) ->
  find_dlsym_rev l time a = None.
Proof.
  induction l as [|d r IH]; intros time a H; cbn; auto.
  pose proof (H d (or_introl eq_refl)) as Hd. unfold dl_hit in Hd.
  destruct (dl_later (d_time d) time); [apply IH; intros; apply H; now right|].
  rewrite Hd. apply IH; intros; apply H; now right.
Qed.

(* a library is searched only from its load time on *)
Lemma dlsym_not_before_load : forall s time a,
  (forall d, In d (se_dl s) -> time < d_time d) -> find_dlsym s time a = None.
Proof.
  intros s time a H. unfold find_dlsym. apply find_dlsym_rev_none.
  intros d Hd. apply in_rev in Hd. specialize (H d Hd). unfold dl_hit, dl_later.
  replace (d_time d >? time) with true by lia. reflexivity.
Qed.

(* the latest loaded library that has the address wins *)
Lemma dlsym_latest_first : forall s l1 d l2 time a x,
  se_dl s = l1 ++ d :: l2 -> d_time d <= time ->
  find_sym (d_tab d) ((a - d_base d) mod W64) = Some x ->
  (forall d', In d' l2 -> dl_hit time a d' = None) ->
  find_dlsym s time a = Some x.
Proof.
  intros s l1 d l2 time a x E Ht Hx Hl2. unfold find_dlsym. rewrite E.
  rewrite rev_app_distr. cbn [rev]. rewrite <- app_assoc. rewrite find_dlsym_rev_app.
  rewrite find_dlsym_rev_none by (intros d' Hd'; apply Hl2; now apply in_rev).
  cbn. unfold dl_later. replace (d_time d >? time) with false by lia. rewrite Hx. reflexivity.
Qed.

Lemma dlsym_sound : forall s time a x, find_dlsym s time a = Some x ->
  exists d, In d (se_dl s) /\ d_time d <= time /\ find_sym (d_tab d) ((a - d_base d) mod W64) = Some x.
Proof.
  intros s time a x. unfold find_dlsym.
  assert (forall l, find_dlsym_rev l time a = Some x ->
            exists d, In d l /\ d_time d <= time /\ find_sym (d_tab d) ((a - d_base d) mod W64) = Some x).
  { induction l as [|d r IH]; cbn; [discriminate|]. intros H. unfold dl_later in H.
    destruct (d_time d >? time) eqn:E.
    - destruct (IH H) as (d' & A & B & C). exists d'. auto.
    - destruct (find_sym (d_tab d) ((a - d_base d) mod W64)) eqn:F.
      + inversion H; subst. exists d. repeat split; auto. lia.
      + destruct (IH H) as (d' & A & B & C). exists d'. auto. }
  intros H0. destruct (H _ H0) as (d & A & B & C). exists d. split; auto. now apply in_rev.
Qed.

(* the dlopen list stays ordered by load time; equal times keep the order of arrival *)
Lemma insert_dl_sorted : forall d l, StronglySorted (fun x y => d_time x <= d_time y) l ->
  StronglySorted (fun x y => d_time x <= d_time y) (insert_dl d l).
Proof.
  induction l as [|y r IH]; intros Hs; cbn.
  - repeat constructor.
  - inversion Hs as [|? ? Hr Hall]; subst. unfold dl_insert_before.
    destruct (d_time y >? d_time d) eqn:E.
    + constructor; auto. constructor; [lia|].
      rewrite Forall_forall in *. intros z Hz. specialize (Hall z Hz). lia.
    + constructor; auto. rewrite Forall_forall in *. intros z Hz.
      assert (Hin : forall x, In x (insert_dl d r) -> x = d \/ In x r).
      { clear. induction r as [|q r IH]; cbn; intros x Hx.
        - destruct Hx; auto.
        - unfold dl_insert_before in Hx. destruct (d_time q >? d_time d); cbn in Hx.
          + destruct Hx as [<-|[<-|Hx]]; auto.
          + destruct Hx as [<-|Hx]; auto. destruct (IH _ Hx); auto. }
      destruct (Hin z Hz) as [->|Hz']; [lia|auto].
Qed.
