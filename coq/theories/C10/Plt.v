(* C10 - the PLT symbols built from .rela.plt are at (real PLT entry address - module base),
   for PIE and non-PIE files, canonical PLT addresses or not. *)
From Coq Require Import ZArith List Bool Lia ZifyBool.
Import ListNotations.
Require Import UV.Gen.Kernels UV.C10.Model UV.C10.Proofs UV.C10.SymCodec.
Local Open Scope Z_scope.

(* relocation k (counted from k0) is consistent with the file: it has a name, and when its dynsym
   carries a canonical PLT address that address is the address of its own PLT entry *)
Definition rels_ok (e : elfplt) (k0 : nat) (rels : list dynrel) : Prop :=
  forall j r, nth_error rels j = Some r ->
    dr_name r <> [] /\
    (dyn_is_canonical (dr_value r) (dr_shndx r) = true -> dr_value r = plt_slot e (k0 + j)).

Lemma rels_ok_tail : forall e k0 r rels, rels_ok e k0 (r :: rels) -> rels_ok e (S k0) rels.
Proof.
  intros e k0 r rels H j x Hj. specialize (H (S j) x Hj).
  replace (S k0 + j)%nat with (k0 + S j)%nat by lia. exact H.
Qed.

(* main induction: [delta] is the displacement the offset stands for (offset = delta mod 2^64) *)
Lemma load_dyn_syms_addrs : forall e delta offset rels k0 prev,
  offset = delta mod W64 ->
  rels_ok e k0 rels ->
  prev = plt_slot e k0 - PLT_ENTSIZE + delta ->
  0 <= plt_slot e k0 - PLT_ENTSIZE + delta ->
  plt_slot e (k0 + length rels) + delta < W64 ->
  map s_addr (load_dyn_syms offset prev rels) =
  map (fun j => plt_slot e (k0 + j) + delta) (seq 0 (length rels)).
Proof.
  intros e delta offset rels. revert offset.
  induction rels as [|r more IH]; intros offset k0 prev Hoff Hok Hprev Hlo Hhi; [reflexivity|].
  destruct (Hok 0%nat r eq_refl) as [Hname Hcanon].
  cbn [load_dyn_syms]. destruct (dr_name r) as [|c nm] eqn:En; [congruence|].
  assert (Hslot : forall k, plt_slot e (S k) = plt_slot e k + PLT_ENTSIZE).
  { intros k. unfold plt_slot, PLT_ENTSIZE. destruct (ep_pltsec e); lia. }
  assert (Hmono : forall a b, (a <= b)%nat -> plt_slot e a <= plt_slot e b).
  { intros a b Hab. unfold plt_slot, PLT_ENTSIZE. destruct (ep_pltsec e); lia. }
  assert (Ha : (if dyn_is_canonical (dr_value r) (dr_shndx r)
                then dyn_addr_canonical (dr_value r) offset
                else dyn_addr_next_slot prev PLT_ENTSIZE) = plt_slot e k0 + delta).
  { cbn [length] in Hhi. pose proof (Hmono k0 (k0 + S (length more))%nat ltac:(lia)).
    pose proof (Hslot k0). unfold PLT_ENTSIZE in *.
    destruct (dyn_is_canonical (dr_value r) (dr_shndx r)) eqn:Ec.
    - rewrite (Hcanon eq_refl). replace (k0 + 0)%nat with k0 by lia.
      unfold dyn_addr_canonical. fold W64. subst offset.
      rewrite Zplus_mod_idemp_r. rewrite Z.mod_small by lia. lia.
    - unfold dyn_addr_next_slot. fold W64. subst prev. rewrite Z.mod_small by lia. lia. }
  rewrite Ha. cbn [map s_addr length seq]. replace (k0 + 0)%nat with k0 by lia. f_equal.
  rewrite (IH offset (S k0) (plt_slot e k0 + delta)); auto.
  - rewrite <- seq_shift, map_map. apply map_ext. intros j. replace (S k0 + j)%nat with (k0 + S j)%nat by lia. reflexivity.
  - eapply rels_ok_tail; eauto.
  - rewrite Hslot. lia.
  - rewrite Hslot. unfold PLT_ENTSIZE in *. lia.
  - cbn [length] in Hhi. replace (S k0 + length more)%nat with (k0 + S (length more))%nat by lia. exact Hhi.
Qed.

Lemma plt_prev0_slot : forall e delta, 0 <= plt_slot e 0 - PLT_ENTSIZE + delta < W64 ->
  0 <= plt_slot e 0 + delta < W64 ->
  plt_prev0 (delta mod W64) e = plt_slot e 0 - PLT_ENTSIZE + delta.
Proof.
  intros e delta H1 H2. unfold plt_prev0, plt_slot, PLT_ENTSIZE in *.
  destruct (ep_pltsec e) as [a|].
  - rewrite Zplus_mod_idemp_r. rewrite (Z.mod_small (a + delta)) by lia. rewrite Z.mod_small by lia. lia.
  - rewrite Zplus_mod_idemp_r. rewrite Z.mod_small by lia. lia.
Qed.

Lemma increasing_sorted : forall tab, (forall i a b, nth_error tab i = Some a -> nth_error tab (S i) = Some b -> s_addr a <= s_addr b) ->
  addr_sorted tab = true.
Proof.
  induction tab as [|x r IH]; intros H; [reflexivity|]. destruct r as [|y r2]; [reflexivity|].
  cbn [addr_sorted]. apply andb_true_intro. split.
  - specialize (H 0%nat x y eq_refl eq_refl). lia.
  - apply IH. intros i a b Ha Hb. apply (H (S i) a b); auto.
Qed.

(* record and the analysis commands: SYMTAB_FL_ADJ_OFFSET, caller's offset 0.  Every PLT entry's
   table address is its link-time address minus the first PT_LOAD address, i.e. its run-time
   address minus the module's load address - PIE (vaddr0 = 0) or not, canonical or not. *)
Lemma plt_table_relative : forall e,
  rels_ok e 0 (ep_rels e) ->
  0 <= ep_vaddr0 e <= plt_slot e 0 - PLT_ENTSIZE ->
  plt_slot e (length (ep_rels e)) - ep_vaddr0 e < W64 ->
  map s_addr (load_dyn_syms (plt_offset true 0 e) (plt_prev0 (plt_offset true 0 e) e) (ep_rels e)) =
  map (fun j => plt_slot e j - ep_vaddr0 e) (seq 0 (length (ep_rels e))).
Proof.
  intros e Hok Hlo Hhi. unfold plt_offset.
  assert (Hm : forall a b, (a <= b)%nat -> plt_slot e a <= plt_slot e b).
  { intros a b Hab. unfold plt_slot, PLT_ENTSIZE. destruct (ep_pltsec e); lia. }
  pose proof (Hm 0%nat (length (ep_rels e)) ltac:(lia)).
  replace (0 - ep_vaddr0 e) with (- ep_vaddr0 e) by lia.
  rewrite plt_prev0_slot by (unfold PLT_ENTSIZE in *; lia).
  rewrite (load_dyn_syms_addrs e (- ep_vaddr0 e) _ (ep_rels e) 0%nat); auto; try (unfold PLT_ENTSIZE in *; cbn [Nat.add]; lia).
Qed.

(* libmcount at run time: no flag, the caller's offset is the load base (0 for a non-PIE):
   the table holds run-time addresses *)
Lemma plt_table_runtime : forall e base,
  rels_ok e 0 (ep_rels e) ->
  0 <= base -> PLT_ENTSIZE <= plt_slot e 0 ->
  plt_slot e (length (ep_rels e)) + base < W64 ->
  map s_addr (load_dyn_syms (plt_offset false base e) (plt_prev0 (plt_offset false base e) e) (ep_rels e)) =
  map (fun j => plt_slot e j + base) (seq 0 (length (ep_rels e))).
Proof.
  intros e base Hok Hb Hlo Hhi. unfold plt_offset.
  assert (Hm : forall a b, (a <= b)%nat -> plt_slot e a <= plt_slot e b).
  { intros a b Hab. unfold plt_slot, PLT_ENTSIZE. destruct (ep_pltsec e); lia. }
  pose proof (Hm 0%nat (length (ep_rels e)) ltac:(lia)).
  assert (Eb : base = base mod W64) by (symmetry; apply Z.mod_small; unfold PLT_ENTSIZE in *; lia).
  rewrite Eb at 1 2. rewrite plt_prev0_slot by (unfold PLT_ENTSIZE in *; lia).
  rewrite (load_dyn_syms_addrs e base _ (ep_rels e) 0%nat); auto; try (unfold PLT_ENTSIZE in *; cbn [Nat.add]; lia).
Qed.

(* names and sizes: entry k is named after relocation k *)
Lemma load_dyn_syms_names : forall offset rels prev, (forall r, In r rels -> dr_name r <> []) ->
  map s_name (load_dyn_syms offset prev rels) = map dr_name rels /\
  Forall (fun s => s_size s = PLT_ENTSIZE /\ s_type s = K_ST_PLT_FUNC) (load_dyn_syms offset prev rels).
Proof.
  induction rels as [|r more IH]; intros prev H; [split; [reflexivity|constructor]|].
  cbn [load_dyn_syms]. destruct (dr_name r) as [|c nm] eqn:En; [exfalso; apply (H r); [now left|auto]|].
  destruct (IH (if dyn_is_canonical (dr_value r) (dr_shndx r) then dyn_addr_canonical (dr_value r) offset
                else dyn_addr_next_slot prev PLT_ENTSIZE) (fun x Hx => H x (or_intror Hx))) as [A B].
  split; [cbn [map s_name]; rewrite A, En; reflexivity | constructor; auto].
Qed.

Lemma nth_error_seq' : forall n s i, (i < n)%nat -> nth_error (seq s n) i = Some (s + i)%nat.
Proof.
  induction n as [|n IH]; intros s i H; [lia|]. destruct i as [|i]; cbn; [f_equal; lia|].
  rewrite IH by lia. f_equal. lia.
Qed.

(* the table is already in address order, so the final sort keeps relocation order *)
Lemma plt_table_sorted : forall e,
  rels_ok e 0 (ep_rels e) ->
  0 <= ep_vaddr0 e <= plt_slot e 0 - PLT_ENTSIZE ->
  plt_slot e (length (ep_rels e)) - ep_vaddr0 e < W64 ->
  load_elf_dynsymtab true 0 e = load_dyn_syms (plt_offset true 0 e) (plt_prev0 (plt_offset true 0 e) e) (ep_rels e).
Proof.
  intros e Hok Hlo Hhi. unfold load_elf_dynsymtab. apply sort_sorted_id. apply increasing_sorted.
  intros i a b Ha Hb.
  pose proof (plt_table_relative e Hok Hlo Hhi) as Hm.
  set (tab := load_dyn_syms (plt_offset true 0 e) (plt_prev0 (plt_offset true 0 e) e) (ep_rels e)) in *.
  assert (Ai : nth_error (map s_addr tab) i = Some (s_addr a)) by (rewrite nth_error_map, Ha; reflexivity).
  assert (Bi : nth_error (map s_addr tab) (S i) = Some (s_addr b)) by (rewrite nth_error_map, Hb; reflexivity).
  rewrite Hm in Ai, Bi.
  assert (Hlen : (S i < length (ep_rels e))%nat).
  { assert (nth_error (map (fun j : nat => plt_slot e j - ep_vaddr0 e) (seq 0 (length (ep_rels e)))) (S i) <> None) by congruence.
    apply nth_error_Some in H. rewrite map_length, seq_length in H. exact H. }
  rewrite nth_error_map, nth_error_seq' in Ai by lia. rewrite nth_error_map, nth_error_seq' in Bi by lia.
  cbn in Ai, Bi. inversion Ai. inversion Bi.
  unfold plt_slot, PLT_ENTSIZE. destruct (ep_pltsec e); lia.
Qed.

(* non-vacuity and the two kinds of file: a non-PIE with a canonical entry in the middle, a PIE *)
Example plt_nonpie_canonical :
  let e := mkElfPlt 4194304 4198432 None
             [mkRel [112] 0 0; mkRel [115] 4198464 0; mkRel [97] 0 0] in
  map s_addr (load_elf_dynsymtab true 0 e) = [4144; 4160; 4176] /\
  map s_addr (load_elf_dynsymtab false 0 e) = [4198448; 4198464; 4198480].
Proof. vm_compute. split; reflexivity. Qed.

Example plt_pie_pltsec :
  let e := mkElfPlt 0 4128 (Some 4192) [mkRel [112] 0 0; mkRel [115] 0 0] in
  map s_addr (load_elf_dynsymtab true 0 e) = [4192; 4208] /\
  map s_addr (load_elf_dynsymtab false 93824992231424 e) = [93824992235616; 93824992235632].
Proof. vm_compute. split; reflexivity. Qed.
