(* Property C20 - only statements, each closed by [exact]. *)
From Coq Require Import NArith List Bool.
Import ListNotations.
Require Import UV.C20.Model UV.C20.Proofs.

(* A foreign DIR (exists, neither empty directory nor uftrace data; also a plain file) is left
   exactly as it is by every sequence of `record -d DIR` runs, together with DIR.old. *)
Theorem C20_foreign_dir_untouched : forall rs w, foreign (dir w) = true -> record_runs true w rs = w.
Proof. exact foreign_dir_forever. Qed.
Print Assumptions C20_foreign_dir_untouched.

(* ... and every such run fails. *)
Theorem C20_foreign_dir_run_fails : forall w r, foreign (dir w) = true -> record_run true w r = (w, Error).
Proof. exact run_foreign_dir. Qed.
Print Assumptions C20_foreign_dir_run_fails.

(* A foreign DIR.old is never removed or changed by any sequence of runs. *)
Theorem C20_foreign_old_untouched : forall rs w, foreign (old w) = true -> old (record_runs true w rs) = old w.
Proof. exact foreign_old_forever. Qed.
Print Assumptions C20_foreign_old_untouched.

(* The same on the network path (`record --host`): a foreign DIR makes the run fail and is left alone;
   a foreign DIR.old is never touched. *)
Theorem C20_host_foreign_dir_untouched : forall w r, foreign (dir w) = true -> record_run_host true w r = (w, Error).
Proof. exact host_run_foreign_dir. Qed.
Print Assumptions C20_host_foreign_dir_untouched.
Theorem C20_host_foreign_old_untouched : forall w r, foreign (old w) = true -> old (fst (record_run_host true w r)) = old w.
Proof. exact host_run_foreign_old. Qed.
Print Assumptions C20_host_foreign_old_untouched.

(* DIR.old "in the way" ([in_the_way]: it exists and is not a real directory holding uftrace data or nothing - a foreign
   directory, a plain file, ANY symbolic link, also one to uftrace data elsewhere): it is never removed, replaced or
   changed by any sequence of runs, whatever DIR is - a directory or a symbolic link to one. *)
Theorem C20_old_in_the_way_untouched : forall rs w, in_the_way (old w) = true -> old (record_runs true w rs) = old w.
Proof. exact old_in_the_way_forever. Qed.
Print Assumptions C20_old_in_the_way_untouched.

(* ... and a run that would have to rotate over it fails without changing anything. *)
Theorem C20_refused_when_old_in_the_way : forall w r t, dir w = Some t -> can_remove (Some t) = true ->
  in_the_way (old w) = true -> record_run true w r = (w, Error).
Proof. exact run_refused. Qed.
Print Assumptions C20_refused_when_old_in_the_way.

(* Rotation: an empty/uftrace DIR (or a symbolic link to one: the link itself moves) is kept as DIR.old (replacing only a
   DIR.old that was itself a real directory with uftrace data or nothing in it, or absent) and the run succeeds. *)
Theorem C20_rotation : forall w r t, dir w = Some t -> can_remove (Some t) = true -> in_the_way (old w) = false ->
  let '(w', res) := record_run true w r in
  res = OK /\ old w' = Some t /\ dir w' = populate (r_extra r) (fresh (r_opts r)).
Proof. exact run_rotates. Qed.
Print Assumptions C20_rotation.
Theorem C20_rotation_example :
  record_run true {| dir := Some udata; old := Some (Dir []) |} r0 = ({| dir := fresh []; old := Some udata |}, OK) /\
  record_run true {| dir := Some ULink; old := Some (Dir []) |} r0 = ({| dir := fresh []; old := Some ULink |}, OK).
Proof. split; [exact rotation_example|exact link_rotation_example]. Qed.
Print Assumptions C20_rotation_example.

(* The code as found left the protection of DIR.old to rename(): enough when DIR is a directory (rename fails on a file,
   a link or a non-empty directory), not when DIR is a symbolic link to uftrace data - rename() then silently replaced
   a foreign FILE or link named DIR.old.  Repaired in /repo (create_directory refuses first). *)
Theorem C20_link_legacy_refuted :
  foreign (old w_link) = true /\ in_the_way (old w_link) = true /\
  old (fst (record_run false w_link {| r_opts := []; r_extra := [] |})) = Some ULink /\
  record_run true w_link {| r_opts := []; r_extra := [] |} = (w_link, Error).
Proof. exact legacy_link_replaces_file. Qed.
Print Assumptions C20_link_legacy_refuted.

(* DIR changes only if it was absent, empty or uftrace data. *)
Theorem C20_replaced_only_if_owned : forall w r,
  dir (fst (record_run true w r)) <> dir w -> dir w = None \/ can_remove (dir w) = true.
Proof. exact run_dir_changes_only_if_removable. Qed.
Print Assumptions C20_replaced_only_if_owned.

(* complete characterisation of create_directory (what the correspondence check compares) *)
Theorem C20_create_directory_spec : forall opts w,
  create_directory true opts w =
  match dir w with
  | None => ({| dir := fresh opts; old := old w |}, OK)
  | Some t =>
      if can_remove (Some t)
      then (if in_the_way (old w) then (w, Error) else ({| dir := fresh opts; old := Some t |}, OK))
      else (w, Error)
  end.
Proof. exact create_spec. Qed.
Print Assumptions C20_create_directory_spec.

(* the run-time checker applied to implementation snapshots accepts every model run *)
Theorem C20_checker_accepts_model : forall w r, let '(w', res) := record_run true w r in ok_run w w' res = true.
Proof. exact ok_run_model. Qed.
Print Assumptions C20_checker_accepts_model.

(* the code as found (create_default_opts after a failed mkdir) destroys foreign data in 3 runs *)
Theorem C20_legacy_refuted :
  foreign (dir w_foreign) = true /\
  let w3 := record_runs false w_foreign [r0; r0; r0] in dir w3 <> Some notes /\ old w3 <> Some notes.
Proof. exact legacy_destroys_foreign. Qed.
Print Assumptions C20_legacy_refuted.

(* Live mode removes only the temporary directory it created itself.  The directory name comes from mkstemp +
   unlink (it did not exist then); whatever the run does (success, failure at any point), after cleanup_tempdir
   DIR.old is untouched and the name is free again (what the recorder wrote is uftrace data: default.opts and, if
   present, an info file that starts with the magic) ... *)
Theorem C20_live_removes_only_its_own_directory : forall w r, dir w = None ->
  is_uftrace_directory ((n_default_opts, File (r_opts r)) :: r_extra r) = true ->
  old (live_run true w r) = old w /\ dir (live_run true w r) = None.
Proof. exact live_only_own_directory. Qed.
Print Assumptions C20_live_removes_only_its_own_directory.
Theorem C20_live_example : is_uftrace_directory ((n_default_opts, File []) :: [(n_info, File (magic8 ++ [1; 2; 3]%N))]) = true.
Proof. exact live_example. Qed.
Print Assumptions C20_live_example.

(* ... and if some other process took the name with foreign data before the directory was created, nothing changes *)
Theorem C20_live_never_removes_foreign : forall w r, foreign (dir w) = true -> live_run true w r = w.
Proof. exact live_never_removes_foreign. Qed.
Print Assumptions C20_live_never_removes_foreign.

(* the code as found (unconditional removal at exit) destroyed such a directory: repaired by 047e4ac *)
Theorem C20_live_legacy_refuted : foreign (dir w_foreign) = true /\ live_run false w_foreign r0 <> w_foreign.
Proof. exact live_legacy_removes_foreign. Qed.
Print Assumptions C20_live_legacy_refuted.

(* What lies OUTSIDE DIR and DIR.old: when `uftrace record -d DIR` removes an old DIR.old (uftrace data or empty) it
   does not follow symbolic links found inside it - the directory a link points to is exactly as before, for every
   pre-existing state of DIR and DIR.old. *)
Theorem C20_outside_never_touched : forall w ext, outside_after false w ext = ext.
Proof. exact outside_untouched. Qed.
Print Assumptions C20_outside_never_touched.

(* The code as found examined the entries with stat(): a link to a foreign directory inside a previous data directory
   was taken for a sub-directory and the foreign directory was emptied (repaired: lstat, the link itself is removed). *)
Theorem C20_outside_legacy_refuted :
  outside_after true link_world ext_example = Some (Dir []) /\
  outside_after false link_world ext_example = ext_example.
Proof. exact outside_legacy_refuted. Qed.
Print Assumptions C20_outside_legacy_refuted.

(* Mixed histories: `record -d DIR`, `record --host H -d DIR` and live-mode runs on the same name, in ANY order and
   number: a foreign DIR stays exactly as it is (and so does DIR.old), a foreign DIR.old stays exactly as it is. *)
Theorem C20_mixed_history_foreign_dir : forall cs w, foreign (dir w) = true -> history w cs = w.
Proof. exact mixed_foreign_dir_forever. Qed.
Print Assumptions C20_mixed_history_foreign_dir.
Theorem C20_mixed_history_foreign_old : forall cs w, foreign (old w) = true -> old (history w cs) = old w.
Proof. exact mixed_foreign_old_forever. Qed.
Print Assumptions C20_mixed_history_foreign_old.
Theorem C20_mixed_history_example :
  foreign (old w_mixed) = true /\
  history w_mixed [CLive r0; CRecord r0; CHost r0; CRecord r0] = {| dir := fresh []; old := Some notes |} /\
  history w_mixed [CLive r0; CHost r0] = w_mixed /\
  history {| dir := None; old := None |} [CRecord r0; CLive r0; CHost r0; CRecord r0] = {| dir := fresh []; old := fresh [] |}.
Proof. exact mixed_example. Qed.
Print Assumptions C20_mixed_history_example.
