(* C02: a thread that ends in pthread_exit() with calls still open.

   Plain configuration (no filter options, no threshold), any instrumentation shape, inside the limits -D and
   --max-stack: after ANY well-bracketed sequence of entries and exits - calls may still be open - the wrapper's
   flush of the open calls (Model.do_thread_exit) leaves exactly the thread's history: an ENTRY for every call
   entered, an EXIT for every call left, in order, depth = number of open calls ([Check.prefix_records]).
   The proof keeps, along the events, "records written so far ++ the pending ENTRY records = the history so far". *)
From Coq Require Import NArith ZArith List Bool Lia.
Import ListNotations.
Require Import UV.Gen.Consts UV.Mcount.Model UV.Mcount.Forest UV.Mcount.PlainStep UV.Mcount.Check.
Local Open Scope N_scope.

Section texit.
  Variables gd ms : N.
  Variable sh : shape.
  Let c := plain 0 gd ms sh.
  Let lim := N.min gd ms.

  (* a well-bracketed event sequence inside the limits; [stk]: the open calls (address, entry time), innermost first *)
  Fixpoint wfev (es : list ev) (stk : list (N * N)) : Prop :=
    match es with
    | [] => True
    | Enter a t :: r => N.of_nat (length stk) < lim /\ 0 < t /\ t < 18446744073709551616 /\ wfev r ((a, t) :: stk)
    | Leave t1 :: r => match stk with
                       | (a, t0) :: stk' => t0 <= t1 /\ t1 < 18446744073709551616 /\ wfev r stk'
                       | [] => False
                       end
    | ForkChild :: _ => False
    end.

  Definition all_written (l : list frame) : Prop := Forall (fun f => written (f_flags f) = true) l.

  (* the shadow stack of such a run: one recordable frame per open call; a WRITTEN frame has only WRITTEN frames below *)
  Inductive wfs : list frame -> list (N * N) -> Prop :=
  | wfs_nil : wfs [] []
  | wfs_cons w a t l stk : wfs l stk -> 0 < t -> t < 18446744073709551616 -> (w = true -> all_written l) ->
      wfs (nf sh w a t (N.of_nat (length stk)) (N.of_nat (length stk)) :: l) ((a, t) :: stk).

  Lemma wfs_length l stk : wfs l stk -> length l = length stk.
  Proof. induction 1; cbn [length]; congruence. Qed.

  Lemma flush_written l : all_written l -> flush_anc l = (l, []).
  Proof. intros H. destruct l as [|p r]; [reflexivity|]. inversion H as [|? ? Hp _]; subst. cbn [flush_anc]. rewrite Hp. reflexivity. Qed.

  Lemma written_nf w a t r d : written (f_flags (nf sh w a t r d)) = w.
  Proof. destruct w; reflexivity. Qed.

  Lemma flush_wfs l stk : wfs l stk -> wfs (fst (flush_anc l)) stk /\ all_written (fst (flush_anc l)).
  Proof.
    induction 1 as [|w a t l stk H IH Ht0 Ht1 Hw]; [split; constructor|].
    destruct IH as [IH1 IH2]. destruct w.
    - assert (AW : all_written (nf sh true a t (N.of_nat (length stk)) (N.of_nat (length stk)) :: l))
        by (constructor; [reflexivity|apply Hw; reflexivity]).
      rewrite (flush_written _ AW). cbn [fst]. split; [constructor; assumption|exact AW].
    - rewrite (flush_anc_nf sh a t _ _ l). cbn [fst]. split.
      + constructor; try assumption. intros _. exact IH2.
      + constructor; [reflexivity|exact IH2].
  Qed.

  (* the bookkeeping along the events *)
  Record Inv (s : st) (stk : list (N * N)) (R : list rec) : Prop := {
    I_fc : fc s = fcd (N.of_nat (length stk));
    I_en : enabled s = true;
    I_ri : ridx s = N.of_nat (length stk);
    I_st : wfs (stack s) stk;
    I_out : out s ++ snd (flush_anc (stack s)) = R }.

  Lemma prefix_records_app p : forall q stk,
    prefix_records (p ++ q) stk =
    prefix_records p stk ++ prefix_records q (fold_left (fun k e => match e with
                                                                     | Enter a _ => a :: k
                                                                     | Leave _ => tl k
                                                                     | ForkChild => k end) p stk).
  Proof.
    induction p as [|e r IH]; intros q stk; [reflexivity|].
    destruct e as [a t|t|]; cbn [app prefix_records fold_left].
    - rewrite IH. reflexivity.
    - destruct stk as [|a stk']; cbn [tl]; rewrite IH; reflexivity.
    - rewrite IH. reflexivity.
  Qed.

  Definition X_rec (a t d : N) : rec := {| r_time := t; r_type := EXIT; r_depth := d; r_addr := a |}.
  Definition E_rec (a t d : N) : rec := {| r_time := t; r_type := ENTRY; r_depth := d; r_addr := a |}.

  Lemma idx_inv s stk R : Inv s stk R -> idx s = N.of_nat (length stk).
  Proof. intros [_ _ _ St _]. unfold idx. rewrite (wfs_length _ _ St). reflexivity. Qed.

  Lemma step_enter s hk stk R a t : Inv s stk R -> N.of_nat (length stk) < lim -> 0 < t -> t < 18446744073709551616 ->
    exists s', dstep c (s, hk) (Enter a t) = (s', true :: hk) /\
               Inv s' ((a, t) :: stk) (R ++ [E_rec a t (N.of_nat (length stk))]).
  Proof.
    intros HI Hl Ht0 Ht1. pose proof (idx_inv _ _ _ HI) as Hi. destruct HI as [Hfc Hen Hri Hst Hout].
    assert (Hg : N.of_nat (length stk) < gd) by (unfold lim in Hl; lia).
    assert (Hm : idx s < ms) by (unfold lim in Hl; lia).
    cbn [dstep]. unfold c.
    rewrite (enter_in 0 gd ms sh s _ a t Hfc Hen Hg Hm), (hooked_in 0 gd ms sh s _ a Hfc Hg Hm).
    eexists. split; [reflexivity|].
    constructor; cbn [fc enabled ridx stack out length].
    - rewrite Nat2N.inj_succ. f_equal. lia.
    - reflexivity.
    - rewrite Hri, Nat2N.inj_succ. lia.
    - rewrite Hri. change (newframe sh a t (N.of_nat (length stk)) (N.of_nat (length stk)))
        with (nf sh false a t (N.of_nat (length stk)) (N.of_nat (length stk))).
      constructor; try assumption. intro X; discriminate X.
    - rewrite Hri. change (newframe sh a t (N.of_nat (length stk)) (N.of_nat (length stk)))
        with (nf sh false a t (N.of_nat (length stk)) (N.of_nat (length stk))).
      rewrite (flush_anc_nf sh a t _ _ (stack s)). cbn [snd]. rewrite app_assoc, Hout. reflexivity.
  Qed.

  Lemma step_leave s hk stk R a t0 t1 : Inv s ((a, t0) :: stk) R -> t0 <= t1 -> t1 < 18446744073709551616 ->
    exists s', dstep c (s, true :: hk) (Leave t1) = (s', hk) /\
               Inv s' stk (R ++ [X_rec a t1 (N.of_nat (length stk))]).
  Proof.
    intros [Hfc Hen Hri Hst Hout] Hlt Ht1. cbn [dstep]. revert Hout.
    inversion Hst as [|w a' t' l stk' Hl Hp0 Hp1 Hw E1 E2]; subst. intro Hout.
    cbn [length] in Hfc, Hri. rewrite Nat2N.inj_succ in Hfc, Hri.
    assert (Hfc' : fc s = fcd (N.of_nat (length stk) + 1)) by (rewrite Hfc; f_equal; lia).
    assert (Hri' : ridx s = N.of_nat (length stk) + 1) by lia.
    symmetry in E1.
    unfold c. rewrite (leave_in 0 gd ms sh s w a t0 _ _ t1 l _ E1 Hfc' Hen Hri') by lia.
    assert (E0 : (0 <=? t1 - t0) = true) by (apply N.leb_le; lia). rewrite E0. cbn [orb].
    eexists. split; [reflexivity|].
    destruct w.
    - pose proof (Hw eq_refl) as AW.
      assert (AWt : all_written (nf sh true a t0 (N.of_nat (length stk)) (N.of_nat (length stk)) :: l))
        by (constructor; [reflexivity|exact AW]).
      rewrite (flush_written _ AWt) in Hout. cbn [snd] in Hout. rewrite app_nil_r in Hout.
      constructor; cbn [fc enabled ridx stack out]; try reflexivity; try assumption.
      rewrite (flush_written _ AW). cbn [snd app]. rewrite app_nil_r, Hout. reflexivity.
    - rewrite (flush_anc_nf sh a t0 _ _ l) in Hout. cbn [snd] in Hout.
      destruct (flush_wfs l stk Hl) as [W1 W2].
      constructor; cbn [fc enabled ridx stack out]; try reflexivity; try assumption.
      rewrite (flush_written _ W2). cbn [snd]. rewrite app_nil_r, <- Hout, <- !app_assoc. reflexivity.
  Qed.

  (* along any well-bracketed event sequence *)
  Lemma run_events : forall es s hk stk R, Inv s stk R -> wfev es stk ->
    exists s' hk' stk', exec c es (s, repeat true (length stk) ++ hk) = (s', hk') /\
                        Inv s' stk' (R ++ prefix_records es (map fst stk)).
  Proof.
    induction es as [|e r IH]; intros s hk stk R HI HW.
    - exists s, (repeat true (length stk) ++ hk), stk. cbn [prefix_records]. rewrite app_nil_r. split; [reflexivity|exact HI].
    - destruct e as [a t|t1|]; cbn [wfev] in HW.
      + destruct HW as (Hl & Ht0 & Ht1 & HW).
        destruct (step_enter s (repeat true (length stk) ++ hk) stk R a t HI Hl Ht0 Ht1) as (s1 & E1 & I1).
        destruct (IH s1 hk ((a, t) :: stk) _ I1 HW) as (s2 & hk2 & stk2 & E2 & I2).
        exists s2, hk2, stk2. unfold exec in *. cbn [fold_left]. rewrite E1. cbn [length repeat app] in E2.
        split; [exact E2|]. cbn [prefix_records map fst]. rewrite map_length.
        rewrite <- app_assoc in I2. exact I2.
      + destruct stk as [|[a t0] stk']; [contradiction|]. destruct HW as (Hlt & Ht1 & HW).
        cbn [length repeat app].
        destruct (step_leave s (repeat true (length stk') ++ hk) stk' R a t0 t1 HI Hlt Ht1) as (s1 & E1 & I1).
        destruct (IH s1 hk stk' _ I1 HW) as (s2 & hk2 & stk2 & E2 & I2).
        exists s2, hk2, stk2. unfold exec in *. cbn [fold_left]. rewrite E1.
        split; [exact E2|]. cbn [prefix_records map fst]. rewrite map_length.
        rewrite <- app_assoc in I2. exact I2.
      + contradiction.
  Qed.

  (* ---------------------------------------------------------------- the wrapper's flush *)
  Lemma exit_open s w a t0 d anc : 0 < t0 -> t0 < 18446744073709551616 ->
    fc s = fcd (d + 1) -> enabled s = true -> ridx s = d + 1 ->
    exit_record c s (nf sh w a t0 d d) anc =
    {| fc := fcd d; enabled := true; cached := cached s;
       stack := if w then anc else fst (flush_anc anc); ridx := d;
       out := out s ++ (if w then [] else snd (flush_anc anc) ++ [entry_rec (newframe sh a t0 d d)]);
       warned := warned s |}.
  Proof.
    intros Hp0 Hp1 Hfc Hen Hr. unfold exit_record. rewrite Hfc, Hen, Hr.
    cbn [fcd ftime in_count out_count]. rewrite N.eqb_refl.
    assert (Hnr : norecord (f_flags (nf sh w a t0 d d)) = false) by (destruct w; reflexivity).
    assert (Hfi : filtered (f_flags (nf sh w a t0 d d)) = false) by (destruct w; reflexivity).
    assert (Hnt : notrace (f_flags (nf sh w a t0 d d)) = false) by (destruct w; reflexivity).
    assert (Hft : ftrace (f_flags (nf sh w a t0 d d)) = false) by (destruct w; reflexivity).
    assert (Hw : written (f_flags (nf sh w a t0 d d)) = w) by (destruct w; reflexivity).
    assert (Hen0 : f_end (nf sh w a t0 d d) = 0) by (destruct w; reflexivity).
    assert (Hst0 : f_start (nf sh w a t0 d d) = t0) by (destruct w; reflexivity).
    rewrite Hnr, Hfi, Hnt, Hft, Hw, Hen0, Hst0.
    assert (Hsv : sv_depth (nf sh w a t0 d d) = d /\ sv_max (nf sh w a t0 d d) = FILTER_NO_MAX_DEPTH
                  /\ sv_time (nf sh w a t0 d d) = NO_TIME /\ sv_size (nf sh w a t0 d d) = 0)
      by (destruct w; repeat split; reflexivity).
    destruct Hsv as (-> & -> & -> & ->).
    assert (Hdur : (0 + 18446744073709551616 - t0) mod 18446744073709551616 = 18446744073709551616 - t0)
      by (apply N.mod_small; lia).
    rewrite Hdur.
    assert (Hr1 : (0 <? d + 1) = true) by (apply N.ltb_lt; lia). rewrite Hr1.
    replace (d + 1 - 1) with d by lia.
    subst c. cbn [plain has_caller threshold negb andb orb].
    assert (Hd0 : (0 <=? 18446744073709551616 - t0) = true) by (apply N.leb_le; lia). rewrite Hd0.
    cbn [andb orb].
    unfold record_trace_data. rewrite Hw.
    destruct w.
    - cbn [orb]. assert (f_end (nf sh true a t0 d d) = 0) as -> by reflexivity. cbn [N.eqb app].
      rewrite app_nil_r. reflexivity.
    - unfold skip. cbn [nf newframe f_flags fl_of norecord disabled orb].
      destruct (flush_anc anc) as [anc' pre]. cbn [fst snd].
      assert (f_end (set_written (newframe sh a t0 d d)) = 0) as -> by reflexivity. cbn [N.eqb].
      rewrite app_nil_r. reflexivity.
  Qed.

  Lemma texit_go : forall stk s n, wfs (stack s) stk -> fc s = fcd (N.of_nat (length stk)) -> enabled s = true ->
    ridx s = N.of_nat (length stk) -> (length stk <= n)%nat ->
    out (thread_exit_go c n s) = out s ++ snd (flush_anc (stack s)).
  Proof.
    induction stk as [|[a t0] stk IH]; intros s n Hst Hfc Hen Hri Hn.
    - inversion Hst as [E|]. destruct n; cbn [thread_exit_go]; rewrite <- ?E; cbn [flush_anc snd]; rewrite app_nil_r; reflexivity.
    - inversion Hst as [|w a' t' l stk' Hl Hp0 Hp1 Hw E1 E2]; subst.
      destruct n as [|n]; [cbn [length] in Hn; lia|].
      cbn [thread_exit_go]. rewrite <- E1.
      assert (Hg : f_ghost (nf sh w a t0 (N.of_nat (length stk)) (N.of_nat (length stk))) = false) by (destruct w; reflexivity).
      rewrite Hg.
      cbn [length] in Hfc, Hri. rewrite Nat2N.inj_succ in Hfc, Hri.
      rewrite (exit_open s w a t0 (N.of_nat (length stk)) l Hp0 Hp1) by (try assumption; rewrite ?Hfc, ?Hri; f_equal; lia).
      destruct w.
      + pose proof (Hw eq_refl) as AW.
        rewrite IH; cbn [stack fc enabled ridx out]; try assumption; try reflexivity; [|cbn [length] in Hn; lia].
        assert (AWt : all_written (nf sh true a t0 (N.of_nat (length stk)) (N.of_nat (length stk)) :: l))
          by (constructor; [reflexivity|exact AW]).
        rewrite (flush_written _ AW). cbn [snd]. rewrite ?app_nil_r.
        rewrite ?(flush_written _ AWt). cbn [snd]. rewrite ?app_nil_r. reflexivity.
      + destruct (flush_wfs l stk Hl) as [W1 W2].
        rewrite IH; cbn [stack fc enabled ridx out]; try assumption; try reflexivity; [|cbn [length] in Hn; lia].
        rewrite (flush_written _ W2). cbn [snd]. rewrite app_nil_r.
        rewrite (flush_anc_nf sh a t0 _ _ l). cbn [snd]. reflexivity.
  Qed.

  (* the thread's history, whatever is still open *)
  Theorem thread_exit_history : forall es, wfev es [] ->
    out (do_thread_exit c (fst (exec c es (init, [])))) = prefix_records es [].
  Proof.
    intros es HW.
    assert (I0 : Inv init [] []) by (constructor; try reflexivity; constructor).
    destruct (run_events es init [] [] [] I0 HW) as (s & hk & stk & E & [Hfc Hen Hri Hst Hout]).
    cbn [repeat length app] in E. rewrite E. cbn [fst app map] in *.
    unfold do_thread_exit. rewrite (texit_go stk s _ Hst Hfc Hen Hri).
    - exact Hout.
    - rewrite (wfs_length _ _ Hst). apply Nat.le_refl.
  Qed.
End texit.

(* non-vacuity: main{ a{ b() c{ *pthread_exit* ... : three calls open, one completed *)
Example thread_exit_example :
  wfev 1024 1024 [Enter 0 100; Enter 256 110; Enter 512 120; Leave 130; Enter 768 140] [] /\
  prefix_records [Enter 0 100; Enter 256 110; Enter 512 120; Leave 130; Enter 768 140] [] =
    [{| r_time := 100; r_type := ENTRY; r_depth := 0; r_addr := 0 |};
     {| r_time := 110; r_type := ENTRY; r_depth := 1; r_addr := 256 |};
     {| r_time := 120; r_type := ENTRY; r_depth := 2; r_addr := 512 |};
     {| r_time := 130; r_type := EXIT; r_depth := 2; r_addr := 512 |};
     {| r_time := 140; r_type := ENTRY; r_depth := 2; r_addr := 768 |}].
Proof. split; [cbn; repeat split; lia|reflexivity]. Qed.
