(* --max-stack overflow (C02: "deeper calls are dropped, never corrupted"), -pg shape, no threshold:
   calls nested deeper than min(-D, --max-stack) are dropped whole, everything else is recorded
   exactly, whatever the overflow flush of mcount_check_rstack does in between. *)
From Coq Require Import NArith ZArith List Bool Lia.
Import ListNotations.
Require Import UV.Gen.Consts UV.Mcount.Model UV.Mcount.Forest UV.Mcount.PlainStep UV.Mcount.PlainProofs.
Local Open Scope N_scope.

Definition okframe (f : frame) : Prop := skip f = false /\ f_end f = 0 /\ f_ghost f = false.

Lemma okframe_set_written f : okframe f -> okframe (set_written f).
Proof. intros (A & B & C). unfold okframe, skip in *. cbn [set_written f_flags norecord disabled f_end f_ghost]. auto. Qed.

Lemma flush_anc_ok l : Forall okframe l -> Forall okframe (fst (flush_anc l)).
Proof.
  induction 1 as [|p r Hp Hr IH]; [constructor|]. cbn [flush_anc].
  destruct (written (f_flags p)); [constructor; assumption|].
  destruct (flush_anc r) as [r' recs]. cbn [fst] in IH.
  destruct Hp as (A & B & C). rewrite A. cbn [fst]. constructor; [apply okframe_set_written; repeat split; assumption|exact IH].
Qed.

(* record_trace_data on an open, recordable top frame is exactly the flush of the whole stack *)
Lemma rtd_open top anc : okframe top ->
  record_trace_data top anc =
  (hd top (fst (flush_anc (top :: anc))), tl (fst (flush_anc (top :: anc))), snd (flush_anc (top :: anc))).
Proof.
  intros (S & E & G). unfold record_trace_data. cbn [flush_anc].
  destruct (written (f_flags top)) eqn:W.
  - cbn [orb fst snd hd tl]. rewrite E. reflexivity.
  - destruct (flush_anc anc) as [anc' pre]. rewrite S. cbn [orb fst snd hd tl].
    assert (f_end (set_written top) = 0) as -> by (cbn [set_written f_end]; exact E).
    cbn [N.eqb]. rewrite app_nil_r. reflexivity.
Qed.

Section overflow.
  Variables gd ms : N.
  Let c := plain 0 gd ms PG.

  Definition after' (s s' : st) (d : N) (R : list rec) : Prop :=
    exists b : bool,
      (is_nil R = false -> b = true) /\
      fc s' = fcd d /\ enabled s' = true /\ cached s' = cached s /\ ridx s' = d /\
      stack s' = (if b then fst (flush_anc (stack s)) else stack s) /\
      out s' = out s ++ (if b then snd (flush_anc (stack s)) else []) ++ R.

  Lemma after'_idx s s' d R : after' s s' d R -> idx s' = idx s.
  Proof.
    intros (b & _ & _ & _ & _ & _ & Hst & _). unfold idx. rewrite Hst.
    destruct b; [rewrite flush_anc_length|]; reflexivity.
  Qed.
  Lemma after'_ok s s' d R : after' s s' d R -> Forall okframe (stack s) -> Forall okframe (stack s').
  Proof.
    intros (b & _ & _ & _ & _ & _ & Hst & _) H. rewrite Hst. destruct b; [apply flush_anc_ok|]; exact H.
  Qed.
  Lemma after'_nil s d : fc s = fcd d -> enabled s = true -> ridx s = d -> after' s s d [].
  Proof. intros. exists false. cbn. rewrite app_nil_r. repeat split; auto; discriminate. Qed.

  Lemma after'_trans s s1 s2 d R1 R2 : after' s s1 d R1 -> after' s1 s2 d R2 -> after' s s2 d (R1 ++ R2).
  Proof.
    intros (b1 & N1 & F1 & E1 & C1 & I1 & S1 & O1) (b2 & N2 & F2 & E2 & C2 & I2 & S2 & O2).
    exists (b1 || b2). repeat split; try assumption; try congruence.
    - intro H. rewrite is_nil_app in H. apply andb_false_iff in H. destruct H as [H|H].
      + rewrite (N1 H). reflexivity.
      + rewrite (N2 H). apply orb_true_r.
    - rewrite S2, S1. destruct b1, b2; cbn [orb]; try reflexivity. rewrite flush_anc_idem. reflexivity.
    - rewrite O2, O1, S1. destruct b1, b2; cbn [orb]; rewrite ?flush_anc_idem; cbn [snd app];
        rewrite <- ?app_assoc; cbn [app]; rewrite ?app_nil_r; try reflexivity.
      destruct R1 as [|x R1]; [reflexivity|]. specialize (N1 eq_refl). discriminate.
  Qed.

  (* entry at a full shadow stack: rejected; may flush (first overflow) or not (already warned) *)
  Lemma enter_overflow s d a t : fc s = fcd d -> enabled s = true -> ridx s = d ->
    idx s = ms -> Forall okframe (stack s) ->
    hooked c s a = false /\ after' s (do_enter c s a t) d [].
  Proof.
    intros Hfc Hen Hr Hi Hok. unfold hooked, do_enter, entry_check.
    assert (E : (max_stack c <=? idx s) = true) by (apply N.leb_le; subst c; cbn [plain max_stack]; lia).
    unfold check_rstack. rewrite E.
    destruct (warned s) eqn:W.
    - subst c. cbn [plain shp]. split; [reflexivity|]. apply after'_nil; assumption.
    - assert (K : (length (stack s) - N.to_nat (max_stack c))%nat = 0%nat).
      { subst c. cbn [plain max_stack]. unfold idx in Hi. lia. }
      rewrite K. cbn [firstn skipn app].
      destruct (stack s) as [|top anc] eqn:S.
      + subst c. cbn [plain shp]. split; [reflexivity|].
        exists false. cbn [fc enabled cached ridx stack out is_nil app]. rewrite S, app_nil_r.
        repeat split; auto; discriminate.
      + inversion Hok as [|? ? Htop Hanc]; subst.
        rewrite (rtd_open top anc Htop).
        subst c. cbn [plain shp]. split; [reflexivity|].
        exists true. cbn [fc enabled cached ridx stack out is_nil app]. rewrite S.
        assert (HD : hd top (fst (flush_anc (top :: anc))) :: tl (fst (flush_anc (top :: anc)))
                     = fst (flush_anc (top :: anc))).
        { pose proof (flush_anc_length (top :: anc)) as L.
          destruct (fst (flush_anc (top :: anc))); [discriminate|reflexivity]. }
        rewrite HD, app_nil_r. repeat split; auto.
  Qed.

  Lemma run_kids' (ks : list call) :
    Forall (fun k => timed k -> forall s hk d, fc s = fcd d -> enabled s = true -> ridx s = d ->
                     idx s = N.min d ms -> d <= gd -> Forall okframe (stack s) ->
                     exists s', exec c (flat k) (s, hk) = (s', hk) /\
                                after' s s' d (recs 0 (N.min gd ms) d k)) ks ->
    all_timed ks -> forall s hk d, fc s = fcd d -> enabled s = true -> ridx s = d ->
    idx s = N.min d ms -> d <= gd -> Forall okframe (stack s) ->
    exists s', exec c (flat_map flat ks) (s, hk) = (s', hk) /\
               after' s s' d (flat_map (recs 0 (N.min gd ms) d) ks).
  Proof.
    induction 1 as [|k r Hk _ IH]; intros HT s hk d Hfc Hen Hr Hi Hd Hok.
    - exists s. split; [reflexivity|]. apply after'_nil; assumption.
    - destruct HT as [Tk Tr].
      destruct (Hk Tk s hk d Hfc Hen Hr Hi Hd Hok) as (s1 & E1 & A1).
      pose proof (after'_idx _ _ _ _ A1) as I1. pose proof (after'_ok _ _ _ _ A1 Hok) as K1.
      assert (A1' := A1). destruct A1' as (b1 & _ & F1 & En1 & _ & R1 & _ & _).
      destruct (IH Tr s1 hk d F1 En1 R1) as (s2 & E2 & A2); try assumption; [congruence|].
      exists s2. split.
      + cbn [flat_map]. unfold exec in *. rewrite fold_left_app, E1. exact E2.
      + cbn [flat_map]. eapply after'_trans; eassumption.
  Qed.

  Lemma positive_kids a t0 t1 kids : positive (Call a t0 t1 kids) -> all_positive kids.
  Proof. cbn. intros (_ & H). induction kids; cbn in *; tauto. Qed.

  Theorem run_call' : forall k, timed k -> forall s hk d,
    fc s = fcd d -> enabled s = true -> ridx s = d -> idx s = N.min d ms -> d <= gd ->
    Forall okframe (stack s) ->
    exists s', exec c (flat k) (s, hk) = (s', hk) /\ after' s s' d (recs 0 (N.min gd ms) d k).
  Proof.
    induction k as [a t0 t1 kids IH] using call_ind'. intros HT s hk d Hfc Hen Hr Hi Hd Hok.
    pose proof (run_kids' kids IH (timed_kids _ _ _ _ HT)) as RK. clear IH.
    destruct HT as (Ht01 & Ht1 & Hpos & _).
    cbn [flat]. unfold exec. cbn [fold_left dstep]. rewrite fold_left_app. cbn [fold_left].
    destruct (N.le_gt_cases (N.min gd ms) d) as [Hout|Hin].
    - (* at or beyond the limit: the whole subtree is dropped *)
      rewrite recs_beyond by exact Hout.
      assert (Hkids : flat_map (recs 0 (N.min gd ms) d) kids = []) by (apply recs_beyond_list; exact Hout).
      destruct (N.le_gt_cases ms d) as [Hms|Hms].
      + (* shadow stack full *)
        assert (Hi' : idx s = ms) by lia.
        destruct (enter_overflow s d a t0 Hfc Hen Hr Hi' Hok) as [Hhk A1]. unfold c in *. rewrite Hhk.
        pose proof (after'_idx _ _ _ _ A1) as I1. pose proof (after'_ok _ _ _ _ A1 Hok) as K1.
        assert (A1' := A1). destruct A1' as (b1 & _ & F1 & En1 & _ & R1 & _ & _).
        destruct (RK (do_enter (plain 0 gd ms PG) s a t0) (false :: hk) d F1 En1 R1) as (s2 & E2 & A2);
          try assumption; [congruence|].
        unfold exec in E2. rewrite E2. cbn [dstep]. exists s2. split; [reflexivity|].
        rewrite Hkids in A2. apply (after'_trans s (do_enter (plain 0 gd ms PG) s a t0) s2 d [] []); assumption.
      + (* -D limit *)
        assert (Hgd : gd <= d) by lia.
        destruct (enter_out_pg 0 gd ms PG s d a t0 eq_refl Hfc Hgd) as [Een Hhk]; [lia|].
        unfold c in *. rewrite Een, Hhk.
        destruct (RK {| fc := fc s; enabled := enabled s; cached := cached s; stack := stack s; ridx := ridx s;
                        out := out s; warned := false |} (false :: hk) d Hfc Hen Hr) as (s2 & E2 & A2);
          try assumption.
        unfold exec in E2. rewrite E2. cbn [dstep]. exists s2. split; [reflexivity|].
        rewrite Hkids in A2. destruct A2 as (b & Nn & F2 & En2 & C2 & R2 & S2 & O2).
        exists b. cbn [stack out cached] in *. repeat split; assumption.
    - (* within both limits *)
      assert (Hg : d < gd) by lia. assert (Hm : idx s < ms) by lia.
      unfold c in *.
      rewrite (enter_in 0 gd ms PG s d a t0 Hfc Hen Hg Hm).
      rewrite (hooked_in 0 gd ms PG s d a Hfc Hg Hm).
      set (s1 := {| fc := fcd (d + 1); enabled := true; cached := cached s;
                    stack := newframe PG a t0 (ridx s) d :: stack s; ridx := ridx s + 1; out := out s;
                    warned := false |}).
      destruct (RK s1 (true :: hk) (d + 1)) as (s2 & E2 & A2); try reflexivity.
      { subst s1. cbn [ridx]. lia. }
      { subst s1. unfold idx in *. cbn [stack length]. lia. }
      { lia. }
      { subst s1. cbn [stack]. constructor; [repeat split; reflexivity|exact Hok]. }
      unfold exec in E2. rewrite E2. cbn [dstep].
      destruct A2 as (bk & Nk & F2 & En2 & C2 & R2 & S2 & O2).
      subst s1. cbn [stack out cached] in S2, O2, C2.
      set (Rk := flat_map (recs 0 (N.min gd ms) (d + 1)) kids) in *.
      change (newframe PG a t0 (ridx s) d) with (nf PG false a t0 (ridx s) d) in S2, O2.
      rewrite flush_anc_nf in S2, O2. cbn [fst snd] in S2, O2.
      assert (S2' : stack s2 = nf PG bk a t0 (ridx s) d :: (if bk then fst (flush_anc (stack s)) else stack s)).
      { rewrite S2. destruct bk; reflexivity. }
      rewrite (leave_in 0 gd ms PG s2 bk a t0 (ridx s) d t1 _ (d + 1) S2' F2 En2) by (try assumption; lia).
      cbn [recs]. assert (EL : (N.min gd ms <=? d) = false) by (apply N.leb_gt; exact Hin). rewrite EL.
      fold Rk.
      assert (E0 : (0 <=? t1 - t0) = true) by (apply N.leb_le; lia). rewrite E0. cbn [orb].
      eexists. split; [reflexivity|].
      exists true. cbn [fc enabled cached ridx stack out is_nil].
      repeat split; try assumption; try congruence.
      + destruct bk; reflexivity.
      + rewrite O2. unfold entry_rec. cbn [newframe f_start f_depth f_addr]. rewrite Hr.
        destruct bk; cbn [app]; rewrite <- ?app_assoc; cbn [app]; rewrite <- ?app_assoc; try reflexivity.
        assert (Rk = []) as -> by (destruct Rk; [reflexivity|]; specialize (Nk eq_refl); discriminate).
        cbn [app]. reflexivity.
  Qed.

  Theorem run_forest' : forall f, all_timed f ->
    out (fst (exec c (flat_forest f) (init, []))) = flat_map (recs 0 (N.min gd ms) 0) f.
  Proof.
    intros f HT.
    destruct (run_kids' f) with (s := init) (hk := @nil bool) (d := 0) as (s' & E & A); try reflexivity; try assumption.
    - clear. induction f as [|k r IH]; constructor; [|exact IH].
      intros Tk s hk d. apply run_call'; assumption.
    - cbn. lia.
    - lia.
    - constructor.
    - unfold flat_forest. rewrite E. cbn [fst].
      destruct A as (b & _ & _ & _ & _ & _ & _ & O). rewrite O. cbn [init out stack flush_anc snd app].
      destruct b; reflexivity.
  Qed.
End overflow.
