(* Threads.  libmcount keeps its hook state per thread (mtdp) except for the trace switch mcount_enabled, which
   is one global flag.  Model: every hook call of thread t runs the single-thread step on t's own state with the
   global flag copied in, and writes the flag back.  Theorem: for every configuration without a trace_on /
   trace_off trigger and EVERY interleaving of the threads' hook calls, each thread ends in exactly the state -
   and with exactly the record stream - of running its own events alone.  So every single-thread theorem
   (history, sub-history, filters, ...) holds per thread under all schedules. *)
From Coq Require Import NArith ZArith List Bool Lia.
Import ListNotations.
Require Import UV.Gen.Consts UV.Mcount.Model UV.Mcount.Forest UV.Mcount.PlainStep UV.Mcount.PlainProofs UV.Mcount.Embed.
Local Open Scope N_scope.

Definition with_enabled (s : st) (g : bool) : st :=
  {| fc := fc s; enabled := g; cached := cached s; stack := stack s; ridx := ridx s; out := out s; warned := warned s |}.
Lemma with_enabled_same s : with_enabled s (enabled s) = s.
Proof. destruct s; reflexivity. Qed.

Definition tmap := N -> dstate.
Definition upd (m : tmap) (t : N) (d : dstate) : tmap := fun u => if u =? t then d else m u.

(* one hook call of thread [t]; the first component is the global mcount_enabled *)
Definition mstep (c : cfg) (gm : bool * tmap) (te : N * ev) : bool * tmap :=
  let '(g, m) := gm in
  let '(t, e) := te in
  let '(s, hk) := m t in
  let d' := dstep c (with_enabled s g, hk) e in
  (enabled (fst d'), upd m t d').
Definition mrun (c : cfg) (l : list (N * ev)) (gm : bool * tmap) : bool * tmap := fold_left (mstep c) l gm.

(* the events of one thread, in schedule order *)
Definition mine (t : N) (l : list (N * ev)) : list ev :=
  map snd (filter (fun te => fst te =? t) l).

(* hook calls keep the switch on when no trigger can turn it off *)
Section switch_free.
  Variable c : cfg.
  Hypothesis NS : no_switch c.

  Lemma check_rstack_enabled s : enabled (fst (check_rstack c s)) = enabled s.
  Proof.
    unfold check_rstack. destruct (max_stack c <=? idx s); [|reflexivity].
    destruct (warned s); [reflexivity|]. destruct (skipn _ (stack s)); [reflexivity|].
    destruct (record_trace_data _ _) as [[? ?] ?]. reflexivity.
  Qed.

  Lemma entry_check_enabled s a :
    let '(s1, v, tr, sv) := entry_check c s a in
    enabled s1 = enabled s /\ t_trace_on tr = false /\ t_trace_off tr = false.
  Proof.
    unfold entry_check. cbv zeta. pose proof (check_rstack_enabled s) as H.
    destruct (check_rstack c s) as [s1 over]. cbn [fst] in H.
    destruct over; [repeat split; assumption|].
    destruct (out_count (fc s1) >? 0)%Z; [repeat split; assumption|].
    destruct (NS a) as [Hon Hoff]. rewrite Hon, Hoff.
    repeat match goal with |- context [if ?b then _ else _] => destruct b end;
      cbn [with_fc enabled]; repeat split; assumption.
  Qed.

  Lemma entry_record_enabled s fr tr sv : enabled s = true -> enabled (entry_record c s fr tr sv) = true.
  Proof.
    intro H. unfold entry_record. destruct sv as [[[d m] t] z]. cbv zeta.
    match goal with |- context [if ?b then _ else _] => destruct b end; [exact H|].
    rewrite H. reflexivity.
  Qed.

  Lemma do_enter_enabled s a t : enabled s = true -> enabled (do_enter c s a t) = true.
  Proof.
    intro H. unfold do_enter. pose proof (entry_check_enabled s a) as E.
    destruct (entry_check c s a) as [[[s1 v] tr] sv]. destruct E as (E & _ & _). rewrite H in E.
    destruct (shp c), v; try destruct (state_trig tr); try exact E; try (apply entry_record_enabled; exact E).
  Qed.

  Lemma exit_record_enabled s top anc : enabled (exit_record c s top anc) = enabled s.
  Proof.
    unfold exit_record. cbv zeta. destruct (norecord (f_flags top)); [reflexivity|].
    destruct (negb (enabled s)); [reflexivity|].
    match goal with |- context [if ?b then _ else _] => destruct b end; [|reflexivity].
    destruct (record_trace_data top anc) as [[? ?] ?]. reflexivity.
  Qed.
  Lemma do_leave_enabled s t : enabled (do_leave c s t) = enabled s.
  Proof.
    unfold do_leave. destruct (stack s) as [|top anc]; [reflexivity|].
    destruct (f_ghost top); [reflexivity|]. destruct (shp c); apply exit_record_enabled.
  Qed.

  Lemma dstep_enabled d e : enabled (fst d) = true -> enabled (fst (dstep c d e)) = true.
  Proof.
    destruct d as [s hk]. cbn [fst]. intro H. destruct e as [a t|t|]; cbn [dstep fst].
    - apply do_enter_enabled. exact H.
    - destruct hk as [|h r]; [exact H|]. cbn [fst]. destruct h; [rewrite do_leave_enabled|]; exact H.
    - exact H.
  Qed.

  (* invariant of a run: the global switch is on and so is every thread's copy *)
  Definition all_on (gm : bool * tmap) : Prop := fst gm = true /\ forall t, enabled (fst (snd gm t)) = true.

  Lemma mstep_solo gm te : all_on gm ->
    all_on (mstep c gm te) /\
    forall u, snd (mstep c gm te) u = if u =? fst te then dstep c (snd gm u) (snd te) else snd gm u.
  Proof.
    destruct gm as [g m], te as [t e]. intros [Hg Hm]. cbn [fst snd] in *. subst g.
    unfold mstep. destruct (m t) as [s hk] eqn:Emt. cbn [fst snd].
    assert (Hs : enabled s = true) by (specialize (Hm t); rewrite Emt in Hm; exact Hm).
    assert (W : with_enabled s true = s) by (rewrite <- Hs; apply with_enabled_same).
    rewrite W. split.
    - unfold all_on. cbn [fst snd]. split; [apply (dstep_enabled (s, hk) e Hs)|].
      intro u. unfold upd. destruct (u =? t) eqn:Eu; [apply (dstep_enabled (s, hk) e Hs)|apply Hm].
    - intro u. unfold upd. destruct (u =? t) eqn:Eu; [|reflexivity].
      apply N.eqb_eq in Eu. subst u. rewrite Emt. reflexivity.
  Qed.

  Theorem threads_independent : forall l gm, all_on gm ->
    all_on (mrun c l gm) /\ forall t, snd (mrun c l gm) t = exec c (mine t l) (snd gm t).
  Proof.
    induction l as [|te r IH]; intros gm H.
    - split; [exact H|]. intro t. reflexivity.
    - destruct (mstep_solo gm te H) as [H1 S1]. unfold mrun. cbn [fold_left].
      destruct (IH (mstep c gm te) H1) as [H2 S2]. split; [exact H2|].
      intro t. unfold mrun in S2. rewrite S2, S1. unfold mine. cbn [filter].
      destruct (fst te =? t) eqn:E.
      + apply N.eqb_eq in E. subst t. rewrite N.eqb_refl. cbn [map]. unfold exec. cbn [fold_left]. reflexivity.
      + assert (E' : (t =? fst te) = false) by (rewrite N.eqb_sym; exact E). rewrite E'. reflexivity.
  Qed.
End switch_free.

Definition all_init : bool * tmap := (true, fun _ => (init, [])).

(* every thread's stream under any schedule is the stream of its own events run alone *)
Theorem thread_stream_any_schedule c : no_switch c -> forall l t,
  out (fst (snd (mrun c l all_init) t)) = out (fst (exec c (mine t l) (init, []))).
Proof.
  intros NS l t.
  assert (H : all_on all_init) by (split; [reflexivity|intro; reflexivity]).
  destruct (threads_independent c NS l all_init H) as [_ S]. rewrite S. reflexivity.
Qed.

Lemma no_switch_plain thr gd ms sh : no_switch (plain thr gd ms sh).
Proof. intro a. split; reflexivity. Qed.

(* plain configuration: whatever the schedule, every thread's stream is the specification of its own call forest *)
Theorem each_thread_is_its_history thr gd ms sh l t f :
  mine t l = flat_forest f -> all_timed f -> heights f <= ms ->
  out (fst (snd (mrun (plain thr gd ms sh) l all_init) t)) = flat_map (recs thr gd 0) f.
Proof.
  intros Hm HT Hh. rewrite (thread_stream_any_schedule _ (no_switch_plain thr gd ms sh)), Hm.
  apply run_forest; assumption.
Qed.
