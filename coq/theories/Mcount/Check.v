(* Executable checkers applied to IMPLEMENTATION outputs by the correspondence checks (no proofs). *)
From Coq Require Import NArith ZArith List Bool.
Import ListNotations.
Require Import UV.Gen.Consts UV.Mcount.Model UV.Mcount.Forest.
Local Open Scope N_scope.

Definition case4 := (cfg * list ev * list obs * list seen5)%type.
Definition agree4 (c : case4) : bool := let '(a, b, c0, d) := c in agree_case a b c0 d.

(* the record a reader must see for an abstract record (no wrap: the true depth and address) *)
Definition ideal (r : rec) : seen5 := (r_time r, type_code (r_type r), RECORD_MAGIC, r_depth r, r_addr r).

(* C02: plain configuration, complete forest: the observed stream is the specification
   (limit = min(-D, --max-stack); with a threshold only when the stack limit is not reached) *)
Definition ok_c02 (thr gd ms : N) (f : list call) (orecs : list seen5) : bool :=
  list_eqb seen_eqb orecs (map ideal (flat_map (recs thr (N.min gd ms) 0) f)).

(* per-event observation of the fast variants (no filter state): idx and record_idx only *)
Definition obs_fast_eqb (a b : obs) : bool :=
  let '(_, _, _, _, _, _, a7, a8, _) := a in let '(_, _, _, _, _, _, b7, b8, _) := b in (a7 =? b7) && (a8 =? b8).
Definition agree_fast (c : case4) : bool :=
  let '(cf, es, ostates, orecs) := c in
  let '(l, (s, _)) := trace cf es (init, []) in
  list_eqb obs_fast_eqb l ostates && list_eqb seen_eqb (map seen (out s)) orecs.

(* a forked child: events before ForkChild run in the parent *)
Definition ok_fork (thr gd ms : N) (sh : shape) (pre : list ev) (f : list call) (orecs : list seen5) : bool :=
  let '(s, _) := exec (plain thr gd ms sh) pre (init, []) in
  list_eqb seen_eqb orecs (map ideal (flat_map (recs thr gd (ridx s)) f)).
