(* Executable checkers applied to IMPLEMENTATION outputs by the correspondence checks (no proofs). *)
From Coq Require Import NArith ZArith List Bool.
Import ListNotations.
Require Import UV.Gen.Consts UV.Mcount.Model UV.Mcount.Forest UV.Mcount.SelectSpec UV.Mcount.SelectSpec2.
Local Open Scope N_scope.

Definition case4 := (cfg * list ev * list obs * list seen5)%type.
Definition agree4 (c : case4) : bool := let '(a, b, c0, d) := c in agree_case a b c0 d.


(* C02: plain configuration, complete forest: the observed stream is the specification
   (limit = min(-D, --max-stack, 1024); with a threshold only when the stack limit is not reached) *)
Definition ok_c02 (thr gd ms : N) (f : list call) (orecs : list seen5) : bool :=
  let lim := if thr =? 0 then N.min (N.min gd ms) 1024 else N.min gd ms in   (* 1024: the depth field (DepthField.v) *)
  list_eqb seen_eqb orecs (map ideal (flat_map (recs thr lim 0) f)).

(* per-event observation of the fast variants (no filter state): idx and record_idx only *)
Definition obs_fast_eqb (a b : obs) : bool :=
  let '(_, _, _, _, _, _, a7, a8, _) := a in let '(_, _, _, _, _, _, b7, b8, _) := b in (a7 =? b7) && (a8 =? b8).
Definition agree_fast (c : case4) : bool :=
  let '(cf, es, ostates, orecs) := c in
  let '(l, (s, _)) := trace cf es (init, []) in
  list_eqb obs_fast_eqb l ostates && list_eqb seen_eqb (disk (out s)) orecs.

(* a forked child: events before ForkChild run in the parent *)
Definition ok_fork (thr gd ms : N) (sh : shape) (pre : list ev) (f : list call) (orecs : list seen5) : bool :=
  let '(s, _) := exec (plain thr gd ms sh) pre (init, []) in
  list_eqb seen_eqb orecs (map ideal (flat_map (recs thr gd (ridx s)) f)).

(* ---------------------------------------------------------------- C05 checkers *)
(* the filter-relevant part of an observation: in/out counts, depth, max depth, time, size, record_idx *)
Definition fpart (o : obs) : Z * Z * N * N * N * N * N :=
  let '(a1, a2, a3, a4, a5, a6, _, a8, _) := o in (a1, a2, a3, a4, a5, a6, a8).
Definition fpart_eqb (x y : Z * Z * N * N * N * N * N) : bool :=
  let '(a1, a2, a3, a4, a5, a6, a8) := x in let '(b1, b2, b3, b4, b5, b6, b8) := y in
  (a1 =? b1)%Z && (a2 =? b2)%Z && (a3 =? b3) && (a4 =? b4) && (a5 =? b5) && (a6 =? b6) && (a8 =? b8).

Definition obs0 : obs := obs_of init.

(* after every Leave the filter state equals the state before the matching Enter *)
Fixpoint ok_restore_go (es : list ev) (os : list obs) (prev : obs) (stk : list obs) : bool :=
  match es, os with
  | [], _ => true
  | Enter _ _ :: er, o :: orr => ok_restore_go er orr o (prev :: stk)
  | Leave _ :: er, o :: orr =>
      match stk with
      | before :: stk' => fpart_eqb (fpart o) (fpart before) && ok_restore_go er orr o stk'
      | [] => false
      end
  | ForkChild :: er, o :: orr => ok_restore_go er orr o stk
  | _, [] => false
  end.
Definition ok_restore (es : list ev) (os : list obs) : bool := ok_restore_go es os obs0 [].

(* does a -pg entry that is not hooked leave a changed filter state behind?  (the defect pg-reject-leak of the code
   as found; repaired by mcount_entry_filter_undo, so this is false for every history now - kept as a checker) *)
Fixpoint leaky_go (c : cfg) (es : list ev) (d : dstate) : bool :=
  match es with
  | [] => false
  | e :: r =>
      let '(s, hk) := d in
      let here := match e with
                  | Enter a t =>
                      match shp c with
                      | PG => if hooked c s a then false
                              else negb (fpart_eqb (fpart (obs_of (do_enter c s a t))) (fpart (obs_of s)))
                      | CYG => false
                      end
                  | _ => false
                  end in
      here || leaky_go c r (dstep c d e)
  end.
Definition leaky (c : cfg) (es : list ev) : bool := leaky_go c es (init, []).

(* the class of the remaining finding pg-rejected-trigger-scope: a -pg entry is rejected although its trigger would
   have changed the filter state (under cygprof the NORECORD frame carries that change to the callees, under -pg
   it is undone): only here may the two instrumentation methods record different streams *)
Fixpoint rejected_trigger_go (c : cfg) (es : list ev) (d : dstate) : bool :=
  match es with
  | [] => false
  | e :: r =>
      let '(s, hk) := d in
      let here := match e with
                  | Enter a t =>
                      let '(s1, v, _, _) := entry_check c s a in
                      match v with
                      | V_OUT => negb (fpart_eqb (fpart (obs_of s1)) (fpart (obs_of s)))
                      | _ => false
                      end
                  | _ => false
                  end in
      here || rejected_trigger_go c r (dstep c d e)
  end.
Definition rejected_trigger (c : cfg) (es : list ev) : bool := rejected_trigger_go c es (init, []).

(* the observed stream is properly nested: depths follow the open recorded calls, EXIT matches ENTRY *)
Fixpoint scan5 (d : N) (stk : list N) (l : list seen5) : bool :=
  match l with
  | [] => (d =? 0)
  | (_, ty, mg, dep, ad) :: t =>
      (mg =? RECORD_MAGIC) &&
      (if ty =? UFTRACE_ENTRY then (dep =? d) && scan5 (d + 1) (ad :: stk) t
       else if ty =? UFTRACE_EXIT then
         match stk with
         | a :: s => (0 <? d) && (dep =? d - 1) && (a =? ad) && scan5 (d - 1) s t
         | [] => false
         end
       else false)
  end.
Definition ok_nested (l : list seen5) : bool := scan5 0 [] l.

Definition has_switch (tr : list (N * trig)) : bool :=
  existsb (fun p => t_trace_on (snd p) || t_trace_off (snd p)) tr.

(* C05 stage 1: -F / -N / -D option sets against the tree-recursive specification [sel] *)
Definition ok_sel (flt : list (N * option bool)) (fm : bool) (gd thr : N) (f : list call) (orecs : list seen5) : bool :=
  list_eqb seen_eqb orecs (map ideal (flat_map (sel (assoc None flt) gd thr (x0 fm gd) 0) f)).

(* ---------------------------------------------------------------- embedded sub-history (C02 / C05, any filter set)
   the observed stream is the flattening (depth = number of open recorded calls) of a forest obtained from the
   call history by leaving calls out; backtracking matcher with a success continuation *)
Definition is_rec (r : seen5) (ty a t d : N) : bool :=
  let '(tm, ty', mg, dep, ad) := r in
  (tm =? t) && (ty' =? ty) && (mg =? RECORD_MAGIC) && (dep =? d) && (ad =? a).
Fixpoint mcall (c : call) (d : N) (l : list seen5) (k : list seen5 -> bool) {struct c} : bool :=
  match c with
  | Call a t0 t1 kids =>
      let kids_m := (fix go (ks : list call) (d' : N) (l : list seen5) (k : list seen5 -> bool) {struct ks} : bool :=
                       match ks with
                       | [] => k l
                       | x :: r => mcall x d' l (fun l' => go r d' l' k)
                       end) in
      if (match l with
          | r :: l' =>
              if is_rec r UFTRACE_ENTRY a t0 d
              then kids_m kids (d + 1) l' (fun l2 => match l2 with
                                                     | x :: l3 => if is_rec x UFTRACE_EXIT a t1 d then k l3 else false
                                                     | [] => false
                                                     end)
              else false
          | [] => false
          end)
      then true
      else kids_m kids d l k
  end.
Fixpoint mforest (f : list call) (d : N) (l : list seen5) (k : list seen5 -> bool) : bool :=
  match f with
  | [] => k l
  | x :: r => mcall x d l (fun l' => mforest r d l' k)
  end.
Definition ok_emb (f : list call) (orecs : list seen5) : bool := mforest f 0 orecs (fun l => is_nil l).

(* C05 stage 2: -F / -N / -D / -t with depth= and time= trigger actions against [sel2] *)
Definition ok_sel2 (tgl : list (N * strig)) (sizes : list (N * N)) (fm hc lm : bool) (gd thr : N) (f : list call)
                   (orecs : list seen5) : bool :=
  list_eqb seen_eqb orecs (map ideal (flat_map (sel2 (assoc notrig2 tgl) (assoc 0 sizes) hc lm (x02 fm gd thr) 0) f)).

(* append-only stream (C02_stream_append_only): the stream of a shorter run is a list prefix of the longer run's *)
Fixpoint prefix5 (l1 l2 : list seen5) : bool :=
  match l1, l2 with
  | [], _ => true
  | x :: r1, y :: r2 => seen_eqb x y && prefix5 r1 r2
  | _ :: _, [] => false
  end.

(* global size filter -Z gz: correspondence from [init_z gz] and the specification with that filter in force *)
Definition agree4z (p : N * case4) : bool := let '(z, (a, b, c0, d)) := p in agree_case_z z a b c0 d.
Definition ok_sel2z (tgl : list (N * strig)) (sizes : list (N * N)) (fm hc lm : bool) (gd thr gz : N) (f : list call)
                    (orecs : list seen5) : bool :=
  list_eqb seen_eqb orecs (map ideal (flat_map (sel2 (assoc notrig2 tgl) (assoc 0 sizes) hc lm (x02z fm gd thr gz) 0) f)).

(* the finish trigger: the implementation's records against the model run that stops at the first firing entry *)
Definition ok_fin (c : cfg) (es : list ev) (orecs : list seen5) : bool :=
  list_eqb seen_eqb (disk (out (fst (fst (exec_f c es (init, [], false)))))) orecs.
(* did the finish trigger fire at all in the model run (statistics) *)
Definition fin_fired (c : cfg) (es : list ev) : bool := snd (exec_f c es (init, [], false)).

(* record --disable: the run starts with tracing switched off *)
Definition agree4off (p : case4) : bool := let '(a, b, c0, d) := p in agree_case_off a b c0 d.

(* a thread that ends in pthread_exit() with calls still open: the implementation's records against the model
   (events, then the wrapper's flush of the open calls) ... *)
Definition ok_pexit (c : cfg) (es : list ev) (orecs : list seen5) : bool :=
  list_eqb seen_eqb (disk (out (do_thread_exit c (fst (exec c es (init, [])))))) orecs.
(* ... and, for the plain configuration within the limits, against the event prefix itself: an ENTRY for every call
   entered, an EXIT for every call left, depth = number of open calls *)
Fixpoint prefix_records (es : list ev) (stk : list N) : list rec :=
  match es with
  | [] => []
  | Enter a t :: r => {| r_time := t; r_type := ENTRY; r_depth := N.of_nat (length stk); r_addr := a |} :: prefix_records r (a :: stk)
  | Leave t :: r => match stk with
                    | a :: stk' => {| r_time := t; r_type := EXIT; r_depth := N.of_nat (length stk'); r_addr := a |} :: prefix_records r stk'
                    | [] => prefix_records r []
                    end
  | ForkChild :: r => prefix_records r stk
  end.
Definition ok_pexit_plain (es : list ev) (orecs : list seen5) : bool :=
  list_eqb seen_eqb (disk (prefix_records es [])) orecs.
