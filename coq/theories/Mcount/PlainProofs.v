(* The recorded stream of a complete call tree under the plain configuration equals the
   specification [recs] (Forest.v): induction over the call tree. *)
From Coq Require Import NArith ZArith List Bool Lia.
Import ListNotations.
Require Import UV.Gen.Consts UV.Mcount.Model UV.Mcount.Forest UV.Mcount.PlainStep.
Local Open Scope N_scope.

Section plain_run.
  Variables thr gd ms : N.
  Variable sh : shape.
  Let c := plain thr gd ms sh.

  (* post-condition of running a list of events that is "complete" (all calls returned) *)
  Definition after (s s' : st) (d : N) (R : list rec) : Prop :=
    fc s' = fcd d /\ enabled s' = true /\ cached s' = cached s /\ ridx s' = d /\
    stack s' = (if is_nil R then stack s else fst (flush_anc (stack s))) /\
    out s' = out s ++ (if is_nil R then [] else snd (flush_anc (stack s))) ++ R.

  Lemma after_idx s s' d R : after s s' d R -> idx s' = idx s.
  Proof.
    intros (_ & _ & _ & _ & Hst & _). unfold idx. rewrite Hst.
    destruct (is_nil R); [reflexivity|]. rewrite flush_anc_length. reflexivity.
  Qed.

  Lemma after_nil s d : fc s = fcd d -> enabled s = true -> ridx s = d -> after s s d [].
  Proof. intros. unfold after. cbn. rewrite app_nil_r. auto 10. Qed.

  Lemma after_trans s s1 s2 d R1 R2 : after s s1 d R1 -> after s1 s2 d R2 -> after s s2 d (R1 ++ R2).
  Proof.
    intros (F1 & E1 & C1 & I1 & S1 & O1) (F2 & E2 & C2 & I2 & S2 & O2).
    unfold after. repeat split; try assumption; try congruence.
    - rewrite S2, S1. destruct R1 as [|x R1]; cbn [is_nil app].
      + reflexivity.
      + destruct (is_nil R2); [reflexivity|]. rewrite flush_anc_idem. reflexivity.
    - rewrite O2, O1, S1. destruct R1 as [|x R1]; cbn [is_nil app].
      + rewrite app_nil_r. reflexivity.
      + destruct R2 as [|y R2]; cbn [is_nil].
        * rewrite !app_nil_r. cbn [app]. reflexivity.
        * rewrite flush_anc_idem. cbn [snd app]. rewrite <- !app_assoc. cbn [app]. reflexivity.
  Qed.

  Lemma recs_beyond d k : gd <= d -> recs thr gd d k = [].
  Proof. intro H. destruct k as [a t0 t1 kids]. cbn [recs]. apply N.leb_le in H. rewrite H. reflexivity. Qed.

  Lemma recs_beyond_list d ks : gd <= d -> flat_map (recs thr gd d) ks = [].
  Proof. intro H. induction ks as [|k r IH]; cbn [flat_map]; [reflexivity|]. rewrite recs_beyond, IH; auto. Qed.

  (* running the kids, given the statement for each kid *)
  Lemma run_kids (ks : list call) :
    Forall (fun k => timed k -> forall s hk d, fc s = fcd d -> enabled s = true -> ridx s = d ->
                     idx s + height k <= ms ->
                     exists s', exec c (flat k) (s, hk) = (s', hk) /\ after s s' d (recs thr gd d k)) ks ->
    all_timed ks -> forall s hk d, fc s = fcd d -> enabled s = true -> ridx s = d ->
    idx s + heights ks <= ms ->
    exists s', exec c (flat_map flat ks) (s, hk) = (s', hk) /\ after s s' d (flat_map (recs thr gd d) ks).
  Proof.
    induction 1 as [|k r Hk _ IH]; intros HT s hk d Hfc Hen Hr Hh.
    - exists s. split; [reflexivity|]. apply after_nil; assumption.
    - destruct HT as [Tk Tr]. cbn [heights fold_right] in Hh. fold (heights r) in Hh.
      destruct (Hk Tk s hk d Hfc Hen Hr) as (s1 & E1 & A1); [lia|].
      pose proof (after_idx _ _ _ _ A1) as I1.
      destruct A1 as (F1 & En1 & C1 & R1 & S1 & O1).
      destruct (IH Tr s1 hk d F1 En1 R1) as (s2 & E2 & A2); [lia|].
      exists s2. split.
      + cbn [flat_map]. unfold exec in *. rewrite fold_left_app, E1. exact E2.
      + cbn [flat_map]. eapply after_trans; [|exact A2]. unfold after; auto 10.
  Qed.

  Lemma timed_kids a t0 t1 kids : timed (Call a t0 t1 kids) -> all_timed kids.
  Proof. cbn. intros (_ & _ & _ & H). induction kids; cbn in *; tauto. Qed.

  Lemma is_nil_app {A} (l1 l2 : list A) : is_nil (l1 ++ l2) = is_nil l1 && is_nil l2.
  Proof. destruct l1; reflexivity. Qed.

  Theorem run_call : forall k, timed k -> forall s hk d,
    fc s = fcd d -> enabled s = true -> ridx s = d -> idx s + height k <= ms ->
    exists s', exec c (flat k) (s, hk) = (s', hk) /\ after s s' d (recs thr gd d k).
  Proof.
    induction k as [a t0 t1 kids IH] using call_ind'. intros HT s hk d Hfc Hen Hr Hh.
    pose proof (run_kids kids IH (timed_kids _ _ _ _ HT)) as RK. clear IH. unfold c in *.
    destruct HT as (Ht01 & Ht1 & Hpos & _).
    cbn [height] in Hh. fold (heights kids) in Hh.
    cbn [flat]. unfold exec. cbn [fold_left dstep]. rewrite fold_left_app. cbn [fold_left].
    destruct (N.le_gt_cases gd d) as [Hout|Hin].
    - (* beyond the -D limit: nothing is recorded for the whole subtree *)
      rewrite recs_beyond by exact Hout.
      assert (Hsh : sh = PG \/ sh = CYG) by (destruct sh; auto). destruct Hsh as [Esh|Esh].
      + destruct (enter_out_pg thr gd ms sh s d a t0 Esh Hfc Hout) as [Een Hhk]; [lia|].
        rewrite Een, Hhk.
        destruct (RK {| fc := fc s; enabled := enabled s; cached := cached s; stack := stack s; ridx := ridx s;
                        out := out s; warned := false |} (false :: hk) d Hfc Hen Hr) as (s2 & E2 & A2).
        { unfold idx in *. cbn [stack]. lia. }
        unfold exec in E2. rewrite E2. cbn [dstep]. exists s2. split; [reflexivity|].
        rewrite recs_beyond_list in A2 by exact Hout.
        destruct A2 as (F2 & En2 & C2 & R2 & S2 & O2). cbn [is_nil stack out cached] in *.
        unfold after. cbn [is_nil]. auto 10.
      + destruct (enter_out_cyg thr gd ms sh s d a t0 Esh Hfc Hout) as [Een Hhk]; [lia|].
        rewrite Een, Hhk.
        destruct (RK {| fc := fc s; enabled := enabled s; cached := cached s;
                        stack := outframe a (ridx s) d :: stack s; ridx := ridx s;
                        out := out s; warned := false |} (true :: hk) d Hfc Hen Hr) as (s2 & E2 & A2).
        { unfold idx in *. cbn [stack length]. lia. }
        unfold exec in E2. rewrite E2. cbn [dstep].
        rewrite recs_beyond_list in A2 by exact Hout.
        destruct A2 as (F2 & En2 & C2 & R2 & S2 & O2). cbn [is_nil stack out cached app] in *.
        rewrite app_nil_r in O2.
        rewrite (leave_out thr gd ms sh s2 a (ridx s) d t1 (stack s) Esh S2).
        eexists. split; [reflexivity|].
        unfold after. cbn [fc enabled cached ridx stack out is_nil app].
        rewrite F2. cbn [fcd in_count out_count]. rewrite app_nil_r. auto 10.
    - (* within the limit: a frame is pushed *)
      assert (Hi : idx s < ms) by lia.
      rewrite (enter_in thr gd ms sh s d a t0 Hfc Hen Hin Hi).
      rewrite (hooked_in thr gd ms sh s d a Hfc Hin Hi).
      set (s1 := {| fc := fcd (d + 1); enabled := true; cached := cached s;
                    stack := newframe sh a t0 (ridx s) d :: stack s; ridx := ridx s + 1; out := out s;
                    warned := false |}).
      destruct (RK s1 (true :: hk) (d + 1)) as (s2 & E2 & A2); try reflexivity.
      { subst s1. cbn [ridx]. lia. }
      { subst s1. unfold idx in *. cbn [stack length]. lia. }
      unfold exec in E2. rewrite E2. cbn [dstep].
      destruct A2 as (F2 & En2 & C2 & R2 & S2 & O2).
      subst s1. cbn [stack out cached] in S2, O2, C2.
      set (Rk := flat_map (recs thr gd (d + 1)) kids) in *.
      change (newframe sh a t0 (ridx s) d) with (nf sh false a t0 (ridx s) d) in S2, O2.
      rewrite flush_anc_nf in S2, O2. cbn [fst snd] in S2, O2.
      assert (S2' : stack s2 = nf sh (negb (is_nil Rk)) a t0 (ridx s) d ::
                               (if is_nil Rk then stack s else fst (flush_anc (stack s)))).
      { rewrite S2. destruct (is_nil Rk); reflexivity. }
      rewrite (leave_in thr gd ms sh s2 (negb (is_nil Rk)) a t0 (ridx s) d t1 _ (d + 1) S2' F2 En2)
        by (try assumption; lia).
      cbn [recs]. assert (EL : (gd <=? d) = false) by (apply N.leb_gt; exact Hin). rewrite EL.
      fold Rk.
      destruct ((thr <=? t1 - t0) || negb (is_nil Rk)) eqn:Dec.
      + eexists. split; [reflexivity|].
        unfold after. cbn [fc enabled cached ridx stack out is_nil].
        repeat split; try assumption; try congruence.
        * destruct (is_nil Rk); reflexivity.
        * rewrite O2. unfold entry_rec. cbn [newframe f_start f_depth f_addr]. rewrite Hr.
          destruct (is_nil Rk) eqn:EN; cbn [negb].
          -- destruct Rk; [|discriminate]. cbn [app]. rewrite <- !app_assoc. cbn [app]. reflexivity.
          -- cbn [app]. rewrite <- !app_assoc. cbn [app]. reflexivity.
      + eexists. split; [reflexivity|].
        apply orb_false_iff in Dec. destruct Dec as [_ Dn]. apply negb_false_iff in Dn.
        unfold after. cbn [fc enabled cached ridx stack out is_nil].
        rewrite Dn in *. destruct Rk; [|discriminate]. cbn [app] in O2. rewrite app_nil_r in *.
        repeat split; try assumption; congruence.
  Qed.
End plain_run.

(* ---------------------------------------------------------------- whole runs from the initial state *)
Lemma flat_map_recs_history thr gd : forall k d, d + height k <= gd -> thr = 0 ->
  recs thr gd d k = history d k.
Proof.
  induction k as [a t0 t1 kids IH] using call_ind'. intros d Hh ->.
  cbn [recs history]. cbn [height] in Hh. fold (heights kids) in Hh.
  assert (E : (gd <=? d) = false) by (apply N.leb_gt; lia). rewrite E.
  assert (E2 : (0 <=? t1 - t0) = true) by (apply N.leb_le; lia). rewrite E2. cbn [orb].
  f_equal. f_equal.
  revert Hh. induction IH as [|k r Hk' _ IHr]; intros Hh; cbn [flat_map]; [reflexivity|].
  cbn [heights fold_right] in Hh. fold (heights r) in Hh.
  rewrite Hk' by (try assumption; try reflexivity; lia). rewrite IHr by (try assumption; lia). reflexivity.
Qed.

Theorem run_forest thr gd ms sh : forall f, all_timed f -> heights f <= ms ->
  out (fst (exec (plain thr gd ms sh) (flat_forest f) (init, []))) = flat_map (recs thr gd 0) f.
Proof.
  intros f HT Hh.
  destruct (run_kids thr gd ms sh f) with (s := init) (hk := @nil bool) (d := 0) as (s' & E & A); try reflexivity.
  - clear. induction f as [|k r IH]; constructor; [|exact IH].
    intros Tk s hk d. apply run_call. exact Tk.
  - exact HT.
  - cbn. lia.
  - unfold flat_forest. rewrite E. cbn [fst].
    destruct A as (_ & _ & _ & _ & _ & O). rewrite O. cbn [init out stack flush_anc snd app].
    destruct (is_nil _); reflexivity.
Qed.

Theorem history_recorded gd ms sh : forall f, all_timed f ->
  heights f <= ms -> heights f <= gd ->
  out (fst (exec (plain 0 gd ms sh) (flat_forest f) (init, []))) = flat_map (history 0) f.
Proof.
  intros f HT Hm Hg. rewrite run_forest by assumption.
  induction f as [|k r IH]; [reflexivity|]. cbn [flat_map].
  destruct HT as [Tk Tr]. cbn [heights fold_right] in Hm, Hg. fold (heights r) in Hm, Hg.
  rewrite flat_map_recs_history by (try assumption; try reflexivity; lia).
  rewrite IH by (try assumption; lia). reflexivity.
Qed.

(* ---------------------------------------------------------------- well-nestedness of the specification *)
(* a stream is well nested from depth d when it parses as a forest whose ENTRY/EXIT pairs carry the
   nesting depth; [history]/[recs] produce such streams by construction: we state it as a balanced
   scan (depth counter returns to d and never goes below it, and every record's depth field is the
   counter value). *)
Fixpoint scan (d : N) (l : list rec) : option N :=
  match l with
  | [] => Some d
  | r :: t => match r_type r with
              | ENTRY => if r_depth r =? d then scan (d + 1) t else None
              | EXIT => if (0 <? d) && (r_depth r =? d - 1) then scan (d - 1) t else None
              end
  end.

Lemma scan_app d l1 l2 d' : scan d l1 = Some d' -> scan d l1 = Some d' -> scan d (l1 ++ l2) = scan d' l2.
Proof.
  revert d. induction l1 as [|r t IH]; intros d H _; cbn in *.
  - inversion H. reflexivity.
  - destruct (r_type r).
    + destruct (r_depth r =? d); [|discriminate]. apply IH; assumption.
    + destruct ((0 <? d) && (r_depth r =? d - 1)); [|discriminate]. apply IH; assumption.
Qed.

Lemma scan_recs thr gd : forall k d, scan d (recs thr gd d k) = Some d.
Proof.
  induction k as [a t0 t1 kids IH] using call_ind'. intro d. cbn [recs].
  destruct (gd <=? d); [reflexivity|].
  assert (K : forall d', scan d' (flat_map (recs thr gd d') kids) = Some d').
  { intro d'. induction IH as [|k r Hk _ IHr]; [reflexivity|]. cbn [flat_map].
    rewrite (scan_app d' _ _ d') by apply Hk. exact IHr. }
  destruct ((thr <=? t1 - t0) || negb (is_nil (flat_map (recs thr gd (d + 1)) kids))); [|reflexivity].
  cbn [scan r_type r_depth]. rewrite N.eqb_refl.
  rewrite (scan_app (d + 1) _ _ (d + 1)) by apply K.
  cbn [scan r_type r_depth].
  assert (E : (0 <? d + 1) = true) by (apply N.ltb_lt; lia). rewrite E.
  replace (d + 1 - 1) with d by lia. rewrite N.eqb_refl. reflexivity.
Qed.

Theorem recorded_stream_nested thr gd ms sh : forall f, all_timed f -> heights f <= ms ->
  scan 0 (out (fst (exec (plain thr gd ms sh) (flat_forest f) (init, [])))) = Some 0.
Proof.
  intros f HT Hh. rewrite run_forest by assumption.
  induction f as [|k r IH]; [reflexivity|]. cbn [flat_map].
  destruct HT as [Tk Tr]. cbn [heights fold_right] in Hh. fold (heights r) in Hh.
  rewrite (scan_app 0 _ _ 0) by apply scan_recs. apply IH; [assumption|lia].
Qed.
