(* Model of the record-time hook automaton of libmcount (libmcount/mcount.c, libmcount/record.c):

     mcount_check_rstack, mcount_save_filter, mcount_entry_filter_check,
     mcount_entry_filter_record, mcount_exit_filter_record, filter_restore_from_rstack,
     __mcount_entry/__mcount_exit (-pg / fentry / PLT shape: a frame is pushed only on FILTER_IN),
     __cygprof_entry/__cygprof_exit (-finstrument-functions shape: always pushed),
     record_trace_data / record_ret_stack (lazy ENTRY flush, MCOUNT_FL_WRITTEN),
     atfork_child_handler (inherited frames marked WRITTEN).

   It models the code AS IT IS.  Not modelled here (separate models): argument capture (C09),
   events (C17), the `finish` and `recover` triggers, estimate-return.
   Shared by C02, C05, C17.                                                                    *)
From Coq Require Import NArith ZArith List Bool.
Import ListNotations.
Require Import UV.Gen.Consts.
Local Open Scope N_scope.

(* ---------------------------------------------------------------- configuration *)
Record trig := {
  t_filter : option bool;          (* TRIGGER_FL_FILTER: Some true = FILTER_MODE_IN, Some false = OUT *)
  t_depth : option N;              (* TRIGGER_FL_DEPTH *)
  t_time : option N;               (* TRIGGER_FL_TIME_FILTER *)
  t_size : option N;               (* TRIGGER_FL_SIZE_FILTER *)
  t_trace_on : bool; t_trace_off : bool;
  t_trace : bool;                  (* TRIGGER_FL_TRACE *)
  t_caller : bool;                 (* TRIGGER_FL_CALLER *)
  t_loc : option bool;             (* TRIGGER_FL_LOC (-L): Some true = lmode IN, Some false = lmode OUT (@hide) *)
  t_finish : bool                  (* TRIGGER_FL_FINISH *)
}.
Definition notrig : trig :=
  {| t_filter := None; t_depth := None; t_time := None; t_size := None;
     t_trace_on := false; t_trace_off := false; t_trace := false; t_caller := false; t_loc := None;
     t_finish := false |}.

Inductive shape := PG | CYG.

Record cfg := {
  trig_of : N -> trig;             (* uftrace_match_filter on the trigger tree, by function number *)
  fmode_in : bool;                 (* mcount_triggers->filter_count > 0 *)
  has_caller : bool;               (* mcount_triggers->caller_count > 0 *)
  gdepth : N;                      (* mcount_depth (-D) *)
  threshold : N;                   (* mcount_threshold (-t) *)
  max_stack : N;                   (* mcount_rstack_max *)
  sym_size : N -> N;               (* mcount_getsize *)
  shp : shape;
  lmode_in : bool                  (* mcount_triggers->loc_count > 0: some -L names a location to show *)
}.

Definition NO_TIME : N := 18446744073709551615.   (* FILTER_NO_TIME *)

(* ---------------------------------------------------------------- state *)
Record fctl := { in_count : Z; out_count : Z; depth : N; max_depth : N; ftime : N; fsize : N }.

Record flags := { norecord : bool; notrace : bool; filtered : bool; written : bool;
                  disabled : bool; ftrace : bool; fcaller : bool; cygprof : bool }.
Definition noflags := {| norecord := false; notrace := false; filtered := false; written := false;
                         disabled := false; ftrace := false; fcaller := false; cygprof := false |}.

Record frame := {
  f_addr : N; f_start : N; f_end : N; f_flags : flags;
  f_depth : N;                                  (* rstack->depth = record_idx at entry *)
  sv_depth : N; sv_max : N; sv_time : N; sv_size : N;   (* filter_save_to_rstack *)
  f_ghost : bool                                (* cygprof frame beyond rstack max: only idx counts *)
}.

Inductive rtype := ENTRY | EXIT.
Record rec := { r_time : N; r_type : rtype; r_depth : N; r_addr : N }.

Record st := {
  fc : fctl;
  enabled : bool;                 (* mcount_enabled *)
  cached : bool;                  (* mtdp->enable_cached *)
  stack : list frame;             (* top first; idx = length *)
  ridx : N;                       (* record_idx *)
  out : list rec;                 (* records appended to the shm buffer, oldest first *)
  warned : bool
}.

Definition fc0 : fctl := {| in_count := 0; out_count := 0; depth := 0; max_depth := FILTER_NO_MAX_DEPTH;
                            ftime := NO_TIME; fsize := 0 |}.
Definition init : st := {| fc := fc0; enabled := true; cached := true; stack := []; ridx := 0; out := [];
                           warned := false |}.

(* record -Z N (UFTRACE_MIN_SIZE): every thread starts with the size filter N (mcount_prepare: filter.size = mcount_min_size) *)
Definition init_z (z : N) : st :=
  {| fc := {| in_count := 0; out_count := 0; depth := 0; max_depth := FILTER_NO_MAX_DEPTH; ftime := NO_TIME; fsize := z |};
     enabled := true; cached := true; stack := []; ridx := 0; out := []; warned := false |}.

(* record --disable / --trace=off (UFTRACE_TRACE_OFF): tracing starts switched off (mcount_enabled = false before the first
   thread is prepared, so enable_cached = false as well) until a trace_on trigger *)
Definition init_off : st := {| fc := fc0; enabled := false; cached := false; stack := []; ridx := 0; out := [];
                               warned := false |}.

Inductive ev := Enter (a : N) (t : N) | Leave (t : N) | ForkChild.

(* ---------------------------------------------------------------- record_trace_data *)
Definition skip (f : frame) : bool := norecord (f_flags f) || disabled (f_flags f).
Definition set_written (f : frame) : frame :=
  let g := f_flags f in
  {| f_addr := f_addr f; f_start := f_start f; f_end := f_end f;
     f_flags := {| norecord := norecord g; notrace := notrace g; filtered := filtered g; written := true;
                   disabled := disabled g; ftrace := ftrace g; fcaller := fcaller g; cygprof := cygprof g |};
     f_depth := f_depth f; sv_depth := sv_depth f; sv_max := sv_max f; sv_time := sv_time f;
     sv_size := sv_size f; f_ghost := f_ghost f |}.
Definition entry_rec (f : frame) : rec :=
  {| r_time := f_start f; r_type := ENTRY; r_depth := f_depth f; r_addr := f_addr f |}.
Definition exit_rec (f : frame) : rec :=
  {| r_time := f_end f; r_type := EXIT; r_depth := f_depth f; r_addr := f_addr f |}.

(* ancestors below the frame (nearest first): walk down while the frame is not WRITTEN; every
   non-skipped one gets its ENTRY emitted (oldest first) and is marked WRITTEN.
   Returns (new ancestors, emitted records oldest first). *)
Fixpoint flush_anc (anc : list frame) : list frame * list rec :=
  match anc with
  | [] => ([], [])
  | p :: rest =>
      if written (f_flags p) then (anc, [])
      else let '(rest', recs) := flush_anc rest in
           if skip p then (p :: rest', recs)
           else (set_written p :: rest', recs ++ [entry_rec p])
  end.

(* record_trace_data(mtdp, top frame, retval=NULL) *)
Definition record_trace_data (top : frame) (anc : list frame) : frame * list frame * list rec :=
  let '(anc', pre) := if written (f_flags top) then (anc, []) else flush_anc anc in
  let '(top', own) := if written (f_flags top) || skip top then (top, [])
                      else (set_written top, [entry_rec top]) in
  let ex := if f_end top' =? 0 then [] else [exit_rec top'] in
  (top', anc', pre ++ own ++ ex).

(* ---------------------------------------------------------------- entry *)
Inductive verdict := V_IN | V_OUT | V_RSTACK.

Definition idx (s : st) : N := N.of_nat (length (stack s)).

(* mcount_check_rstack *)
Definition check_rstack (c : cfg) (s : st) : st * bool :=
  if max_stack c <=? idx s then
    if warned s then (s, true)
    else
      (* flush rstack[max-1]: the frame at position max-1 from the bottom *)
      let n := length (stack s) in
      let k := (n - N.to_nat (max_stack c))%nat in        (* frames above it *)
      let above := firstn k (stack s) in
      match skipn k (stack s) with
      | [] => ({| fc := fc s; enabled := enabled s; cached := cached s; stack := stack s; ridx := ridx s;
                  out := out s; warned := true |}, true)
      | top :: anc =>
          let '(top', anc', recs) := record_trace_data top anc in
          ({| fc := fc s; enabled := enabled s; cached := cached s; stack := above ++ top' :: anc';
              ridx := ridx s; out := out s ++ recs; warned := true |}, true)
      end
  else ({| fc := fc s; enabled := enabled s; cached := cached s; stack := stack s; ridx := ridx s;
           out := out s; warned := false |}, false).

Definition with_fc (s : st) (f : fctl) (en : bool) : st :=
  {| fc := f; enabled := en; cached := cached s; stack := stack s; ridx := ridx s; out := out s;
     warned := warned s |}.

(* mcount_entry_filter_check.  Returns the new state, the verdict, the trigger as seen (notrig when
   the function returned before the lookup) and the values saved by mcount_save_filter. *)
Definition saved4 := (N * N * N * N)%type.
Definition loc_out (c : cfg) (tr : trig) : bool :=
  match t_loc tr with Some b => negb b | None => lmode_in c end.
Definition entry_check (c : cfg) (s0 : st) (a : N) : st * verdict * trig * saved4 :=
  let f0 := fc s0 in
  let sv0 : saved4 := (depth f0, max_depth f0, ftime f0, fsize f0) in
  let max0 := if max_depth f0 =? FILTER_NO_MAX_DEPTH then gdepth c else max_depth f0 in
  let '(s, over) := check_rstack c s0 in
  if over then (s, V_RSTACK, notrig, sv0) else
  let f := fc s in
  let sv : saved4 := (depth f, max_depth f, ftime f, fsize f) in
  if (out_count f >? 0)%Z then (s, V_OUT, notrig, sv) else
  let tr := trig_of c a in
  let f1 := match t_filter tr with
            | Some true  => {| in_count := in_count f + 1; out_count := out_count f; depth := 0;
                               max_depth := max_depth f; ftime := ftime f; fsize := fsize f |}
            | Some false => {| in_count := in_count f; out_count := out_count f + 1; depth := 0;
                               max_depth := max_depth f; ftime := ftime f; fsize := fsize f |}
            | None => f
            end in
  if (match t_filter tr with None => fmode_in c && (in_count f =? 0)%Z | _ => false end)
  then (with_fc s f1 (enabled s), V_OUT, tr, sv) else
  (* location filter (-L): a function at a hidden location, or outside every shown one, is rejected here -
     after the filter counts were changed, before the other trigger actions are looked at *)
  if loc_out c tr then (with_fc s f1 (enabled s), V_OUT, tr, sv) else
  let f2 := match t_depth tr with
            | Some d => {| in_count := in_count f1; out_count := out_count f1; depth := 0; max_depth := d;
                           ftime := ftime f1; fsize := fsize f1 |}
            | None => f1 end in
  let mx := match t_depth tr with Some d => d | None => max0 end in
  let en := if t_trace_off tr then false else if t_trace_on tr then true else enabled s in
  let f3 := {| in_count := in_count f2; out_count := out_count f2; depth := depth f2; max_depth := max_depth f2;
               ftime := match t_time tr with Some t => t | None => ftime f2 end;
               fsize := match t_size tr with Some z => z | None => fsize f2 end |} in
  if mx <=? depth f3 then (with_fc s f3 en, V_OUT, tr, sv)
  else (with_fc s {| in_count := in_count f3; out_count := out_count f3; depth := depth f3 + 1;
                     max_depth := max_depth f3; ftime := ftime f3; fsize := fsize f3 |} en, V_IN, tr, sv).

(* mcount_entry_filter_record on a freshly pushed frame (given without the filter flags yet) *)
Definition entry_record (c : cfg) (s : st) (fr : frame) (tr : trig) (sv : saved4) : st :=
  let f := fc s in
  let g := f_flags fr in
  let nr := norecord g || (out_count f >? 0)%Z || ((in_count f =? 0)%Z && fmode_in c)
            || ((0 <? fsize f) && (sym_size c (f_addr fr) <? fsize f)) in
  let '(d, m, t, z) := sv in
  let g1 := {| norecord := nr;
               notrace := match t_filter tr with Some false => true | _ => false end;
               filtered := match t_filter tr with Some true => true | _ => false end;
               written := false; disabled := false;
               ftrace := t_trace tr; fcaller := t_caller tr; cygprof := cygprof g |} in
  let mk g' := {| f_addr := f_addr fr; f_start := f_start fr; f_end := 0; f_flags := g';
                  f_depth := f_depth fr; sv_depth := d; sv_max := m; sv_time := t; sv_size := z;
                  f_ghost := false |} in
  if nr then
    {| fc := f; enabled := enabled s; cached := cached s; stack := mk g1 :: stack s; ridx := ridx s;
       out := out s; warned := warned s |}
  else
    let sw := t_trace_on tr || t_trace_off tr in
    if enabled s then
      {| fc := f; enabled := true; cached := if sw then true else cached s;
         stack := mk g1 :: stack s; ridx := ridx s + 1; out := out s; warned := warned s |}
    else
      let g2 := {| norecord := false; notrace := notrace g1; filtered := filtered g1; written := false;
                   disabled := true; ftrace := ftrace g1; fcaller := fcaller g1; cygprof := cygprof g1 |} in
      (* flush existing rstack when tracing has just been switched off *)
      let '(top', anc', recs) := if cached s then record_trace_data (mk g2) (stack s)
                                 else (mk g2, stack s, []) in
      {| fc := f; enabled := false; cached := if sw then false else cached s;
         stack := top' :: anc'; ridx := ridx s + 1; out := out s ++ recs; warned := warned s |}.

Definition ghost_frame : frame :=
  {| f_addr := 0; f_start := 0; f_end := 0; f_flags := noflags; f_depth := 0;
     sv_depth := 0; sv_max := 0; sv_time := 0; sv_size := 0; f_ghost := true |}.

(* TRIGGER_FL_FILTER | DEPTH | TIME_FILTER | SIZE_FILTER | FINISH (REJECTED_ENTRY_FLAGS): the trigger changes the per-thread
   filter state, or is the finish trigger which mcount_entry_filter_record carries out: a rejected function with such a
   trigger keeps a shadow-stack entry on the -pg shape as well *)
Definition state_trig (tr : trig) : bool :=
  match t_filter tr, t_depth tr, t_time tr, t_size tr with
  | None, None, None, None => t_finish tr
  | _, _, _, _ => true
  end.

Definition do_enter (c : cfg) (s0 : st) (a t : N) : st :=
  let '(s, v, tr, sv) := entry_check c s0 a in
  match shp c, v with
  | PG, V_IN =>
      entry_record c s {| f_addr := a; f_start := t; f_end := 0; f_flags := noflags; f_depth := ridx s;
                          sv_depth := 0; sv_max := 0; sv_time := 0; sv_size := 0; f_ghost := false |} tr sv
  | PG, V_OUT =>
      (* rejected: a function whose trigger changed the filter state keeps a NORECORD frame like the always-push
         shape (the state holds for its callees, its exit restores it); otherwise mcount_entry returns -1 *)
      if state_trig tr then
        entry_record c s {| f_addr := a; f_start := 0; f_end := 0;
                            f_flags := {| norecord := true; notrace := false; filtered := false; written := false;
                                          disabled := false; ftrace := false; fcaller := false; cygprof := false |};
                            f_depth := ridx s;
                            sv_depth := 0; sv_max := 0; sv_time := 0; sv_size := 0; f_ghost := false |} tr sv
      else s
  | PG, _ => s                                   (* beyond the stack limit: nothing was changed *)
  | CYG, V_RSTACK =>
      {| fc := fc s; enabled := enabled s; cached := cached s; stack := ghost_frame :: stack s;
         ridx := ridx s; out := out s; warned := warned s |}
  | CYG, V_IN =>
      entry_record c s {| f_addr := a; f_start := t; f_end := 0;
                          f_flags := {| norecord := false; notrace := false; filtered := false; written := false;
                                        disabled := false; ftrace := false; fcaller := false; cygprof := true |};
                          f_depth := ridx s;
                          sv_depth := 0; sv_max := 0; sv_time := 0; sv_size := 0; f_ghost := false |} tr sv
  | CYG, V_OUT =>
      entry_record c s {| f_addr := a; f_start := 0; f_end := 0;
                          f_flags := {| norecord := true; notrace := false; filtered := false; written := false;
                                        disabled := false; ftrace := false; fcaller := false; cygprof := true |};
                          f_depth := ridx s;
                          sv_depth := 0; sv_max := 0; sv_time := 0; sv_size := 0; f_ghost := false |} tr sv
  end.

(* the code as found: a rejected -pg entry got no frame and kept what its trigger had changed *)
Definition do_enter_legacy (c : cfg) (s0 : st) (a t : N) : st :=
  let '(s, v, tr, sv) := entry_check c s0 a in
  match shp c, v with
  | PG, V_IN => do_enter c s0 a t
  | PG, _ => s
  | CYG, _ => do_enter c s0 a t
  end.

(* ---------------------------------------------------------------- exit *)
Definition set_end (f : frame) (t : N) : frame :=
  {| f_addr := f_addr f; f_start := f_start f; f_end := t; f_flags := f_flags f; f_depth := f_depth f;
     sv_depth := sv_depth f; sv_max := sv_max f; sv_time := sv_time f; sv_size := sv_size f; f_ghost := f_ghost f |}.

(* mcount_exit_filter_record followed by idx-- *)
Definition exit_record (c : cfg) (s : st) (top : frame) (anc : list frame) : st :=
  let f := fc s in
  let g := f_flags top in
  let time_filter := if ftime f =? NO_TIME then threshold c else ftime f in
  let f1 := {| in_count := if filtered g then (in_count f - 1)%Z else in_count f;
               out_count := if filtered g then out_count f
                            else if notrace g then (out_count f - 1)%Z else out_count f;
               depth := sv_depth top; max_depth := sv_max top; ftime := sv_time top; fsize := sv_size top |} in
  if norecord g then
    {| fc := f1; enabled := enabled s; cached := cached s; stack := anc; ridx := ridx s; out := out s;
       warned := warned s |}
  else
    let ridx' := if 0 <? ridx s then ridx s - 1 else 0 in
    if negb (enabled s) then
      {| fc := f1; enabled := enabled s; cached := cached s; stack := anc; ridx := ridx'; out := out s;
         warned := warned s |}
    else
      let dur := (f_end top + 18446744073709551616 - f_start top) mod 18446744073709551616 in
      if ((time_filter <? dur) && (negb (has_caller c) || fcaller g)) || written g || ftrace g then
        let '(_, anc', recs) := record_trace_data top anc in
        {| fc := f1; enabled := enabled s; cached := cached s; stack := anc'; ridx := ridx'; out := out s ++ recs;
           warned := warned s |}
      else
        {| fc := f1; enabled := enabled s; cached := cached s; stack := anc; ridx := ridx'; out := out s;
           warned := warned s |}.

Definition do_leave (c : cfg) (s : st) (t : N) : st :=
  match stack s with
  | [] => s                                       (* no open hooked call: the driver never does this *)
  | top :: anc =>
      if f_ghost top then
        {| fc := fc s; enabled := enabled s; cached := cached s; stack := anc; ridx := ridx s; out := out s;
           warned := warned s |}
      else
        match shp c with
        | PG => exit_record c s (set_end top t) anc
        | CYG => exit_record c s (if norecord (f_flags top) then top else set_end top t) anc
        end
  end.

(* the pthread_exit() wrapper (libmcount/wrap.c): the thread never returns through its open calls; every one of them
   that has a shadow-stack entry is handed to mcount_exit_filter_record with its end time still 0, newest first - the
   pending ENTRY records are written, no EXIT - and dropped; a call beyond --max-stack only counted *)
Fixpoint thread_exit_go (c : cfg) (fuel : nat) (s : st) : st :=
  match fuel with
  | O => s
  | S n =>
      match stack s with
      | [] => s
      | top :: anc =>
          thread_exit_go c n
            (if f_ghost top
             then {| fc := fc s; enabled := enabled s; cached := cached s; stack := anc; ridx := ridx s; out := out s;
                     warned := warned s |}
             else exit_record c s top anc)
      end
  end.
Definition do_thread_exit (c : cfg) (s : st) : st := thread_exit_go c (length (stack s)) s.

Definition do_fork_child (s : st) : st :=
  {| fc := fc s; enabled := enabled s; cached := cached s; stack := map set_written (stack s); ridx := ridx s;
     out := []; warned := warned s |}.          (* new buffers for the new tid: the stream starts empty *)

Definition step (c : cfg) (s : st) (e : ev) : st :=
  match e with
  | Enter a t => do_enter c s a t
  | Leave t => do_leave c s t
  | ForkChild => do_fork_child s
  end.
Definition run (c : cfg) (es : list ev) (s : st) : st := fold_left (step c) es s.

(* what the -pg stub needs to know: was the entry hooked (mcount_entry returned 0)? *)
Definition hooked (c : cfg) (s : st) (a : N) : bool :=
  match shp c with
  | CYG => true
  | PG => match entry_check c s a with
          | (_, V_IN, _, _) => true
          | (_, V_OUT, tr, _) => state_trig tr
          | _ => false
          end
  end.

(* ---------------------------------------------------------------- on-disk word (record_ret_stack) *)
Definition type_code (t : rtype) : N := match t with ENTRY => UFTRACE_ENTRY | EXIT => UFTRACE_EXIT end.
(* rec = type | RECORD_MAGIC << 3; rec += more ? 4 : 0; rec += depth << 6; rec += addr << 16   (uint64) *)
Definition pack_word (ty more dep addr : N) : N :=
  (ty + RECORD_MAGIC * 8 + (if more =? 0 then 0 else 4) + dep * 64 + addr * 65536) mod 18446744073709551616.
(* readers: the bit-field layout of struct uftrace_record (Gen.Consts REC_*_SHIFT/WIDTH) *)
Definition field (w shift width : N) : N := (w / 2 ^ shift) mod 2 ^ width.
Definition w_type w := field w REC_TYPE_SHIFT REC_TYPE_WIDTH.
Definition w_more w := field w REC_MORE_SHIFT REC_MORE_WIDTH.
Definition w_magic w := field w REC_MAGIC_SHIFT REC_MAGIC_WIDTH.
Definition w_depth w := field w REC_DEPTH_SHIFT REC_DEPTH_WIDTH.
Definition w_addr w := field w REC_ADDR_SHIFT REC_ADDR_WIDTH.

(* what a reader sees of a record written by record_ret_stack *)
Definition seen (r : rec) : N * N * N * N * N :=
  let w := pack_word (type_code (r_type r)) 0 (r_depth r) (r_addr r) in
  (r_time r, w_type w, w_magic w, w_depth w, w_addr w).

(* record_ret_stack drops a call whose depth does not fit the depth field of the record (possible with
   --max-stack > 1024): what reaches the buffer are the storable records, each as the readers see it *)
Definition storable (r : rec) : bool := r_depth r <? 2 ^ REC_DEPTH_WIDTH.
Definition disk (l : list rec) : list (N * N * N * N * N) := map seen (filter storable l).
(* the record a reader must see for an abstract record (no wrap: the true depth and address) *)
Definition ideal (r : rec) : N * N * N * N * N := (r_time r, type_code (r_type r), RECORD_MAGIC, r_depth r, r_addr r).

(* ---------------------------------------------------------------- the instrumented program as driver
   The compiler-inserted stub calls the exit hook only for calls whose entry hook returned 0
   (-pg / fentry / PLT); __cyg_profile_func_exit is always called. *)
Definition dstate := (st * list bool)%type.
Definition dstep (c : cfg) (d : dstate) (e : ev) : dstate :=
  let '(s, hk) := d in
  match e with
  | Enter a t => (do_enter c s a t, hooked c s a :: hk)
  | Leave t => match hk with
               | h :: r => (if h then do_leave c s t else s, r)
               | [] => (s, [])
               end
  | ForkChild => (do_fork_child s, hk)
  end.
Definition exec (c : cfg) (es : list ev) (d : dstate) : dstate := fold_left (dstep c) es d.

(* ---------------------------------------------------------------- the finish trigger
   mcount_entry_filter_record: `if (tr->flags & TRIGGER_FL_FINISH) { record_trace_data(mtdp, rstack, NULL);
   mcount_finish_trigger(); return; }` - carried out for every function that gets a shadow-stack entry (accepted, or
   rejected with a frame kept), recorded or not, whatever the trace switch says; the thread is then dead
   (mcount_unguard_recursion -> mtd_dtor: return addresses restored, buffers finished), nothing else is recorded. *)
Definition finish_fires (c : cfg) (s0 : st) (a : N) : bool :=
  let '(_, v, tr, _) := entry_check c s0 a in
  match v with V_RSTACK => false | _ => t_finish tr && hooked c s0 a end.

(* the entry that finishes: the frame as mcount_entry_filter_record has flagged it so far (no DISABLED mark yet, the
   record index not advanced) is handed to record_trace_data: pending ENTRY records of the ancestors, then its own *)
Definition finish_enter (c : cfg) (s0 : st) (a t : N) : st :=
  let '(s, v, tr, sv) := entry_check c s0 a in
  let cyg := match shp c with CYG => true | PG => false end in
  let rej := match v with V_IN => false | _ => true end in
  let fr := {| f_addr := a; f_start := if rej then 0 else t; f_end := 0;
               f_flags := {| norecord := rej; notrace := false; filtered := false; written := false;
                             disabled := false; ftrace := false; fcaller := false; cygprof := cyg |};
               f_depth := ridx s; sv_depth := 0; sv_max := 0; sv_time := 0; sv_size := 0; f_ghost := false |} in
  (* entry_record with the trace switch taken as on pushes exactly the frame flagged so far *)
  let s1 := entry_record c (with_fc s (fc s) true) fr tr sv in
  match stack s1 with
  | [] => s1
  | top :: anc =>
      let '(top', anc', recs) := record_trace_data top anc in
      {| fc := fc s1; enabled := enabled s; cached := cached s; stack := top' :: anc'; ridx := ridx s;
         out := out s ++ recs; warned := warned s |}
  end.

Definition fstate := (st * list bool * bool)%type.        (* + this thread has finished *)
Definition fstep (c : cfg) (d : fstate) (e : ev) : fstate :=
  let '(s, hk, dead) := d in
  if dead then d
  else match e with
       | Enter a t => if finish_fires c s a then (finish_enter c s a t, hk, true)
                      else let '(s', hk') := dstep c (s, hk) e in (s', hk', false)
       | _ => let '(s', hk') := dstep c (s, hk) e in (s', hk', false)
       end.
Definition exec_f (c : cfg) (es : list ev) (d : fstate) : fstate := fold_left (fstep c) es d.

Definition hooked_legacy (c : cfg) (s : st) (a : N) : bool :=
  match shp c with
  | CYG => true
  | PG => match entry_check c s a with (_, V_IN, _, _) => true | _ => false end
  end.
Definition dstep_legacy (c : cfg) (d : dstate) (e : ev) : dstate :=
  let '(s, hk) := d in
  match e with
  | Enter a t => (do_enter_legacy c s a t, hooked_legacy c s a :: hk)
  | _ => dstep c d e
  end.
Definition exec_legacy (c : cfg) (es : list ev) (d : dstate) : dstate := fold_left (dstep_legacy c) es d.

(* observation after each event, as mc_harness prints it (STATE) *)
Definition obs := (Z * Z * N * N * N * N * N * N * bool)%type.
Definition obs_of (s : st) : obs :=
  (in_count (fc s), out_count (fc s), depth (fc s), max_depth (fc s), ftime (fc s), fsize (fc s),
   idx s, ridx s, enabled s).
Fixpoint trace (c : cfg) (es : list ev) (d : dstate) : list obs * dstate :=
  match es with
  | [] => ([], d)
  | e :: r => let d' := dstep c d e in
              let '(l, dl) := trace c r d' in (obs_of (fst d') :: l, dl)
  end.

(* comparison helpers for the correspondence check *)
Definition obs_eqb (a b : obs) : bool :=
  let '(a1, a2, a3, a4, a5, a6, a7, a8, a9) := a in
  let '(b1, b2, b3, b4, b5, b6, b7, b8, b9) := b in
  (a1 =? b1)%Z && (a2 =? b2)%Z && (a3 =? b3) && (a4 =? b4) && (a5 =? b5) && (a6 =? b6) && (a7 =? b7) && (a8 =? b8)
  && Bool.eqb a9 b9.
Definition seen5 := (N * N * N * N * N)%type.
Definition seen_eqb (a b : seen5) : bool :=
  let '(a1, a2, a3, a4, a5) := a in let '(b1, b2, b3, b4, b5) := b in
  (a1 =? b1) && (a2 =? b2) && (a3 =? b3) && (a4 =? b4) && (a5 =? b5).
Fixpoint list_eqb {A} (eq : A -> A -> bool) (l1 l2 : list A) : bool :=
  match l1, l2 with
  | [], [] => true
  | x :: r1, y :: r2 => eq x y && list_eqb eq r1 r2
  | _, _ => false
  end.
Fixpoint bad_indices {A} (f : A -> bool) (l : list A) (i : nat) : list nat :=
  match l with
  | [] => []
  | x :: r => if f x then bad_indices f r (S i) else i :: bad_indices f r (S i)
  end.

(* table-driven configuration (what the generator writes) *)
Fixpoint assoc {A} (d : A) (l : list (N * A)) (k : N) : A :=
  match l with [] => d | (k', v) :: r => if k =? k' then v else assoc d r k end.
Definition mkcfg (tr : list (N * trig)) (fm cl : bool) (gd thr ms : N) (sizes : list (N * N)) (sh : shape) : cfg :=
  {| trig_of := assoc notrig tr; fmode_in := fm; has_caller := cl; gdepth := gd; threshold := thr;
     max_stack := ms; sym_size := assoc 0 sizes; shp := sh; lmode_in := false |}.
(* the same with location filters: [lm] = some -L option names a location to show *)
Definition mkcfgL (tr : list (N * trig)) (fm cl lm : bool) (gd thr ms : N) (sizes : list (N * N)) (sh : shape) : cfg :=
  {| trig_of := assoc notrig tr; fmode_in := fm; has_caller := cl; gdepth := gd; threshold := thr;
     max_stack := ms; sym_size := assoc 0 sizes; shp := sh; lmode_in := lm |}.

(* one correspondence case: model run vs. observed states and records *)
Definition agree_case (c : cfg) (es : list ev) (ostates : list obs) (orecs : list seen5) : bool :=
  let '(l, (s, _)) := trace c es (init, []) in
  list_eqb obs_eqb l ostates && list_eqb seen_eqb (disk (out s)) orecs.
Definition agree_case_off (c : cfg) (es : list ev) (ostates : list obs) (orecs : list seen5) : bool :=
  let '(l, (s, _)) := trace c es (init_off, []) in
  list_eqb obs_eqb l ostates && list_eqb seen_eqb (disk (out s)) orecs.
Definition agree_case_z (z : N) (c : cfg) (es : list ev) (ostates : list obs) (orecs : list seen5) : bool :=
  let '(l, (s, _)) := trace c es (init_z z, []) in
  list_eqb obs_eqb l ostates && list_eqb seen_eqb (disk (out s)) orecs.
