(* C05 stage 2: the record-time automaton implements [sel2] (SelectSpec2.v): -F / -N / -C / -D / -t together with
   depth= / time= / size= / trace trigger actions, both instrumentation shapes, no further hypothesis. *)
From Coq Require Import NArith ZArith List Bool Lia.
Require Import ZifyBool.
Import ListNotations.
Require Import UV.Gen.Consts UV.Mcount.Model UV.Mcount.Forest UV.Mcount.PlainStep UV.Mcount.PlainProofs
  UV.Mcount.SelectSpec UV.Mcount.Select UV.Mcount.SelectSpec2.
Local Open Scope N_scope.

Definition fstate2 (i o : Z) (dp mx tm zs : N) : fctl :=
  {| in_count := i; out_count := o; depth := dp; max_depth := mx; ftime := tm; fsize := zs |}.

Definition gfl3 (sh : shape) (nr flt ntr tr cl : bool) : flags :=
  {| norecord := nr; notrace := ntr; filtered := flt; written := false; disabled := false;
     ftrace := tr; fcaller := cl; cygprof := match sh with CYG => true | PG => false end |}.
Definition gframe3 (sh : shape) (nr flt ntr tr cl : bool) (a t r : N) (f : fctl) : frame :=
  {| f_addr := a; f_start := t; f_end := 0; f_flags := gfl3 sh nr flt ntr tr cl; f_depth := r;
     sv_depth := depth f; sv_max := max_depth f; sv_time := ftime f; sv_size := fsize f; f_ghost := false |}.
Definition gf3 (sh : shape) (w flt tr cl : bool) (a t r : N) (f0 : fctl) : frame :=
  if w then set_written (gframe3 sh false flt false tr cl a t r f0) else gframe3 sh false flt false tr cl a t r f0.
Lemma flush_anc_gf3 sh flt tr cl a t r f0 stk :
  flush_anc (gf3 sh false flt tr cl a t r f0 :: stk) =
  (gf3 sh true flt tr cl a t r f0 :: fst (flush_anc stk),
   snd (flush_anc stk) ++ [entry_rec (gframe3 sh false flt false tr cl a t r f0)]).
Proof.
  cbn [gf3 flush_anc gframe3 f_flags gfl3 written]. destruct (flush_anc stk) as [rest' recs].
  unfold skip. cbn [f_flags gfl3 norecord disabled orb fst snd]. reflexivity.
Qed.

(* a frame that is never recorded, whatever its other flags *)
Definition nrframe (fr : frame) (f0 : fctl) : Prop :=
  f_ghost fr = false /\ norecord (f_flags fr) = true /\ written (f_flags fr) = false /\
  sv_depth fr = depth f0 /\ sv_max fr = max_depth f0 /\ sv_time fr = ftime f0 /\ sv_size fr = fsize f0.
Lemma nrframe_gframe3 sh fl ntr tr cl a t r f0 : nrframe (gframe3 sh true fl ntr tr cl a t r f0) f0.
Proof. unfold nrframe. cbn. repeat split; reflexivity. Qed.

Definition hitF (g : strig) : bool := match sf g with Some true => true | _ => false end.
Definition hitN (g : strig) : bool := match sf g with Some false => true | _ => false end.

Section filt2.
  Variable tg : N -> strig.
  Variable szf : N -> N.
  Variables (fm hc lm : bool) (gd thr ms : N) (sh : shape).
  Let c := fcfg2 tg szf fm hc lm gd thr ms sh.

  Ltac open_entry Hi :=
    unfold do_enter, hooked, entry_check;
    rewrite (check_rstack_ok c _ Hi); cbn [fc enabled cached stack ridx out warned];
    unfold c; cbn [fcfg2 trig_of ftrig2 t_filter t_depth t_time t_size t_trace_on t_trace_off t_trace t_caller
                   fmode_in gdepth shp has_caller threshold sym_size loc_out t_loc lmode_in].

  (* an entry whose trigger is looked at: not inside notrace, and inside the opt-in scope or a filter itself *)
  Lemma enter_reach s i dp mx tm zs a t :
    fc s = fstate2 i 0 dp mx tm zs -> enabled s = true -> idx s < ms -> (0 <= i)%Z ->
    (sf (tg a) <> None \/ fm = false \/ (0 < i)%Z) -> loc_hidden lm (tg a) = false ->
    let g := tg a in
    let i' := if hitF g then (i + 1)%Z else i in
    let o' := if hitN g then 1%Z else 0%Z in
    let dp0 := if is_some (sf g) || is_some (sd g) then 0 else dp in
    let mx' := match sd g with Some n => n | None => mx end in
    let tm' := match stm g with Some t => t | None => tm end in
    let zs' := match ssz g with Some z => z | None => zs end in
    let small := (0 <? zs') && (szf a <? zs') in
    let mxe := match sd g with Some n => n | None => if mx =? FILTER_NO_MAX_DEPTH then gd else mx end in
    if mxe <=? dp0 then
      (* rejected by the depth limit: the always-push shape keeps a NORECORD frame, -pg does so if the trigger
         changed the filter state (otherwise nothing happened at all) *)
      if (match sh with CYG => true | PG => is_some (sf g) || is_some (sd g) || is_some (stm g) || is_some (ssz g) end)
      then do_enter c s a t =
           {| fc := fstate2 i' o' dp0 mx' tm' zs'; enabled := true; cached := cached s;
              stack := gframe3 sh true (hitF g) (hitN g) (str g) (sc g) a 0 (ridx s) (fstate2 i 0 dp mx tm zs) :: stack s;
              ridx := ridx s; out := out s; warned := false |} /\ hooked c s a = true
      else do_enter c s a t =
           {| fc := fstate2 i 0 dp mx tm zs; enabled := true; cached := cached s; stack := stack s;
              ridx := ridx s; out := out s; warned := false |} /\ hooked c s a = false
    else
      do_enter c s a t =
      {| fc := fstate2 i' o' (dp0 + 1) mx' tm' zs'; enabled := true; cached := cached s;
         stack := gframe3 sh (hitN g || small) (hitF g) (hitN g) (str g) (sc g) a t (ridx s) (fstate2 i 0 dp mx tm zs) :: stack s;
         ridx := (if hitN g || small then ridx s else ridx s + 1); out := out s; warned := false |} /\ hooked c s a = true.
  Proof.
    intros Hfc Hen Hi Hi0 Hreach Hloc. cbv zeta. unfold hitF, hitN, loc_hidden in *.
    open_entry Hi. rewrite Hfc, Hen.
    cbn [fstate2 in_count out_count depth max_depth ftime fsize Z.gtb Z.compare].
    destruct (tg a) as [f dd tt zz ttr tcl tlo]. cbn [sf sd stm ssz str sc sl] in *.
    unfold loc_out. cbn [t_loc ftrig2 sl lmode_in fcfg2]. rewrite Hloc.
    assert (E0 : match f with Some _ => false | None => fm && (i =? 0)%Z end = false).
    { destruct f; [reflexivity|]. destruct Hreach as [H|[H|H]]; [congruence|subst fm; reflexivity|].
      destruct fm; [|reflexivity]. cbn [andb]. lia. }
    rewrite E0. clear E0.
    assert (E1 : forall b : bool, ((i + 1 =? 0)%Z && b) = false) by (intro b; destruct b; lia).
    assert (E2 : match f with Some _ => true | None => negb ((i =? 0)%Z && fm) end = true).
    { destruct f; [reflexivity|]. destruct Hreach as [H|[H|H]]; [congruence|subst fm; rewrite andb_false_r; reflexivity|].
      destruct fm; [|rewrite andb_false_r; reflexivity]. rewrite andb_true_r. lia. }
    destruct f as [[|]|], dd as [n|], tt as [t'|], zz as [z'|];
      cbn [is_some orb fstate2 in_count out_count depth max_depth ftime fsize with_fc fc enabled cached stack ridx out warned negb] in *;
      try (apply negb_true_iff in E2);
      match goal with |- if ?b then _ else _ => destruct b eqn:E end;
      destruct sh; unfold entry_record, with_fc;
      cbn [fc enabled cached stack ridx out warned in_count out_count fsize f_flags norecord f_addr f_start f_depth
           t_filter t_trace t_caller t_trace_on t_trace_off orb andb noflags cygprof Z.gtb Z.compare N.ltb N.compare
           fmode_in sym_size ftrig2 sf sd stm ssz str sc sl fcfg2 Z.add Pos.add fstate2 gframe3 gfl3 state_trig is_some];
      rewrite ?E1, ?E2, ?orb_false_r; try (split; reflexivity);
      match goal with |- context [(0 <? ?z) && (szf a <? ?z)] => destruct ((0 <? z) && (szf a <? z)) end;
      cbn [orb andb]; rewrite ?E1, ?E2, ?orb_false_r; cbn [orb andb]; try (split; reflexivity).
  Qed.

  (* an entry whose trigger is not looked at: inside notrace, or outside every opt-in filter function.  The filter
     state does not change; the always-push shape keeps a NORECORD frame, and so does -pg for a function outside the
     opt-in scope whose trigger has a depth= / time= / size= action (nothing was applied, the frame is inert) *)
  Lemma enter_skip s i o dp mx tm zs a t :
    fc s = fstate2 i o dp mx tm zs -> enabled s = true -> idx s < ms -> (0 <= o)%Z ->
    ((0 < o)%Z \/ (sf (tg a) = None /\ fm = true /\ i = 0%Z)) ->
    if (match sh with
        | CYG => true
        | PG => negb (o >? 0)%Z && (is_some (sd (tg a)) || is_some (stm (tg a)) || is_some (ssz (tg a)))
        end)
    then exists fr, nrframe fr (fstate2 i o dp mx tm zs) /\
                    filtered (f_flags fr) = false /\ notrace (f_flags fr) = false /\
         do_enter c s a t =
         {| fc := fc s; enabled := enabled s; cached := cached s; stack := fr :: stack s;
            ridx := ridx s; out := out s; warned := false |} /\ hooked c s a = true
    else do_enter c s a t =
         {| fc := fc s; enabled := enabled s; cached := cached s; stack := stack s; ridx := ridx s;
            out := out s; warned := false |} /\ hooked c s a = false.
  Proof.
    intros Hfc Hen Hi Ho Hk.
    open_entry Hi. rewrite Hfc.
    cbn [fstate2 in_count out_count depth max_depth ftime fsize].
    destruct (o >? 0)%Z eqn:Eo.
    - cbn [negb andb]. destruct sh.
      + cbn [state_trig notrig t_filter t_depth t_time t_size]. split; reflexivity.
      + eexists. split; [|split; [|split; [|split; [|reflexivity]]]].
        4:{ unfold entry_record.
            cbn [fc enabled cached stack ridx out warned in_count out_count fsize f_flags norecord f_addr f_start f_depth
                 t_filter t_trace t_caller notrig orb]. reflexivity. }
        all: cbn; repeat split; reflexivity.
    - destruct Hk as [Hk|(Hf & -> & ->)]; [lia|]. rewrite Hf.
      cbn [andb Z.eqb negb]. unfold with_fc.
      destruct (tg a) as [f dd tt zz ttr tcl tlo]. cbn [sf sd stm ssz str sc sl] in *. subst f.
      destruct sh.
      + unfold state_trig. cbn [ftrig2 t_filter t_depth t_time t_size sf sd stm ssz].
        destruct dd as [n|], tt as [t'|], zz as [z'|]; cbn [is_some orb];
          try (split; reflexivity);
          (eexists; split; [|split; [|split; [|split; [|reflexivity]]]];
           [| | |unfold entry_record;
                 cbn [fc enabled cached stack ridx out warned in_count out_count fsize f_flags norecord f_addr
                      f_start f_depth t_filter t_trace t_caller ftrig2 sf str sc orb]; reflexivity];
           cbn; repeat split; reflexivity).
      + eexists. split; [|split; [|split; [|split; [|reflexivity]]]].
        4:{ unfold entry_record.
            cbn [fc enabled cached stack ridx out warned in_count out_count fsize f_flags norecord f_addr f_start f_depth
                 t_filter t_trace t_caller ftrig2 sf orb]. reflexivity. }
        all: cbn; repeat split; reflexivity.
  Qed.

  (* an entry whose trigger is looked at but which lies at a hidden source location (-L): rejected after the filter
     counts were changed and before any other trigger action; a NORECORD frame is kept by the always-push shape,
     and by -pg if the trigger carries a state-changing action *)
  Lemma enter_loc s i dp mx tm zs a t :
    fc s = fstate2 i 0 dp mx tm zs -> enabled s = true -> idx s < ms -> (0 <= i)%Z ->
    (sf (tg a) <> None \/ fm = false \/ (0 < i)%Z) -> loc_hidden lm (tg a) = true ->
    let g := tg a in
    let i' := if hitF g then (i + 1)%Z else i in
    let o' := if hitN g then 1%Z else 0%Z in
    let dp0 := if is_some (sf g) then 0 else dp in
    if (match sh with CYG => true | PG => is_some (sf g) || is_some (sd g) || is_some (stm g) || is_some (ssz g) end)
    then do_enter c s a t =
         {| fc := fstate2 i' o' dp0 mx tm zs; enabled := true; cached := cached s;
            stack := gframe3 sh true (hitF g) (hitN g) (str g) (sc g) a 0 (ridx s) (fstate2 i 0 dp mx tm zs) :: stack s;
            ridx := ridx s; out := out s; warned := false |} /\ hooked c s a = true
    else do_enter c s a t =
         {| fc := fstate2 i 0 dp mx tm zs; enabled := true; cached := cached s; stack := stack s;
            ridx := ridx s; out := out s; warned := false |} /\ hooked c s a = false.
  Proof.
    intros Hfc Hen Hi Hi0 Hreach Hloc. cbv zeta. unfold hitF, hitN, loc_hidden in *.
    open_entry Hi. rewrite Hfc, Hen.
    cbn [fstate2 in_count out_count depth max_depth ftime fsize Z.gtb Z.compare].
    destruct (tg a) as [f dd tt zz ttr tcl tlo]. cbn [sf sd stm ssz str sc sl] in *.
    unfold loc_out. cbn [t_loc ftrig2 sl lmode_in fcfg2]. rewrite Hloc.
    assert (E0 : match f with Some _ => false | None => fm && (i =? 0)%Z end = false).
    { destruct f; [reflexivity|]. destruct Hreach as [H|[H|H]]; [congruence|subst fm; reflexivity|].
      destruct fm; [|reflexivity]. cbn [andb]. lia. }
    rewrite E0. clear E0.
    destruct f as [[|]|], dd as [n|], tt as [t'|], zz as [z'|];
      cbn [is_some orb fstate2 in_count out_count depth max_depth ftime fsize with_fc fc enabled cached stack ridx out warned negb] in *;
      destruct sh; unfold entry_record, with_fc;
      cbn [fc enabled cached stack ridx out warned in_count out_count fsize f_flags norecord f_addr f_start f_depth
           t_filter t_trace t_caller t_trace_on t_trace_off orb andb noflags cygprof Z.gtb Z.compare N.ltb N.compare
           fmode_in sym_size ftrig2 sf sd stm ssz str sc sl fcfg2 Z.add Pos.add fstate2 gframe3 gfl3 state_trig is_some
           t_depth t_time t_size];
      split; reflexivity.
  Qed.

  (* exit of a frame that may be recorded *)
  Lemma leave_rec2 s w fl tr cl a t0 r i0 o0 dp0 mx0 tm0 zs0 t1 anc i o dp mx tm zs :
    stack s = gf3 sh w fl tr cl a t0 r (fstate2 i0 o0 dp0 mx0 tm0 zs0) :: anc -> fc s = fstate2 i o dp mx tm zs ->
    enabled s = true -> ridx s = r + 1 -> t0 <= t1 -> t1 < 18446744073709551616 -> 0 < t1 ->
    do_leave c s t1 =
    if (((if tm =? NO_TIME then thr else tm) <=? t1 - t0) && (negb hc || cl)) || w || tr then
      {| fc := fstate2 (if fl then i - 1 else i)%Z o dp0 mx0 tm0 zs0; enabled := true; cached := cached s;
         stack := if w then anc else fst (flush_anc anc); ridx := r;
         out := out s ++ (if w then [] else snd (flush_anc anc) ++ [E_ a t0 r]) ++ [X_ a t1 r];
         warned := warned s |}
    else
      {| fc := fstate2 (if fl then i - 1 else i)%Z o dp0 mx0 tm0 zs0; enabled := true; cached := cached s;
         stack := anc; ridx := r; out := out s; warned := warned s |}.
  Proof.
    intros Hst Hfc Hen Hr Ht Hlt Hpos. unfold do_leave. rewrite Hst.
    set (fr := gf3 sh w fl tr cl a t0 r (fstate2 i0 o0 dp0 mx0 tm0 zs0)).
    assert (Hg : f_ghost fr = false) by (subst fr; destruct w; reflexivity). rewrite Hg.
    assert (Hnr : norecord (f_flags fr) = false) by (subst fr; destruct w; reflexivity).
    assert (Hsame : match shp c with
                    | PG => exit_record c s (set_end fr t1) anc
                    | CYG => exit_record c s (if norecord (f_flags fr) then fr else set_end fr t1) anc
                    end = exit_record c s (set_end fr t1) anc).
    { rewrite Hnr. destruct (shp c); reflexivity. }
    rewrite Hsame. clear Hsame.
    unfold exit_record. rewrite Hfc, Hen, Hr.
    cbn [fstate2 ftime in_count out_count].
    assert (Hdur : (f_end (set_end fr t1) + 18446744073709551616 - f_start (set_end fr t1))
                   mod 18446744073709551616 = t1 - t0).
    { assert (f_end (set_end fr t1) = t1) as -> by reflexivity.
      assert (f_start (set_end fr t1) = t0) as -> by (subst fr; destruct w; reflexivity).
      replace (t1 + 18446744073709551616 - t0) with ((t1 - t0) + 1 * 18446744073709551616) by lia.
      rewrite N.mod_add by lia. apply N.mod_small. lia. }
    rewrite Hdur.
    assert (Hfl : f_flags (set_end fr t1) = f_flags fr) by reflexivity. rewrite Hfl, Hnr.
    assert (Hfi : filtered (f_flags fr) = fl) by (subst fr; destruct w; reflexivity).
    assert (Hnt : notrace (f_flags fr) = false) by (subst fr; destruct w; reflexivity).
    assert (Hft : ftrace (f_flags fr) = tr) by (subst fr; destruct w; reflexivity).
    assert (Hcl : fcaller (f_flags fr) = cl) by (subst fr; destruct w; reflexivity).
    assert (Hw : written (f_flags fr) = w) by (subst fr; destruct w; reflexivity).
    rewrite Hfi, Hnt, Hft, Hcl, Hw.
    assert (Hsv : sv_depth (set_end fr t1) = dp0 /\ sv_max (set_end fr t1) = mx0
                  /\ sv_time (set_end fr t1) = tm0 /\ sv_size (set_end fr t1) = zs0)
      by (subst fr; destruct w; repeat split; reflexivity).
    destruct Hsv as (-> & -> & -> & ->).
    assert (Hr1 : (0 <? r + 1) = true) by (clear - r; lia). rewrite Hr1.
    replace (r + 1 - 1) with r by (clear - r; lia).
    unfold c. cbn [fcfg2 has_caller threshold negb].
    assert (Hfc' : {| in_count := if fl then (i - 1)%Z else i; out_count := if fl then o else o;
                      depth := dp0; max_depth := mx0; ftime := tm0; fsize := zs0 |}
                   = fstate2 (if fl then (i - 1)%Z else i) o dp0 mx0 tm0 zs0) by (destruct fl; reflexivity).
    rewrite Hfc'.
    destruct ((((if tm =? NO_TIME then thr else tm) <=? t1 - t0) && (negb hc || cl)) || w || tr) eqn:Dec; [|reflexivity].
    unfold record_trace_data. rewrite Hfl, Hw.
    assert (Hend : (f_end (set_end fr t1) =? 0) = false) by (clear -Hpos; cbn [set_end f_end]; lia).
    destruct w.
    - cbn [orb]. rewrite Hend. cbn [app]. unfold exit_rec, X_. subst fr.
      cbn [set_end gf3 set_written gframe3 f_end f_depth f_addr]. reflexivity.
    - unfold skip. rewrite Hfl. subst fr. cbn [gf3 gframe3 f_flags gfl3 norecord disabled orb].
      destruct (flush_anc anc) as [anc' pre] eqn:EF. cbn [fst snd].
      assert (Hend' : (f_end (set_written (set_end (gframe3 sh false fl false tr cl a t0 r (fstate2 i0 o0 dp0 mx0 tm0 zs0)) t1)) =? 0) = false)
        by (clear -Hpos; cbn [set_written set_end f_end]; lia).
      cbn [gf3] in *. rewrite Hend'.
      unfold exit_rec, entry_rec, E_, X_. cbn [set_written set_end gframe3 f_end f_depth f_addr f_start].
      rewrite <- !app_assoc. reflexivity.
  Qed.

  (* exit of a frame that is never recorded (notrace function, or a rejected call under cygprof) *)
  Lemma leave_norec2 s fr f0 t1 anc i o dp mx tm zs :
    stack s = fr :: anc -> nrframe fr f0 -> fc s = fstate2 i o dp mx tm zs ->
    do_leave c s t1 =
    {| fc := fstate2 (if filtered (f_flags fr) then i - 1 else i)%Z
                     (if filtered (f_flags fr) then o else if notrace (f_flags fr) then o - 1 else o)%Z
                     (depth f0) (max_depth f0) (ftime f0) (fsize f0);
       enabled := enabled s; cached := cached s; stack := anc; ridx := ridx s; out := out s; warned := warned s |}.
  Proof.
    intros Hst (Hg & Hn & _ & H1 & H2 & H3 & H4) Hfc. unfold do_leave. rewrite Hst, Hg.
    assert (Hsame : forall fr', f_flags fr' = f_flags fr ->
                    sv_depth fr' = depth f0 -> sv_max fr' = max_depth f0 -> sv_time fr' = ftime f0 -> sv_size fr' = fsize f0 ->
                    exit_record c s fr' anc =
                    {| fc := fstate2 (if filtered (f_flags fr) then i - 1 else i)%Z
                                     (if filtered (f_flags fr) then o else if notrace (f_flags fr) then o - 1 else o)%Z
                                     (depth f0) (max_depth f0) (ftime f0) (fsize f0);
                       enabled := enabled s; cached := cached s; stack := anc; ridx := ridx s; out := out s;
                       warned := warned s |}).
    { intros fr' Hf G1 G2 G3 G4. unfold exit_record. rewrite Hf, Hn, Hfc, G1, G2, G3, G4.
      cbn [fstate2 in_count out_count]. reflexivity. }
    destruct (shp c); [apply Hsame; cbn [set_end f_flags sv_depth sv_max sv_time sv_size]; congruence|].
    rewrite Hn. apply Hsame; congruence.
  Qed.

  (* ---------------------------------------------------------------- the refinement *)
  Lemma norec_on_top fr stk (R : list rec) s2 s1 d :
    written (f_flags fr) = false -> skip fr = true ->
    stack s1 = fr :: stk -> afterg s1 s2 d R ->
    stack s2 = fr :: (if is_nil R then stk else fst (flush_anc stk)) /\
    out s2 = out s1 ++ (if is_nil R then [] else snd (flush_anc stk)) ++ R.
  Proof.
    intros W Sk St (_ & _ & _ & _ & S2 & O2). rewrite St in S2, O2.
    destruct (is_nil R); [split; assumption|].
    cbn [flush_anc] in S2, O2. rewrite W in S2, O2. destruct (flush_anc stk) as [r' rc'].
    rewrite Sk in S2, O2. cbn [fst snd] in *. split; assumption.
  Qed.

  Definition Rel2 (i o : Z) (dp mx tm zs : N) (x : sctx2) : Prop :=
    (0 <= i)%Z /\ (0 <= o)%Z /\ (dead2 x = true <-> (0 < o)%Z) /\
    (dead2 x = false ->
       (scope2 x = true <-> (fm = false \/ (0 < i)%Z)) /\
       lim2 x = (if mx =? FILTER_NO_MAX_DEPTH then gd else mx) /\
       budget2 x = lim2 x - dp /\ dp <= lim2 x /\ 0 < lim2 x /\
       cthr2 x = (if tm =? NO_TIME then thr else tm) /\ csz2 x = zs).

  Lemma sel2_dead x d k : dead2 x = true -> sel2 tg szf hc lm x d k = [].
  Proof. intro H. destruct k. cbn [sel2]. rewrite H. reflexivity. Qed.
  Lemma sel2_dead_list x d ks : dead2 x = true -> flat_map (sel2 tg szf hc lm x d) ks = [].
  Proof. intro H. induction ks as [|k r IH]; cbn [flat_map]; [reflexivity|]. rewrite sel2_dead, IH; auto. Qed.

  Hypothesis Hgd : 0 < gd.
  Hypothesis WF : wf_tg tg.

  Definition stmt2 (k : call) : Prop :=
    timed k -> forall s hk i o dp mx tm zs x d,
    fc s = fstate2 i o dp mx tm zs -> Rel2 i o dp mx tm zs x -> enabled s = true -> ridx s = d ->
    idx s + height k <= ms ->
    exists s', exec c (flat k) (s, hk) = (s', hk) /\ afterg s s' d (sel2 tg szf hc lm x d k).

  Lemma run_kids_sel2 (ks : list call) : Forall stmt2 ks ->
    all_timed ks -> forall s hk i o dp mx tm zs x d,
    fc s = fstate2 i o dp mx tm zs -> Rel2 i o dp mx tm zs x -> enabled s = true -> ridx s = d ->
    idx s + heights ks <= ms ->
    exists s', exec c (flat_map flat ks) (s, hk) = (s', hk) /\ afterg s s' d (flat_map (sel2 tg szf hc lm x d) ks).
  Proof.
    induction 1 as [|k r Hk _ IH]; intros HT s hk i o dp mx tm zs x d Hfc HR Hen Hr Hh.
    - exists s. split; [reflexivity|]. apply afterg_nil; assumption.
    - destruct HT as [Tk Tr]. cbn [heights fold_right] in Hh. fold (heights r) in Hh.
      destruct (Hk Tk s hk i o dp mx tm zs x d Hfc HR Hen Hr) as (s1 & E1 & A1); [lia|].
      pose proof (afterg_idx _ _ _ _ A1) as I1.
      assert (A1' := A1). destruct A1' as (F1 & En1 & _ & R1 & _ & _).
      destruct (IH Tr s1 hk i o dp mx tm zs x d) as (s2 & E2 & A2); try assumption; [congruence|lia|].
      exists s2. split.
      + cbn [flat_map]. unfold exec in *. rewrite fold_left_app, E1. exact E2.
      + cbn [flat_map]. eapply afterg_trans; eassumption.
  Qed.

  Lemma skip_gframe nr fl ntr a t r f0 sh' : nr = true -> skip (gframe sh' nr fl ntr a t r f0) = true.
  Proof. intros ->. reflexivity. Qed.

  Theorem run_call_sel2 : forall k, stmt2 k.
  Proof.
    induction k as [a t0 t1 kids IH] using call_ind'. intros HT s hk i o dp mx tm zs x d Hfc HR Hen Hr Hh.
    pose proof (run_kids_sel2 kids IH (timed_kids _ _ _ _ HT)) as RK. clear IH.
    destruct HT as (Ht01 & Ht1 & Hpos & _).
    cbn [height] in Hh. fold (heights kids) in Hh.
    assert (Hi : idx s < ms) by lia.
    assert (HRel := HR). destruct HR as (Hi0 & Ho0 & Hdead & Hlive).
    cbn [flat]. unfold exec. cbn [fold_left dstep]. rewrite fold_left_app. cbn [fold_left].
    assert (Hsh : sh = PG \/ sh = CYG) by (destruct sh; auto).
    (* the trigger of this call is not looked at: the callees run in the same context *)
    assert (SKIPG : forall b : bool,
                   (if b
                    then exists fr, nrframe fr (fstate2 i o dp mx tm zs) /\
                                    filtered (f_flags fr) = false /\ notrace (f_flags fr) = false /\
                         do_enter c s a t0 =
                         {| fc := fc s; enabled := enabled s; cached := cached s; stack := fr :: stack s;
                            ridx := ridx s; out := out s; warned := false |} /\ hooked c s a = true
                    else do_enter c s a t0 =
                         {| fc := fc s; enabled := enabled s; cached := cached s; stack := stack s; ridx := ridx s;
                            out := out s; warned := false |} /\ hooked c s a = false) ->
                   exists s', dstep c (fold_left (dstep c) (flat_map flat kids)
                                         (do_enter c s a t0, hooked c s a :: hk)) (Leave t1) = (s', hk)
                              /\ afterg s s' d (flat_map (sel2 tg szf hc lm x d) kids)).
    { intros b ER. destruct b.
      2:{ destruct ER as [Een Hhk]; rewrite Een, Hhk.
        set (s1 := {| fc := fc s; enabled := enabled s; cached := cached s; stack := stack s; ridx := ridx s;
                      out := out s; warned := false |}).
        assert (Hix : idx s1 + heights kids <= ms) by (unfold idx in *; cbn [stack s1]; lia).
        destruct (RK s1 (false :: hk) i o dp mx tm zs x d Hfc HRel Hen Hr Hix) as (s2 & E2 & A2).
        unfold exec in E2. rewrite E2. cbn [dstep]. exists s2. split; [reflexivity|].
        destruct A2 as (F2 & En2 & C2 & R2 & S2 & O2). cbn [stack out cached fc s1] in *.
        unfold afterg. auto 10. }
      - destruct ER as (fr & NR & Ffl & Fnt & Een & Hhk). rewrite Een, Hhk.
        set (s1 := {| fc := fc s; enabled := enabled s; cached := cached s; stack := fr :: stack s;
                      ridx := ridx s; out := out s; warned := false |}).
        assert (Hix : idx s1 + heights kids <= ms) by (unfold idx in *; cbn [stack s1 length]; lia).
        destruct (RK s1 (true :: hk) i o dp mx tm zs x d Hfc HRel Hen Hr Hix) as (s2 & E2 & A2).
        unfold exec in E2. rewrite E2. cbn [dstep].
        assert (Wfr : written (f_flags fr) = false) by apply NR.
        assert (Skfr : skip fr = true) by (unfold skip; destruct NR as (_ & -> & _); reflexivity).
        destruct (norec_on_top fr (stack s) _ s2 s1 d Wfr Skfr eq_refl A2) as [S2 O2].
        destruct A2 as (F2 & En2 & C2 & R2 & _ & _). cbn [stack out cached fc s1] in *.
        assert (F2' : fc s2 = fstate2 i o dp mx tm zs) by congruence.
        rewrite (leave_norec2 s2 fr (fstate2 i o dp mx tm zs) t1 _ i o dp mx tm zs S2 NR F2').
        rewrite Ffl, Fnt. cbn [fstate2 depth max_depth ftime fsize].
        eexists. split; [reflexivity|].
        unfold afterg. cbn [fc enabled cached ridx stack out]. rewrite Hfc.
        repeat split; try assumption; congruence. }
    assert (SKIP : ((0 < o)%Z \/ (sf (tg a) = None /\ fm = true /\ i = 0%Z)) ->
                   exists s', dstep c (fold_left (dstep c) (flat_map flat kids)
                                         (do_enter c s a t0, hooked c s a :: hk)) (Leave t1) = (s', hk)
                              /\ afterg s s' d (flat_map (sel2 tg szf hc lm x d) kids))
      by (intro Hrej; exact (SKIPG _ (enter_skip s i o dp mx tm zs a t0 Hfc Hen Hi Ho0 Hrej))).
    (* an accepted entry that may be recorded *)
    assert (ACC : forall (fl tr cl : bool) (i' : Z) (dpn mx' tm' zs' : N) (x' : sctx2),
              do_enter c s a t0 =
              {| fc := fstate2 i' 0 dpn mx' tm' zs'; enabled := true; cached := cached s;
                 stack := gframe3 sh false fl false tr cl a t0 (ridx s) (fstate2 i o dp mx tm zs) :: stack s;
                 ridx := ridx s + 1; out := out s; warned := false |} ->
              hooked c s a = true -> Rel2 i' 0 dpn mx' tm' zs' x' -> i' = (if fl then i + 1 else i)%Z -> o = 0%Z ->
              exists s', dstep c (fold_left (dstep c) (flat_map flat kids)
                                    (do_enter c s a t0, hooked c s a :: hk)) (Leave t1) = (s', hk)
                         /\ afterg s s' d
                              (let ks := flat_map (sel2 tg szf hc lm x' (d + 1)) kids in
                               if (((if tm' =? NO_TIME then thr else tm') <=? t1 - t0) && (negb hc || cl)) || tr || negb (is_nil ks)
                               then E_ a t0 d :: ks ++ [X_ a t1 d] else [])).
    { intros fl tr cl i' dpn mx' tm' zs' x' Een Hhk HR' Hi' Hoz. subst o. rewrite Een, Hhk.
      set (s1 := {| fc := fstate2 i' 0 dpn mx' tm' zs'; enabled := true; cached := cached s;
                    stack := gframe3 sh false fl false tr cl a t0 (ridx s) (fstate2 i 0 dp mx tm zs) :: stack s;
                    ridx := ridx s + 1; out := out s; warned := false |}).
      destruct (RK s1 (true :: hk) i' 0%Z dpn mx' tm' zs' x' (d + 1)) as (s2 & E2 & A2); try reflexivity; try assumption.
      { subst s1. cbn [ridx]. lia. }
      { subst s1. unfold idx in *. cbn [stack length]. lia. }
      unfold exec in E2. rewrite E2. cbn [dstep].
      destruct A2 as (F2 & En2 & C2 & R2 & S2 & O2). subst s1. cbn [stack out cached fc] in *.
      set (Rk := flat_map (sel2 tg szf hc lm x' (d + 1)) kids) in *.
      change (gframe3 sh false fl false tr cl a t0 (ridx s) (fstate2 i 0 dp mx tm zs))
        with (gf3 sh false fl tr cl a t0 (ridx s) (fstate2 i 0 dp mx tm zs)) in S2, O2.
      rewrite flush_anc_gf3 in S2, O2. cbn [fst snd] in S2, O2.
      assert (S2' : stack s2 = gf3 sh (negb (is_nil Rk)) fl tr cl a t0 (ridx s) (fstate2 i 0 dp mx tm zs) ::
                               (if is_nil Rk then stack s else fst (flush_anc (stack s)))).
      { rewrite S2. destruct (is_nil Rk); reflexivity. }
      rewrite (leave_rec2 s2 (negb (is_nil Rk)) fl tr cl a t0 (ridx s) i 0%Z dp mx tm zs t1 _ i' 0%Z dpn mx' tm' zs' S2' F2 En2)
        by (try assumption; lia).
      cbv zeta.
      assert (Hi'' : (if fl then (i' - 1)%Z else i') = i) by (destruct fl; lia).
      rewrite Hi''.
      assert (Hcomm : forall A W T : bool, (A || W || T) = (A || T || W)) by (intros [] [] []; reflexivity).
      rewrite Hcomm.
      destruct ((((if tm' =? NO_TIME then thr else tm') <=? t1 - t0) && (negb hc || cl)) || tr || negb (is_nil Rk)) eqn:Dec.
      { eexists. split; [reflexivity|].
        unfold afterg. cbn [fc enabled cached ridx stack out is_nil]. rewrite Hfc.
        repeat split; try assumption; try congruence.
        - destruct (is_nil Rk); reflexivity.
        - rewrite O2, Hr. unfold entry_rec, E_. cbn [gframe3 f_start f_depth f_addr].
          destruct (is_nil Rk) eqn:EN; cbn [negb].
          + destruct Rk; [|discriminate]. cbn [app]. rewrite <- !app_assoc. cbn [app]. reflexivity.
          + cbn [app]. rewrite <- !app_assoc. cbn [app]. reflexivity. }
      { eexists. split; [reflexivity|].
        apply orb_false_iff in Dec. destruct Dec as [_ Dn]. apply negb_false_iff in Dn.
        unfold afterg. cbn [fc enabled cached ridx stack out is_nil]. rewrite Hfc.
        rewrite Dn in *. destruct Rk; [|discriminate]. cbn [app] in O2. rewrite app_nil_r in *.
        repeat split; try assumption; congruence. } }
    (* an accepted entry whose frame is never recorded (smaller than the size filter in force) *)
    assert (ACCN : forall (ts : N) (fl tr cl : bool) (i' : Z) (dpn mx' tm' zs' : N) (x' : sctx2),
              do_enter c s a t0 =
              {| fc := fstate2 i' 0 dpn mx' tm' zs'; enabled := true; cached := cached s;
                 stack := gframe3 sh true fl false tr cl a ts (ridx s) (fstate2 i o dp mx tm zs) :: stack s;
                 ridx := ridx s; out := out s; warned := false |} ->
              hooked c s a = true -> Rel2 i' 0 dpn mx' tm' zs' x' -> i' = (if fl then i + 1 else i)%Z -> o = 0%Z ->
              exists s', dstep c (fold_left (dstep c) (flat_map flat kids)
                                    (do_enter c s a t0, hooked c s a :: hk)) (Leave t1) = (s', hk)
                         /\ afterg s s' d (flat_map (sel2 tg szf hc lm x' d) kids)).
    { intros ts fl tr cl i' dpn mx' tm' zs' x' Een Hhk HR' Hi' Hoz. subst o. rewrite Een, Hhk.
      set (fr := gframe3 sh true fl false tr cl a ts (ridx s) (fstate2 i 0 dp mx tm zs)).
      set (s1 := {| fc := fstate2 i' 0 dpn mx' tm' zs'; enabled := true; cached := cached s;
                    stack := fr :: stack s; ridx := ridx s; out := out s; warned := false |}).
      destruct (RK s1 (true :: hk) i' 0%Z dpn mx' tm' zs' x' d) as (s2 & E2 & A2); try reflexivity; try assumption.
      { subst s1. unfold idx in *. cbn [stack length]. lia. }
      unfold exec in E2. rewrite E2. cbn [dstep].
      destruct (norec_on_top fr (stack s) _ s2 s1 d eq_refl eq_refl eq_refl A2) as [S2 O2].
      destruct A2 as (F2 & En2 & C2 & R2 & _ & _). cbn [stack out cached fc s1] in *.
      rewrite (leave_norec2 s2 fr (fstate2 i 0 dp mx tm zs) t1 _ i' 0%Z dpn mx' tm' zs' S2 (nrframe_gframe3 _ _ _ _ _ _ _ _ _) F2).
      cbn [fr gframe3 f_flags gfl3 filtered notrace fstate2 depth max_depth ftime fsize].
      assert (Hi'' : (if fl then (i' - 1)%Z else i') = i) by (destruct fl; lia).
      rewrite Hi''. assert (Ho' : (if fl then 0%Z else 0%Z) = 0%Z) by (destruct fl; reflexivity). rewrite Ho'.
      eexists. split; [reflexivity|].
      unfold afterg. cbn [fc enabled cached ridx stack out]. rewrite Hfc.
      repeat split; try assumption; congruence. }
    assert (ACC2 : forall (fl tr cl sm : bool) (i' : Z) (dpn mx' tm' zs' : N) (x' : sctx2),
              do_enter c s a t0 =
              {| fc := fstate2 i' 0 dpn mx' tm' zs'; enabled := true; cached := cached s;
                 stack := gframe3 sh sm fl false tr cl a t0 (ridx s) (fstate2 i o dp mx tm zs) :: stack s;
                 ridx := (if sm then ridx s else ridx s + 1); out := out s; warned := false |} ->
              hooked c s a = true -> Rel2 i' 0 dpn mx' tm' zs' x' -> i' = (if fl then i + 1 else i)%Z -> o = 0%Z ->
              exists s', dstep c (fold_left (dstep c) (flat_map flat kids)
                                    (do_enter c s a t0, hooked c s a :: hk)) (Leave t1) = (s', hk)
                         /\ afterg s s' d
                              (if sm then flat_map (sel2 tg szf hc lm x' d) kids
                               else let ks := flat_map (sel2 tg szf hc lm x' (d + 1)) kids in
                                    if (((if tm' =? NO_TIME then thr else tm') <=? t1 - t0) && (negb hc || cl)) || tr || negb (is_nil ks)
                                    then E_ a t0 d :: ks ++ [X_ a t1 d] else [])).
    { intros fl tr cl sm. destruct sm; [apply (ACCN t0)|apply ACC]. }
    cbn [sel2].
    destruct (dead2 x) eqn:Ed.
    - (* inside notrace *)
      assert (Hop : (0 < o)%Z) by (apply Hdead; reflexivity).
      destruct (SKIP (or_introl Hop)) as (s' & E & A). exists s'. split; [exact E|].
      rewrite sel2_dead_list in A by exact Ed. exact A.
    - assert (Ho : o = 0%Z).
      { destruct (Z.eq_dec o 0) as [|Hne]; [assumption|]. assert (false = true) by (apply Hdead; lia). discriminate. }
      subst o. destruct (Hlive eq_refl) as (Hsc & Hlim & Hb & Hdp & Hlpos & Hthr & Hcsz). clear Hlive.
      destruct (WF a) as [WFd WFt].
      remember (tg a) as g eqn:Eg.
      rewrite Hcsz.
      assert (Hthr' : (if (match stm g with Some t => t | None => tm end) =? NO_TIME then thr
                       else match stm g with Some t => t | None => tm end) =
                      match stm g with Some t => t | None => cthr2 x end).
      { destruct (stm g) as [t|] eqn:Est; [pose proof (WFt t eq_refl) as Htm; apply N.eqb_neq in Htm; rewrite Htm; reflexivity|].
        symmetry. exact Hthr. }
      destruct (sf g) as [[|]|] eqn:Ef.
      + (* filter hit *)
        assert (Hreach : sf (tg a) <> None \/ fm = false \/ (0 < i)%Z) by (left; rewrite <- Eg, Ef; discriminate).
        destruct (loc_hidden lm g) eqn:EL.
        { (* hidden by its source location: not shown, no nesting level; the opt-in scope opens below it *)
          pose proof (enter_loc s i dp mx tm zs a t0 Hfc Hen Hi Hi0 Hreach) as ER.
          rewrite <- Eg in ER. specialize (ER EL). cbv zeta in ER.
          unfold hitF, hitN in ER. rewrite Ef in ER. cbn [is_some orb] in ER.
          assert (Psh : match sh with PG => true | CYG => true end = true) by (destruct sh; reflexivity).
          rewrite Psh in ER. destruct ER as [Een Hhk].
          cbn [is_some orb].
          match goal with |- context [flat_map (sel2 tg szf hc lm ?X d) kids] => set (x' := X) end.
          destruct (ACCN 0 true (str g) (sc g) (i + 1)%Z 0 mx tm zs x' Een Hhk) as (s' & E & A);
            [|reflexivity|reflexivity|exists s'; split; [exact E|exact A]].
          unfold Rel2, x'. cbn [dead2 scope2 budget2 lim2 cthr2 csz2].
          split; [lia|]. split; [lia|]. split; [split; [discriminate|lia]|]. intros _.
          split; [split; [intros _; right; lia|reflexivity]|].
          repeat split; try assumption; lia. }
        pose proof (enter_reach s i dp mx tm zs a t0 Hfc Hen Hi Hi0 Hreach) as ER.
        rewrite <- Eg in ER. specialize (ER EL). cbv zeta in ER.
        unfold hitF, hitN in ER. rewrite Ef in ER. cbn [is_some orb] in ER.
        assert (Hacc : (match sd g with Some n => n | None => if mx =? FILTER_NO_MAX_DEPTH then gd else mx end <=? 0) = false).
        { destruct (sd g) as [n|] eqn:Esd; [destruct (WFd n eq_refl); lia| rewrite <- Hlim; lia]. }
        rewrite Hacc in ER. destruct ER as [Een Hhk].
        cbn [is_some orb].
        assert (Hb' : (0 <? match sd g with Some n => n | None => lim2 x end) = true).
        { destruct (sd g) as [n|] eqn:Esd; [destruct (WFd n eq_refl); lia|lia]. }
        rewrite Hb'. cbv zeta.
        match goal with |- context [flat_map (sel2 tg szf hc lm ?X (d + 1)) kids] => set (x' := X) end.
        destruct (ACC2 true (str g) (sc g) _ (i + 1)%Z (0 + 1) (match sd g with Some n => n | None => mx end)
                       (match stm g with Some t => t | None => tm end) (match ssz g with Some z => z | None => zs end)
                       x' Een Hhk) as (s' & E & A); [|reflexivity|reflexivity|].
        { unfold Rel2, x'. cbn [dead2 scope2 budget2 lim2 cthr2 csz2]. rewrite orb_true_r.
          split; [lia|]. split; [lia|]. split; [split; [discriminate|lia]|]. intros _.
          split; [split; [intros _; right; lia|reflexivity]|].
          destruct (sd g) as [n|] eqn:Esd, (stm g) as [t|] eqn:Est;
            try (destruct (WFd n eq_refl) as [Hn0 Hnm]; apply N.eqb_neq in Hnm; rewrite Hnm);
            try (pose proof (WFt t eq_refl) as Htm; apply N.eqb_neq in Htm; rewrite Htm);
            rewrite <- ?Hlim, <- ?Hthr; repeat split; lia. }
        exists s'. split; [exact E|]. cbv zeta in A. rewrite Hthr' in A. exact A.
      + (* notrace hit: this call and everything below is hidden *)
        assert (Hreach : sf (tg a) <> None \/ fm = false \/ (0 < i)%Z) by (left; rewrite <- Eg, Ef; discriminate).
        assert (NTR : forall ts dpn mx' tm' zs',
                  do_enter c s a t0 =
                  {| fc := fstate2 i 1 dpn mx' tm' zs'; enabled := true; cached := cached s;
                     stack := gframe3 sh true false true (str g) (sc g) a ts (ridx s) (fstate2 i 0 dp mx tm zs) :: stack s;
                     ridx := ridx s; out := out s; warned := false |} -> hooked c s a = true ->
                  exists s', dstep c (fold_left (dstep c) (flat_map flat kids)
                                        (do_enter c s a t0, hooked c s a :: hk)) (Leave t1) = (s', hk)
                             /\ afterg s s' d []).
        { intros ts dpn mx' tm' zs' Een Hhk. rewrite Een, Hhk.
          set (fr := gframe3 sh true false true (str g) (sc g) a ts (ridx s) (fstate2 i 0 dp mx tm zs)) in *.
          set (s1 := {| fc := fstate2 i 1 dpn mx' tm' zs'; enabled := true; cached := cached s;
                        stack := fr :: stack s; ridx := ridx s; out := out s; warned := false |}).
          destruct (RK s1 (true :: hk) i 1%Z dpn mx' tm' zs'
                       {| dead2 := true; scope2 := false; budget2 := 0; lim2 := 0; cthr2 := 0; csz2 := 0 |} d)
            as (s2 & E2 & A2); try reflexivity; try assumption.
          { unfold Rel2. cbn [dead2]. split; [lia|]. split; [lia|]. split; [split; [lia|reflexivity]|discriminate]. }
          { subst s1. unfold idx in *. cbn [stack length]. lia. }
          unfold exec in E2. rewrite E2. cbn [dstep].
          rewrite sel2_dead_list in A2 by reflexivity.
          destruct A2 as (F2 & En2 & C2 & R2 & S2 & O2). subst s1. cbn [stack out cached fc is_nil app] in *.
          rewrite app_nil_r in O2.
          rewrite (leave_norec2 s2 fr (fstate2 i 0 dp mx tm zs) t1 _ i 1%Z dpn mx' tm' zs' S2 (nrframe_gframe3 _ _ _ _ _ _ _ _ _) F2).
          cbn [fr gframe3 f_flags gfl3 filtered notrace fstate2 depth max_depth ftime fsize].
          eexists. split; [reflexivity|].
          unfold afterg. cbn [fc enabled cached ridx stack out is_nil app]. rewrite Hfc, app_nil_r.
          replace (1 - 1)%Z with 0%Z by lia.
          repeat split; try assumption; congruence. }
        destruct (loc_hidden lm g) eqn:EL.
        { pose proof (enter_loc s i dp mx tm zs a t0 Hfc Hen Hi Hi0 Hreach) as ER.
          rewrite <- Eg in ER. specialize (ER EL). cbv zeta in ER.
          unfold hitF, hitN in ER. rewrite Ef in ER. cbn [is_some orb] in ER.
          assert (Psh : match sh with PG => true | CYG => true end = true) by (destruct sh; reflexivity).
          rewrite Psh in ER. destruct ER as [Een Hhk].
          exact (NTR 0 0 mx tm zs Een Hhk). }
        pose proof (enter_reach s i dp mx tm zs a t0 Hfc Hen Hi Hi0 Hreach) as ER.
        rewrite <- Eg in ER. specialize (ER EL). cbv zeta in ER.
        unfold hitF, hitN in ER. rewrite Ef in ER. cbn [is_some orb] in ER.
        assert (Hacc : (match sd g with Some n => n | None => if mx =? FILTER_NO_MAX_DEPTH then gd else mx end <=? 0) = false).
        { destruct (sd g) as [n|] eqn:Esd; [destruct (WFd n eq_refl); lia| rewrite <- Hlim; lia]. }
        rewrite Hacc in ER. destruct ER as [Een Hhk].
        exact (NTR t0 (0 + 1) _ _ _ Een Hhk).
      + (* no filter on this function *)
        cbn [is_some orb].
        destruct (scope2 x) eqn:Esc.
        2:{ (* outside every opt-in filter function: the trigger is not looked at *)
            apply SKIP. right. split; [reflexivity|].
            destruct fm eqn:Efm.
            - split; [reflexivity|]. destruct (Z.eq_dec i 0) as [|Hne]; [assumption|].
              assert (false = true) by (apply Hsc; right; lia). discriminate.
            - assert (false = true) by (apply Hsc; left; reflexivity). discriminate. }
        assert (Hreach : sf (tg a) <> None \/ fm = false \/ (0 < i)%Z) by (right; apply Hsc; reflexivity).
        destruct (loc_hidden lm g) eqn:EL.
        { (* hidden by its source location: nothing of it is applied, the callees run in the same context *)
          pose proof (enter_loc s i dp mx tm zs a t0 Hfc Hen Hi Hi0 Hreach) as ER.
          rewrite <- Eg in ER. specialize (ER EL). cbv zeta in ER.
          unfold hitF, hitN in ER. rewrite Ef in ER. cbn [is_some orb] in ER.
          cbn [is_some].
          match type of ER with if ?b then _ else _ => destruct b eqn:Push end; destruct ER as [Een Hhk].
          - apply (SKIPG true).
            exists (gframe3 sh true false false (str g) (sc g) a 0 (ridx s) (fstate2 i 0 dp mx tm zs)).
            split; [apply nrframe_gframe3|]. split; [reflexivity|]. split; [reflexivity|].
            rewrite Hfc, Hen. split; assumption.
          - apply (SKIPG false). rewrite Hfc, Hen. split; assumption. }
        pose proof (enter_reach s i dp mx tm zs a t0 Hfc Hen Hi Hi0 Hreach) as ER.
        rewrite <- Eg in ER. specialize (ER EL). cbv zeta in ER.
        unfold hitF, hitN in ER. rewrite Ef in ER. cbn [is_some orb] in ER.
        destruct (sd g) as [n|] eqn:Esd.
        * (* depth=n trigger: n levels from here *)
          destruct (WFd n eq_refl) as [Hn0 Hnm].
          cbn [is_some] in ER.
          assert (Hacc : (n <=? 0) = false) by lia. rewrite Hacc in ER. destruct ER as [Een Hhk].
          assert (Hb' : (0 <? n) = true) by lia. rewrite Hb'. cbv zeta.
          match goal with |- context [flat_map (sel2 tg szf hc lm ?X (d + 1)) kids] => set (x' := X) end.
          destruct (ACC2 false (str g) (sc g) _ i (0 + 1) n (match stm g with Some t => t | None => tm end)
                         (match ssz g with Some z => z | None => zs end) x' Een Hhk) as (s' & E & A);
            [|reflexivity|reflexivity|].
          { unfold Rel2, x'. cbn [dead2 scope2 budget2 lim2 cthr2 csz2]. rewrite orb_false_r.
            split; [lia|]. split; [lia|]. split; [split; [discriminate|lia]|]. intros _.
            split; [split; [intros _; apply Hsc; reflexivity|intros _; reflexivity]|].
            apply N.eqb_neq in Hnm. rewrite Hnm. rewrite Hthr'. repeat split; lia. }
          exists s'. split; [exact E|]. cbv zeta in A. rewrite Hthr' in A. exact A.
        * cbn [is_some] in ER. rewrite <- Hlim in ER.
          destruct (lim2 x <=? dp) eqn:Elim.
          -- (* beyond the depth limit *)
             assert (Hb' : (0 <? budget2 x) = false) by lia. rewrite Hb'.
             set (tm' := match stm g with Some t => t | None => tm end) in *.
             set (zs' := match ssz g with Some z => z | None => zs end) in *.
             match goal with |- context [flat_map (sel2 tg szf hc lm ?X d) kids] => set (x' := X) end.
             assert (HR' : Rel2 i 0 dp mx tm' zs' x').
             { unfold Rel2, x'. cbn [dead2 scope2 budget2 lim2 cthr2 csz2].
               split; [lia|]. split; [lia|]. split; [split; [discriminate|lia]|]. intros _.
               split; [exact Hsc|]. rewrite Hthr'. repeat split; try assumption; lia. }
             cbn [orb] in ER.
             match type of ER with if ?b then _ else _ => destruct b eqn:Push end; destruct ER as [Een Hhk]; rewrite Een, Hhk.
             ++ (* a NORECORD frame is kept (always under cygprof; under -pg because the trigger changed the state):
                   it carries the threshold and the size filter to the callees and restores them at exit *)
                set (fr := gframe3 sh true false false (str g) (sc g) a 0 (ridx s) (fstate2 i 0 dp mx tm zs)).
                set (s1 := {| fc := fstate2 i 0 dp mx tm' zs'; enabled := true; cached := cached s; stack := fr :: stack s;
                              ridx := ridx s; out := out s; warned := false |}).
                assert (Hix : idx s1 + heights kids <= ms) by (unfold idx in *; cbn [stack s1 length]; lia).
                destruct (RK s1 (true :: hk) i 0%Z dp mx tm' zs' x' d eq_refl HR' eq_refl Hr Hix) as (s2 & E2 & A2).
                unfold exec in E2. rewrite E2. cbn [dstep].
                destruct (norec_on_top fr (stack s) _ s2 s1 d eq_refl eq_refl eq_refl A2) as [S2 O2].
                destruct A2 as (F2 & En2 & C2 & R2 & _ & _). cbn [stack out cached fc s1] in *.
                rewrite (leave_norec2 s2 fr (fstate2 i 0 dp mx tm zs) t1 _ i 0%Z dp mx tm' zs' S2 (nrframe_gframe3 _ _ _ _ _ _ _ _ _) F2).
                cbn [fr gframe3 f_flags gfl3 filtered notrace fstate2 depth max_depth ftime fsize].
                eexists. split; [reflexivity|].
                unfold afterg. cbn [fc enabled cached ridx stack out]. rewrite Hfc.
                repeat split; try assumption; congruence.
             ++ (* -pg shape, no time= / size= trigger here: nothing happened at all *)
                assert (Htz : tm' = tm /\ zs' = zs).
                { subst tm' zs'. destruct sh; [|discriminate Push].
                  destruct (stm g) as [t|], (ssz g) as [z|]; cbn [is_some orb] in Push; try discriminate Push.
                  split; reflexivity. }
                destruct Htz as [Htm Hzs].
                set (s1 := {| fc := fstate2 i 0 dp mx tm zs; enabled := true; cached := cached s; stack := stack s;
                              ridx := ridx s; out := out s; warned := false |}).
                assert (Hix : idx s1 + heights kids <= ms) by (unfold idx in *; cbn [stack s1]; lia).
                assert (HR'' : Rel2 i 0 dp mx tm zs x') by (rewrite <- Htm, <- Hzs; exact HR').
                destruct (RK s1 (false :: hk) i 0%Z dp mx tm zs x' d eq_refl HR'' eq_refl Hr Hix) as (s2 & E2 & A2).
                unfold exec in E2. rewrite E2. cbn [dstep]. exists s2. split; [reflexivity|].
                destruct A2 as (F2 & En2 & C2 & R2 & S2 & O2). cbn [stack out cached fc s1] in *.
                unfold afterg. rewrite Hfc. auto 10.
          -- (* within the limit *)
             destruct ER as [Een Hhk].
             assert (Hb' : (0 <? budget2 x) = true) by lia. rewrite Hb'. cbv zeta.
             match goal with |- context [flat_map (sel2 tg szf hc lm ?X (d + 1)) kids] => set (x' := X) end.
             destruct (ACC2 false (str g) (sc g) _ i (dp + 1) mx (match stm g with Some t => t | None => tm end)
                            (match ssz g with Some z => z | None => zs end) x' Een Hhk) as (s' & E & A);
               [|reflexivity|reflexivity|].
             { unfold Rel2, x'. cbn [dead2 scope2 budget2 lim2 cthr2 csz2]. rewrite orb_false_r.
               split; [lia|]. split; [lia|]. split; [split; [discriminate|lia]|]. intros _.
               split; [split; [intros _; apply Hsc; reflexivity|intros _; reflexivity]|].
               rewrite Hthr'. repeat split; try assumption; lia. }
             exists s'. split; [exact E|]. cbv zeta in A. rewrite Hthr' in A. exact A.
  Qed.

  Theorem run_forest_sel2 : forall f, all_timed f -> heights f <= ms ->
    out (fst (exec c (flat_forest f) (init, []))) = flat_map (sel2 tg szf hc lm (x02 fm gd thr) 0) f.
  Proof.
    intros f HT Hh.
    assert (HF : Forall stmt2 f) by (apply Forall_forall; intros k0 _; apply run_call_sel2).
    assert (HR : Rel2 0 0 0 FILTER_NO_MAX_DEPTH NO_TIME 0 (x02 fm gd thr)).
    { unfold Rel2, x02. cbn [dead2 scope2 budget2 lim2 cthr2 csz2]. rewrite !N.eqb_refl.
      split; [lia|]. split; [lia|]. split; [split; [discriminate|lia]|]. intros _.
      split; [split; intro H; [left; apply negb_true_iff; exact H|destruct H as [H|H]; [rewrite H; reflexivity|lia]]|].
      repeat split; lia. }
    assert (Hix : idx init + heights f <= ms) by (cbn; lia).
    destruct (run_kids_sel2 f HF HT init [] 0%Z 0%Z 0 FILTER_NO_MAX_DEPTH NO_TIME 0 (x02 fm gd thr) 0 eq_refl HR eq_refl eq_refl Hix)
      as (s' & E & A).
    unfold flat_forest. rewrite E. cbn [fst].
    destruct A as (_ & _ & _ & _ & _ & O). rewrite O. cbn [init out stack flush_anc snd app].
    destruct (is_nil _); reflexivity.
  Qed.
End filt2.

(* non-vacuity of the hypotheses *)
Definition tg_example : N -> strig :=
  assoc notrig2 [(256, {| sf := Some true; sd := Some 2; stm := Some 50; ssz := Some 40; str := false; sc := true; sl := Some true |});
                 (512, {| sf := Some false; sd := None; stm := None; ssz := None; str := false; sc := false; sl := None |});
                 (1024, {| sf := None; sd := None; stm := None; ssz := None; str := false; sc := false; sl := Some false |});
                 (768, {| sf := None; sd := Some 3; stm := Some 7; ssz := None; str := true; sc := false; sl := None |})].
Lemma tg_example_ok : wf_tg tg_example.
Proof.
  intro a; unfold tg_example; cbn [assoc].
  destruct (a =? 256); [|destruct (a =? 512); [|destruct (a =? 1024); [|destruct (a =? 768)]]]; cbn [sf sd stm ssz str sc notrig2];
    (split; intros ? H; inversion H; subst; try split; try lia; discriminate).
Qed.

(* consequence: inside this option class the recorded stream does not depend on the instrumentation method *)
Theorem method_independent_sel2 tg szf fm hc lm gd thr ms f :
  0 < gd -> wf_tg tg -> all_timed f -> heights f <= ms ->
  out (fst (exec (fcfg2 tg szf fm hc lm gd thr ms PG) (flat_forest f) (init, []))) =
  out (fst (exec (fcfg2 tg szf fm hc lm gd thr ms CYG) (flat_forest f) (init, []))).
Proof.
  intros Hgd WF HT Hh.
  rewrite (run_forest_sel2 tg szf fm hc lm gd thr ms PG Hgd WF f HT Hh).
  rewrite (run_forest_sel2 tg szf fm hc lm gd thr ms CYG Hgd WF f HT Hh). reflexivity.
Qed.

(* inside this option class the filter state is restored on the -pg shape as well (beyond [safe_pg] of Restore.v:
   time= and size= triggers are allowed when they come with a filter or a depth= trigger) *)
Theorem filter_state_restored_sel2 tg szf fm hc lm gd thr ms sh f :
  0 < gd -> wf_tg tg -> all_timed f -> heights f <= ms ->
  fc (fst (exec (fcfg2 tg szf fm hc lm gd thr ms sh) (flat_forest f) (init, []))) = fc init /\
  ridx (fst (exec (fcfg2 tg szf fm hc lm gd thr ms sh) (flat_forest f) (init, []))) = 0.
Proof.
  intros Hgd WF HT Hh.
  assert (HF : Forall (stmt2 tg szf fm hc lm gd thr ms sh) f)
    by (apply Forall_forall; intros k0 _; apply run_call_sel2; assumption).
  assert (HR : Rel2 fm gd thr 0 0 0 FILTER_NO_MAX_DEPTH NO_TIME 0 (x02 fm gd thr)).
  { unfold Rel2, x02. cbn [dead2 scope2 budget2 lim2 cthr2 csz2]. rewrite !N.eqb_refl.
    split; [lia|]. split; [lia|]. split; [split; [discriminate|lia]|]. intros _.
    split; [split; intro H; [left; apply negb_true_iff; exact H|destruct H as [H|H]; [rewrite H; reflexivity|lia]]|].
    repeat split; lia. }
  assert (Hix : idx init + heights f <= ms) by (cbn; lia).
  destruct (run_kids_sel2 tg szf fm hc lm gd thr ms sh Hgd f HF HT init [] 0%Z 0%Z 0 FILTER_NO_MAX_DEPTH NO_TIME 0
                          (x02 fm gd thr) 0 eq_refl HR eq_refl eq_refl Hix) as (s' & E & A).
  unfold flat_forest. rewrite E. cbn [fst]. destruct A as (F & _ & _ & R & _ & _). split; assumption.
Qed.

(* ... and after every single call, from every state the class can reach (Rel2 links it to a context of the spec) *)
Theorem call_restores_state_sel2 tg szf fm hc lm gd thr ms sh :
  0 < gd -> wf_tg tg -> forall k, timed k -> forall s hk i o dp mx tm zs x,
  fc s = fstate2 i o dp mx tm zs -> Rel2 fm gd thr i o dp mx tm zs x -> enabled s = true -> idx s + height k <= ms ->
  exists s', exec (fcfg2 tg szf fm hc lm gd thr ms sh) (flat k) (s, hk) = (s', hk) /\ fc s' = fc s /\ ridx s' = ridx s.
Proof.
  intros Hgd WF k HT s hk i o dp mx tm zs x Hfc HR Hen Hh.
  destruct (run_call_sel2 tg szf fm hc lm gd thr ms sh Hgd WF k HT s hk i o dp mx tm zs x (ridx s) Hfc HR Hen eq_refl Hh)
    as (s' & E & A).
  exists s'. split; [exact E|]. destruct A as (F & _ & _ & R & _ & _). split; assumption.
Qed.

(* with the global size filter -Z gz every thread starts from [init_z gz]; the same refinement *)
Theorem run_forest_sel2_z tg szf fm hc lm gd thr ms sh gz f :
  0 < gd -> wf_tg tg -> all_timed f -> heights f <= ms ->
  out (fst (exec (fcfg2 tg szf fm hc lm gd thr ms sh) (flat_forest f) (init_z gz, []))) =
  flat_map (sel2 tg szf hc lm (x02z fm gd thr gz) 0) f.
Proof.
  intros Hgd WF HT Hh.
  assert (HF : Forall (stmt2 tg szf fm hc lm gd thr ms sh) f)
    by (apply Forall_forall; intros k0 _; apply run_call_sel2; assumption).
  assert (HR : Rel2 fm gd thr 0 0 0 FILTER_NO_MAX_DEPTH NO_TIME gz (x02z fm gd thr gz)).
  { unfold Rel2, x02z. cbn [dead2 scope2 budget2 lim2 cthr2 csz2]. rewrite !N.eqb_refl.
    split; [lia|]. split; [lia|]. split; [split; [discriminate|lia]|]. intros _.
    split; [split; intro H; [left; apply negb_true_iff; exact H|destruct H as [H|H]; [rewrite H; reflexivity|lia]]|].
    repeat split; lia. }
  assert (Hix : idx (init_z gz) + heights f <= ms) by (cbn; lia).
  destruct (run_kids_sel2 tg szf fm hc lm gd thr ms sh Hgd f HF HT (init_z gz) [] 0%Z 0%Z 0 FILTER_NO_MAX_DEPTH NO_TIME gz
                          (x02z fm gd thr gz) 0 eq_refl HR eq_refl eq_refl Hix) as (s' & E & A).
  unfold flat_forest. rewrite E. cbn [fst].
  destruct A as (_ & _ & _ & _ & _ & O). rewrite O. cbn [init_z out stack flush_anc snd app].
  destruct (is_nil _); reflexivity.
Qed.
