(* The record stream is append-only: no hook call ever changes or removes a record already written.
   Consequently the stream after ANY prefix of a thread's history (any instant, any crash point) is a list
   prefix of the stream at the end - for every configuration, shape and state (no hypothesis at all). *)
From Coq Require Import NArith ZArith List Bool Lia.
Import ListNotations.
Require Import UV.Gen.Consts UV.Mcount.Model UV.Mcount.Forest.
Local Open Scope N_scope.

Definition ext (s s' : st) : Prop := exists l, out s' = out s ++ l.

Lemma ext_refl s : ext s s. Proof. exists []. symmetry. apply app_nil_r. Qed.
Lemma ext_trans s1 s2 s3 : ext s1 s2 -> ext s2 s3 -> ext s1 s3.
Proof. intros [l1 H1] [l2 H2]. exists (l1 ++ l2). rewrite H2, H1, app_assoc. reflexivity. Qed.
Lemma ext_same s s' : out s' = out s -> ext s s'.
Proof. intro H. exists []. rewrite H. symmetry. apply app_nil_r. Qed.
Lemma ext_app s s' l : out s' = out s ++ l -> ext s s'.
Proof. intro H. exists l. exact H. Qed.

Lemma check_rstack_ext c s : ext s (fst (check_rstack c s)).
Proof.
  unfold check_rstack. destruct (max_stack c <=? idx s); [|apply ext_same; reflexivity].
  destruct (warned s); [apply ext_refl|].
  destruct (skipn _ (stack s)) as [|top anc]; [apply ext_same; reflexivity|].
  destruct (record_trace_data top anc) as [[top' anc'] recs]. cbn [fst]. eapply ext_app. reflexivity.
Qed.

Lemma entry_check_ext c s a : ext s (fst (fst (fst (entry_check c s a)))).
Proof.
  unfold entry_check. cbv zeta.
  pose proof (check_rstack_ext c s) as H. destruct (check_rstack c s) as [s1 over]. cbn [fst] in H.
  destruct over; [exact H|].
  destruct (out_count (fc s1) >? 0)%Z; [exact H|].
  repeat match goal with |- context [if ?b then _ else _] => destruct b end;
    cbn [fst]; (eapply ext_trans; [exact H|apply ext_same; reflexivity]).
Qed.

Lemma entry_record_ext c s fr tr sv : ext s (entry_record c s fr tr sv).
Proof.
  unfold entry_record. destruct sv as [[[d m] t] z]. cbv zeta.
  match goal with |- context [if ?b then _ else _] => destruct b end; [apply ext_same; reflexivity|].
  destruct (enabled s); [apply ext_same; reflexivity|].
  destruct (cached s).
  - match goal with |- context [record_trace_data ?a ?b] => destruct (record_trace_data a b) as [[top' anc'] recs] end.
    eapply ext_app. reflexivity.
  - exists []. reflexivity.
Qed.

Lemma do_enter_ext c s a t : ext s (do_enter c s a t).
Proof.
  unfold do_enter. pose proof (entry_check_ext c s a) as H.
  destruct (entry_check c s a) as [[[s1 v] tr] sv]. cbn [fst] in H.
  destruct (shp c), v; try destruct (state_trig tr); try exact H;
    try (eapply ext_trans; [exact H|apply entry_record_ext]);
    try (eapply ext_trans; [exact H|apply ext_same; reflexivity]).
Qed.

Lemma exit_record_ext c s top anc : ext s (exit_record c s top anc).
Proof.
  unfold exit_record. cbv zeta.
  destruct (norecord (f_flags top)); [apply ext_same; reflexivity|].
  destruct (negb (enabled s)); [apply ext_same; reflexivity|].
  match goal with |- context [if ?b then _ else _] => destruct b end; [|apply ext_same; reflexivity].
  destruct (record_trace_data top anc) as [[top' anc'] recs]. eapply ext_app. reflexivity.
Qed.

Lemma do_leave_ext c s t : ext s (do_leave c s t).
Proof.
  unfold do_leave. destruct (stack s) as [|top anc]; [apply ext_refl|].
  destruct (f_ghost top); [apply ext_same; reflexivity|].
  destruct (shp c); apply exit_record_ext.
Qed.

Definition no_fork (es : list ev) : Prop := Forall (fun e => e <> ForkChild) es.

Lemma dstep_ext c d e : e <> ForkChild -> ext (fst d) (fst (dstep c d e)).
Proof.
  intro H. destruct d as [s hk]. destruct e as [a t|t|]; cbn [dstep fst].
  - apply do_enter_ext.
  - destruct hk as [|h r]; [apply ext_refl|]. cbn [fst]. destruct h; [apply do_leave_ext|apply ext_refl].
  - congruence.
Qed.

Lemma exec_ext c es : no_fork es -> forall d, ext (fst d) (fst (exec c es d)).
Proof.
  induction 1 as [|e r He _ IH]; intro d; [apply ext_refl|].
  unfold exec. cbn [fold_left]. eapply ext_trans; [apply dstep_ext; exact He|apply IH].
Qed.

(* the stream after a prefix of the history is a prefix of the stream after the whole history *)
Theorem stream_append_only c p q d : no_fork q ->
  exists l, out (fst (exec c (p ++ q) d)) = out (fst (exec c p d)) ++ l.
Proof.
  intro H. unfold exec. rewrite fold_left_app. apply (exec_ext c q H).
Qed.

Lemma flat_no_fork k : no_fork (flat k).
Proof.
  induction k as [a t0 t1 kids IH] using call_ind'. cbn [flat]. constructor; [discriminate|].
  apply Forall_app. split.
  - induction IH as [|k r Hk _ IHr]; [constructor|]. cbn [flat_map]. apply Forall_app. split; assumption.
  - constructor; [discriminate|constructor].
Qed.
Lemma flat_forest_no_fork f : no_fork (flat_forest f).
Proof. induction f as [|k r IH]; [constructor|]. cbn [flat_forest flat_map]. apply Forall_app. split; [apply flat_no_fork|exact IH]. Qed.

Lemma no_fork_suffix p q : no_fork (p ++ q) -> no_fork q.
Proof. intro H. apply Forall_app in H. tauto. Qed.
