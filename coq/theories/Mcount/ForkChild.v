(* A forked child never writes the ENTRY record of a call that was entered before the fork: atfork_child_handler
   marks every inherited frame WRITTEN, so the lazy ENTRY flush has nothing to add for them.  For EVERY
   configuration (filters, triggers, trace switches), both shapes, any parent state and any continuation. *)
From Coq Require Import NArith ZArith List Bool Lia.
Import ListNotations.
Require Import UV.Gen.Consts UV.Mcount.Model UV.Mcount.Forest.
Local Open Scope N_scope.

(* frames whose ENTRY may still be written later: only those entered at one of the times [T] *)
Definition fr_ok (T : list N) (f : frame) : Prop :=
  written (f_flags f) = true \/ skip f = true \/ In (f_start f) T.
Definition rec_ok (T : list N) (r : rec) : Prop := r_type r = ENTRY -> In (r_time r) T.
Definition J (T : list N) (s : st) : Prop := Forall (fr_ok T) (stack s) /\ Forall (rec_ok T) (out s).

Lemma fr_ok_mono T T' f : incl T T' -> fr_ok T f -> fr_ok T' f.
Proof. intros H [W|[S|I]]; [left; exact W|right; left; exact S|right; right; apply H; exact I]. Qed.
Lemma rec_ok_mono T T' r : incl T T' -> rec_ok T r -> rec_ok T' r.
Proof. intros H R E. apply H, R, E. Qed.
Lemma J_mono T T' s : incl T T' -> J T s -> J T' s.
Proof.
  intros H [A B]. split; eapply Forall_impl; try eassumption; intros x; [apply fr_ok_mono|apply rec_ok_mono]; exact H.
Qed.

Lemma fr_ok_set_written T f : fr_ok T (set_written f).
Proof. left. destruct f as [? ? ? [ ] ? ? ? ? ? ?]; reflexivity. Qed.

Lemma flush_anc_J T l : Forall (fr_ok T) l ->
  Forall (fr_ok T) (fst (flush_anc l)) /\ Forall (rec_ok T) (snd (flush_anc l)).
Proof.
  induction 1 as [|p r Hp Hr IH]; [split; constructor|]. cbn [flush_anc].
  destruct (written (f_flags p)) eqn:W; [split; [constructor; assumption|constructor]|].
  destruct (flush_anc r) as [r' recs]. cbn [fst snd] in IH. destruct IH as [IH1 IH2].
  destruct (skip p) eqn:Sk; cbn [fst snd].
  - split; [constructor; assumption|exact IH2].
  - split; [constructor; [apply fr_ok_set_written|exact IH1]|].
    apply Forall_app. split; [exact IH2|]. constructor; [|constructor].
    intros _. cbn [entry_rec r_time]. destruct Hp as [Hw|[Hs|Hi]]; [congruence|congruence|exact Hi].
Qed.

Lemma exit_rec_ok T f : rec_ok T (exit_rec f).
Proof. intro E. discriminate E. Qed.

Lemma rtd_J T top anc : fr_ok T top -> Forall (fr_ok T) anc ->
  let '(top', anc', recs) := record_trace_data top anc in
  fr_ok T top' /\ Forall (fr_ok T) anc' /\ Forall (rec_ok T) recs.
Proof.
  intros Ht Ha. unfold record_trace_data.
  destruct (written (f_flags top)) eqn:W.
  - cbn [orb]. split; [exact Ht|]. split; [exact Ha|].
    cbn [app]. destruct (f_end top =? 0); [constructor|constructor; [apply exit_rec_ok|constructor]].
  - destruct (flush_anc_J T anc Ha) as [F1 F2]. destruct (flush_anc anc) as [anc' pre]. cbn [fst snd orb] in *.
    destruct (skip top) eqn:Sk.
    + split; [exact Ht|]. split; [exact F1|]. apply Forall_app. split; [exact F2|]. cbn [app].
      destruct (f_end top =? 0); [constructor|constructor; [apply exit_rec_ok|constructor]].
    + split; [apply fr_ok_set_written|]. split; [exact F1|].
      apply Forall_app. split; [exact F2|]. apply Forall_app. split.
      * constructor; [|constructor]. intros _. cbn [entry_rec r_time]. destruct Ht as [Hw|[Hs|Hi]]; [congruence|congruence|exact Hi].
      * destruct (f_end (set_written top) =? 0); [constructor|constructor; [apply exit_rec_ok|constructor]].
Qed.

Lemma Forall_app_split {A} (P : A -> Prop) l1 l2 : Forall P (l1 ++ l2) -> Forall P l1 /\ Forall P l2.
Proof. apply Forall_app. Qed.

Lemma check_rstack_J T c s : J T s -> J T (fst (check_rstack c s)).
Proof.
  intros [A B]. unfold check_rstack. destruct (max_stack c <=? idx s); [|split; assumption].
  destruct (warned s); [split; assumption|].
  destruct (skipn _ (stack s)) as [|top anc] eqn:E; [split; assumption|].
  pose proof (firstn_skipn (length (stack s) - N.to_nat (max_stack c)) (stack s)) as FS. rewrite E in FS.
  rewrite <- FS in A. apply Forall_app in A. destruct A as [A1 A2]. inversion A2 as [|x l Ht Ha]; subst.
  pose proof (rtd_J T top anc Ht Ha) as R. destruct (record_trace_data top anc) as [[top' anc'] recs].
  destruct R as (R1 & R2 & R3). cbn [fst]. split; cbn [stack out].
  - apply Forall_app. split; [exact A1|constructor; assumption].
  - apply Forall_app. split; assumption.
Qed.

Lemma entry_check_J T c s a : J T s -> J T (fst (fst (fst (entry_check c s a)))).
Proof.
  intro H. unfold entry_check. cbv zeta. pose proof (check_rstack_J T c s H) as H1.
  destruct (check_rstack c s) as [s1 over]. cbn [fst] in H1.
  destruct over; [exact H1|]. destruct (out_count (fc s1) >? 0)%Z; [exact H1|].
  repeat match goal with |- context [if ?b then _ else _] => destruct b end; cbn [fst]; exact H1.
Qed.

Lemma entry_record_J T c s fr tr sv : J T s -> In (f_start fr) T \/ norecord (f_flags fr) = true ->
  J T (entry_record c s fr tr sv).
Proof.
  intros [A B] Hs. unfold entry_record. destruct sv as [[[d m] t] z]. cbv zeta.
  match goal with |- context [if ?b then _ else _] => destruct b eqn:Enr end.
  - split; [|exact B]. cbn [stack]. constructor; [|exact A]. right. left. unfold skip. cbn [f_flags norecord]. reflexivity.
  - assert (Hi : In (f_start fr) T).
    { destruct Hs as [Hi|Hn]; [exact Hi|]. rewrite Hn in Enr. cbn in Enr. discriminate. }
    destruct (enabled s).
    + split; [|exact B]. cbn [stack]. constructor; [|exact A]. right. right. exact Hi.
    + destruct (cached s).
      * match goal with |- context [record_trace_data ?a ?b] =>
          assert (Ht : fr_ok T a) by (right; left; unfold skip; cbn [f_flags norecord disabled]; apply orb_true_r);
          pose proof (rtd_J T a b Ht A) as R; destruct (record_trace_data a b) as [[top' anc'] recs] end.
        destruct R as (R1 & R2 & R3). split; cbn [stack out]; [constructor; assumption|apply Forall_app; split; assumption].
      * split; cbn [stack out]; [|rewrite app_nil_r; exact B]. constructor; [|exact A].
        right. left. unfold skip. cbn [f_flags norecord disabled]. apply orb_true_r.
Qed.

Lemma do_enter_J T c s a t : In 0 T -> J T s -> J (t :: T) (do_enter c s a t).
Proof.
  intros H0 H. apply (J_mono T (t :: T)) in H; [|intros x Hx; right; exact Hx].
  unfold do_enter. pose proof (entry_check_J (t :: T) c s a H) as H1.
  destruct (entry_check c s a) as [[[s1 v] tr] sv]. cbn [fst] in H1.
  destruct (shp c), v; try destruct (state_trig tr); try exact H1;
    try (apply entry_record_J; [exact H1|cbn [f_start f_flags norecord]; first [left; left; reflexivity|right; reflexivity]]).
  (* cygprof beyond the stack limit: a ghost frame (start time 0) *)
  all: destruct H1 as [A B]; split; [|exact B]; cbn [stack]; constructor; [|exact A];
    right; right; cbn [ghost_frame f_start]; right; exact H0.
Qed.

Lemma fr_ok_set_end T f t : fr_ok T f -> fr_ok T (set_end f t).
Proof. intros [W|[S|I]]; [left|right; left|right; right]; destruct f; assumption. Qed.

Lemma exit_record_J T c s top anc : fr_ok T top -> Forall (fr_ok T) anc -> Forall (rec_ok T) (out s) ->
  J T (exit_record c s top anc).
Proof.
  intros Ht Ha B. unfold exit_record. cbv zeta.
  destruct (norecord (f_flags top)); [split; assumption|].
  destruct (negb (enabled s)); [split; assumption|].
  match goal with |- context [if ?b then _ else _] => destruct b end; [|split; assumption].
  pose proof (rtd_J T top anc Ht Ha) as R. destruct (record_trace_data top anc) as [[top' anc'] recs].
  destruct R as (R1 & R2 & R3). split; cbn [stack out]; [exact R2|apply Forall_app; split; assumption].
Qed.

Lemma do_leave_J T c s t : J T s -> J T (do_leave c s t).
Proof.
  intros [A B]. unfold do_leave. destruct (stack s) as [|top anc] eqn:St; [split; [rewrite St; constructor|exact B]|].
  inversion A as [|x l Ht Ha]; subst.
  destruct (f_ghost top); [split; assumption|].
  destruct (shp c).
  - apply exit_record_J; [apply fr_ok_set_end; exact Ht|exact Ha|exact B].
  - apply exit_record_J; [|exact Ha|exact B]. destruct (norecord (f_flags top)); [exact Ht|apply fr_ok_set_end; exact Ht].
Qed.

(* the times of the Enter events of a list *)
Fixpoint enter_times (es : list ev) : list N :=
  match es with
  | [] => []
  | Enter _ t :: r => t :: enter_times r
  | _ :: r => enter_times r
  end.

Lemma dstep_J T c d e : In 0 T -> e <> ForkChild -> J T (fst d) ->
  J (enter_times [e] ++ T) (fst (dstep c d e)).
Proof.
  intros H0 He H. destruct d as [s hk]. cbn [fst] in H. destruct e as [a t|t|]; cbn [dstep fst enter_times app].
  - apply do_enter_J; assumption.
  - destruct hk as [|h r]; [exact H|]. cbn [fst]. destruct h; [apply do_leave_J|]; exact H.
  - congruence.
Qed.

Lemma exec_J c es : Forall (fun e => e <> ForkChild) es -> forall T d, In 0 T -> J T (fst d) ->
  J (rev (enter_times es) ++ T) (fst (exec c es d)).
Proof.
  induction 1 as [|e r He _ IH]; intros T d H0 H; [exact H|].
  unfold exec. cbn [fold_left]. pose proof (dstep_J T c d e H0 He H) as H1.
  assert (H0' : In 0 (enter_times [e] ++ T)) by (apply in_or_app; right; exact H0).
  specialize (IH (enter_times [e] ++ T) (dstep c d e) H0' H1).
  eapply J_mono; [|exact IH]. intros x Hx.
  apply in_app_or in Hx. apply in_or_app.
  destruct e as [a t|t|]; cbn [enter_times app rev] in *.
  - destruct Hx as [Hx|[Hx|Hx]].
    + left. apply in_or_app. left. exact Hx.
    + left. apply in_or_app. right. left. exact Hx.
    + right. exact Hx.
  - exact (match Hx with or_introl h => or_introl h | or_intror h => or_intror h end).
  - exact (match Hx with or_introl h => or_introl h | or_intror h => or_intror h end).
Qed.

Lemma fork_child_J s : J [0] (do_fork_child s).
Proof.
  unfold do_fork_child, J. cbn [stack out]. split; [|constructor].
  apply Forall_forall. intros f Hf. apply in_map_iff in Hf. destruct Hf as (g & <- & _). apply fr_ok_set_written.
Qed.

(* the theorem: after the fork, every ENTRY record the child writes carries the time of an Enter event after the fork
   (or 0: the placeholder frames above --max-stack, which are never real calls) *)
Theorem child_writes_no_inherited_entry c es s hk :
  Forall (fun e => e <> ForkChild) es ->
  Forall (fun r => r_type r = ENTRY -> In (r_time r) (0 :: enter_times es))
         (out (fst (exec c es (do_fork_child s, hk)))).
Proof.
  intro NF.
  pose proof (exec_J c es NF [0] (do_fork_child s, hk) (or_introl eq_refl) (fork_child_J s)) as [_ B].
  eapply Forall_impl; [|exact B]. intros r Hr E. specialize (Hr E).
  apply in_app_or in Hr. destruct Hr as [Hr|Hr].
  - right. apply in_rev. exact Hr.
  - destruct Hr as [<-|[]]. left. reflexivity.
Qed.
