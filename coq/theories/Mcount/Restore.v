(* C05: the filter state after a function returns equals the state before it was called.
   Proved for the always-push shape (-finstrument-functions / XRay) and EVERY configuration
   (any trigger table, -F/-N/-D/-t/-C, depth=/time=/size=/trace/trace_on/trace_off triggers). *)
From Coq Require Import NArith ZArith List Bool Lia.
Import ListNotations.
Require Import UV.Gen.Consts UV.Mcount.Model UV.Mcount.Forest UV.Mcount.PlainProofs.
Local Open Scope N_scope.

(* frames equal up to the WRITTEN flag (the only thing a descendant may change in an ancestor) *)
Definition clear_written (f : frame) : frame :=
  let g := f_flags f in
  {| f_addr := f_addr f; f_start := f_start f; f_end := f_end f;
     f_flags := {| norecord := norecord g; notrace := notrace g; filtered := filtered g; written := false;
                   disabled := disabled g; ftrace := ftrace g; fcaller := fcaller g; cygprof := cygprof g |};
     f_depth := f_depth f; sv_depth := sv_depth f; sv_max := sv_max f; sv_time := sv_time f;
     sv_size := sv_size f; f_ghost := f_ghost f |}.
Definition eqw (l1 l2 : list frame) : Prop := map clear_written l1 = map clear_written l2.

Lemma eqw_refl l : eqw l l. Proof. reflexivity. Qed.
Lemma eqw_trans l1 l2 l3 : eqw l1 l2 -> eqw l2 l3 -> eqw l1 l3. Proof. unfold eqw; congruence. Qed.
Lemma eqw_sym l1 l2 : eqw l1 l2 -> eqw l2 l1. Proof. unfold eqw; congruence. Qed.
Lemma eqw_cons f g l1 l2 : clear_written f = clear_written g -> eqw l1 l2 -> eqw (f :: l1) (g :: l2).
Proof. unfold eqw; cbn; congruence. Qed.
Lemma eqw_app l1 l2 l3 l4 : eqw l1 l2 -> eqw l3 l4 -> eqw (l1 ++ l3) (l2 ++ l4).
Proof. unfold eqw. rewrite !map_app. congruence. Qed.
Lemma eqw_length l1 l2 : eqw l1 l2 -> length l1 = length l2.
Proof. unfold eqw. intro H. apply (f_equal (@length _)) in H. rewrite !map_length in H. exact H. Qed.

Lemma cw_set_written f : clear_written (set_written f) = clear_written f.
Proof. destruct f as [a s e [ ] d s1 s2 s3 s4 g]; reflexivity. Qed.

Lemma flush_anc_eqw l : eqw (fst (flush_anc l)) l.
Proof.
  induction l as [|p r IH]; [reflexivity|]. cbn [flush_anc].
  destruct (written (f_flags p)); [reflexivity|].
  destruct (flush_anc r) as [r' recs]. cbn [fst] in IH.
  destruct (skip p); cbn [fst]; apply eqw_cons; auto using cw_set_written.
Qed.

Lemma rtd_eqw top anc :
  let '(top', anc', _) := record_trace_data top anc in
  clear_written top' = clear_written top /\ eqw anc' anc.
Proof.
  unfold record_trace_data.
  destruct (written (f_flags top)) eqn:W.
  - cbn [orb]. split; reflexivity.
  - pose proof (flush_anc_eqw anc) as E. destruct (flush_anc anc) as [anc' pre]. cbn [fst] in E.
    cbn [orb]. destruct (skip top); split; auto using cw_set_written.
Qed.

Lemma check_rstack_eqw c s :
  let s' := fst (check_rstack c s) in
  fc s' = fc s /\ enabled s' = enabled s /\ cached s' = cached s /\ ridx s' = ridx s /\ eqw (stack s') (stack s).
Proof.
  unfold check_rstack. destruct (max_stack c <=? idx s).
  - destruct (warned s); [cbn; auto using eqw_refl|].
    destruct (skipn _ (stack s)) as [|top anc] eqn:E.
    + cbn; auto using eqw_refl.
    + pose proof (rtd_eqw top anc) as R. destruct (record_trace_data top anc) as [[top' anc'] recs].
      cbn [fst fc enabled cached ridx stack]. repeat split; try reflexivity.
      destruct R as [R1 R2].
      pose proof (firstn_skipn (length (stack s) - N.to_nat (max_stack c)) (stack s)) as FS. rewrite E in FS.
      eapply eqw_trans; [|rewrite <- FS; apply eqw_refl].
      apply eqw_app; [apply eqw_refl|]. apply eqw_cons; assumption.
  - cbn; auto using eqw_refl.
Qed.

Lemma check_rstack_idx c s : snd (check_rstack c s) = (max_stack c <=? idx s).
Proof.
  unfold check_rstack. destruct (max_stack c <=? idx s); [|reflexivity].
  destruct (warned s); [reflexivity|]. destruct (skipn _ _); [reflexivity|].
  destruct (record_trace_data _ _) as [[? ?] ?]. reflexivity.
Qed.

(* what an entry under the always-push shape guarantees about the new state *)
Definition delta_in (f : frame) : Z := if filtered (f_flags f) then 1 else 0.
Definition delta_out (f : frame) : Z :=
  if filtered (f_flags f) then 0 else if notrace (f_flags f) then 1 else 0.

Definition entered (s s1 : st) : Prop :=
  exists top rest,
    stack s1 = top :: rest /\ eqw rest (stack s) /\
    (f_ghost top = true /\ fc s1 = fc s /\ ridx s1 = ridx s \/
     f_ghost top = false /\
     in_count (fc s1) = (in_count (fc s) + delta_in top)%Z /\
     out_count (fc s1) = (out_count (fc s) + delta_out top)%Z /\
     sv_depth top = depth (fc s) /\ sv_max top = max_depth (fc s) /\
     sv_time top = ftime (fc s) /\ sv_size top = fsize (fc s) /\
     ridx s1 = (if norecord (f_flags top) then ridx s else ridx s + 1)).

Lemma entry_record_entered c s0 s fr tr d m t z :
  fc s0 = fc s0 -> eqw (stack s) (stack s0) -> ridx s = ridx s0 ->
  f_ghost fr = false ->
  let s1 := entry_record c s fr tr (d, m, t, z) in
  exists top rest, stack s1 = top :: rest /\ eqw rest (stack s0) /\ f_ghost top = false /\
    fc s1 = fc s /\
    filtered (f_flags top) = match t_filter tr with Some true => true | _ => false end /\
    notrace (f_flags top) = match t_filter tr with Some false => true | _ => false end /\
    sv_depth top = d /\ sv_max top = m /\ sv_time top = t /\ sv_size top = z /\
    ridx s1 = (if norecord (f_flags top) then ridx s0 else ridx s0 + 1).
Proof.
  intros _ Hst Hr Hg. unfold entry_record. cbv zeta.
  set (nr := norecord (f_flags fr) || (out_count (fc s) >? 0)%Z || ((in_count (fc s) =? 0)%Z && fmode_in c)
             || ((0 <? fsize (fc s)) && (sym_size c (f_addr fr) <? fsize (fc s)))).
  destruct nr eqn:Enr.
  - eexists _, _. cbn [stack fc ridx f_flags norecord filtered notrace sv_depth sv_max sv_time sv_size f_ghost].
    repeat split; try reflexivity; try assumption.
  - destruct (enabled s).
    + eexists _, _. cbn [stack fc ridx f_flags norecord filtered notrace sv_depth sv_max sv_time sv_size f_ghost].
      rewrite Hr. repeat split; try reflexivity; try assumption.
    + destruct (cached s).
      * match goal with |- context [record_trace_data ?a ?b] =>
          pose proof (rtd_eqw a b) as R; destruct (record_trace_data a b) as [[top' anc'] recs] end.
        destruct R as [R1 R2].
        eexists _, _. cbn [stack fc ridx].
        split; [reflexivity|]. split; [eapply eqw_trans; eassumption|].
        assert (P : forall (F : frame -> bool) , (forall f, F (clear_written f) = F f) -> F top' = F _) by
          (intros F HF; rewrite <- (HF top'), R1, HF; reflexivity).
        assert (Q : forall (F : frame -> N) , (forall f, F (clear_written f) = F f) -> F top' = F _) by
          (intros F HF; rewrite <- (HF top'), R1, HF; reflexivity).
        rewrite (P f_ghost) by reflexivity.
        rewrite (P (fun f => filtered (f_flags f))) by reflexivity.
        rewrite (P (fun f => notrace (f_flags f))) by reflexivity.
        rewrite (P (fun f => norecord (f_flags f))) by reflexivity.
        rewrite (Q sv_depth), (Q sv_max), (Q sv_time), (Q sv_size) by reflexivity.
        cbn [f_flags norecord filtered notrace sv_depth sv_max sv_time sv_size f_ghost]. rewrite Hr.
        repeat split; reflexivity.
      * eexists _, _. cbn [stack fc ridx f_flags norecord filtered notrace sv_depth sv_max sv_time sv_size f_ghost].
        rewrite Hr. repeat split; try reflexivity; try assumption.
Qed.

Lemma entry_check_facts c s0 a :
  let '(s, v, tr, sv) := entry_check c s0 a in
  eqw (stack s) (stack s0) /\ ridx s = ridx s0 /\
  (v = V_RSTACK -> fc s = fc s0) /\
  (v <> V_RSTACK ->
     sv = (depth (fc s0), max_depth (fc s0), ftime (fc s0), fsize (fc s0)) /\
     in_count (fc s) = (in_count (fc s0) + match t_filter tr with Some true => 1 | _ => 0 end)%Z /\
     out_count (fc s) = (out_count (fc s0) + match t_filter tr with Some false => 1 | _ => 0 end)%Z).
Proof.
  unfold entry_check.
  pose proof (check_rstack_eqw c s0) as (F & _ & _ & R & E).
  pose proof (check_rstack_idx c s0) as I.
  destruct (check_rstack c s0) as [s over]. cbn [fst snd] in *.
  destruct over.
  - repeat split; try assumption; try (intro HH; congruence); try (exfalso; congruence).
  - rewrite F.
    destruct (out_count (fc s0) >? 0)%Z.
    + repeat split; try assumption; try congruence; cbn [notrig t_filter]; rewrite ?F; lia.
    + destruct (trig_of c a) as [tf td tt tz ton toff ttr tcl]. cbn [t_filter t_depth t_time t_size t_trace_on t_trace_off].
      unfold with_fc.
      destruct tf as [[|]|], td as [dv|], tt as [tv|], tz as [zv|];
        cbn [t_filter t_depth t_time t_size t_trace_on t_trace_off];
        repeat match goal with
               | |- context [if ?b then _ else _] => destruct b
               end;
        cbn [fc stack ridx in_count out_count t_filter]; repeat split; try assumption; try congruence;
        rewrite ?F; try lia.
Qed.


(* the exit hook undoes what the matching entry did to the filter state *)
Lemma exit_record_restores c s s2 top topx rest2 :
  clear_written (set_end topx 0) = clear_written (set_end top 0) ->
  f_ghost top = false ->
  in_count (fc s2) = (in_count (fc s) + delta_in top)%Z ->
  out_count (fc s2) = (out_count (fc s) + delta_out top)%Z ->
  sv_depth top = depth (fc s) -> sv_max top = max_depth (fc s) ->
  sv_time top = ftime (fc s) -> sv_size top = fsize (fc s) ->
  ridx s2 = (if norecord (f_flags top) then ridx s else ridx s + 1) ->
  eqw rest2 (stack s) ->
  let s3 := exit_record c s2 topx rest2 in
  fc s3 = fc s /\ ridx s3 = ridx s /\ eqw (stack s3) (stack s).
Proof.
  intros Et G Hin Hout D M T Z R1 Erest. cbv zeta.
  assert (Px : forall (F : frame -> bool), (forall f tt, F (set_end f tt) = F f) ->
               (forall f, F (clear_written f) = F f) -> F topx = F top).
  { intros F H1 H2. rewrite <- (H1 topx 0), <- (H2 (set_end topx 0)), Et, H2, H1. reflexivity. }
  assert (Qx : forall (F : frame -> N), (forall f tt, F (set_end f tt) = F f) ->
               (forall f, F (clear_written f) = F f) -> F topx = F top).
  { intros F H1 H2. rewrite <- (H1 topx 0), <- (H2 (set_end topx 0)), Et, H2, H1. reflexivity. }
  unfold exit_record.
  rewrite (Px (fun f => filtered (f_flags f))), (Px (fun f => notrace (f_flags f))),
    (Px (fun f => norecord (f_flags f))) by reflexivity.
  rewrite (Qx sv_depth), (Qx sv_max), (Qx sv_time), (Qx sv_size) by reflexivity.
  rewrite Hin, Hout, D, M, T, Z, R1. unfold delta_in, delta_out.
  assert (FC : {| in_count := if filtered (f_flags top)
                              then (in_count (fc s) + (if filtered (f_flags top) then 1 else 0) - 1)%Z
                              else (in_count (fc s) + (if filtered (f_flags top) then 1 else 0))%Z;
                  out_count := if filtered (f_flags top)
                               then (out_count (fc s) + (if filtered (f_flags top) then 0
                                                         else if notrace (f_flags top) then 1 else 0))%Z
                               else if notrace (f_flags top)
                                    then (out_count (fc s) + (if filtered (f_flags top) then 0
                                                              else if notrace (f_flags top) then 1 else 0) - 1)%Z
                                    else (out_count (fc s) + (if filtered (f_flags top) then 0
                                                              else if notrace (f_flags top) then 1 else 0))%Z;
                  depth := depth (fc s); max_depth := max_depth (fc s); ftime := ftime (fc s);
                  fsize := fsize (fc s) |} = fc s).
  { destruct (fc s) as [ic oc dd mm tt zz]. cbn [in_count out_count depth max_depth ftime fsize].
    destruct (filtered (f_flags top)), (notrace (f_flags top)); f_equal; lia. }
  destruct (norecord (f_flags top)) eqn:NR.
  + cbn [fc ridx stack]. rewrite FC. repeat split; try reflexivity. exact Erest.
  + assert (RI : (if 0 <? ridx s + 1 then ridx s + 1 - 1 else 0) = ridx s).
    { assert ((0 <? ridx s + 1) = true) as -> by (apply N.ltb_lt; lia). lia. }
    rewrite RI.
    destruct (negb (enabled s2)).
    * cbn [fc ridx stack]. rewrite FC. repeat split; try reflexivity. exact Erest.
    * match goal with |- context [if ?b then _ else _] => destruct b end.
      -- pose proof (rtd_eqw topx rest2) as RT.
         destruct (record_trace_data topx rest2) as [[tp anc'] recs]. destruct RT as [_ RT].
         cbn [fc ridx stack]. rewrite FC. repeat split; try reflexivity.
         eapply eqw_trans; eassumption.
      -- cbn [fc ridx stack]. rewrite FC. repeat split; try reflexivity. exact Erest.
Qed.

Lemma cw_set_end_congr f g t : clear_written f = clear_written g ->
  clear_written (set_end (set_end f t) 0) = clear_written (set_end g 0).
Proof.
  intro H. destruct f as [a1 s1 e1 [n1 t1 fi1 w1 d1 tr1 c1 cy1] dp1 x1 x2 x3 x4 g1],
                    g as [a2 s2 e2 [n2 t2 fi2 w2 d2 tr2 c2 cy2] dp2 y1 y2 y3 y4 g2].
  unfold clear_written, set_end in *. cbn in *. injection H; intros; subst. reflexivity.
Qed.
Lemma cw_set_end0_congr f g : clear_written f = clear_written g ->
  clear_written (set_end f 0) = clear_written (set_end g 0).
Proof.
  intro H. destruct f as [a1 s1 e1 [n1 t1 fi1 w1 d1 tr1 c1 cy1] dp1 x1 x2 x3 x4 g1],
                    g as [a2 s2 e2 [n2 t2 fi2 w2 d2 tr2 c2 cy2] dp2 y1 y2 y3 y4 g2].
  unfold clear_written, set_end in *. cbn in *. injection H; intros; subst. reflexivity.
Qed.

Section cyg.
  Variable c : cfg.
  Hypothesis Hshape : shp c = CYG.

  Lemma hooked_cyg s a : hooked c s a = true.
  Proof. unfold hooked. rewrite Hshape. reflexivity. Qed.

  Lemma enter_cyg s a t : entered s (do_enter c s a t).
  Proof.
    unfold do_enter. pose proof (entry_check_facts c s a) as H.
    destruct (entry_check c s a) as [[[s1 v] tr] sv]. destruct H as (E & R & HR & HN).
    rewrite Hshape. destruct v.
    - destruct HN as (Hsv & Hin & Hout); [discriminate|]. subst sv.
      match goal with |- entered _ (entry_record _ _ ?fr _ (?d0, ?m0, ?t0, ?z0)) =>
        destruct (entry_record_entered c s s1 fr tr d0 m0 t0 z0 eq_refl E R eq_refl)
          as (top & rest & S1 & E1 & G1 & F1 & Fl & Nt & D1 & M1 & T1 & Z1 & R1) end.
      exists top, rest. split; [exact S1|]. split; [exact E1|]. right.
      rewrite F1. unfold delta_in, delta_out. rewrite Fl, Nt.
      repeat split; try assumption.
      + rewrite Hin. destruct (t_filter tr) as [[|]|]; reflexivity.
      + rewrite Hout. destruct (t_filter tr) as [[|]|]; reflexivity.
    - destruct HN as (Hsv & Hin & Hout); [discriminate|]. subst sv.
      match goal with |- entered _ (entry_record _ _ ?fr _ (?d0, ?m0, ?t0, ?z0)) =>
        destruct (entry_record_entered c s s1 fr tr d0 m0 t0 z0 eq_refl E R eq_refl)
          as (top & rest & S1 & E1 & G1 & F1 & Fl & Nt & D1 & M1 & T1 & Z1 & R1) end.
      exists top, rest. split; [exact S1|]. split; [exact E1|]. right.
      rewrite F1. unfold delta_in, delta_out. rewrite Fl, Nt.
      repeat split; try assumption.
      + rewrite Hin. destruct (t_filter tr) as [[|]|]; reflexivity.
      + rewrite Hout. destruct (t_filter tr) as [[|]|]; reflexivity.
    - exists ghost_frame, (stack s1). cbn [stack fc ridx]. split; [reflexivity|]. split; [exact E|].
      left. split; [reflexivity|]. split; [apply HR; reflexivity|exact R].
  Qed.

  Lemma fctl_eta f : f = {| in_count := in_count f; out_count := out_count f; depth := depth f;
                            max_depth := max_depth f; ftime := ftime f; fsize := fsize f |}.
  Proof. destruct f; reflexivity. Qed.

  (* the matching exit undoes the entry *)
  Lemma leave_cyg s s1 s2 t : entered s s1 ->
    fc s2 = fc s1 -> ridx s2 = ridx s1 -> eqw (stack s2) (stack s1) ->
    let s3 := do_leave c s2 t in
    fc s3 = fc s /\ ridx s3 = ridx s /\ eqw (stack s3) (stack s).
  Proof.
    intros (top & rest & S1 & E1 & H) F2 R2 E2. cbv zeta.
    unfold do_leave. rewrite S1 in E2.
    destruct (stack s2) as [|top2 rest2] eqn:S2; [discriminate|].
    unfold eqw in E2. cbn [map] in E2.
    assert (Et : clear_written top2 = clear_written top)
      by (apply (f_equal (fun l => hd (clear_written top) l)) in E2; exact E2).
    assert (Er : eqw rest2 rest) by (apply (f_equal (@tl _)) in E2; exact E2).
    assert (Erest : eqw rest2 (stack s)) by (eapply eqw_trans; [exact Er|exact E1]).
    assert (P : forall (F : frame -> bool), (forall f, F (clear_written f) = F f) -> F top2 = F top)
      by (intros F HF; rewrite <- (HF top2), Et, HF; reflexivity).
    assert (Q : forall (F : frame -> N), (forall f, F (clear_written f) = F f) -> F top2 = F top)
      by (intros F HF; rewrite <- (HF top2), Et, HF; reflexivity).
    rewrite (P f_ghost) by reflexivity.
    destruct H as [(G & F1 & R1)|(G & Hin & Hout & D & M & T & Z & R1)]; rewrite G.
    - cbn [fc ridx stack]. repeat split; [congruence|congruence|exact Erest].
    - rewrite Hshape.
      apply (exit_record_restores c s s2 top); try assumption; try congruence.
      destruct (norecord (f_flags top2)); [apply cw_set_end0_congr|apply cw_set_end_congr]; exact Et.
  Qed.

  Theorem restored_cyg : forall k s hk,
    exists s', exec c (flat k) (s, hk) = (s', hk) /\
               fc s' = fc s /\ ridx s' = ridx s /\ eqw (stack s') (stack s).
  Proof.
    induction k as [a t0 t1 kids IH] using call_ind'. intros s hk.
    assert (RK : forall s hk, exists s', exec c (flat_map flat kids) (s, hk) = (s', hk) /\
                                         fc s' = fc s /\ ridx s' = ridx s /\ eqw (stack s') (stack s)).
    { clear s hk. induction IH as [|k r Hk _ IHr]; intros s hk.
      - exists s. repeat split; reflexivity.
      - destruct (Hk s hk) as (s1 & E1 & F1 & R1 & W1).
        destruct (IHr s1 hk) as (s2 & E2 & F2 & R2 & W2).
        exists s2. cbn [flat_map]. unfold exec in *. rewrite fold_left_app, E1, E2.
        repeat split; [congruence|congruence|eapply eqw_trans; eassumption]. }
    cbn [flat]. unfold exec. cbn [fold_left dstep]. rewrite fold_left_app. cbn [fold_left].
    rewrite hooked_cyg.
    destruct (RK (do_enter c s a t0) (true :: hk)) as (s2 & E2 & F2 & R2 & W2).
    unfold exec in E2. rewrite E2. cbn [dstep].
    destruct (leave_cyg s (do_enter c s a t0) s2 t1 (enter_cyg s a t0) F2 R2 W2) as (F3 & R3 & W3).
    eexists. split; [reflexivity|]. auto.
  Qed.
End cyg.

(* ---------------------------------------------------------------- the push-only-on-accept shape (-pg, fentry) *)
Lemma state_trig_false tr : state_trig tr = false ->
  t_filter tr = None /\ t_depth tr = None /\ t_time tr = None /\ t_size tr = None.
Proof.
  unfold state_trig. destruct (t_filter tr) as [[|]|], (t_depth tr), (t_time tr), (t_size tr); intro H;
    try discriminate H; auto.
Qed.

Lemma entry_check_nostate c s0 a :
  let '(s, v, tr, sv) := entry_check c s0 a in
  v = V_OUT -> state_trig tr = false -> fc s = fc s0.
Proof.
  unfold entry_check.
  pose proof (check_rstack_eqw c s0) as (F & _).
  destruct (check_rstack c s0) as [s over]. cbn [fst] in F.
  destruct over; [intros; discriminate|].
  destruct (out_count (fc s) >? 0)%Z; [intros; exact F|].
  remember (trig_of c a) as tr eqn:Etr. clear Etr.
  match goal with |- context [if ?b then (_, V_OUT, tr, _) else _] => destruct b end.
  - intros _ Hst. destruct (state_trig_false tr Hst) as (H1 & H2 & H3 & H4).
    unfold with_fc. cbn [fc]. rewrite H1. exact F.
  - match goal with |- context [if ?b then (_, V_OUT, tr, _) else _] => destruct b end;
      [intros _ Hst; destruct (state_trig_false tr Hst) as (H1 & H2 & H3 & H4);
       unfold with_fc; cbn [fc]; rewrite H1; exact F|].
    match goal with |- context [if ?b then (_, V_OUT, tr, _) else _] => destruct b end.
    + intros _ Hst. destruct (state_trig_false tr Hst) as (H1 & H2 & H3 & H4).
      unfold with_fc. cbn [fc]. rewrite H1, H2, H3, H4. cbn [in_count out_count depth max_depth ftime fsize].
      rewrite <- F. destruct (fc s); reflexivity.
    + intros Hv. discriminate Hv.
Qed.

Section pg.
  Variable c : cfg.
  Hypothesis Hshape : shp c = PG.

  (* since mcount_entry_filter_undo: EVERY configuration, like the always-push shape *)
  Theorem restored_pg : forall k s hk,
    exists s', exec c (flat k) (s, hk) = (s', hk) /\
               fc s' = fc s /\ ridx s' = ridx s /\ eqw (stack s') (stack s).
  Proof.
    induction k as [a t0 t1 kids IH] using call_ind'. intros s hk.
    assert (RK : forall s hk,
                 exists s', exec c (flat_map flat kids) (s, hk) = (s', hk) /\
                            fc s' = fc s /\ ridx s' = ridx s /\ eqw (stack s') (stack s)).
    { clear s hk. induction IH as [|k r Hk _ IHr]; intros s hk.
      - exists s. repeat split; reflexivity.
      - destruct (Hk s hk) as (s1 & E1 & F1 & R1 & W1).
        destruct (IHr s1 hk) as (s2 & E2 & F2 & R2 & W2).
        exists s2. cbn [flat_map]. unfold exec in *. rewrite fold_left_app, E1, E2.
        repeat split; [congruence|congruence|eapply eqw_trans; eassumption]. }
    cbn [flat]. unfold exec. cbn [fold_left dstep]. rewrite fold_left_app. cbn [fold_left].
    unfold hooked, do_enter. rewrite Hshape.
    pose proof (entry_check_facts c s a) as H. pose proof (entry_check_nostate c s a) as NSt.
    destruct (entry_check c s a) as [[[s1 v] tr] sv]. destruct H as (E & R & HR & HN).
    (* a frame is pushed (accepted call, or a rejected one whose trigger changed the state): its exit restores *)
    assert (PUSH : forall fr, f_ghost fr = false -> v <> V_RSTACK ->
              exists s', dstep c (fold_left (dstep c) (flat_map flat kids) (entry_record c s1 fr tr sv, true :: hk))
                               (Leave t1) = (s', hk) /\
                         fc s' = fc s /\ ridx s' = ridx s /\ eqw (stack s') (stack s)).
    { intros fr Hg Hv. destruct HN as (Hsv & Hin & Hout); [exact Hv|]. subst sv.
      match goal with |- context [entry_record _ _ fr _ (?d0, ?m0, ?t0', ?z0)] =>
        destruct (entry_record_entered c s s1 fr tr d0 m0 t0' z0 eq_refl E R Hg)
          as (top & rest & S1 & E1 & G1 & F1 & Fl & Nt & D1 & M1 & T1 & Z1 & R1);
        set (s1' := entry_record c s1 fr tr (d0, m0, t0', z0)) in * end.
      destruct (RK s1' (true :: hk)) as (s2 & E2 & F2 & R2 & W2).
      unfold exec in E2. rewrite E2. cbn [dstep].
      unfold do_leave. rewrite S1 in W2.
      destruct (stack s2) as [|top2 rest2] eqn:S2; [discriminate|].
      unfold eqw in W2. cbn [map] in W2.
      assert (Et : clear_written top2 = clear_written top)
        by (apply (f_equal (fun l => hd (clear_written top) l)) in W2; exact W2).
      assert (Er : eqw rest2 rest) by (apply (f_equal (@tl _)) in W2; exact W2).
      assert (Gh : f_ghost top2 = false).
      { assert (f_ghost (clear_written top2) = f_ghost top2) as <- by reflexivity. rewrite Et. exact G1. }
      rewrite Gh, Hshape.
      eexists. split; [reflexivity|].
      apply (exit_record_restores c s s2 top);
        [ apply cw_set_end_congr; exact Et
        | exact G1
        | rewrite F2, F1, Hin; unfold delta_in; rewrite Fl; destruct (t_filter tr) as [[|]|]; reflexivity
        | rewrite F2, F1, Hout; unfold delta_out; rewrite Fl, Nt; destruct (t_filter tr) as [[|]|]; reflexivity
        | exact D1 | exact M1 | exact T1 | exact Z1
        | rewrite R2; exact R1
        | eapply eqw_trans; eassumption ]. }
    destruct v.
    - (* accepted *)
      apply PUSH; [reflexivity|discriminate].
    - destruct (state_trig tr) eqn:ST.
      + (* rejected, but its trigger changed the filter state: a NORECORD frame carries and restores it *)
        apply PUSH; [reflexivity|discriminate].
      + (* rejected without a state change: nothing pushed *)
        destruct (RK s1 (false :: hk)) as (s2 & E2 & F2 & R2 & W2).
        unfold exec in E2. rewrite E2. cbn [dstep].
        exists s2. split; [reflexivity|]. rewrite F2, R2, (NSt eq_refl eq_refl).
        repeat split; [assumption|eapply eqw_trans; eassumption].
    - (* beyond the stack limit: nothing changed *)
      destruct (RK s1 (false :: hk)) as (s2 & E2 & F2 & R2 & W2).
      unfold exec in E2. rewrite E2. cbn [dstep].
      exists s2. split; [reflexivity|]. rewrite F2, R2, HR by reflexivity.
      repeat split; [assumption|eapply eqw_trans; eassumption].
  Qed.
End pg.

(* ---------------------------------------------------------------- the code as found: state leaked on the -pg shape *)
(* `-D 1 -T b@time=1000`: main (f0) calls b (f1); b is rejected by the depth limit AFTER its time=
   trigger changed the threshold; nothing restored it, so main's own exit was judged against b's
   threshold and main disappeared from the trace. *)
Definition leak_cfg : cfg :=
  mkcfg [(1, {| t_filter := None; t_depth := None; t_time := Some 1000; t_size := None;
                t_trace_on := false; t_trace_off := false; t_trace := false; t_caller := false; t_loc := None; t_finish := false |})]
        false false 1 0 1024 [] PG.
Definition leak_events : list ev := [Enter 0 100; Enter 1 110; Leave 120; Leave 200].
Definition cyg_of (c : cfg) : cfg :=
  {| trig_of := trig_of c; fmode_in := fmode_in c; has_caller := has_caller c; gdepth := gdepth c;
     threshold := threshold c; max_stack := max_stack c; sym_size := sym_size c; shp := CYG; lmode_in := lmode_in c |}.

Lemma pg_leak_legacy_refuted :
  (* legacy: after b's entry was rejected the filter state differed from the state before the call ... *)
  ftime (fc (fst (exec_legacy leak_cfg [Enter 0 100; Enter 1 110; Leave 120] (init, [])))) <>
  ftime (fc (fst (exec_legacy leak_cfg [Enter 0 100] (init, [])))) /\
  (* ... and the recorded result depended on the instrumentation method *)
  out (fst (exec_legacy leak_cfg leak_events (init, []))) = [] /\
  out (fst (exec (cyg_of leak_cfg) leak_events (init, []))) <> [] /\
  (* repaired: both shapes record the same two records *)
  out (fst (exec leak_cfg leak_events (init, []))) = out (fst (exec (cyg_of leak_cfg) leak_events (init, []))).
Proof. vm_compute. repeat split; congruence. Qed.

(* `-T b@depth=0`: a later sibling c() in the same parent disappeared *)
Definition leak2_cfg : cfg :=
  mkcfg [(1, {| t_filter := None; t_depth := Some 0; t_time := None; t_size := None;
                t_trace_on := false; t_trace_off := false; t_trace := false; t_caller := false; t_loc := None; t_finish := false |})]
        false false 1024 0 1024 [] PG.
Lemma pg_leak2_legacy_refuted :
  let es := [Enter 0 100; Enter 1 110; Leave 120; Enter 2 130; Leave 140; Leave 200] in
  length (out (fst (exec_legacy leak2_cfg es (init, [])))) = 2%nat /\
  length (out (fst (exec leak2_cfg es (init, [])))) = 4%nat /\
  length (out (fst (exec (cyg_of leak2_cfg) es (init, [])))) = 4%nat.
Proof. vm_compute. repeat split; reflexivity. Qed.

Lemma method_independent thr gd ms f : all_timed f -> heights f <= ms ->
  out (fst (exec (plain thr gd ms PG) (flat_forest f) (init, []))) =
  out (fst (exec (plain thr gd ms CYG) (flat_forest f) (init, []))).
Proof. intros. rewrite !UV.Mcount.PlainProofs.run_forest by assumption. reflexivity. Qed.

