(* C05 stage 2: documented semantics of -F / -N / -D / -t together with the trigger actions depth=N and
   time=T (-T f@depth=N, -T f@time=T, also combined with filter / notrace on the same function), as a
   function on call trees (no proofs here). *)
From Coq Require Import NArith ZArith List Bool.
Import ListNotations.
Require Import UV.Gen.Consts UV.Mcount.Model UV.Mcount.Forest UV.Mcount.SelectSpec.
Local Open Scope N_scope.

(* what the options say about one function *)
Record strig := { sf : option bool;       (* -F f / -T f@filter (Some true), -N f / -T f@notrace (Some false) *)
                  sd : option N;          (* -T f@depth=N *)
                  stm : option N;         (* -T f@time=T *)
                  ssz : option N;         (* -T f@size=Z *)
                  str : bool;             (* -T f@trace *)
                  sc : bool;              (* -C f / -T f@caller *)
                  sl : option bool }.     (* -L: f lies at a location to show (Some true) / to hide (Some false, @hide) *)
Definition notrig2 : strig := {| sf := None; sd := None; stm := None; ssz := None; str := false; sc := false; sl := None |}.

Definition ftrig2 (g : strig) : trig :=
  {| t_filter := sf g; t_depth := sd g; t_time := stm g; t_size := ssz g;
     t_trace_on := false; t_trace_off := false; t_trace := str g; t_caller := sc g; t_loc := sl g; t_finish := false |}.
Definition fcfg2 (tg : N -> strig) (szf : N -> N) (fm hc lm : bool) (gd thr ms : N) (sh : shape) : cfg :=
  {| trig_of := fun a => ftrig2 (tg a); fmode_in := fm; has_caller := hc; gdepth := gd; threshold := thr;
     max_stack := ms; sym_size := szf; shp := sh; lmode_in := lm |}.

Record sctx2 := { dead2 : bool;      (* inside a notrace function *)
                  scope2 : bool;     (* inside a filter function, or no opt-in filter given *)
                  budget2 : N;       (* nesting levels still shown *)
                  lim2 : N;          (* depth limit in force (-D, or the innermost depth= trigger) *)
                  cthr2 : N;         (* time threshold in force (-t, or the innermost time= trigger) *)
                  csz2 : N }.        (* size filter in force (the innermost size= trigger; 0 = none) *)

Definition is_some {A} (o : option A) : bool := match o with Some _ => true | None => false end.

(* documented meaning (doc/uftrace-record.md, FILTERS and TRIGGERS): notrace hides the function and everything
   below it; with an opt-in filter only filter functions and what they call are shown; the depth limit counts
   nesting from the outermost shown function, afresh inside a filter function and inside a function with a
   depth=N trigger (N levels, the function itself included, until it returns); time=T replaces the threshold
   for the function and everything below it until it returns; size=Z hides every function smaller than Z bytes
   from here down until the function returns (a hidden function still counts as a nesting level and its callees
   are shown); a selected call that did not run longer than
   the threshold in force is hidden unless one of its callees is shown; with a caller filter (-C, [hc]) a
   selected call is shown only if it is a caller-filter function itself (and passes the time test) or one of its
   callees is shown; a function with the trace action is shown whenever it is selected, whatever the time and
   caller filters say.  Trigger actions of a function outside every opt-in filter function are not looked at.
   Location filter (-L, [lm] = some location is named to be shown): a function at a hidden location (@hide), or
   outside every shown location, is not shown and is no nesting level; what it calls is judged on its own; if
   it is a filter function the opt-in scope still opens below it (with a fresh depth budget), its other trigger
   actions are not applied. *)
Definition loc_hidden (lm : bool) (g : strig) : bool := match sl g with Some b => negb b | None => lm end.
Fixpoint sel2 (tg : N -> strig) (szf : N -> N) (hc lm : bool) (x : sctx2) (d : N) (k : call) : list rec :=
  match k with
  | Call a t0 t1 kids =>
      if dead2 x then []
      else
        let g := tg a in
        match sf g with
        | Some false => []
        | _ =>
            if is_some (sf g) || scope2 x then
              if loc_hidden lm g then
                flat_map (sel2 tg szf hc lm
                            (if is_some (sf g)
                             then {| dead2 := false; scope2 := true; budget2 := lim2 x; lim2 := lim2 x;
                                     cthr2 := cthr2 x; csz2 := csz2 x |}
                             else x) d) kids
              else
              let lim' := match sd g with Some n => n | None => lim2 x end in
              let thr' := match stm g with Some t => t | None => cthr2 x end in
              let sz' := match ssz g with Some z => z | None => csz2 x end in
              let bud := match sd g with
                         | Some n => n
                         | None => if is_some (sf g) then lim2 x else budget2 x
                         end in
              if 0 <? bud then
                let x' := {| dead2 := false; scope2 := scope2 x || is_some (sf g); budget2 := bud - 1;
                             lim2 := lim'; cthr2 := thr'; csz2 := sz' |} in
                if (0 <? sz') && (szf a <? sz') then
                  (* smaller than the size filter in force: hidden, but it still uses up one nesting level *)
                  flat_map (sel2 tg szf hc lm x' d) kids
                else
                let ks := flat_map (sel2 tg szf hc lm x' (d + 1)) kids in
                if ((thr' <=? t1 - t0) && (negb hc || sc g)) || str g || negb (is_nil ks) then E_ a t0 d :: ks ++ [X_ a t1 d] else []
              else
                (* beyond the depth limit: not shown; a time= trigger still governs what is below *)
                flat_map (sel2 tg szf hc lm {| dead2 := false; scope2 := scope2 x; budget2 := budget2 x; lim2 := lim2 x;
                                         cthr2 := thr'; csz2 := sz' |} d) kids
            else flat_map (sel2 tg szf hc lm x d) kids
        end
  end.

Definition x02z (fm : bool) (gd thr gz : N) : sctx2 :=
  {| dead2 := false; scope2 := negb fm; budget2 := gd; lim2 := gd; cthr2 := thr; csz2 := gz |}.
Definition x02 (fm : bool) (gd thr : N) : sctx2 :=
  {| dead2 := false; scope2 := negb fm; budget2 := gd; lim2 := gd; cthr2 := thr; csz2 := 0 |}.

(* well-formed trigger values: depth=0 is excluded (it hides the function like notrace but keeps counting),
   and the two sentinels libmcount uses for "no trigger in force" cannot be trigger values *)
Definition wf_tg (tg : N -> strig) : Prop :=
  forall a, (forall n, sd (tg a) = Some n -> 0 < n /\ n <> FILTER_NO_MAX_DEPTH) /\
            (forall t, stm (tg a) = Some t -> t <> NO_TIME).
