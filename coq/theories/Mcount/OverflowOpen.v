(* A history that ENDS beyond --max-stack (the process calls exit() at the bottom of a deep chain).
   While the shadow stack is full, calls are dropped and nothing is written lazily any more: the overflow flush of
   mcount_check_rstack is the only thing that puts the ENTRY records of the open chain into the stream.  Here: it
   runs at EVERY descent through the limit - whatever happened before (also when an earlier overflow left the
   `warned' flag set) a chain of calls that reaches --max-stack has the ENTRY record of each of its calls in the
   stream as soon as the limit is hit, in order, with depth = nesting, and every frame is marked written.
   (-pg / fentry / PLT shape, plain configuration, no threshold.) *)
From Coq Require Import NArith ZArith List Bool Lia.
Import ListNotations.
Require Import UV.Gen.Consts UV.Mcount.Model UV.Mcount.Forest UV.Mcount.PlainStep UV.Mcount.PlainProofs UV.Mcount.Overflow.
Local Open Scope N_scope.

Section overflow_open.
  Variables gd ms : N.
  Let c := plain 0 gd ms PG.

  (* the chain: calls (address, entry time), outermost first *)
  Fixpoint enters (l : list (N * N)) : list ev :=
    match l with [] => [] | (a, t) :: r => Enter a t :: enters r end.
  (* its frames, innermost first, depth/record index counted from d *)
  Fixpoint frames (w : bool) (l : list (N * N)) (d : N) (acc : list frame) : list frame :=
    match l with [] => acc | (a, t) :: r => frames w r (d + 1) (nf PG w a t d d :: acc) end.
  Fixpoint entries (l : list (N * N)) (d : N) : list rec :=
    match l with
    | [] => []
    | (a, t) :: r => {| r_time := t; r_type := ENTRY; r_depth := d; r_addr := a |} :: entries r (d + 1)
    end.

  Lemma frames_length w l : forall d acc, length (frames w l d acc) = (length l + length acc)%nat.
  Proof. induction l as [|[a t] r IH]; intros d acc; cbn [frames length]; [reflexivity|]. rewrite IH. cbn [length]. lia. Qed.

  (* entering the chain below both limits: one unwritten frame per call, nothing written, `warned' reset *)
  Lemma run_enters : forall l s hk d acc,
    fc s = fcd d -> enabled s = true -> ridx s = d -> stack s = acc ->
    d + N.of_nat (length l) <= gd -> N.of_nat (length acc) + N.of_nat (length l) <= ms -> l <> [] ->
    exists s', exec c (enters l) (s, hk) = (s', repeat true (length l) ++ hk) /\
               fc s' = fcd (d + N.of_nat (length l)) /\ enabled s' = true /\
               ridx s' = d + N.of_nat (length l) /\ stack s' = frames false l d acc /\ out s' = out s /\
               warned s' = false.
  Proof.
    induction l as [|[a t] r IH]; intros s hk d acc Hfc Hen Hr Hst Hg Hm Hne; [congruence|].
    cbn [enters length] in *. unfold exec. cbn [fold_left dstep].
    assert (Hd : d < gd) by lia.
    assert (Hi : idx s < ms) by (unfold idx; rewrite Hst; lia).
    unfold c. rewrite (enter_in 0 gd ms PG s d a t Hfc Hen Hd Hi), (hooked_in 0 gd ms PG s d a Hfc Hd Hi).
    set (s1 := {| fc := fcd (d + 1); enabled := true; cached := cached s;
                  stack := newframe PG a t (ridx s) d :: stack s; ridx := ridx s + 1; out := out s;
                  warned := false |}).
    destruct r as [|p r'].
    - exists s1. cbn [enters fold_left length repeat app frames].
      subst s1. cbn [fc enabled ridx stack out warned]. rewrite Hr, Hst.
      replace (d + N.of_nat 1) with (d + 1) by lia. repeat split; reflexivity.
    - destruct (IH s1 (true :: hk) (d + 1) (nf PG false a t d d :: acc)) as (s' & E & F' & En' & R' & S' & O' & W');
        try (subst s1; cbn [fc enabled ridx stack]; rewrite ?Hr, ?Hst; reflexivity);
        try (cbn [length] in *; lia); [discriminate|].
      exists s'. unfold exec, c in E. rewrite E.
      replace (repeat true (length (p :: r')) ++ true :: hk) with (repeat true (S (length (p :: r'))) ++ hk).
      2:{ clear. generalize (length (p :: r')). intro n. induction n as [|n IHn]; [reflexivity|].
          cbn [repeat app] in *. rewrite <- IHn. reflexivity. }
      replace (d + N.of_nat (S (length (p :: r')))) with (d + 1 + N.of_nat (length (p :: r'))) by lia.
      cbn [frames]. repeat split; assumption.
  Qed.

  (* flushing a stack of unwritten frames writes the ENTRY record of each, outermost first, and marks them all *)
  Lemma flush_frames : forall l d acc,
    flush_anc (frames false l d acc) =
    (frames true l d (fst (flush_anc acc)), snd (flush_anc acc) ++ entries l d).
  Proof.
    induction l as [|[a t] r IH]; intros d acc; cbn [frames entries].
    - rewrite app_nil_r. destruct (flush_anc acc); reflexivity.
    - rewrite IH, (flush_anc_nf PG). cbn [fst snd]. rewrite <- app_assoc. cbn [app].
      unfold entry_rec, newframe. cbn [f_start f_depth f_addr]. reflexivity.
  Qed.

  Lemma frames_ok w l : forall d acc, Forall okframe acc -> Forall okframe (frames w l d acc).
  Proof.
    induction l as [|[a t] r IH]; intros d acc H; cbn [frames]; [exact H|].
    apply IH. constructor; [|exact H]. destruct w; cbn [nf]; [apply okframe_set_written|]; repeat split; reflexivity.
  Qed.

  (* the entry that finds the shadow stack full, `warned' not set: everything open is flushed *)
  Lemma enter_full_flushes s a t top anc : idx s = ms -> warned s = false -> stack s = top :: anc ->
    Forall okframe (stack s) ->
    hooked c s a = false /\
    stack (do_enter c s a t) = fst (flush_anc (stack s)) /\
    out (do_enter c s a t) = out s ++ snd (flush_anc (stack s)).
  Proof.
    intros Hi W S Hok. unfold hooked, do_enter, entry_check.
    assert (E : (max_stack c <=? idx s) = true) by (apply N.leb_le; subst c; cbn [plain max_stack]; lia).
    unfold check_rstack. rewrite E, W.
    assert (K : (length (stack s) - N.to_nat (max_stack c))%nat = 0%nat).
    { subst c. cbn [plain max_stack]. unfold idx in Hi. lia. }
    rewrite K. cbn [firstn skipn app]. rewrite S in *.
    inversion Hok as [|? ? Htop Hanc]; subst.
    rewrite (rtd_open top anc Htop).
    subst c. cbn [plain shp stack out].
    assert (HD : hd top (fst (flush_anc (top :: anc))) :: tl (fst (flush_anc (top :: anc)))
                 = fst (flush_anc (top :: anc))).
    { pose proof (flush_anc_length (top :: anc)) as L.
      destruct (fst (flush_anc (top :: anc))); [discriminate|reflexivity]. }
    rewrite HD. repeat split; reflexivity.
  Qed.

  (* the theorem: from any quiescent state - whatever `warned' says - a chain of exactly --max-stack calls followed
     by one more call *)
  Theorem overflow_flushes_open_chain : forall l s hk b tb,
    fc s = fcd 0 -> enabled s = true -> ridx s = 0 -> stack s = [] ->
    N.of_nat (length l) = ms -> ms <= gd -> 0 < ms ->
    let s' := fst (exec c (enters l ++ [Enter b tb]) (s, hk)) in
    out s' = out s ++ entries l 0 /\ stack s' = frames true l 0 [].
  Proof.
    intros l s hk b tb Hfc Hen Hr Hst Hl Hg Hpos. cbn zeta.
    destruct (run_enters l s hk 0 [] Hfc Hen Hr Hst) as (s1 & E & F1 & En1 & R1 & S1 & O1 & W1);
      try (cbn [length]; lia); [intro X; subst l; cbn in Hl; lia|].
    unfold exec in *. rewrite fold_left_app, E. cbn [fold_left dstep fst].
    assert (Hne : exists top anc, stack s1 = top :: anc).
    { rewrite S1. destruct (frames false l 0 []) as [|x y] eqn:Q; [|eauto].
      pose proof (frames_length false l 0 []) as L. rewrite Q in L. cbn [length] in L. lia. }
    destruct Hne as (top & anc & Hs1).
    assert (Hi1 : idx s1 = ms). { unfold idx. rewrite S1, frames_length. cbn [length]. lia. }
    assert (Hok : Forall okframe (stack s1)) by (rewrite S1; apply frames_ok; constructor).
    destruct (enter_full_flushes s1 b tb top anc Hi1 W1 Hs1 Hok) as (_ & St & Ou).
    fold c. rewrite St, Ou, S1, flush_frames, O1. cbn [flush_anc fst snd app]. split; reflexivity.
  Qed.
End overflow_open.

(* non-vacuity: --max-stack=3, the state left by an earlier overflow (warned = true), a dive of 3 + 1 calls *)
Example overflow_open_example :
  let s := {| fc := fcd 0; enabled := true; cached := true; stack := []; ridx := 0; out := []; warned := true |} in
  out (fst (exec (plain 0 1024 3 PG) (enters [(16, 10); (32, 11); (48, 12)] ++ [Enter 64 13]) (s, []))) =
  [{| r_time := 10; r_type := ENTRY; r_depth := 0; r_addr := 16 |};
   {| r_time := 11; r_type := ENTRY; r_depth := 1; r_addr := 32 |};
   {| r_time := 12; r_type := ENTRY; r_depth := 2; r_addr := 48 |}].
Proof. vm_compute. reflexivity. Qed.
