(* Embed.v without the stack bound: for every configuration without a trace_on/trace_off trigger, both shapes and
   EVERY complete call forest - also one nested deeper than --max-stack - the recorded stream is the flattening of
   a forest embedded in the call history.  Calls beyond the limit are left out; the overflow flush of
   mcount_check_rstack (ENTRY records of the open frames, written once when the limit is first hit) only forces
   calls to be kept. *)
From Coq Require Import NArith ZArith List Bool Lia.
Import ListNotations.
Require Import UV.Gen.Consts UV.Mcount.Model UV.Mcount.Forest UV.Mcount.PlainStep UV.Mcount.PlainProofs UV.Mcount.Embed.
Local Open Scope N_scope.

Definition open_frames (l : list frame) : Prop := Forall (fun f => f_end f = 0) l.

Lemma flush_anc_open l : open_frames l -> open_frames (fst (flush_anc l)).
Proof.
  induction 1 as [|p r Hp Hr IH]; [constructor|]. cbn [flush_anc].
  destruct (written (f_flags p)); [constructor; assumption|].
  destruct (flush_anc r) as [r' recs]. cbn [fst] in IH.
  destruct (skip p); cbn [fst]; (constructor; [|exact IH]); [exact Hp|destruct p; exact Hp].
Qed.

Lemma emb_none_cons : forall k r, emb [] r -> emb [] (k :: r).
Proof.
  induction k as [a t0 t1 kids IH] using call_ind'. intros r Hr.
  assert (K : emb [] kids).
  { induction IH as [|x l Px _ IHl]; [constructor|]. apply Px. exact IHl. }
  exact (emb_drop a t0 t1 kids [] r [] K Hr).
Qed.
Lemma emb_none f : emb [] f.
Proof. induction f as [|k r IH]; [constructor|apply emb_none_cons; exact IH]. Qed.

(* mcount_check_rstack's flush of the open top frame is the ancestor flush of the whole stack *)
Lemma rtd_open top anc : f_end top = 0 ->
  let '(top', anc', recs) := record_trace_data top anc in
  top' :: anc' = fst (flush_anc (top :: anc)) /\ recs = snd (flush_anc (top :: anc)).
Proof.
  intro He. unfold record_trace_data. cbn [flush_anc].
  destruct (written (f_flags top)) eqn:W.
  - cbn [orb]. rewrite He. cbn. split; reflexivity.
  - destruct (flush_anc anc) as [anc' pre]. cbn [orb].
    destruct (skip top) eqn:Sk.
    + rewrite He. cbn. rewrite app_nil_r. split; reflexivity.
    + assert (He' : f_end (set_written top) = 0) by (destruct top; exact He). rewrite He'.
      cbn. split; reflexivity.
Qed.

Definition sameS (s s' : st) : Prop :=
  fc s' = fc s /\ enabled s' = enabled s /\ cached s' = cached s /\ stack s' = stack s /\
  ridx s' = ridx s /\ out s' = out s /\ warned s' = warned s.
Lemma sameS_refl s : sameS s s. Proof. unfold sameS. auto 10. Qed.
Lemma sameS_trans a b d : sameS a b -> sameS b d -> sameS a d.
Proof. unfold sameS. intuition congruence. Qed.

Section over.
  Variable c : cfg.

  (* beyond the limit, with the warning already given: a whole call tree leaves the state as it is *)
  Definition dstmt (k : call) : Prop := forall s hk, max_stack c <= idx s -> warned s = true ->
    exists s', exec c (flat k) (s, hk) = (s', hk) /\ sameS s s'.

  Lemma deep_kids ks : Forall dstmt ks -> forall s hk, max_stack c <= idx s -> warned s = true ->
    exists s', exec c (flat_map flat ks) (s, hk) = (s', hk) /\ sameS s s'.
  Proof.
    induction 1 as [|k r Hk _ IH]; intros s hk Hi Hw.
    - exists s. split; [reflexivity|apply sameS_refl].
    - destruct (Hk s hk Hi Hw) as (s1 & E1 & S1).
      assert (Hi1 : max_stack c <= idx s1) by (unfold idx in *; destruct S1 as (_ & _ & _ & -> & _); exact Hi).
      assert (Hw1 : warned s1 = true) by (destruct S1 as (_ & _ & _ & _ & _ & _ & ->); exact Hw).
      destruct (IH s1 hk Hi1 Hw1) as (s2 & E2 & S2).
      exists s2. split; [|eapply sameS_trans; eassumption].
      cbn [flat_map]. unfold exec in *. rewrite fold_left_app, E1. exact E2.
  Qed.

  Lemma over_check s : max_stack c <= idx s -> warned s = true -> check_rstack c s = (s, true).
  Proof. intros Hi Hw. unfold check_rstack. apply N.leb_le in Hi. rewrite Hi, Hw. reflexivity. Qed.

  Theorem deep_call : forall k, dstmt k.
  Proof.
    induction k as [a t0 t1 kids IH] using call_ind'. intros s hk Hi Hw.
    pose proof (deep_kids kids IH) as RK. clear IH.
    cbn [flat]. unfold exec. cbn [fold_left dstep]. rewrite fold_left_app. cbn [fold_left].
    assert (EC : entry_check c s a = (s, V_RSTACK, notrig, (depth (fc s), max_depth (fc s), ftime (fc s), fsize (fc s)))).
    { unfold entry_check. cbv zeta. rewrite (over_check s Hi Hw). reflexivity. }
    unfold do_enter, hooked. rewrite EC.
    destruct (shp c) eqn:Sh.
    - destruct (RK s (false :: hk) Hi Hw) as (s2 & E2 & S2).
      unfold exec in E2. rewrite E2. cbn [dstep]. exists s2. split; [reflexivity|exact S2].
    - set (s1 := {| fc := fc s; enabled := enabled s; cached := cached s; stack := ghost_frame :: stack s;
                    ridx := ridx s; out := out s; warned := warned s |}).
      assert (Hi1 : max_stack c <= idx s1) by (unfold idx in *; cbn [s1 stack length]; lia).
      destruct (RK s1 (true :: hk) Hi1 Hw) as (s2 & E2 & S2).
      unfold exec in E2. rewrite E2. cbn [dstep].
      destruct S2 as (F2 & En2 & C2 & St2 & R2 & O2 & W2). cbn [s1 fc enabled cached stack ridx out warned] in *.
      unfold do_leave. rewrite St2. cbn [ghost_frame f_ghost].
      eexists. split; [reflexivity|]. unfold sameS. cbn [fc enabled cached stack ridx out warned]. auto 10.
  Qed.

  Hypothesis NS : no_switch c.

  Definition Inv (s : st) : Prop :=
    enabled s = true /\ open_frames (stack s) /\ (max_stack c < idx s -> warned s = true).

  (* post-condition: g = the recorded forest, fl = the pending ENTRY records of the open frames were written *)
  Definition aftF (s s' : st) (g : list call) (fl : bool) : Prop :=
    ridx s' = ridx s /\ (is_nil g = false -> fl = true) /\
    stack s' = (if fl then fst (flush_anc (stack s)) else stack s) /\
    out s' = out s ++ (if fl then snd (flush_anc (stack s)) else []) ++ flat_map (history (ridx s)) g.

  Lemma aftF_idx s s' g fl : aftF s s' g fl -> idx s' = idx s.
  Proof.
    intros (_ & _ & Hst & _). unfold idx. rewrite Hst.
    destruct fl; [rewrite flush_anc_length|]; reflexivity.
  Qed.

  Lemma aftF_trans s s1 s2 g1 g2 f1 f2 : aftF s s1 g1 f1 -> aftF s1 s2 g2 f2 -> aftF s s2 (g1 ++ g2) (f1 || f2).
  Proof.
    intros (I1 & N1 & S1 & O1) (I2 & N2 & S2 & O2).
    unfold aftF. split; [congruence|]. split; [|split].
    - intro H. destruct g1 as [|x g1]; cbn [app is_nil] in H.
      + rewrite (N2 H). apply orb_true_r.
      + rewrite (N1 eq_refl). reflexivity.
    - rewrite S2, S1. destruct f1, f2; cbn [orb]; try reflexivity. rewrite flush_anc_idem. reflexivity.
    - rewrite O2, O1, S1, I1, flat_map_app. destruct f1, f2; cbn [orb]; rewrite <- ?app_assoc; cbn [app];
        rewrite ?app_nil_r; try reflexivity.
      + rewrite flush_anc_idem. cbn [snd app]. reflexivity.
      + destruct g1 as [|x g1]; [reflexivity|]. specialize (N1 eq_refl). discriminate.
  Qed.

  Definition gstmt (k : call) : Prop :=
    ended k -> forall s hk, Inv s ->
    exists s' g fl, exec c (flat k) (s, hk) = (s', hk) /\ emb g [k] /\ aftF s s' g fl /\ Inv s'.

  Lemma kids_over (ks : list call) : Forall gstmt ks ->
    all_ended ks -> forall s hk, Inv s ->
    exists s' g fl, exec c (flat_map flat ks) (s, hk) = (s', hk) /\ emb g ks /\ aftF s s' g fl /\ Inv s'.
  Proof.
    induction 1 as [|k r Hk _ IH]; intros HT s hk HI.
    - exists s, [], false. split; [reflexivity|]. split; [constructor|]. split; [|exact HI].
      unfold aftF. cbn. rewrite app_nil_r. repeat split; auto; discriminate.
    - destruct HT as [Tk Tr].
      destruct (Hk Tk s hk HI) as (s1 & g1 & f1 & E1 & M1 & A1 & I1).
      destruct (IH Tr s1 hk I1) as (s2 & g2 & f2 & E2 & M2 & A2 & I2).
      exists s2, (g1 ++ g2), (f1 || f2). split; [|split; [|split]].
      + cbn [flat_map]. unfold exec in *. rewrite fold_left_app, E1. exact E2.
      + inversion M1 as [|a t0 t1 ks0 ks' r0 r' Hks Hr|a t0 t1 ks0 ks' r0 r' Hks Hr]; subst.
        * inversion Hr; subst. cbn [app]. constructor; assumption.
        * inversion Hr; subst. rewrite app_nil_r. constructor; assumption.
      + eapply aftF_trans; eassumption.
      + exact I2.
  Qed.

  Lemma open_cons top stk : f_end top = 0 -> open_frames stk -> open_frames (top :: stk).
  Proof. intros. constructor; assumption. Qed.

  Lemma check_rstack_first s : idx s = max_stack c -> warned s = false -> open_frames (stack s) ->
    check_rstack c s =
    ({| fc := fc s; enabled := enabled s; cached := cached s; stack := fst (flush_anc (stack s)); ridx := ridx s;
        out := out s ++ snd (flush_anc (stack s)); warned := true |}, true).
  Proof.
    intros Hi Hw Ho. unfold check_rstack.
    assert (L : (max_stack c <=? idx s) = true) by (apply N.leb_le; lia). rewrite L, Hw.
    assert (K : (length (stack s) - N.to_nat (max_stack c))%nat = 0%nat) by (unfold idx in Hi; lia).
    rewrite K. cbn [firstn skipn app].
    destruct (stack s) as [|top anc] eqn:St.
    - cbn [flush_anc fst snd]. rewrite app_nil_r. reflexivity.
    - assert (He : f_end top = 0) by (inversion Ho; assumption).
      pose proof (rtd_open top anc He) as R. destruct (record_trace_data top anc) as [[top' anc'] recs].
      destruct R as [R1 R2]. rewrite R1, R2. reflexivity.
  Qed.

  Theorem call_over : forall k, gstmt k.
  Proof.
    induction k as [a t0 t1 kids IH] using call_ind'. intros HT s hk HI.
    pose proof (kids_over kids IH (ended_kids _ _ _ _ HT)) as RK. clear IH.
    destruct HT as (Hpos & _).
    destruct HI as (Hen & Hop & Hwn).
    destruct (N.lt_ge_cases (idx s) (max_stack c)) as [Hi|Hge].
    2:{ (* at or beyond the limit *)
        destruct (warned s) eqn:Hw.
        - (* the warning was given: nothing happens *)
          destruct (deep_call (Call a t0 t1 kids) s hk Hge Hw) as (s' & E & S).
          exists s', [], false. split; [exact E|]. split; [apply emb_none|].
          destruct S as (F & En & C & St & R & O & W).
          split.
          { unfold aftF. cbn [is_nil flat_map app]. rewrite app_nil_r. repeat split; auto; discriminate. }
          unfold Inv, idx. rewrite En, St, W. repeat split; auto.
        - (* the limit is hit for the first time: the open frames' ENTRY records are written, then as above *)
          assert (Hi : idx s = max_stack c).
          { destruct (N.eq_dec (idx s) (max_stack c)) as [|Hne]; [assumption|].
            assert (Hlt : max_stack c < idx s) by lia. pose proof (Hwn Hlt) as Hw'. congruence. }
          set (s1 := {| fc := fc s; enabled := enabled s; cached := cached s; stack := fst (flush_anc (stack s));
                        ridx := ridx s; out := out s ++ snd (flush_anc (stack s)); warned := true |}).
          assert (EC : entry_check c s a = (s1, V_RSTACK, notrig, (depth (fc s), max_depth (fc s), ftime (fc s), fsize (fc s)))).
          { unfold entry_check. cbv zeta. rewrite (check_rstack_first s Hi Hw Hop). reflexivity. }
          assert (Hi1 : max_stack c <= idx s1).
          { unfold idx in *. cbn [s1 stack]. rewrite flush_anc_length. lia. }
          assert (DK : Forall dstmt kids) by (apply Forall_forall; intros k0 _; apply deep_call).
          cbn [flat]. unfold exec. cbn [fold_left dstep]. rewrite fold_left_app. cbn [fold_left].
          unfold do_enter, hooked. rewrite EC.
          destruct (shp c) eqn:Sh.
          + destruct (deep_kids kids DK s1 (false :: hk) Hi1 eq_refl) as (s2 & E2 & S2).
            unfold exec in E2. rewrite E2. cbn [dstep].
            destruct S2 as (F2 & En2 & C2 & St2 & R2 & O2 & W2). cbn [s1 fc enabled cached stack ridx out warned] in *.
            exists s2, [], true. split; [reflexivity|]. split; [apply emb_none|]. split.
            * unfold aftF. cbn [is_nil flat_map]. rewrite app_nil_r. repeat split; auto; discriminate.
            * unfold Inv, idx. rewrite En2, St2, W2. repeat split; auto. apply flush_anc_open. exact Hop.
          + set (s1g := {| fc := fc s1; enabled := enabled s1; cached := cached s1; stack := ghost_frame :: stack s1;
                           ridx := ridx s1; out := out s1; warned := warned s1 |}).
            assert (Hi1g : max_stack c <= idx s1g) by (unfold idx in *; cbn [s1g stack length]; lia).
            destruct (deep_kids kids DK s1g (true :: hk) Hi1g eq_refl) as (s2 & E2 & S2).
            unfold exec in E2. rewrite E2. cbn [dstep].
            destruct S2 as (F2 & En2 & C2 & St2 & R2 & O2 & W2).
            cbn [s1g s1 fc enabled cached stack ridx out warned] in *.
            unfold do_leave. rewrite St2. cbn [ghost_frame f_ghost].
            eexists _, [], true. split; [reflexivity|]. split; [apply emb_none|]. split.
            * unfold aftF. cbn [ridx stack out is_nil flat_map]. rewrite app_nil_r, R2, O2. repeat split; auto; discriminate.
            * unfold Inv, idx. cbn [enabled stack warned]. rewrite En2, W2. repeat split; auto. apply flush_anc_open. exact Hop. }
    (* within the limit *)
    cbn [flat]. unfold exec. cbn [fold_left dstep]. rewrite fold_left_app. cbn [fold_left].
    destruct (entry_check_shape c NS s a Hi) as (s1 & v & tr & sv & EC & Hv & St1 & Ri1 & Ou1 & En1 & Htr).
    assert (Hsw : t_trace_on tr = false /\ t_trace_off tr = false).
    { destruct Htr as [-> | ->]; [apply notrig_noswitch|apply NS]. }
    destruct Hsw as [Hon Hoff].
    rewrite Hen in En1.
    assert (CASES :
      (hooked c s a = false /\ stack (do_enter c s a t0) = stack s1 /\ ridx (do_enter c s a t0) = ridx s1 /\
       out (do_enter c s a t0) = out s1 /\ enabled (do_enter c s a t0) = true) \/
      (hooked c s a = true /\ exists fr top, f_depth fr = ridx s /\ f_addr fr = a /\
          (norecord (f_flags fr) = false -> f_start fr = t0) /\
          fresh top fr (ridx s1) (do_enter c s a t0) s1 /\
          (norecord (f_flags fr) = true -> norecord (f_flags top) = true))).
    { unfold do_enter, hooked. rewrite EC. destruct (shp c) eqn:Sh; destruct v; try congruence.
      - right. split; [reflexivity|].
        match goal with |- context [entry_record c s1 ?fr tr sv] =>
          destruct (entry_record_shape c s1 fr tr sv En1 Hon Hoff) as (top & F & N); exists fr, top end.
        cbn [f_depth f_addr f_start f_flags norecord noflags]. split; [exact Ri1|]. split; [reflexivity|]. split; [first [intros _; reflexivity | intro Q; discriminate Q]|]. split; [exact F|exact N].
      - destruct (state_trig tr).
        + right. split; [reflexivity|].
          match goal with |- context [entry_record c s1 ?fr tr sv] =>
            destruct (entry_record_shape c s1 fr tr sv En1 Hon Hoff) as (top & F & N); exists fr, top end.
          cbn [f_depth f_addr f_start f_flags norecord]. split; [exact Ri1|]. split; [reflexivity|]. split; [first [intros _; reflexivity | intro Q; discriminate Q]|]. split; [exact F|exact N].
        + left. cbn [stack ridx out enabled]. repeat split; try reflexivity. exact En1.
      - right. split; [reflexivity|].
        match goal with |- context [entry_record c s1 ?fr tr sv] =>
          destruct (entry_record_shape c s1 fr tr sv En1 Hon Hoff) as (top & F & N); exists fr, top end.
        cbn [f_depth f_addr f_start f_flags norecord]. split; [exact Ri1|]. split; [reflexivity|]. split; [first [intros _; reflexivity | intro Q; discriminate Q]|]. split; [exact F|exact N].
      - right. split; [reflexivity|].
        match goal with |- context [entry_record c s1 ?fr tr sv] =>
          destruct (entry_record_shape c s1 fr tr sv En1 Hon Hoff) as (top & F & N); exists fr, top end.
        cbn [f_depth f_addr f_start f_flags norecord]. split; [exact Ri1|]. split; [reflexivity|]. split; [first [intros _; reflexivity | intro Q; discriminate Q]|]. split; [exact F|exact N]. }
    assert (Hop1 : open_frames (stack s1)) by (rewrite St1; exact Hop).
    destruct CASES as [(Hhk & St1' & Ri1' & Ou1' & En1') | (Hhk & fr & top & Fd & Fa & Fs & F & Nn)].
    - (* -pg shape, entry rejected: no frame, no exit hook; the callees run in place *)
      rewrite Hhk. set (s1' := do_enter c s a t0) in *.
      assert (I1 : Inv s1').
      { unfold Inv. split; [exact En1'|]. split; [rewrite St1'; exact Hop1|]. unfold idx in *. rewrite St1', St1. intro; lia. }
      destruct (RK s1' (false :: hk) I1) as (s2 & g & fl & E2 & M2 & A2 & I2).
      unfold exec in E2. rewrite E2. cbn [dstep]. exists s2, g, fl. split; [reflexivity|]. split; [|split; [|exact I2]].
      + rewrite <- (app_nil_r g). apply emb_drop; [exact M2|constructor].
      + destruct A2 as (I & N & S2 & O2). unfold aftF. rewrite St1', Ri1', Ou1', St1, Ri1, Ou1 in *. auto.
    - rewrite Hhk. set (s2 := do_enter c s a t0) in *.
      destruct F as (St2 & Ou2 & En2 & Gh & Wr & Fe & Kind).
      assert (I2 : Inv s2).
      { unfold Inv. split; [exact En2|]. split; [rewrite St2; apply open_cons; assumption|].
        unfold idx in *. rewrite St2, St1. cbn [length]. intro; lia. }
      destruct (RK s2 (true :: hk) I2) as (s3 & g & fl & E3 & M3 & A3 & I3).
      unfold exec in E3. rewrite E3. cbn [dstep].
      destruct A3 as (Ri3 & Nf & St3 & Ou3).
      destruct I3 as (En3 & Hop3 & _).
      rewrite St2, St1 in St3. rewrite St2, St1, Ou2, Ou1 in Ou3.
      rewrite (flush_cons_unwritten top (stack s) Wr) in St3, Ou3.
      assert (Hfin : forall s4, enabled s4 = true -> idx s4 = idx s ->
                     open_frames (stack s4) -> Inv s4).
      { intros s4 E4 X4 O4. unfold Inv. split; [exact E4|]. split; [exact O4|]. rewrite X4. intro; lia. }
      destruct Kind as [[Nr Ri2] | (Nr & Di & Ri2 & Dp & Ad & Sta)].
      + (* the frame is NORECORD: the call itself is left out, its callees are promoted *)
        assert (Sk : skip top = true) by (unfold skip; rewrite Nr; reflexivity).
        rewrite Sk in St3, Ou3. cbn [fst snd] in St3, Ou3.
        destruct (do_leave_norecord c s3 top (if fl then fst (flush_anc (stack s)) else stack s) t1)
          as (X1 & X2 & X3 & X4); auto.
        { rewrite St3. destruct fl; reflexivity. }
        exists (do_leave c s3 t1), g, fl. split; [reflexivity|]. split; [|split].
        * rewrite <- (app_nil_r g). apply emb_drop; [exact M3|constructor].
        * unfold aftF. rewrite X4, Ri3, Ri2, Ri1, X1, X2, Ou3, Ri2, Ri1. repeat split; auto; destruct fl; reflexivity.
        * apply Hfin; [rewrite X3; exact En3| |].
          -- unfold idx. rewrite X1. destruct fl; [rewrite flush_anc_length|]; reflexivity.
          -- rewrite X1. destruct fl; [apply flush_anc_open|]; exact Hop.
      + (* an ordinary frame at record depth ridx s *)
        assert (Sk : skip top = false) by (unfold skip; rewrite Nr, Di; reflexivity).
        rewrite Sk in St3, Ou3. cbn [fst snd] in St3, Ou3.
        assert (Fs' : f_start top = t0) by (rewrite Sta; apply Fs; destruct (norecord (f_flags fr)) eqn:Q; [rewrite (Nn eq_refl) in Nr; discriminate|reflexivity]).
        assert (Dp' : f_depth top = ridx s) by congruence.
        assert (Ad' : f_addr top = a) by congruence.
        assert (R3 : ridx s3 = ridx s + 1) by congruence.
        assert (LE : do_leave c s3 t1 =
                     exit_record c s3 (set_end (if fl then set_written top else top) t1)
                                 (if fl then fst (flush_anc (stack s)) else stack s)).
        { unfold do_leave. destruct fl; rewrite St3.
          - cbn [set_written f_ghost f_flags norecord]. rewrite Gh, Nr. destruct (shp c); reflexivity.
          - rewrite Gh. destruct (shp c); [reflexivity|]. rewrite Nr. reflexivity. }
        rewrite LE. unfold exit_record. cbv zeta.
        assert (P : (0 <? ridx s + 1) = true) by (apply N.ltb_lt; lia).
        assert (Z : (t1 =? 0) = false) by (apply N.eqb_neq; lia).
        destruct fl.
        * (* the pending ENTRY records are out: the frame is WRITTEN and gets its EXIT *)
          cbn [set_end set_written f_flags norecord written]. rewrite Nr, En3. cbn [negb]. rewrite R3, P.
          replace (ridx s + 1 - 1) with (ridx s) by lia.
          rewrite !orb_true_r. cbn [orb].
          unfold record_trace_data. cbn [set_end set_written f_flags written orb f_end]. rewrite Z.
          eexists _, [Call a t0 t1 g], true. split; [reflexivity|]. split; [|split].
          -- apply emb_keep; [exact M3|constructor].
          -- unfold aftF. cbn [fc enabled cached stack ridx out is_nil fst snd flat_map history app].
             repeat split; auto.
             rewrite Ou3. unfold entry_rec, exit_rec. cbn [set_end set_written f_start f_end f_depth f_addr].
             rewrite Fs', Dp', Ad'. rewrite Ri2, Ri1. rewrite app_nil_r. rewrite <- !app_assoc. cbn [app]. reflexivity.
          -- apply Hfin; cbn [enabled stack]; [reflexivity| |apply flush_anc_open; exact Hop].
             unfold idx. cbn [stack]. rewrite flush_anc_length. reflexivity.
        * (* nothing written below: recorded iff the exit decision says so *)
          assert (G : g = []) by (destruct g; [reflexivity|specialize (Nf eq_refl); discriminate]). subst g.
          cbn [flat_map app] in Ou3. rewrite app_nil_r in Ou3.
          cbn [set_end f_flags]. rewrite Nr, En3. cbn [negb]. rewrite Wr, R3, P.
          replace (ridx s + 1 - 1) with (ridx s) by lia.
          match goal with |- context [if ?b then _ else _] => destruct b end.
          -- unfold record_trace_data. cbn [set_end f_flags]. rewrite Wr. cbn [orb].
             rewrite (surjective_pairing (flush_anc (stack s))).
             assert (Sk2 : skip (set_end top t1) = false) by (unfold skip; cbn [set_end f_flags]; rewrite Nr, Di; reflexivity).
             rewrite Sk2. cbn [set_written set_end f_end]. rewrite Z.
             eexists _, [Call a t0 t1 []], true. split; [reflexivity|]. split; [|split].
             ++ apply emb_keep; [exact M3|constructor].
             ++ unfold aftF. cbn [fc enabled cached stack ridx out is_nil fst snd flat_map history app].
                repeat split; auto.
                rewrite Ou3. unfold entry_rec, exit_rec. cbn [set_end set_written f_start f_end f_depth f_addr].
                rewrite Fs', Dp', Ad'. rewrite <- ?app_assoc. reflexivity.
             ++ apply Hfin; cbn [enabled stack fst]; [reflexivity| |apply flush_anc_open; exact Hop].
                unfold idx. cbn [stack fst]. rewrite flush_anc_length. reflexivity.
          -- eexists _, [], false. split; [reflexivity|]. split; [|split].
             ++ exact (emb_drop a t0 t1 kids [] [] [] M3 emb_nil).
             ++ unfold aftF. cbn [fc enabled cached stack ridx out is_nil flat_map app].
                rewrite Ou3, app_nil_r. repeat split; auto; discriminate.
             ++ apply Hfin; cbn [enabled stack]; [reflexivity|reflexivity|exact Hop].
  Qed.

  Theorem forest_over : forall f, all_ended f ->
    exists g, emb g f /\ out (fst (exec c (flat_forest f) (init, []))) = flat_map (history 0) g.
  Proof.
    intros f HT.
    assert (ST : Forall gstmt f) by (apply Forall_forall; intros k0 _; apply call_over).
    assert (I0 : Inv init).
    { unfold Inv, idx. cbn. split; [reflexivity|]. split; [constructor|]. intro H. lia. }
    destruct (kids_over f ST HT init [] I0) as (s' & g & fl & E & M & A & _).
    exists g. split; [exact M|]. unfold flat_forest. rewrite E. cbn [fst].
    destruct A as (_ & _ & _ & O). rewrite O. cbn. destruct fl; reflexivity.
  Qed.

End over.
