(* Record-time script callbacks (libmcount/mcount.c: script_hook_entry in mcount_entry_filter_record,
   script_hook_exit in mcount_exit_filter_record): a frame gets its entry callback iff it is not NORECORD and
   not DISABLED, and its exit callback under the same test - whatever happened to mcount_enabled in between.
   Theorem: for EVERY configuration (trace_on / trace_off triggers included), both shapes, any state and any
   complete call tree, the callbacks are properly paired (C18, third clause).  The code as found (entry callback
   for every non-NORECORD frame, exit callback only while tracing is on) is refuted. *)
From Coq Require Import NArith ZArith List Bool Lia.
Import ListNotations.
Require Import UV.Gen.Consts UV.Mcount.Model UV.Mcount.Forest UV.Mcount.Restore.
Local Open Scope N_scope.

Inductive cb := CE (a : N) | CX (a : N).

Definition quiet (f : frame) : bool := f_ghost f || norecord (f_flags f) || disabled (f_flags f).
(* [fixed = false]: the code as found *)
Definition cb_enter (fixed : bool) (c : cfg) (s : st) (a t : N) : list cb :=
  if hooked c s a then
    match stack (do_enter c s a t) with
    | top :: _ => if f_ghost top || norecord (f_flags top) || (fixed && disabled (f_flags top)) then [] else [CE a]
    | [] => []
    end
  else [].
Definition cb_leave (fixed : bool) (s : st) (h : bool) : list cb :=
  if h then
    match stack s with
    | top :: _ =>
        if f_ghost top || norecord (f_flags top) || (if fixed then disabled (f_flags top) else negb (enabled s))
        then [] else [CX (f_addr top)]
    | [] => []
    end
  else [].

Definition cstep (fixed : bool) (c : cfg) (d : dstate) (e : ev) : list cb :=
  let '(s, hk) := d in
  match e with
  | Enter a t => cb_enter fixed c s a t
  | Leave t => match hk with h :: _ => cb_leave fixed s h | [] => [] end
  | ForkChild => []
  end.
Fixpoint cbs (fixed : bool) (c : cfg) (es : list ev) (d : dstate) : list cb :=
  match es with
  | [] => []
  | e :: r => cstep fixed c d e ++ cbs fixed c r (dstep c d e)
  end.

Lemma cbs_app fixed c l1 l2 d : cbs fixed c (l1 ++ l2) d = cbs fixed c l1 d ++ cbs fixed c l2 (exec c l1 d).
Proof.
  revert d. induction l1 as [|e r IH]; intro d; [reflexivity|].
  cbn [app cbs]. rewrite IH, <- app_assoc. reflexivity.
Qed.

(* properly paired: a stack machine over the callbacks *)
Fixpoint bal (stk : list N) (l : list cb) : option (list N) :=
  match l with
  | [] => Some stk
  | CE a :: r => bal (a :: stk) r
  | CX a :: r => match stk with
                 | b :: stk' => if a =? b then bal stk' r else None
                 | [] => None
                 end
  end.
Lemma bal_app stk l1 l2 stk' : bal stk l1 = Some stk' -> bal stk (l1 ++ l2) = bal stk' l2.
Proof.
  revert stk. induction l1 as [|x r IH]; intros stk H; [inversion H; reflexivity|].
  destruct x as [a|a]; cbn [app bal] in *; [apply IH; exact H|].
  destruct stk as [|b stk0]; [discriminate|]. destruct (a =? b); [apply IH; exact H|discriminate].
Qed.

(* ---------------------------------------------------------------- stack discipline of the two hooks *)
Lemma entry_record_push c s fr tr sv :
  exists top rest, stack (entry_record c s fr tr sv) = top :: rest /\ eqw rest (stack s) /\
                   f_ghost top = false /\ f_addr top = f_addr fr.
Proof.
  unfold entry_record. destruct sv as [[[d m] t] z]. cbv zeta.
  match goal with |- context [if ?b then _ else _] => destruct b end.
  - eexists _, _. split; [reflexivity|]. split; [apply eqw_refl|]. split; reflexivity.
  - destruct (enabled s).
    + eexists _, _. split; [reflexivity|]. split; [apply eqw_refl|]. split; reflexivity.
    + destruct (cached s).
      * match goal with |- context [record_trace_data ?a ?b] =>
          pose proof (rtd_eqw a b) as R; destruct (record_trace_data a b) as [[top' anc'] recs] end.
        destruct R as [R1 R2]. eexists _, _. cbn [stack]. split; [reflexivity|]. split; [exact R2|].
        assert (G : f_ghost top' = f_ghost (clear_written top')) by (destruct top'; reflexivity).
        assert (A : f_addr top' = f_addr (clear_written top')) by (destruct top'; reflexivity).
        rewrite G, A, R1. split; reflexivity.
      * eexists _, _. split; [reflexivity|]. split; [apply eqw_refl|]. split; reflexivity.
Qed.

Lemma do_enter_push c s a t : hooked c s a = true ->
  exists top rest, stack (do_enter c s a t) = top :: rest /\ eqw rest (stack s) /\
                   (f_ghost top = false -> f_addr top = a).
Proof.
  unfold hooked, do_enter. pose proof (entry_check_facts c s a) as F.
  destruct (entry_check c s a) as [[[s1 v] tr] sv]. destruct F as (E & _).
  destruct (shp c) eqn:Sh.
  - destruct v; try discriminate.
    + intros _.
      match goal with |- context [entry_record c s1 ?fr tr sv] =>
        destruct (entry_record_push c s1 fr tr sv) as (top & rest & S & Q & G & A) end.
      exists top, rest. split; [exact S|]. split; [eapply eqw_trans; eassumption|]. intros _. exact A.
    + intro Hs. rewrite Hs.
      match goal with |- context [entry_record c s1 ?fr tr sv] =>
        destruct (entry_record_push c s1 fr tr sv) as (top & rest & S & Q & G & A) end.
      exists top, rest. split; [exact S|]. split; [eapply eqw_trans; eassumption|]. intros _. exact A.
  - intros _. destruct v.
    + match goal with |- context [entry_record c s1 ?fr tr sv] =>
        destruct (entry_record_push c s1 fr tr sv) as (top & rest & S & Q & G & A) end.
      exists top, rest. split; [exact S|]. split; [eapply eqw_trans; eassumption|]. intros _. exact A.
    + match goal with |- context [entry_record c s1 ?fr tr sv] =>
        destruct (entry_record_push c s1 fr tr sv) as (top & rest & S & Q & G & A) end.
      exists top, rest. split; [exact S|]. split; [eapply eqw_trans; eassumption|]. intros _. exact A.
    + eexists _, _. cbn [stack]. split; [reflexivity|]. split; [exact E|]. cbn. discriminate.
Qed.

Lemma do_enter_nopush c s a t : hooked c s a = false -> eqw (stack (do_enter c s a t)) (stack s).
Proof.
  unfold hooked, do_enter. pose proof (entry_check_facts c s a) as F.
  destruct (entry_check c s a) as [[[s1 v] tr] sv]. destruct F as (E & _).
  destruct (shp c); [|discriminate]. destruct v; [discriminate|intro Hs; rewrite Hs; exact E|intros _; exact E].
Qed.

Lemma exit_record_pop c s top anc : eqw (stack (exit_record c s top anc)) anc.
Proof.
  unfold exit_record. cbv zeta.
  destruct (norecord (f_flags top)); [apply eqw_refl|].
  destruct (negb (enabled s)); [apply eqw_refl|].
  match goal with |- context [if ?b then _ else _] => destruct b end; [|apply eqw_refl].
  pose proof (rtd_eqw top anc) as R. destruct (record_trace_data top anc) as [[top' anc'] recs].
  destruct R as [_ R]. exact R.
Qed.
Lemma do_leave_pop c s t top anc : stack s = top :: anc -> eqw (stack (do_leave c s t)) anc.
Proof.
  intro H. unfold do_leave. rewrite H. destruct (f_ghost top); [apply eqw_refl|].
  destruct (shp c); apply exit_record_pop.
Qed.

Lemma eqw_head f g l1 l2 : eqw (f :: l1) (g :: l2) -> clear_written f = clear_written g /\ eqw l1 l2.
Proof.
  unfold eqw. cbn [map]. intro H. split; [exact (f_equal (hd (clear_written f)) H)|exact (f_equal (@tl _) H)].
Qed.
Lemma quiet_cw f g : clear_written f = clear_written g ->
  f_ghost f = f_ghost g /\ norecord (f_flags f) = norecord (f_flags g) /\ disabled (f_flags f) = disabled (f_flags g) /\
  f_addr f = f_addr g.
Proof.
  intro H.
  assert (A : forall h, f_ghost h = f_ghost (clear_written h) /\ norecord (f_flags h) = norecord (f_flags (clear_written h))
                        /\ disabled (f_flags h) = disabled (f_flags (clear_written h)) /\ f_addr h = f_addr (clear_written h))
    by (intro h; destruct h as [? ? ? [ ] ? ? ? ? ? ?]; repeat split; reflexivity).
  destruct (A f) as (a1 & a2 & a3 & a4), (A g) as (b1 & b2 & b3 & b4). rewrite H in *. repeat split; congruence.
Qed.

(* ---------------------------------------------------------------- the theorem *)
Section paired.
  Variable c : cfg.

  Definition pstmt (k : call) : Prop := forall s hk,
    exists s', exec c (flat k) (s, hk) = (s', hk) /\ eqw (stack s') (stack s) /\
               forall stk, bal stk (cbs true c (flat k) (s, hk)) = Some stk.

  Lemma kids_paired (ks : list call) : Forall pstmt ks -> forall s hk,
    exists s', exec c (flat_map flat ks) (s, hk) = (s', hk) /\ eqw (stack s') (stack s) /\
               forall stk, bal stk (cbs true c (flat_map flat ks) (s, hk)) = Some stk.
  Proof.
    induction 1 as [|k r Hk _ IH]; intros s hk.
    - exists s. split; [reflexivity|]. split; [apply eqw_refl|]. reflexivity.
    - destruct (Hk s hk) as (s1 & E1 & W1 & B1). destruct (IH s1 hk) as (s2 & E2 & W2 & B2).
      exists s2. cbn [flat_map]. split; [|split].
      + unfold exec in *. rewrite fold_left_app, E1. exact E2.
      + eapply eqw_trans; eassumption.
      + intro stk. rewrite cbs_app, E1. rewrite (bal_app stk _ _ stk) by apply B1. apply B2.
  Qed.

  Theorem callbacks_paired : forall k, pstmt k.
  Proof.
    induction k as [a t0 t1 kids IH] using call_ind'. intros s hk.
    pose proof (kids_paired kids IH) as RK. clear IH.
    cbn [flat]. unfold exec. cbn [fold_left dstep]. rewrite fold_left_app. cbn [fold_left].
    destruct (hooked c s a) eqn:Hh.
    - destruct (do_enter_push c s a t0 Hh) as (top & rest & S1 & W1 & A1).
      destruct (RK (do_enter c s a t0) (true :: hk)) as (s2 & E2 & W2 & B2).
      unfold exec in E2. rewrite E2. cbn [dstep].
      rewrite S1 in W2. destruct (stack s2) as [|top2 anc2] eqn:S2.
      { apply eqw_length in W2. discriminate. }
      destruct (eqw_head _ _ _ _ W2) as [C2 W3].
      eexists. split; [reflexivity|]. split.
      + eapply eqw_trans; [apply (do_leave_pop c s2 t1 top2 anc2 S2)|]. eapply eqw_trans; eassumption.
      + intro stk. cbn [cbs cstep]. unfold cb_enter at 1. rewrite Hh, S1. cbn [andb].
        cbn [dstep]. rewrite Hh.
        rewrite cbs_app. unfold exec. rewrite E2. cbn [cbs cstep cb_leave]. rewrite S2, app_nil_r.
        destruct (quiet_cw _ _ C2) as (G & N & D & A).
        rewrite G, N, D, A.
        destruct (f_ghost top || norecord (f_flags top) || disabled (f_flags top)) eqn:Q.
        * cbn [app]. rewrite (bal_app stk _ _ stk) by apply B2. reflexivity.
        * cbn [app bal]. rewrite (bal_app (a :: stk) _ _ (a :: stk)) by apply B2.
          assert (Gf : f_ghost top = false) by (destruct (f_ghost top); [discriminate|reflexivity]).
          cbn [bal]. rewrite (A1 Gf), N.eqb_refl. reflexivity.
    - pose proof (do_enter_nopush c s a t0 Hh) as W1.
      destruct (RK (do_enter c s a t0) (false :: hk)) as (s2 & E2 & W2 & B2).
      unfold exec in E2. rewrite E2. cbn [dstep].
      exists s2. split; [reflexivity|]. split; [eapply eqw_trans; eassumption|].
      intro stk. cbn [cbs cstep]. unfold cb_enter at 1. rewrite Hh. cbn [app].
      cbn [dstep]. rewrite Hh.
      rewrite cbs_app. unfold exec. rewrite E2. cbn [cbs cstep cb_leave]. rewrite app_nil_r. apply B2.
  Qed.

  Theorem forest_callbacks_paired f s hk : bal [] (cbs true c (flat_forest f) (s, hk)) = Some [].
  Proof.
    assert (F : Forall pstmt f) by (apply Forall_forall; intros k0 _; apply callbacks_paired).
    destruct (kids_paired f F s hk) as (_ & _ & _ & B). apply B.
  Qed.
End paired.

(* the code as found: tracing switched off inside b; a was entered with tracing on and never gets its exit callback *)
Definition sw_cfg : cfg :=
  mkcfg [(2, {| t_filter := None; t_depth := None; t_time := None; t_size := None;
                t_trace_on := false; t_trace_off := true; t_trace := false; t_caller := false; t_loc := None; t_finish := false |})]
        false false 1024 0 1024 [] PG.
Definition sw_events : list ev := [Enter 1 100; Enter 2 110; Leave 120; Leave 130].
Lemma legacy_unpaired : bal [] (cbs false sw_cfg sw_events (init, [])) = Some [2; 1] /\
                        bal [] (cbs true sw_cfg sw_events (init, [])) = Some [].
Proof. split; vm_compute; reflexivity. Qed.
