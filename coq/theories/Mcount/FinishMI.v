(* C05: with a finish trigger too the recorded stream does not depend on the instrumentation method - for EVERY
   configuration and every call forest that fits into --max-stack.  The two runs are related at every instant
   (Method.v sim_prefix_forest); they therefore take the same decision at every entry (the trigger fires under both
   shapes or under neither - this is where the repair e32e55b is needed) and the finishing entry writes the same
   pending ENTRY records. *)
From Coq Require Import NArith ZArith List Bool Lia.
Import ListNotations.
Require Import UV.Gen.Consts UV.Mcount.Model UV.Mcount.Forest UV.Mcount.Restore UV.Mcount.Method UV.Mcount.Finish.
Local Open Scope N_scope.

Lemma state_trig_finish tr : t_finish tr = true -> state_trig tr = true.
Proof. intro H. unfold state_trig. rewrite H. destruct (t_filter tr), (t_depth tr), (t_time tr), (t_size tr); reflexivity. Qed.

Section fin.
  Variable c : cfg.
  Let cp := pg_of c.
  Let cc := cyg_of c.

  Lemma fires_rel sp sc a : R sp sc -> idx sp < max_stack cp -> idx sc < max_stack cc ->
    finish_fires cp sp a = finish_fires cc sc a.
  Proof.
    intros [[Hfc Hen Hca Hri Hout] Hv Np Nc] Ip Ic.
    unfold finish_fires, hooked. rewrite (entry_check_noover cp sp a Ip), (entry_check_noover cc sc a Ic).
    cbn [cp cc pg_of cyg_of trig_of fmode_in gdepth shp].
    change (loc_out cp (trig_of c a)) with (loc_out c (trig_of c a)).
    change (loc_out cc (trig_of c a)) with (loc_out c (trig_of c a)).
    rewrite Hfc, Hen.
    destruct (core (trig_of c a) (fmode_in c) (loc_out c (trig_of c a)) (gdepth c) (fc sc) (enabled sc)) as [[[[f' en'] v] tr] sv].
    destruct v; [rewrite !andb_true_r; reflexivity| |reflexivity].
    rewrite andb_true_r. destruct (t_finish tr) eqn:F; [|reflexivity].
    rewrite (state_trig_finish tr F). reflexivity.
  Qed.

  (* a frame pushed while the trace switch is taken as on *)
  Lemma entry_record_on_rel s1 s2 fr1 fr2 tr sv : fc s1 = fc s2 -> enabled s1 = true -> enabled s2 = true ->
    uncyg fr1 = uncyg fr2 -> written (f_flags fr1) = false ->
    exists t1 t2, stack (entry_record cp s1 fr1 tr sv) = t1 :: stack s1 /\
                  stack (entry_record cc s2 fr2 tr sv) = t2 :: stack s2 /\ uncyg t1 = uncyg t2.
  Proof.
    intros Hfc E1 E2 E W.
    destruct fr1 as [a1 st1 e1 [n1 t1 fi1 w1 d1 tr1 c1 cy1] dp1 x1 x2 x3 x4 g1],
             fr2 as [a2 st2 e2 [n2 t2 fi2 w2 d2 tr2 c2 cy2] dp2 y1 y2 y3 y4 g2].
    unfold uncyg in E. cbn in E. injection E; intros; subst. cbn in W. subst.
    unfold entry_record. destruct sv as [[[d m] t] z].
    cbn [cp cc pg_of cyg_of fmode_in sym_size f_flags f_addr f_start f_depth norecord cygprof].
    rewrite Hfc, E1, E2.
    match goal with |- context [if ?b then _ else _] => destruct b end;
      eexists _, _; cbn [stack]; repeat split; reflexivity.
  Qed.

  Lemma finish_enter_rel sp sc a t : R sp sc -> idx sp < max_stack cp -> idx sc < max_stack cc ->
    out (finish_enter cp sp a t) = out (finish_enter cc sc a t).
  Proof.
    intros [[Hfc Hen Hca Hri Hout] Hv Np Nc] Ip Ic.
    unfold finish_enter. rewrite (entry_check_noover cp sp a Ip), (entry_check_noover cc sc a Ic).
    cbn [cp cc pg_of cyg_of trig_of fmode_in gdepth shp].
    change (loc_out cp (trig_of c a)) with (loc_out c (trig_of c a)).
    change (loc_out cc (trig_of c a)) with (loc_out c (trig_of c a)).
    rewrite Hfc, Hen.
    destruct (core (trig_of c a) (fmode_in c) (loc_out c (trig_of c a)) (gdepth c) (fc sc) (enabled sc)) as [[[[f' en'] v] tr] sv].
    cbn [ridx fc]. rewrite Hri.
    match goal with |- context [entry_record cp ?S1 ?F1 tr sv] =>
      match goal with |- context [entry_record cc ?S2 ?F2 tr sv] =>
        destruct (entry_record_on_rel S1 S2 F1 F2 tr sv eq_refl eq_refl eq_refl eq_refl eq_refl) as (t1 & t2 & St1 & St2 & Eu)
      end end.
    rewrite St1, St2. cbn [with_fc stack].
    pose proof (rtd_rel t1 t2 (stack sp) (stack sc) Eu Np Nc Hv) as RT.
    destruct (record_trace_data t1 (stack sp)) as [[t1' a1] r1]. destruct (record_trace_data t2 (stack sc)) as [[t2' a2] r2].
    destruct RT as (Er & _). cbn [out]. rewrite Hout, Er. reflexivity.
  Qed.

  (* the two runs with the finish trigger, from any instant of the run on *)
  Lemma exec_f_rel f z : heights f <= max_stack c ->
    forall q p, flat_forest f = p ++ q ->
    out (fst (fst (exec_f cp q (exec cp p (init_z z, []), false)))) =
    out (fst (fst (exec_f cc q (exec cc p (init_z z, []), false)))).
  Proof.
    intros HH. induction q as [|e q IH]; intros p E.
    - rewrite app_nil_r in E. cbn [exec_f fold_left fst].
      assert (R0i : R (init_z z) (init_z z)) by (constructor; [constructor; reflexivity|reflexivity|constructor|constructor]).
      destruct (sim_prefix_forest c f (init_z z) (init_z z) [] [] R0i (Nat.le_refl _)) with (p := p) (q := @nil ev)
        as (sp & sc & hp & hc & Ep & Ec & [[_ _ _ _ Ho] _ _ _] & _).
      + cbn [init_z stack length]. exact HH.
      + rewrite app_nil_r. exact E.
      + fold cp cc in Ep, Ec. rewrite Ep, Ec. exact Ho.
    - assert (R0i : R (init_z z) (init_z z)) by (constructor; [constructor; reflexivity|reflexivity|constructor|constructor]).
      destruct (sim_prefix_forest c f (init_z z) (init_z z) [] [] R0i (Nat.le_refl _)) with (p := p) (q := e :: q)
        as (sp & sc & hp & hc & Ep & Ec & HR & HL & HB); [cbn [init_z stack length]; exact HH|exact E|].
      fold cp cc in Ep, Ec.
      assert (NEXT : exec_f cp (e :: q) (exec cp p (init_z z, []), false) = exec_f cp q (exec cp (p ++ [e]) (init_z z, []), false) /\
                     exec_f cc (e :: q) (exec cc p (init_z z, []), false) = exec_f cc q (exec cc (p ++ [e]) (init_z z, []), false) ->
                     out (fst (fst (exec_f cp (e :: q) (exec cp p (init_z z, []), false)))) =
                     out (fst (fst (exec_f cc (e :: q) (exec cc p (init_z z, []), false))))).
      { intros [X1 X2]. rewrite X1, X2. apply IH. rewrite <- app_assoc. exact E. }
      assert (PLAIN : forall cx sx hx, exec cx p (init_z z, []) = (sx, hx) ->
                (match e with Enter a t => finish_fires cx sx a = false | _ => True end) ->
                exec_f cx (e :: q) (exec cx p (init_z z, []), false) = exec_f cx q (exec cx (p ++ [e]) (init_z z, []), false)).
      { intros cx sx hx Ex NF. unfold exec at 2. rewrite fold_left_app. fold (exec cx p (init_z z, [])). rewrite Ex.
        cbn [exec_f fold_left fstep].
        destruct e as [a t|t|]; [rewrite NF| |]; destruct (dstep cx (sx, hx) _) as [s' h']; reflexivity. }
      destruct e as [a t|t|].
      + assert (Ip : idx sp < max_stack cp).
        { unfold idx. cbn [cp pg_of max_stack]. cbn in HB. lia. }
        assert (Ic : idx sc < max_stack cc) by (unfold idx; cbn [cc cyg_of max_stack]; exact HB).
        pose proof (fires_rel sp sc a HR Ip Ic) as FR.
        destruct (finish_fires cc sc a) eqn:Fc.
        * (* the trigger fires under both shapes: the stream ends here *)
          rewrite Ep, Ec. cbn [exec_f fold_left fstep]. rewrite FR, Fc.
          fold (exec_f cp q (finish_enter cp sp a t, hp, true)). fold (exec_f cc q (finish_enter cc sc a t, hc, true)).
          rewrite !exec_f_dead. cbn [fst]. apply finish_enter_rel; assumption.
        * apply NEXT. split; [apply (PLAIN cp sp hp Ep); exact FR|apply (PLAIN cc sc hc Ec); exact Fc].
      + apply NEXT. split; [apply (PLAIN cp sp hp Ep); exact I|apply (PLAIN cc sc hc Ec); exact I].
      + apply NEXT. split; [apply (PLAIN cp sp hp Ep); exact I|apply (PLAIN cc sc hc Ec); exact I].
  Qed.
End fin.

Theorem finish_method_independent c z f : heights f <= max_stack c ->
  out (fst (fst (exec_f (pg_of c) (flat_forest f) (init_z z, [], false)))) =
  out (fst (fst (exec_f (cyg_of c) (flat_forest f) (init_z z, [], false)))).
Proof. intro H. exact (exec_f_rel c f z H (flat_forest f) [] eq_refl). Qed.
